(* model/ReadOnly.v — executable model of a READ-ONLY open of a TSDB data directory next to a
   read-write open of the same directory (property C53).  Definitions only; proofs are in
   proof/ReadOnlyProofs.v.

   Anchors (/repo/tsdb):
     db.go   DBReadOnly.Blocks              blocks sorted by MinTime                        sort_blocks
             DBReadOnly.loadDataAsQueryable cut-off for the WAL replay (rule of
                                            DB.inOrderBlocksMaxTime since the fix: commit),
                                            WAL/WBL/head chunks only loaded when
                                            maxBlockTime <= maxt of the querier              open_ro
             DBReadOnly.FlushWAL            cut-off = MaxTime of the LAST block of the sorted
                                            list (the old rule), block written from
                                            RangeHead(head, MinTime, MaxTime)                 flush_wal
             open / reload / inOrderBlocksMaxTime   Head.Truncate(maxt) on the uninitialised
                                            head, then Head.Init(minValidTime)                open_rw
             DB.Querier                     head gate maxt >= Head.MinTime() || overlapsOOO,
                                            blocks with OverlapsClosedInterval                query
     head.go Head.Init                      an ORACLE here (Section variable [init]): both opens run
                                            the same function on the same files (the read-only
                                            one on hard links of the head chunk files), what
                                            differs is the cut-off handed to it, whether it is
                                            run at all, and Head.Truncate before it.  The
                                            harness tabulates it per case by running the real
                                            Head.Init on a copy of the directory.
     chunks/head_chunks.go HardLinkChunkFiles, OpenDBReadOnly (MkdirTemp), DBReadOnly.Close
                                            (RemoveAll): the file system trace                ro_trace

   Samples are identified by their timestamp (the harness makes the value a function of series
   and timestamp, and compares values on the implementation side).  Series ids are small
   integers. *)
From Coq Require Import List ZArith Bool.
From Verif Require Import lib.Int64.
Import ListNotations.
Open Scope Z_scope.

Definition sid := Z.
(* series -> timestamps, as an association list; all entries of a series count *)
Definition sdata := list (sid * list Z).
Definition get (d : sdata) (i : sid) : list Z := flat_map (fun p => if fst p =? i then snd p else []) d.

(* a persisted block: meta.MinTime, meta.MaxTime, "compacted from out-of-order / stale series /
   selected series" (any of the three hints), the samples its querier returns (tombstones applied) *)
Record blockd := mkB { b_mint : Z; b_maxt : Z; b_hint : bool; b_data : sdata }.

(* what Head.Init(mv) loads from wal/, wbl/ and chunks_head/:
   h_min / h_max  Head.MinTime() / Head.MaxTime() of a head that was NOT truncated before Init
                  (MaxInt64 / MinInt64 when no in-order data was loaded)
   h_io           the in-order samples
   h_ooo          the out-of-order samples (WBL + m-mapped out-of-order chunks)
   h_oomin/max    Head.MinOOOTime() / Head.MaxOOOTime() (MaxInt64 / MinInt64 when unset)
   h_tomb         the tombstones replayed from the WAL (series, mint, maxt), BEFORE the final
                  Head.gc() of Init drops those that end below Head.MinTime() *)
Record hdata := mkH { h_min : Z; h_max : Z; h_io : sdata; h_ooo : sdata; h_oomin : Z; h_oomax : Z;
                      h_tomb : list (sid * (Z * Z)) }.
Definition hempty : hdata := mkH maxInt64 minInt64 [] [] maxInt64 minInt64 [].   (* NewHead, never initialised *)

(* ---------------- strictly increasing merge of candidate timestamps ---------------- *)
Fixpoint ins (t : Z) (l : list Z) : list Z :=
  match l with
  | [] => [t]
  | u :: r => if t <? u then t :: l else if t =? u then l else u :: ins t r
  end.
Definition sort_uniq (l : list Z) : list Z := fold_right ins [] l.

Definition in_rng (mint maxt t : Z) : bool := (mint <=? t) && (t <=? maxt).
(* db.go overlapsClosedInterval(mint1, maxt1, mint2, maxt2) *)
Definition overlaps (mint1 maxt1 mint2 maxt2 : Z) : bool := (mint1 <=? maxt2) && (mint2 <=? maxt1).

(* ---------------- the cut-off ---------------- *)
(* DB.inOrderBlocksMaxTime, and (since the fix) the loop in DBReadOnly.loadDataAsQueryable:
   the highest MaxTime of the blocks without a hint; MinInt64 when there is none *)
Definition cut_step (m : Z) (b : blockd) : Z :=
  if negb (b_hint b) && (b_maxt b >? m) then b_maxt b else m.
Definition cutoff (bs : list blockd) : Z := fold_left cut_step bs minInt64.

(* DBReadOnly.Blocks: slices.SortFunc by MinTime (insertion sort for the sizes at hand: stable) *)
Fixpoint insert_b (b : blockd) (l : list blockd) : list blockd :=
  match l with
  | [] => [b]
  | c :: r => if b_mint b <=? b_mint c then b :: l else c :: insert_b b r
  end.
Definition sort_blocks (l : list blockd) : list blockd := fold_right insert_b [] l.

(* the OLD rule of loadDataAsQueryable, still the rule of FlushWAL:
   blockReaders[len-1].Meta().MaxTime, whatever that block's hints *)
Definition cutoff_old (bs : list blockd) : Z :=
  match rev (sort_blocks bs) with
  | [] => minInt64
  | b :: _ => b_maxt b
  end.

(* ---------------- views ---------------- *)
(* what a DB value answers queries from: its blocks, Head.MinTime(), the head's content *)
Record view := mkV { v_blocks : list blockd; v_minT : Z; v_head : hdata }.

Section Dir.
  (* Head.Init on this directory as a function of the minValidTime handed to it *)
  Variable init : Z -> hdata.

  (* tsdb.Open: reload() runs Head.Truncate(inOrderBlocksMaxTime) on the still uninitialised head
     when there is an in-order block (minTime = maxTime = minValidTime = that time), then
     Head.Init(minValidTime): loading can only lower minTime, and Init's deferred clamp raises it
     back to minValidTime.  Without in-order block: minValidTime = MinInt64, no truncation. *)
  Definition open_rw (bs : list blockd) : view :=
    let mv := cutoff bs in
    let H := init mv in
    mkV bs (if mv =? minInt64 then h_min H else mv) H.

  (* DBReadOnly.loadDataAsQueryable(maxt), parameterised by the cut-off rule: blocks sorted by
     MinTime; "also add the WAL if the current blocks don't cover the requests time range":
     maxBlockTime <= maxt -> Head.Init(maxBlockTime) on a fresh head (no truncation before:
     Head.MinTime() is the loaded minimum, clamped up to minValidTime); otherwise an empty head *)
  Definition open_ro_with (rule : list blockd -> Z) (bs : list blockd) (maxt : Z) : view :=
    let sb := sort_blocks bs in
    let mv := rule sb in
    if mv <=? maxt then
      let H := init mv in
      mkV sb (if h_min H <? mv then mv else h_min H) H
    else mkV sb maxInt64 hempty.

  Definition open_ro := open_ro_with cutoff.
  Definition open_ro_old := open_ro_with (fun sb => match rev sb with [] => minInt64 | b :: _ => b_maxt b end).
End Dir.

(* ---------------- DB.Querier(mint, maxt).Select ---------------- *)
(* the head is consulted when maxt >= Head.MinTime() or the out-of-order range overlaps the
   query; its in-order part then contributes every in-order sample in range (RangeHead with the
   query's own mint; chunk granular floor only), the out-of-order part only with the overlap *)
Definition head_gate (v : view) (mint maxt : Z) : bool :=
  (v_minT v <=? maxt) || overlaps mint maxt (h_oomin (v_head v)) (h_oomax (v_head v)).

(* Head.Init ends with Head.gc(): MemTombstones.TruncateBefore(Head.MinTime()) drops the
   tombstones that end below Head.MinTime() - and Head.MinTime() differs between the two opens *)
Definition kept (minT : Z) (H : hdata) (i : sid) : list (Z * Z) :=
  map snd (filter (fun p => (fst p =? i) && (minT <=? snd (snd p))) (h_tomb H)).
Definition covered (ivs : list (Z * Z)) (t : Z) : bool :=
  existsb (fun iv => (fst iv <=? t) && (t <=? snd iv)) ivs.
Definition visible (v : view) (i : sid) (l : list Z) : list Z :=
  filter (fun t => negb (covered (kept (v_minT v) (v_head v) i) t)) l.

Definition head_cands (v : view) (mint maxt : Z) (i : sid) : list Z :=
  (if head_gate v mint maxt then visible v i (get (h_io (v_head v)) i) else [])
  ++ (if overlaps mint maxt (h_oomin (v_head v)) (h_oomax (v_head v)) then visible v i (get (h_ooo (v_head v)) i) else []).

(* Block.OverlapsClosedInterval *)
Definition b_overlaps (b : blockd) (mint maxt : Z) : bool := (b_mint b <=? maxt) && (mint <? b_maxt b).
Definition block_cands (bs : list blockd) (mint maxt : Z) (i : sid) : list Z :=
  flat_map (fun b => if b_overlaps b mint maxt then get (b_data b) i else []) bs.

Definition cands (v : view) (mint maxt : Z) (i : sid) : list Z :=
  head_cands v mint maxt i ++ block_cands (v_blocks v) mint maxt i.

(* per selected series the strictly increasing timestamps in range; a series without one is absent *)
Definition answer := list (sid * list Z).
Definition query (v : view) (mint maxt : Z) (sel : list sid) : answer :=
  flat_map (fun i => match sort_uniq (filter (in_rng mint maxt) (cands v mint maxt i)) with
                     | [] => []
                     | l => [(i, l)]
                     end) sel.

(* ---------------- FlushWAL ---------------- *)
(* DBReadOnly.FlushWAL: cut-off by the OLD rule, Head.Init, then
   compactor.Write(dir, RangeHead(head, MinTime, MaxTime), MinTime, MaxTime+1): the in-order
   samples between Head.MinTime() and Head.MaxTime(); LeveledCompactor.Write writes no block
   without samples.  Result: None = no block, Some (mint, maxt, content). *)
Definition flush_wal (init : Z -> hdata) (bs : list blockd) (sel : list sid) : option (Z * Z * answer) :=
  let mv := cutoff_old bs in
  let H := init mv in
  let mint := if h_min H <? mv then mv else h_min H in
  let maxt := h_max H in
  let v := mkV bs mint H in
  let content := flat_map (fun i => match sort_uniq (filter (in_rng mint maxt) (visible v i (get (h_io H) i))) with
                                    | [] => [] | l => [(i, l)] end) sel in
  match content with
  | [] => None
  | _ => Some (mint, maxt + 1, content)
  end.

(* "exactly that head data": everything the head of the read-only open shows, in order and out
   of order *)
Definition head_data (v : view) (sel : list sid) : answer :=
  flat_map (fun i => match sort_uniq (visible v i (get (h_io (v_head v)) i) ++ visible v i (get (h_ooo (v_head v)) i)) with
                     | [] => [] | l => [(i, l)] end) sel.

(* ---------------- the file system trace of a read-only session ---------------- *)
(* a path is the list of its components; the harness numbers the names (chunks_head = 1) *)
Definition path := list Z.
Definition path_eqb (a b : path) : bool :=
  Nat.eqb (length a) (length b) && forallb (fun p => fst p =? snd p) (combine a b).
(* [under root p]: root is a (non strict) prefix of p *)
Fixpoint under (root p : path) : bool :=
  match root, p with
  | [], _ => true
  | a :: r, b :: q => (a =? b) && under r q
  | _ :: _, [] => false
  end.

Inductive node := NDir | NFile (ino : Z).
(* tree: the newest binding of a path counts; data: content hash per inode *)
Record fs := mkFS { f_tree : list (path * node); f_data : list (Z * Z) }.

Definition lookup (t : list (path * node)) (p : path) : option node :=
  match find (fun e => path_eqb (fst e) p) t with Some e => Some (snd e) | None => None end.
Definition content (d : list (Z * Z)) (ino : Z) : option Z :=
  match find (fun e => fst e =? ino) d with Some e => Some (snd e) | None => None end.

Inductive fsop :=
| OMkdir (p : path)                       (* os.Mkdir / MkdirTemp: p must not exist *)
| OMkdirAll (p : path)                    (* os.MkdirAll of a leaf whose parent exists: no-op if it is a directory *)
| OLink (src dst : path)                  (* os.Link: src a file, dst must not exist; SAME inode *)
| OCreate (p : path) (ino : Z) (h : Z)    (* a new file (new inode) with content h *)
| ORemove (p : path)                      (* os.Remove of a file *)
| ORemoveAll (p : path).                  (* os.RemoveAll *)

Definition is_none {A} (o : option A) : bool := match o with None => true | _ => false end.

Definition apply (f : fs) (o : fsop) : option fs :=
  match o with
  | OMkdir p => if is_none (lookup (f_tree f) p) then Some (mkFS ((p, NDir) :: f_tree f) (f_data f)) else None
  | OMkdirAll p => match lookup (f_tree f) p with
                   | None => Some (mkFS ((p, NDir) :: f_tree f) (f_data f))
                   | Some NDir => Some f
                   | Some (NFile _) => None
                   end
  | OLink s d => match lookup (f_tree f) s, lookup (f_tree f) d with
                 | Some (NFile ino), None => Some (mkFS ((d, NFile ino) :: f_tree f) (f_data f))
                 | _, _ => None
                 end
  | OCreate p ino h => if is_none (lookup (f_tree f) p) && is_none (content (f_data f) ino)
                       then Some (mkFS ((p, NFile ino) :: f_tree f) ((ino, h) :: f_data f)) else None
  | ORemove p => match lookup (f_tree f) p with
                 | Some (NFile _) => Some (mkFS (filter (fun e => negb (path_eqb (fst e) p)) (f_tree f)) (f_data f))
                 | _ => None
                 end
  | ORemoveAll p => Some (mkFS (filter (fun e => negb (under p (fst e))) (f_tree f)) (f_data f))
  end.

Fixpoint run (f : fs) (l : list fsop) : option fs :=
  match l with
  | [] => Some f
  | o :: r => match apply f o with Some f' => run f' r | None => None end
  end.

Definition chunks_dir : Z := 1.

(* one read-only session: OpenDBReadOnly (MkdirTemp sandbox), ONE Querier/ChunkQuerier
   (HardLinkChunkFiles of every head chunk file if dir/chunks_head exists, NewHead's
   ChunkDiskMapper MkdirAll sandbox/chunks_head; while replaying the head may create new chunk
   files in the sandbox and remove linked ones: [created] / [removed], read from the
   implementation), DBReadOnly.Close (RemoveAll sandbox) *)
Definition ro_open_ops (dir sandbox : path) (has_cd : bool) (files : list Z)
                       (created : list (Z * Z * Z)) (removed : list Z) : list fsop :=
  [OMkdir sandbox]
  ++ (if has_cd then OMkdirAll (sandbox ++ [chunks_dir])
                     :: map (fun n => OLink (dir ++ [chunks_dir; n]) (sandbox ++ [chunks_dir; n])) files
      else [])
  ++ [OMkdirAll (sandbox ++ [chunks_dir])]
  ++ map (fun c => OCreate (sandbox ++ [chunks_dir; fst (fst c)]) (snd (fst c)) (snd c)) created
  ++ map (fun n => ORemove (sandbox ++ [chunks_dir; n])) removed.

Definition ro_trace (dir sandbox : path) (has_cd : bool) (files : list Z)
                    (created : list (Z * Z * Z)) (removed : list Z) : list fsop :=
  ro_open_ops dir sandbox has_cd files created removed ++ [ORemoveAll sandbox].

(* model/Wal.v — executable model of the Prometheus write-ahead log (tsdb/wlog):
     writer      wlog.go      WL.log / flushPage / nextSegment / Log / Close
     reader      reader.go    Reader.Next / nextNew (over segmentBufReader's zero padding)
     live reader live_reader.go  LiveReader.Next / buildRecord / readRecord / validateRecord
   Definitions only; proofs are in proof/WalProofs.v.

   Bytes are [list N] (values < 256 by convention; nothing here does arithmetic on payload
   bytes).  The page size is a parameter (32768 in the Go code, a constant there), so that the
   theorems hold for every page size in the range where the 16-bit fragment length is exact.
   Oracles (Section variables): CRC-32C of a fragment, compression encode/decode. *)
From Coq Require Import List ZArith NArith Bool.
Import ListNotations.
Open Scope Z_scope.

Definition zlen {A} (l : list A) : Z := Z.of_nat (length l).
Definition ztake {A} (n : Z) (l : list A) : list A := firstn (Z.to_nat n) l.
Definition zdrop {A} (n : Z) (l : list A) : list A := skipn (Z.to_nat n) l.
Definition zeros (n : Z) : list N := repeat 0%N (Z.to_nat n).
Definition all_zero (l : list N) : bool := forallb (fun b => N.eqb b 0) l.

(* big-endian 16/32 bit fields of the 7-byte fragment header *)
Definition be16 (v : Z) : list N := [Z.to_N ((v / 256) mod 256); Z.to_N (v mod 256)].
Definition be32 (c : N) : list N :=
  [((c / 16777216) mod 256)%N; ((c / 65536) mod 256)%N; ((c / 256) mod 256)%N; (c mod 256)%N].
Definition de16 (l : list N) : Z :=
  match l with a :: b :: _ => Z.of_N a * 256 + Z.of_N b | _ => 0 end.
Definition de32 (l : list N) : N :=
  match l with a :: b :: c :: d :: _ => (a * 16777216 + b * 65536 + c * 256 + d)%N | _ => 0%N end.

(* record types (recType) and header flag bits *)
Definition recPageTerm : N := 0.
Definition recFull : N := 1.
Definition recFirst : N := 2.
Definition recMiddle : N := 3.
Definition recLast : N := 4.
Definition snappyMask : N := 8.
Definition zstdMask : N := 16.
Definition recTypeMask : N := 7.

(* compression.Type: 0 = none, 1 = snappy, 2 = zstd *)
Definition flagbits (c : N) : N := if N.eqb c 1 then snappyMask else if N.eqb c 2 then zstdMask else 0%N.
Definition compr_of_header (h : N) : N :=
  if N.eqb (N.land h snappyMask) snappyMask then 1%N
  else if N.eqb (N.land h zstdMask) zstdMask then 2%N else 0%N.

(* validateRecord *)
Definition validate (typ : N) (i : Z) : bool :=
  if N.eqb typ recFull then i =? 0
  else if N.eqb typ recFirst then i =? 0
  else if N.eqb typ recMiddle then negb (i =? 0)
  else if N.eqb typ recLast then negb (i =? 0)
  else false.

Section Wal.
Variable page_size : Z.
Variable crc : list N -> N.
Variable enc : N -> list N -> list N.
Variable dec : N -> list N -> option (list N).

(* compression.Encode / Decode: empty input or type none is passed through *)
Definition encode (c : N) (r : list N) : list N :=
  match r with [] => r | _ => if N.eqb c 0 then r else enc c r end.
Definition decode (c : N) (s : list N) : option (list N) :=
  match s with [] => Some s | _ => if N.eqb c 0 then Some s else dec c s end.

(* ------------------------------------------------------------------ writer *)
Record wst := mkW {
  w_closed : list (list N);      (* contents of the finished segment files, oldest first *)
  w_writes : list (list N);      (* Write() calls made on the active segment file, in order *)
  w_buf : list N;                (* page.buf[0:alloc] *)
  w_flushed : Z;                 (* page.flushed *)
  w_done : Z }.                  (* donePages *)

Definition w_init : wst := mkW [] [] [] 0 0.
Definition alloc (st : wst) : Z := zlen (w_buf st).
Definition full (st : wst) : bool := page_size - alloc st <? 7.

Definition flush_page (force : bool) (st : wst) : wst :=
  let clear := force || full st in
  let buf' := if clear then w_buf st ++ zeros (page_size - alloc st) else w_buf st in
  let wr := zdrop (w_flushed st) buf' in
  if clear then mkW (w_closed st) (w_writes st ++ [wr]) [] 0 (w_done st + 1)
  else mkW (w_closed st) (w_writes st ++ [wr]) (w_buf st) (alloc st) (w_done st).

Definition next_segment (st : wst) : wst :=
  let st1 := if alloc st >? 0 then flush_page true st else st in
  mkW (w_closed st1 ++ [concat (w_writes st1)]) [] (w_buf st1) (w_flushed st1) 0.

Inductive wres := WOk (st : wst) | WPanic | WFuel.

Definition header (typ : N) (part : list N) : list N :=
  typ :: be16 (zlen part) ++ be32 (crc part).

(* the fragment loop of WL.log *)
Fixpoint frag_loop (fuel : nat) (i : Z) (e : list N) (flag : N) (st : wst) : wres :=
  match fuel with
  | O => WFuel
  | S f =>
    let a := alloc st in
    let n := zlen e in
    let l := Z.min n (page_size - a - 7) in
    if l <? 0 then WPanic else
    let part := ztake l e in
    let whole := zlen part =? n in
    let typ :=
      if (i =? 0) && whole then recFull
      else if whole then recLast
      else if i =? 0 then recFirst else recMiddle in
    let st1 := mkW (w_closed st) (w_writes st) (w_buf st ++ header (N.lor typ flag) part ++ part)
                   (w_flushed st) (w_done st) in
    let st2 := if full st1 then flush_page true st1 else st1 in
    let e' := zdrop l e in
    if zlen e' >? 0 then frag_loop f (i + 1) e' flag st2 else WOk st2
  end.

(* the (possibly compressed) bytes actually stored, and the compression recorded in the header *)
Definition stored (c : N) (rec : list N) : list N * N :=
  let e0 := encode c rec in
  if N.eqb c 0 then (e0, 0%N)
  else if zlen rec - zlen e0 <=? 0 then (rec, 0%N) else (e0, c).

(* WL.log; pps = pagesPerSegment *)
Definition log (c : N) (pps : Z) (rec : list N) (final : bool) (st : wst) : wres :=
  let st0 := if full st then flush_page true st else st in
  let '(e, fc) := stored c rec in
  let left := (page_size - alloc st0) - 7 + (page_size - 7) * (pps - w_done st0 - 1) in
  let st1 := if zlen e >? left then next_segment st0 else st0 in
  match frag_loop (S (S (length e))) 0 e (flagbits fc) st1 with
  | WOk st2 => WOk (if final && (alloc st2 >? 0) then flush_page false st2 else st2)
  | r => r
  end.

(* WL.Log(recs...) *)
Fixpoint log_batch (c : N) (pps : Z) (recs : list (list N)) (st : wst) : wres :=
  match recs with
  | [] => WOk st
  | r :: rest =>
    match log c pps r (match rest with [] => true | _ => false end) st with
    | WOk st' => log_batch c pps rest st'
    | e => e
    end
  end.

Fixpoint log_batches (c : N) (pps : Z) (bs : list (list (list N))) (st : wst) : wres :=
  match bs with
  | [] => WOk st
  | b :: rest => match log_batch c pps b st with WOk st' => log_batches c pps rest st' | e => e end
  end.

(* WL.Close: pad and flush the last page if it holds data *)
Definition close (st : wst) : wst := if alloc st >? 0 then flush_page true st else st.

(* observables *)
Definition active_file (st : wst) : list N := concat (w_writes st).
Definition segments (st : wst) : list (list N) := w_closed st ++ [active_file st].

(* ------------------------------------------------------------------ reader *)
(* segmentBufReader: a segment whose size is not a multiple of the page size is padded with zeros *)
Definition pad_page (s : list N) : list N :=
  s ++ zeros ((page_size - zlen s mod page_size) mod page_size).
Definition seg_stream (segs : list (list N)) : list N := concat (map pad_page segs).

Inductive rstatus :=
| RClean           (* Next() = false, Err() = nil *)
| RTorn            (* "last record is torn" *)
| RUnexpectedEOF   (* io.ErrUnexpectedEOF from io.ReadFull *)
| RBadZero         (* "unexpected non-zero byte in padded page" *)
| RBadSize         (* "invalid record size" *)
| RBadCrc          (* "unexpected checksum" *)
| RBadSeq          (* validateRecord *)
| RDecode          (* decompression failed *)
| RFuel.

(* io.ReadFull on the remaining stream *)
Inductive rf := RfOk (d rest : list N) | RfEOF | RfUnexpected.
Definition readfull (n : Z) (s : list N) : rf :=
  if n <=? 0 then RfOk [] s
  else match s with
       | [] => RfEOF
       | _ => let d := ztake n s in
              if zlen d <? n then RfUnexpected else RfOk d (zdrop n s)
       end.

Definition torn (ct : N) : bool := N.eqb ct recFirst || N.eqb ct recMiddle.
Definition eof_status (ct : N) : rstatus := if torn ct then RTorn else RClean.

(* `for r.Next() { out = append(out, r.Record()) }` with Reader.nextNew inlined: one iteration
   per page-term run or fragment; [i] and [acc] (precomprBuf) are reset when a record completes.
   s = unread stream, p = r.total, ct = r.curRecTyp. *)
Fixpoint rd (fuel : nat) (s : list N) (p : Z) (ct : N) (i : Z) (acc : list N)
  : list (list N) * rstatus :=
  match fuel with
  | O => ([], RFuel)
  | S f =>
    match s with
    | [] => ([], eof_status ct)
    | h :: s1 =>
      let p1 := p + 1 in
      let ct' := N.land h recTypeMask in
      if N.eqb ct' recPageTerm then
        let k := page_size - p1 mod page_size in
        if k =? page_size then rd f s1 p1 ct' i acc
        else match readfull k s1 with
             | RfEOF => ([], eof_status ct')
             | RfUnexpected => ([], RUnexpectedEOF)
             | RfOk zs s2 => if all_zero zs then rd f s2 (p1 + k) ct' i acc else ([], RBadZero)
             end
      else
        match readfull 6 s1 with
        | RfEOF => ([], eof_status ct')
        | RfUnexpected => ([], RUnexpectedEOF)
        | RfOk hd s2 =>
          let len := de16 hd in
          let c := de32 (skipn 2 hd) in
          if len >? page_size - 7 then ([], RBadSize) else
          match readfull len s2 with
          | RfEOF => ([], eof_status ct')
          | RfUnexpected => ([], RUnexpectedEOF)
          | RfOk data s3 =>
            if negb (N.eqb (crc data) c) then ([], RBadCrc) else
            if negb (validate ct' i) then ([], RBadSeq) else
            let acc' := acc ++ data in
            let p3 := p1 + 6 + len in
            if N.eqb ct' recLast || N.eqb ct' recFull then
              match decode (compr_of_header h) acc' with
              | None => ([], RDecode)
              | Some r => let '(rs, e) := rd f s3 p3 ct' 0 [] in (r :: rs, e)
              end
            else rd f s3 p3 ct' (i + 1) acc'
          end
        end
    end
  end.

Definition read_stream (s : list N) : list (list N) * rstatus := rd (S (length s)) s 0 recPageTerm 0 [].
Definition read_segments (segs : list (list N)) : list (list N) * rstatus := read_stream (seg_stream segs).

(* ------------------------------------------------------------------ live reader *)
Record lst := mkL {
  l_buf : list N;       (* buf[0:writeIndex] *)
  l_ri : Z;             (* readIndex *)
  l_total : Z;
  l_index : Z;
  l_pre : list N;       (* precomprBuf *)
  l_src : list N }.     (* bytes the underlying io.Reader can deliver right now *)

Definition l_init : lst := mkL [] 0 0 0 [] [].
Definition l_wi (st : lst) : Z := zlen (l_buf st).

Inductive lerr :=
| LBadZero | LTooBig | LBadCrc | LBadSeq | LDecode | LPanic.

Inductive rr := RRData (d : list N) (n : Z) (h0 : N) | RRSkip (n : Z) | RREof | RRErr (e : lerr).

Definition read_record (st : lst) : rr :=
  let b := zdrop (l_ri st) (l_buf st) in
  match b with
  | [] => RRErr LPanic
  | h :: _ =>
    if N.eqb h 0 then
      let remaining := page_size - (l_total st) mod page_size in
      if l_ri st + remaining >? l_wi st then RREof
      else if all_zero (ztake remaining b) then RRSkip remaining else RRErr LBadZero
    else if l_wi st - l_ri st <? 7 then RREof
    else
      let length := de16 (skipn 1 b) in
      let c := de32 (skipn 3 b) in
      if 7 + length >? page_size then RRErr LTooBig
      else if l_ri st + 7 + length >? l_wi st then RREof
      else
        let data := ztake length (skipn 7 b) in
        if negb (N.eqb (crc data) c) then RRErr LBadCrc else RRData data (length + 7) h
  end.

Inductive bres := BRec (r : list N) | BNone | BErr (e : lerr) | BFuel.

Fixpoint build (fuel : nat) (st : lst) : bres * lst :=
  match fuel with
  | O => (BFuel, st)
  | S f =>
    if l_wi st <=? l_ri st then (BNone, st) else
    match read_record st with
    | RRErr e => (BErr e, st)
    | RREof => (BNone, st)
    | RRSkip n => (BNone, mkL (l_buf st) (l_ri st + n) (l_total st + n) (l_index st) (l_pre st) (l_src st))
    | RRData d n h0 =>
      let rt := N.land h0 recTypeMask in
      let pre0 := if N.eqb rt recFirst || N.eqb rt recFull then [] else l_pre st in
      let pre1 := pre0 ++ d in
      let st1 i := mkL (l_buf st) (l_ri st + n) (l_total st + n) i pre1 (l_src st) in
      if negb (validate rt (l_index st)) then (BErr LBadSeq, st1 0)
      else if N.eqb rt recLast || N.eqb rt recFull then
        match decode (compr_of_header h0) pre1 with
        | None => (BErr LDecode, st1 0)
        | Some r => (BRec r, st1 0)
        end
      else build f (st1 (l_index st + 1))
    end
  end.

Inductive nres := NRec (r : list N) | NEof | NErr (e : lerr) | NFuel.

(* LiveReader.Next (permissive = true) *)
Fixpoint lnext (fuel : nat) (st : lst) : nres * lst :=
  match fuel with
  | O => (NFuel, st)
  | S f =>
    match build (S (length (l_buf st))) st with
    | (BRec r, st1) => (NRec r, st1)
    | (BErr e, st1) => (NErr e, st1)
    | (BFuel, st1) => (NFuel, st1)
    | (BNone, st1) =>
      if (l_wi st1 =? page_size) && (l_ri st1 >? 0) then
        lnext f (mkL (zdrop (l_ri st1) (l_buf st1)) 0 (l_total st1) (l_index st1) (l_pre st1) (l_src st1))
      else
        let st2 := if l_ri st1 =? page_size
                   then mkL [] 0 (l_total st1) (l_index st1) (l_pre st1) (l_src st1) else st1 in
        if negb (l_wi st2 =? page_size) then
          let n := Z.min (zlen (l_src st2)) (page_size - l_wi st2) in
          if n <=? 0 then (NEof, st2)
          else lnext f (mkL (l_buf st2 ++ ztake n (l_src st2)) (l_ri st2) (l_total st2) (l_index st2)
                            (l_pre st2) (zdrop n (l_src st2)))
        else lnext f st2
    end
  end.

Definition lnext_fuel (st : lst) : nat := (2 * length (l_src st) + 2 * length (l_buf st) + 4)%nat.

(* `for lr.Next() { out = append(out, lr.Record()) }` until Next returns false *)
Fixpoint drain (fuel : nat) (st : lst) : list (list N) * nres * lst :=
  match fuel with
  | O => ([], NFuel, st)
  | S f =>
    match lnext (lnext_fuel st) st with
    | (NRec r, st1) => let '(rs, e, st2) := drain f st1 in (r :: rs, e, st2)
    | (e, st1) => ([], e, st1)
    end
  end.

(* more bytes become readable, then the consumer drains the reader *)
Definition feed (st : lst) (chunk : list N) : list (list N) * nres * lst :=
  let st' := mkL (l_buf st) (l_ri st) (l_total st) (l_index st) (l_pre st) (l_src st ++ chunk) in
  drain (S (length (l_src st') + length (l_buf st'))) st'.

(* a whole tailing session over one segment; stops at the first terminal (non-EOF) result *)
Fixpoint live_run (chunks : list (list N)) (st : lst) : list (list (list N)) * nres :=
  match chunks with
  | [] => ([], NEof)
  | c :: rest =>
    let '(rs, e, st1) := feed st c in
    match e with
    | NEof => let '(outs, e') := live_run rest st1 in (rs :: outs, e')
    | _ => ([rs], e)
    end
  end.

End Wal.

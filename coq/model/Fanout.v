(* model/Fanout.v — executable model of storage.NewFanout (storage/fanout.go), the
   secondaryQuerier wrapper (storage/secondary.go) and the merge querier glue of
   storage/merge.go (NewMergeQuerier, mergeGenericQuerier.Select / mergeResults,
   newGenericMergeSeriesSet's error handling).  Definitions only; proofs are in
   proof/FanoutProofs.v.

   Conventions.  A label set is its rank (Z) in labels.Compare order, a label value / name is
   its rank in string order, an error or warning is a small code (Z) unique per injection site.
   A storage is described by what its fake does , its configuration: what each Select
   returns and where it fails.  The consumer protocol is the one of the PromQL engine: create
   the querier, call every Select, then drain the returned sets one after the other, read Err
   and Warnings of each, call LabelValues / LabelNames, Close.  Select hints carry no limit. *)
From Coq Require Import List ZArith Bool Arith.
Import ListNotations.
Open Scope Z_scope.

(* ------------------------------------------------------------------ data *)
Definition sample := (Z * Z)%type.                 (* timestamp, value bits *)
Record series := mkSer { s_key : Z; s_smp : list sample }.

(* ChainedSeriesMerge on replicated data: union by timestamp (equal timestamps keep one). *)
Fixpoint merge_samples (a : list sample) : list sample -> list sample :=
  match a with
  | [] => fun b => b
  | x :: a' =>
      fix go (b : list sample) : list sample :=
        match b with
        | [] => x :: a'
        | y :: b' =>
            if fst x <? fst y then x :: merge_samples a' b
            else if fst y <? fst x then y :: go b'
            else x :: merge_samples a' b'
        end
  end.

(* genericMergeSeriesSet on two label-sorted sets: series with equal labels are merged. *)
Fixpoint merge_series (a : list series) : list series -> list series :=
  match a with
  | [] => fun b => b
  | x :: a' =>
      fix go (b : list series) : list series :=
        match b with
        | [] => x :: a'
        | y :: b' =>
            if s_key x <? s_key y then x :: merge_series a' b
            else if s_key y <? s_key x then y :: go b'
            else mkSer (s_key x) (merge_samples (s_smp x) (s_smp y)) :: merge_series a' b'
        end
  end.

Definition merge_all (ls : list (list series)) : list series := fold_right merge_series [] ls.

(* mergeStrings (storage/merge.go) *)
Fixpoint merge_strings (a : list Z) : list Z -> list Z :=
  match a with
  | [] => fun b => b
  | x :: a' =>
      fix go (b : list Z) : list Z :=
        match b with
        | [] => x :: a'
        | y :: b' =>
            if x =? y then x :: merge_strings a' b'
            else if x <? y then x :: merge_strings a' b
            else y :: go b'
        end
  end.

(* ------------------------------------------------------------------ configurations *)
(* One SeriesSet of a fake storage: the label-sorted series it would yield, an optional
   failure "the Next call made after n series were yielded returns false with error e"
   (n = 0: failure at Select / at the first Next), and its Warnings. *)
Record setcfg := mkSet { sc_series : list series; sc_fail : option (nat * Z); sc_warns : list Z }.

Definition yielded (c : setcfg) : list series :=
  match sc_fail c with Some (n, _) => firstn n (sc_series c) | None => sc_series c end.

Definition final_err (c : setcfg) : option Z :=
  match sc_fail c with
  | Some (n, e) => if (n <=? length (sc_series c))%nat then Some e else None
  | None => None
  end.

(* first Next returns false with an error *)
Definition first_fail (c : setcfg) : option Z :=
  match yielded c with [] => final_err c | _ :: _ => None end.

(* LabelValues / LabelNames of a fake: sorted values, optional failure, warnings *)
Record lblcfg := mkLbl { l_vals : list Z; l_fail : option Z; l_warns : list Z }.

Inductive qcfg :=
| QNoop                                               (* storage.NoopQuerier() *)
| QCreateFail (e : Z)                                 (* Storage.Querier returns an error *)
| QOk (sels : list setcfg) (lv ln : lblcfg).          (* one setcfg per Select call *)

Definition is_ok (q : qcfg) : bool := match q with QOk _ _ _ => true | _ => false end.

(* ------------------------------------------------------------------ fanout.Querier *)
Fixpoint first_create_fail (secs : list qcfg) (i : nat) : option (nat * Z) :=
  match secs with
  | [] => None
  | QCreateFail e :: _ => Some (i, e)
  | _ :: r => first_create_fail r (S i)
  end.

Fixpoint mapi {A B} (f : nat -> A -> B) (i : nat) (l : list A) : list B :=
  match l with [] => [] | x :: r => f i x :: mapi f (S i) r end.

(* None: the querier is created.  Some (e, closed): creation fails with e; closed.(j) tells
   whether the fake querier of storage j (0 = primary) was opened and then closed. *)
Definition create (p : qcfg) (secs : list qcfg) : option (Z * list bool) :=
  match p with
  | QCreateFail e => Some (e, false :: map (fun _ => false) secs)
  | _ =>
      match first_create_fail secs 0 with
      | Some (i, e) => Some (e, is_ok p :: mapi (fun j q => (j <? i)%nat && is_ok q) 0 secs)
      | None => None
      end
  end.

(* ------------------------------------------------------------------ secondaryQuerier.Select *)
Inductive eset :=
| ENoop                                 (* noopGenericSeriesSet *)
| EWarn (ws : list Z)                   (* warningsOnlySeriesSet *)
| ELive (c : setcfg).                   (* the wrapped set, already advanced once *)

(* the sync.Once loop: the first async set whose first Next fails with an error *)
Fixpoint find_first_fail (cs : list setcfg) : option (Z * list Z) :=
  match cs with
  | [] => None
  | c :: r => match first_fail c with
              | Some e => Some (e, sc_warns c)
              | None => find_first_fail r
              end
  end.

(* curr = index of the Select whose set is iterated first (the one that triggers the Once);
   the effective set standing for the a-th Select afterwards (None: no such Select) *)
Definition sec_eff_at (cs : list setcfg) (curr a : nat) : option eset :=
  match nth_error cs a with
  | None => None
  | Some c =>
      Some match find_first_fail cs with
           | Some (e, ws) => if (a =? curr)%nat then EWarn (ws ++ [e]) else ENoop
           | None => match yielded c with [] => EWarn (sc_warns c) | _ :: _ => ELive c end
           end
  end.

Definition e_yield (s : eset) : list series := match s with ELive c => yielded c | _ => [] end.
Definition e_err (s : eset) : option Z := match s with ELive c => final_err c | _ => None end.
Definition e_warns (s : eset) : list Z :=
  match s with ENoop => [] | EWarn ws => ws | ELive c => sc_warns c end.

(* ------------------------------------------------------------------ merged Select *)
(* what the consumer sees of one drained set: series, the errors Err() may return (the merged
   set returns the error of the first failed set in the order the concurrent Selects
   completed, so with several failed sets any of them; [] = nil), warnings *)
Record selres := mkSelRes { r_series : list series; r_errs : list Z; r_warns : list Z }.

Definition opt_list {A} (o : option A) : list A := match o with Some x => [x] | None => [] end.

Definition raw_res (c : setcfg) : selres :=
  mkSelRes (yielded c) (opt_list (final_err c)) (sc_warns c).

(* newGenericMergeSeriesSet + draining genericMergeSeriesSet, over the primary's set (if the
   primary is not a noop querier) and the effective sets of the secondaries *)
Definition merged_res (prim : option setcfg) (es : list eset) : selres :=
  match match prim with Some c => first_fail c | None => None end with
  | Some e => mkSelRes [] [e] []                                  (* errorOnlySeriesSet *)
  | None =>
      mkSelRes
        (merge_all (match prim with Some c => [yielded c] | None => [] end ++ map e_yield es))
        (match prim with Some c => opt_list (final_err c) | None => [] end ++ flat_map (fun s => opt_list (e_err s)) es)
        (match prim with Some c => sc_warns c | None => [] end ++ flat_map e_warns es)
  end.

(* ------------------------------------------------------------------ label queries *)
Definition lres := (list Z * list Z * option Z)%type.   (* values, warnings, error *)

Definition lq_raw (l : lblcfg) : lres :=
  match l_fail l with Some e => ([], l_warns l, Some e) | None => (l_vals l, l_warns l, None) end.

(* secondaryQuerier.LabelValues / LabelNames *)
Definition lq_sec (l : lblcfg) : lres :=
  match l_fail l with Some e => ([], l_warns l ++ [e], None) | None => (l_vals l, l_warns l, None) end.

(* mergeGenericQuerier.mergeResults (hints = nil); None = out of fuel *)
Fixpoint merge_results (fuel : nat) (qs : list lres) : option lres :=
  match fuel with
  | O => None
  | S f =>
      match qs with
      | [] => Some ([], [], None)
      | [q] => Some q
      | _ =>
          let i := Nat.div (length qs) 2 in
          match merge_results f (firstn i qs) with
          | None => None
          | Some (s1, w1, Some e) => Some ([], w1, Some e)
          | Some (s1, w1, None) =>
              match merge_results f (skipn i qs) with
              | None => None
              | Some (s2, w2, Some e) => Some ([], w1 ++ w2, Some e)
              | Some (s2, w2, None) => Some (merge_strings s1 s2, w1 ++ w2, None)
              end
          end
      end
  end.

(* mergeGenericQuerier.LabelValues / LabelNames: an error drops values and warnings *)
Definition merged_label (qs : list lres) : option lres :=
  match merge_results (S (length qs)) qs with
  | None => None
  | Some (_, _, Some e) => Some ([], [], Some e)
  | Some r => Some r
  end.

(* ------------------------------------------------------------------ the whole query *)
Inductive qres :=
| RCreateFail (e : Z) (closed : list bool)
| ROk (sels : list selres) (lv ln : lres) (closed : list bool)
| RBad.                                    (* malformed case (lengths) or out of fuel *)

Definition sels_of (q : qcfg) : list setcfg := match q with QOk s _ _ => s | _ => [] end.
Definition lv_of (q : qcfg) : option lblcfg := match q with QOk _ l _ => Some l | _ => None end.
Definition ln_of (q : qcfg) : option lblcfg := match q with QOk _ _ l => Some l | _ => None end.

Fixpoint all_some {A} (l : list (option A)) : option (list A) :=
  match l with
  | [] => Some []
  | None :: _ => None
  | Some x :: r => match all_some r with Some r' => Some (x :: r') | None => None end
  end.

Definition wf_q (nsel : nat) (q : qcfg) : bool :=
  match q with QOk s _ _ => (length s =? nsel)%nat | _ => true end.

(* secondaries that reach NewMergeQuerier: fanout.Querier drops noop queriers *)
Definition live_secs (secs : list qcfg) : list qcfg := filter is_ok secs.

Definition label_res (sel : qcfg -> option lblcfg) (p : qcfg) (ss : list qcfg) : option lres :=
  match sel p, ss with
  | None, [] => Some ([], [], None)                              (* noopQuerier *)
  | Some l, [] => Some (lq_raw l)                                (* the primary itself *)
  | None, [s] => match sel s with Some l => Some (lq_sec l) | None => None end
  | pl, _ =>
      match all_some (map sel ss) with
      | None => None
      | Some ls => merged_label (match pl with Some l => [lq_raw l] | None => [] end ++ map lq_sec ls)
      end
  end.

(* the result of Select number a (a < nsel); ss = the live secondaries with the index of the
   Select that triggered their Once *)
Definition select_res (p : qcfg) (ss : list (qcfg * nat)) (a : nat) : option selres :=
  match p, ss with
  | QOk ps _ _, [] => option_map raw_res (nth_error ps a)        (* NewMergeQuerier returns the primary *)
  | _, [] => Some (mkSelRes [] [] [])                            (* noopQuerier *)
  | _, _ =>
      match all_some (map (fun sc => sec_eff_at (sels_of (fst sc)) (snd sc) a) ss) with
      | None => None
      | Some es =>
          match p with
          | QOk ps _ _ => option_map (fun c => merged_res (Some c) es) (nth_error ps a)
          | _ => Some (merged_res None es)
          end
      end
  end.

(* currs: for every live secondary the index of the Select whose set triggered its Once *)
Definition query (p : qcfg) (secs : list qcfg) (nsel : nat) (currs : list nat) : qres :=
  if negb (forallb (wf_q nsel) (p :: secs)) then RBad else
  match create p secs with
  | Some (e, closed) => RCreateFail e closed
  | None =>
      let ss := live_secs secs in
      if negb (length currs =? length ss)%nat then RBad else
      match all_some (map (select_res p (combine ss currs)) (seq 0 nsel)), label_res lv_of p ss, label_res ln_of p ss with
      | Some rs, Some lv, Some ln => ROk rs lv ln (map is_ok (p :: secs))
      | _, _, _ => RBad
      end
  end.

(* ------------------------------------------------------------------ vocabulary of the property *)
(* a secondary failed somewhere during the query (creation, Select, any Next) *)
Definition is_some {A} (o : option A) : bool := match o with Some _ => true | None => false end.
Definition sec_failed (q : qcfg) : bool :=
  match q with
  | QCreateFail _ => true
  | QOk sels _ _ => existsb (fun c => is_some (final_err c)) sels
  | QNoop => false
  end.
Definition empty_set : setcfg := mkSet [] None [].
(* the Select-a set of a storage; a noop querier selects the empty set *)
Definition set_at (q : qcfg) (a : nat) : option setcfg :=
  match q with QOk sels _ _ => nth_error sels a | _ => Some empty_set end.
(* what the secondaries that did not fail hold for Select a *)
Definition contrib (a : nat) (s : qcfg) : list (list series) :=
  if sec_failed s then [] else match set_at s a with Some c => [sc_series c] | None => [] end.
(* the merged series the property promises for Select a *)
Definition expected_series (p : setcfg) (secs : list qcfg) (a : nat) : list series :=
  merge_all (sc_series p :: flat_map (contrib a) secs).

(* ------------------------------------------------------------------ appender *)
(* One fanout appender session: samples appended one by one (the caller goes on after a
   failed Append, as the scrape loop does), then Commit or Rollback.  Fake appender:
   Append number i fails iff i is listed in ac_fail (then the sample is not buffered); Commit
   fails iff ac_commit (then nothing is stored); Rollback drops the buffer and returns an error
   iff ac_rollback.  A stored entry is (sample id, ref the appender was given). *)
Record appcfg := mkApp { ac_fail : list nat; ac_commit : bool; ac_rollback : bool; ac_code : Z }.

Definition entry := (Z * Z)%type.
Inductive endcall := ENone | ECommitOk | ECommitFail | ERollbackOk | ERollbackFail.

Definition mem_nat (i : nat) (l : list nat) : bool := existsb (Nat.eqb i) l.

Definition prim_ref (x : Z) : Z := x + 1000.      (* ref the fake primary returns on success *)
Definition fail_ref : Z := 7.                     (* ... and on failure *)

(* error codes: ac_code + 1 append, + 2 commit, + 3 rollback *)
Definition e_append (c : appcfg) := ac_code c + 1.
Definition e_commit (c : appcfg) := ac_code c + 2.
Definition e_rollback (c : appcfg) := ac_code c + 3.

(* secondaries loop of fanoutAppender.Append: returns the buffers and the first error *)
Fixpoint app_secs (i : nat) (x ref : Z) (cs : list appcfg) (bufs : list (list entry))
  : list (list entry) * option Z :=
  match cs, bufs with
  | c :: cr, b :: br =>
      if mem_nat i (ac_fail c) then (b :: br, Some (e_append c))
      else let '(br', e) := app_secs i x ref cr br in ((b ++ [(x, ref)]) :: br', e)
  | _, _ => (bufs, None)
  end.

(* fanoutAppender.Append (v2 = false) / fanoutAppenderV2.Append (v2 = true), call number i
   with sample x; caller passes ref 0.  Returns buffers (primary first), (ref, error). *)
Definition fan_append (v2 : bool) (p : appcfg) (secs : list appcfg) (i : nat) (x : Z)
           (bufs : list (list entry)) : list (list entry) * (Z * option Z) :=
  match bufs with
  | [] => (bufs, (0, Some (-1)))
  | bp :: bs =>
      if mem_nat i (ac_fail p) then (bufs, (fail_ref, Some (e_append p)))
      else
        let '(bs', e) := app_secs i x (prim_ref x) secs bs in
        ((bp ++ [(x, 0)]) :: bs',
         match e with
         | Some e => ((if v2 then prim_ref x else 0), Some e)
         | None => (prim_ref x, None)
         end)
  end.

Fixpoint fan_appends (v2 : bool) (p : appcfg) (secs : list appcfg) (i : nat) (xs : list Z)
         (bufs : list (list entry)) : list (list entry) * list (Z * option Z) :=
  match xs with
  | [] => (bufs, [])
  | x :: r =>
      let '(bufs1, res) := fan_append v2 p secs i x bufs in
      let '(bufs2, ress) := fan_appends v2 p secs (S i) r bufs1 in
      (bufs2, res :: ress)
  end.

(* fanoutAppender.Commit: err = primary.Commit(); then for each secondary: commit while err
   is nil, roll back afterwards (rollback errors are only logged).
   Returns per appender (stored delta, end call), and the returned error. *)
Fixpoint fan_commit (err : option Z) (cs : list appcfg) (bufs : list (list entry))
  : list (list entry * endcall) * option Z :=
  match cs, bufs with
  | c :: cr, b :: br =>
      match err with
      | None =>
          if ac_commit c then
            let '(r, e) := fan_commit (Some (e_commit c)) cr br in (([], ECommitFail) :: r, e)
          else
            let '(r, e) := fan_commit None cr br in ((b, ECommitOk) :: r, e)
      | Some _ =>
          let '(r, e) := fan_commit err cr br in
          (([], if ac_rollback c then ERollbackFail else ERollbackOk) :: r, e)
      end
  | _, _ => ([], err)
  end.

(* fanoutAppender.Rollback: everyone is rolled back, the first error is returned *)
Fixpoint fan_rollback (err : option Z) (cs : list appcfg)
  : list (list entry * endcall) * option Z :=
  match cs with
  | c :: cr =>
      let err' := match err with
                  | None => if ac_rollback c then Some (e_rollback c) else None
                  | Some _ => err
                  end in
      let '(r, e) := fan_rollback err' cr in
      (([], if ac_rollback c then ERollbackFail else ERollbackOk) :: r, e)
  | [] => ([], err)
  end.

Record session := mkSession { ss_v2 : bool; ss_prim : appcfg; ss_secs : list appcfg;
                              ss_samples : list Z; ss_commit : bool }.

Record sessres := mkSessRes { sr_appends : list (Z * option Z); sr_end : option Z;
                              sr_calls : list endcall; sr_stores : list (list entry) }.

(* stores: what every fake storage holds (primary first) *)
Definition run_session (stores : list (list entry)) (s : session) : list (list entry) * sessres :=
  let cs := ss_prim s :: ss_secs s in
  let '(bufs, ares) := fan_appends (ss_v2 s) (ss_prim s) (ss_secs s) 0 (ss_samples s) (map (fun _ => []) cs) in
  let '(ends, e) := if ss_commit s then fan_commit None cs bufs else fan_rollback None cs in
  let stores' := map (fun sd => fst sd ++ fst (snd sd)) (combine stores ends) in
  (stores', mkSessRes ares e (map snd ends) stores').

Fixpoint run_sessions (stores : list (list entry)) (ss : list session) : list sessres :=
  match ss with
  | [] => []
  | s :: r => let '(st, res) := run_session stores s in res :: run_sessions st r
  end.

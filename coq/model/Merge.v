(* model/Merge.v — executable model of storage/merge.go (C19):
     genericMergeSeriesSet      (k-way merge of label-sorted series sets, newGenericMergeSeriesSet/Next/At)
     chainSampleIterator        (Next / Seek state machine: curr, heap, lastT)
     compactChunkIterator       (overlap detection, duplicate collapse, re-encode, re-push of the remainder)
     concatenatingChunkIterator
   and of the input iterators they are driven with (storage/series.go listSeriesIterator,
   listChunkSeriesIterator, seriesToChunkEncoder's cutting rule).

   container/heap is NOT modelled: the heap is a bag (list) and every heap.Pop / h[0] returns
   *some* minimal element, selected by the next number of a choice stream [ch : list nat].
   Every theorem quantifies over all choice streams, i.e. over every tie-breaking behaviour.
   No proofs in this file. *)
From Coq Require Import List ZArith Bool.
From Verif Require Import lib.Int64.
Import ListNotations.
Open Scope Z_scope.

(* ------------------------------------------------------------------ samples *)
(* s_k: chunkenc.ValueType (1 float, 2 histogram, 3 float histogram); s_v: opaque value id *)
Record sample := mkS { s_t : Z; s_k : Z; s_v : Z }.

Definition sample_eqb (a b : sample) : bool :=
  (s_t a =? s_t b) && (s_k a =? s_k b) && (s_v a =? s_v b).

Fixpoint list_eqb {A} (eqb : A -> A -> bool) (a b : list A) : bool :=
  match a, b with
  | [], [] => true
  | x :: a', y :: b' => eqb x y && list_eqb eqb a' b'
  | _, _ => false
  end.

(* ------------------------------------------------------------------ heap as a bag with choices *)
Definition choices := list nat.
Definition next_choice (ch : choices) : nat * choices :=
  match ch with [] => (O, []) | k :: r => (k, r) end.

Section Heap.
  Context {A : Type} (leb : A -> A -> bool).
  Definition is_min (x : A) (h : list A) : bool := forallb (leb x) h.
  (* the k-th minimal element of h (the last one if there are fewer), and the others *)
  Fixpoint pick (k : nat) (all h : list A) : option (A * list A) :=
    match h with
    | [] => None
    | x :: r =>
        if is_min x all then
          match k with
          | O => Some (x, r)
          | S k' => match pick k' all r with
                    | Some (y, r') => Some (y, x :: r')
                    | None => Some (x, r)
                    end
          end
        else match pick k all r with
             | Some (y, r') => Some (y, x :: r')
             | None => None
             end
    end.
  Definition pop (k : nat) (h : list A) : option (A * list A) := pick k h h.
  (* h[0]: some minimal element (callers that use more than its key pop it with a choice instead) *)
  Definition top (h : list A) : option A := find (fun x => is_min x h) h.
End Heap.

(* ------------------------------------------------------------------ listSeriesIterator *)
(* idx = -1  <->  i_started = false;  otherwise the head of i_rest is samples[idx] *)
Record it := mkIt { i_started : bool; i_rest : list sample }.
Definition it_new (l : list sample) : it := mkIt false l.
Definition it_cur (i : it) : option sample := if i_started i then hd_error (i_rest i) else None.
Definition it_next (i : it) : it :=
  if i_started i then mkIt true (tl (i_rest i)) else mkIt true (i_rest i).
Fixpoint drop_lt (t : Z) (l : list sample) : list sample :=
  match l with [] => [] | s :: r => if s_t s <? t then drop_lt t r else l end.
(* Seek: idx=-1 -> 0; no-op if current >= t; else sort.Search for the first sample >= t
   (= drop_lt on a time-sorted list) *)
Definition it_seek (t : Z) (i : it) : it := mkIt true (drop_lt t (i_rest i)).
Definition it_size (i : it) : nat := (length (i_rest i) + if i_started i then 0 else 1)%nat.

(* ------------------------------------------------------------------ chainSampleIterator *)
(* heap element: an iterator that has a current sample: (current, following samples) *)
Definition hel := (sample * list sample)%type.
Definition hkey (x : hel) : Z := s_t (fst x).
Definition hleb (x y : hel) : bool := hkey x <=? hkey y.      (* Less = AtT() < AtT() *)
Definition to_it (x : hel) : it := mkIt true (fst x :: snd x).
Definition push_it (i : it) (h : list hel) : list hel :=
  match it_cur i with Some s => (s, tl (i_rest i)) :: h | None => h end.

Inductive chain :=
| CInit (its : list it)                              (* c.h == nil, c.curr == nil, lastT = MinInt64 *)
| CRun (curr : option it) (h : list hel) (lastT : Z) (* iterators in neither place are exhausted *)
| CPanic.

Inductive res := RNone | RSample (s : sample) | RPanic | RFuel.

Inductive step_out :=
| SDone (c : chain) (r : res) (ch : choices)
| SCont (curr : it) (h : list hel) (ch : choices).

(* c.curr = heap.Pop(&c.h); currT = c.curr.AtT(); c.curr.Seek(currT); if currT != c.lastT break *)
Definition pop_step (ch : choices) (h : list hel) (lastT : Z) : step_out :=
  let (k, ch') := next_choice ch in
  match pop hleb k h with
  | None => SDone CPanic RPanic ch'
  | Some (x, h') =>
      if hkey x =? lastT then SCont (to_it x) h' ch'
      else SDone (CRun (Some (to_it x)) h' (hkey x)) (RSample (fst x)) ch'
  end.

(* one iteration of the `for {` loop of chainSampleIterator.Next *)
Definition loop_body (ch : choices) (curr : it) (h : list hel) (lastT : Z) : step_out :=
  let curr1 := it_next curr in
  match it_cur curr1 with
  | None =>
      match h with
      | [] => SDone (CRun None [] lastT) RNone ch            (* c.curr = nil *)
      | _ => pop_step ch h lastT
      end
  | Some s =>
      if s_t s =? lastT then SCont curr1 h ch                (* ignoring sample for the same timestamp *)
      else match top hleb h with
           | None => SDone (CRun (Some curr1) h (s_t s)) (RSample s) ch
           | Some y =>
               if s_t s <? hkey y then SDone (CRun (Some curr1) h (s_t s)) (RSample s) ch
               else pop_step ch (push_it curr1 h) lastT
           end
  end.

Fixpoint next_loop (fuel : nat) (ch : choices) (curr : it) (h : list hel) (lastT : Z)
  : chain * res * choices :=
  match fuel with
  | O => (CPanic, RFuel, ch)
  | S f => match loop_body ch curr h lastT with
           | SDone c r ch' => (c, r, ch')
           | SCont curr' h' ch' => next_loop f ch' curr' h' lastT
           end
  end.

Definition heap_size (h : list hel) : nat := fold_right (fun x a => (2 + length (snd x) + a)%nat) O h.
Definition chain_fuel (curr : it) (h : list hel) : nat := S (S (it_size curr + heap_size h)).

Definition chain_next (ch : choices) (c : chain) : chain * res * choices :=
  match c with
  | CPanic => (CPanic, RPanic, ch)
  | CInit [] => (CRun None [] minInt64, RPanic, ch)    (* c.h = samplesIteratorHeap{} is assigned, then
                                                          c.iterators[0] panics: index out of range *)
  | CInit (i0 :: its) =>
      let h := fold_left (fun h i => push_it (it_next i) h) its [] in
      next_loop (chain_fuel i0 h) ch i0 h minInt64
  | CRun None h lastT => (c, RNone, ch)
  | CRun (Some curr) h lastT => next_loop (chain_fuel curr h) ch curr h lastT
  end.

Definition chain_iters (c : chain) : list it :=
  match c with
  | CInit its => its
  | CRun curr h _ => (match curr with Some i => [i] | None => [] end) ++ map to_it h
  | CPanic => []
  end.

Definition chain_lastT (c : chain) : Z :=
  match c with CRun _ _ l => l | _ => minInt64 end.

Definition do_seek (ch : choices) (t : Z) (c : chain) : chain * res * choices :=
  let h := fold_left (fun h i => push_it (it_seek t i) h) (chain_iters c) [] in
  match h with
  | [] => (CRun None [] (chain_lastT c), RNone, ch)
  | _ => let (k, ch') := next_choice ch in
         match pop hleb k h with
         | None => (CPanic, RPanic, ch')
         | Some (x, h') => (CRun (Some (to_it x)) h' (hkey x), RSample (fst x), ch')
         end
  end.

Definition chain_seek (ch : choices) (t : Z) (c : chain) : chain * res * choices :=
  match c with
  | CPanic => (CPanic, RPanic, ch)
  | CRun (Some curr) h lastT =>
      if t <=? lastT then                                  (* no-op check: c.curr.Seek(c.lastT) *)
        let curr' := it_seek lastT curr in
        (CRun (Some curr') h lastT, match it_cur curr' with Some s => RSample s | None => RNone end, ch)
      else do_seek ch t c
  | _ => do_seek ch t c
  end.

Inductive op := ONext | OSeek (t : Z).

Definition chain_step (ch : choices) (c : chain) (o : op) : chain * res * choices :=
  match o with ONext => chain_next ch c | OSeek t => chain_seek ch t c end.

Fixpoint chain_run (ch : choices) (c : chain) (ops : list op) : list res * choices :=
  match ops with
  | [] => ([], ch)
  | o :: r => let '(c', x, ch') := chain_step ch c o in
              let (xs, ch'') := chain_run ch' c' r in (x :: xs, ch'')
  end.

Definition chain_of (inputs : list (list sample)) : chain := CInit (map it_new inputs).

(* plain list iterator under the same script (the merge returns the input series itself when
   only one set holds a label) *)
Fixpoint it_run (i : it) (ops : list op) : list res :=
  match ops with
  | [] => []
  | o :: r => let i' := match o with ONext => it_next i | OSeek t => it_seek t i end in
              (match it_cur i' with Some s => RSample s | None => RNone end) :: it_run i' r
  end.

(* drain with Next only (seriesToChunkEncoder, ExpandSamples) *)
Fixpoint chain_drain (fuel : nat) (ch : choices) (c : chain) : option (list sample) * choices :=
  match fuel with
  | O => (None, ch)
  | S f => match chain_next ch c with
           | (c', RSample s, ch') =>
               let (r, ch'') := chain_drain f ch' c' in
               (match r with Some l => Some (s :: l) | None => None end, ch'')
           | (_, RNone, ch') => (Some [], ch')
           | (_, _, ch') => (None, ch')
           end
  end.

Definition total_len (inputs : list (list sample)) : nat :=
  fold_right (fun l a => (length l + a)%nat) O inputs.

Definition chain_all (ch : choices) (inputs : list (list sample)) : option (list sample) * choices :=
  chain_drain (S (total_len inputs)) ch (chain_of inputs).

(* ------------------------------------------------------------------ genericMergeSeriesSet *)
(* labels are abstracted to their rank under labels.Compare (an oracle tabulated by the harness) *)
Record series := mkSer { ser_l : Z; ser_s : list sample }.
Definition sel := (series * list series)%type.          (* a set positioned on a series *)
Definition sleb (x y : sel) : bool := ser_l (fst x) <=? ser_l (fst y).
Definition push_set (s : list series) (h : list sel) : list sel :=
  match s with [] => h | x :: r => (x, r) :: h end.

Inductive mres :=
| MGroup (g : list series) (st : list sel * list sel)   (* currentSets in pop order; (heap, currentSets) *)
| MEnd
| MErr.

(* pop items of the heap that have equal label sets *)
Fixpoint pop_equal (fuel : nat) (ch : choices) (l : Z) (h : list sel) (acc : list sel)
  : option (list sel * list sel) * choices :=
  match top sleb h with
  | None => (Some (acc, h), ch)
  | Some y =>
      if ser_l (fst y) =? l then
        match fuel with
        | O => (None, ch)
        | S f => let (k, ch') := next_choice ch in
                 match pop sleb k h with
                 | None => (None, ch')
                 | Some (x, h') => pop_equal f ch' l h' (acc ++ [x])
                 end
        end
      else (Some (acc, h), ch)
  end.

(* genericMergeSeriesSet.Next (without the limit check) *)
Definition mset_next (ch : choices) (h : list sel) (cur : list sel) : mres * choices :=
  let h1 := fold_left (fun h x => push_set (snd x) h) cur h in
  match top sleb h1 with
  | None => (MEnd, ch)
  | Some y =>
      match pop_equal (length h1) ch (ser_l (fst y)) h1 [] with
      | (Some (cs, h2), ch') => (MGroup (map fst cs) (h2, cs), ch')
      | (None, ch') => (MErr, ch')
      end
  end.

Fixpoint mset_loop (fuel : nat) (ch : choices) (limit merged : Z) (h cur : list sel)
  : option (list (list series)) * choices :=
  if (0 <? limit) && (limit <=? merged) then (Some [], ch) else
  match fuel with
  | O => (None, ch)
  | S f =>
      match mset_next ch h cur with
      | (MEnd, ch') => (Some [], ch')
      | (MErr, ch') => (None, ch')
      | (MGroup g (h', cur'), ch') =>
          let (r, ch'') := mset_loop f ch' limit (merged + 1) h' cur' in
          (match r with Some gs => Some (g :: gs) | None => None end, ch'')
      end
  end.

Definition total_series (sets : list (list series)) : nat :=
  fold_right (fun l a => (length l + a)%nat) O sets.

(* newGenericMergeSeriesSet + iteration to the end: the groups of same-label series, in output
   order. A single input set is returned as it is (no merging, no limit). *)
Definition merge_sets (ch : choices) (limit : Z) (sets : list (list series))
  : option (list (list series)) * choices :=
  match sets with
  | [s] => (Some (map (fun x => [x]) s), ch)
  | _ => mset_loop (S (total_series sets)) ch limit 0
           (fold_left (fun h s => push_set s h) sets []) []
  end.

(* what NewMergeSeriesSet hands out for a group of same-label series: the only series itself,
   or ChainedSeriesMerge of the group *)
Definition group_run (ch : choices) (g : list series) (script : list op) : list res :=
  match g with
  | [x] => it_run (it_new (ser_s x)) script
  | _ => fst (chain_run ch (chain_of (map ser_s g)) script)
  end.

(* ------------------------------------------------------------------ chunk level *)
Record chunk := mkC { c_min : Z; c_max : Z; c_smp : list sample }.
Definition cel := (chunk * list chunk)%type.
Definition cleb (x y : cel) : bool :=
  let a := fst x in let b := fst y in
  if c_min a =? c_min b then c_max a <=? c_max b else c_min a <? c_min b.
(* perfect duplicate: same MinTime, MaxTime and bytes (bytes = injective encoding of the samples) *)
Definition chunk_eqb (a b : chunk) : bool :=
  (c_min a =? c_min b) && (c_max a =? c_max b) && list_eqb sample_eqb (c_smp a) (c_smp b).
Definition push_citer (s : list chunk) (h : list cel) : list cel :=
  match s with [] => h | x :: r => (x, r) :: h end.

(* seriesToChunkEncoder.Iterator: a new chunk when the value type changes or after 120 samples.
   first/lasts: the samples that gave mint / maxt (and lastType) of the open chunk, cur: its
   samples, i: their number *)
Definition enc_split : nat := 120.
Fixpoint encode_go (l : list sample) (first lasts : sample) (cur : list sample) (i : nat) : list chunk :=
  match l with
  | [] => [mkC (s_t first) (s_t lasts) cur]
  | s :: r =>
      if negb (s_k s =? s_k lasts) || (enc_split <=? i)%nat
      then mkC (s_t first) (s_t lasts) cur :: encode_go r s s [s] 1
      else encode_go r first s (cur ++ [s]) (S i)
  end.
Definition encode_chunks (l : list sample) : list chunk :=
  match l with [] => [] | s :: r => encode_go r s s [s] 1 end.

Inductive cres :=
| CChunk (c : chunk) (h : list cel)
| CEnd
| CErr.

(* detect overlaps; next = c.h[0].At() and the following heap.Pop take the same element *)
Fixpoint overlap_loop (fuel : nat) (ch : choices) (h : list cel) (omax : Z) (prev : chunk)
         (ov : list chunk) : option (list cel * list chunk) * choices :=
  match h with
  | [] => (Some (h, ov), ch)
  | _ =>
    match fuel with
    | O => (None, ch)
    | S f =>
        let (k, ch') := next_choice ch in
        match pop cleb k h with
        | None => (None, ch')
        | Some ((nx, rest), h') =>
            if omax <? c_min nx then (Some (h, ov), ch')
            else
              let dup := chunk_eqb nx prev in
              overlap_loop f ch' (push_citer rest h')
                           (if dup then omax else Z.max omax (c_max nx))
                           (if dup then prev else nx)
                           (if dup then ov else ov ++ [nx])
        end
    end
  end.

Definition heap_chunks (h : list cel) : nat := fold_right (fun x a => (S (length (snd x)) + a)%nat) O h.

(* compactChunkIterator.Next after the heap has been initialised *)
Definition compact_next (ch : choices) (h : list cel) : cres * choices :=
  match h with
  | [] => (CEnd, ch)
  | _ =>
    let (k, ch1) := next_choice ch in
    match pop cleb k h with
    | None => (CErr, ch1)
    | Some ((cur, rest), h1) =>
        let h2 := push_citer rest h1 in
        match overlap_loop (heap_chunks h2) ch1 h2 (c_max cur) cur [] with
        | (None, ch2) => (CErr, ch2)
        | (Some (h3, []), ch2) => (CChunk cur h3, ch2)
        | (Some (h3, ov), ch2) =>
            match chain_all ch2 (map c_smp (ov ++ [cur])) with
            | (None, ch3) => (CErr, ch3)
            | (Some ms, ch3) =>
                match encode_chunks ms with
                | [] => (CErr, ch3)     (* panic("unexpected seriesToChunkEncoder lack of iterations") *)
                | c :: cs => (CChunk c (push_citer cs h3), ch3)
                end
            end
        end
    end
  end.

Fixpoint compact_loop (fuel : nat) (ch : choices) (h : list cel) : option (list chunk) * choices :=
  match fuel with
  | O => (None, ch)
  | S f => match compact_next ch h with
           | (CEnd, ch') => (Some [], ch')
           | (CErr, ch') => (None, ch')
           | (CChunk c h', ch') =>
               let (r, ch'') := compact_loop f ch' h' in
               (match r with Some l => Some (c :: l) | None => None end, ch'')
           end
  end.

Definition chunks_weight (its : list (list chunk)) : nat :=
  fold_right (fun l a => (fold_right (fun c b => (S (length (c_smp c)) + b)%nat) O l + a)%nat) O its.

Definition compact_chunks (ch : choices) (its : list (list chunk)) : option (list chunk) * choices :=
  compact_loop (S (chunks_weight its)) ch (fold_left (fun h s => push_citer s h) its []).

(* concatenatingChunkIterator *)
Definition concat_chunks (its : list (list chunk)) : list chunk := concat its.

(* ------------------------------------------------------------------ list-level specification
   (what the theorems of props/C19.v compare the model with, and what corr/CorrC19.v [holds]
   evaluates on the implementation's output) *)
Fixpoint ins (t : Z) (l : list Z) : list Z :=
  match l with
  | [] => [t]
  | x :: r => if t <? x then t :: l else if t =? x then l else x :: ins t r
  end.
(* sorted union of the inputs' timestamps, each once *)
Definition merged_ts (inputs : list (list sample)) : list Z :=
  fold_right ins [] (map s_t (concat inputs)).

Fixpoint sortedb (l : list Z) : bool :=            (* weakly increasing *)
  match l with
  | x :: ((y :: _) as r) => (x <=? y) && sortedb r
  | _ => true
  end.
Fixpoint ssortedb (l : list Z) : bool :=           (* strictly increasing *)
  match l with
  | x :: ((y :: _) as r) => (x <? y) && ssortedb r
  | _ => true
  end.

(* iterator over a strictly sorted timestamp list: Next advances, Seek t stays if the current
   element is >= t and otherwise advances to the first element >= t; the end is absorbing *)
Record spst := mkSp { sp_valid : bool; sp_last : Z; sp_rem : list Z }.
Fixpoint drop_ltz (t : Z) (l : list Z) : list Z :=
  match l with [] => [] | x :: r => if x <? t then drop_ltz t r else l end.
Definition spec_adv (st : spst) (l : list Z) : spst * option Z :=
  match l with
  | [] => (mkSp false (sp_last st) [], None)
  | a :: r => (mkSp true a r, Some a)
  end.
Definition spec_step (st : spst) (o : op) : spst * option Z :=
  match o with
  | ONext => spec_adv st (sp_rem st)
  | OSeek t => if sp_valid st && (t <=? sp_last st) then (st, Some (sp_last st))
               else spec_adv st (drop_ltz t (sp_rem st))
  end.
Fixpoint spec_run (st : spst) (ops : list op) : list (option Z) :=
  match ops with
  | [] => []
  | o :: r => let (st', x) := spec_step st o in x :: spec_run st' r
  end.
Definition spec_obs (ts : list Z) (ops : list op) : list (option Z) :=
  spec_run (mkSp false 0 ts) ops.


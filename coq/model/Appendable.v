(* model/Appendable.v — executable model of head append admission and commit (C02).
   Transcribed from /repo/tsdb/head_append.go (Head.appender, appendableMinValidTime, initAppender,
   headAppender.Append/AppendHistogram, getCurrentBatch, memSeries.appendable*, commitFloats,
   commitHistograms, commitFloatHistograms, Commit, Rollback, memSeries.insert,
   appendPreprocessor's order check), head_append_v2.go (headAppenderV2.Append, appendFloat/
   appendHistogram/appendFloatHistogram) and ooo_head.go (OOOChunk.Insert).  Definitions only. *)
From Coq Require Import List ZArith Bool.
From Verif Require Import lib.Int64.
Import ListNotations.
Open Scope Z_scope.

(* ---- values.  Histograms are abstracted to an identifier: the harness generates histograms
   whose Equals relation is equality of the identifier; identifier 0 is the staleness marker
   &Histogram{Sum: StaleNaN} / &FloatHistogram{Sum: StaleNaN}. Floats are their bit patterns. *)
Inductive value := VF (bits : Z) | VH (id : Z) | VFH (id : Z).

Definition staleBits : Z := 9218868437227405314. (* 0x7ff0000000000002 *)

Definition value_eqb (a b : value) : bool :=
  match a, b with
  | VF x, VF y => x =? y
  | VH x, VH y => x =? y
  | VFH x, VFH y => x =? y
  | _, _ => false
  end.

Definition is_stale_float (v : value) : bool :=
  match v with VF b => b =? staleBits | _ => false end.

(* sampleType: stFloat, stHistogram, stFloatHistogram, stCustomBucketHistogram,
   stCustomBucketFloatHistogram.  A histogram identifier < 0 stands for a histogram with custom
   buckets (NHCB); h.UsesCustomBuckets() is the sign test. *)
Inductive stype := TFloat | THist | TFHist | TCHist | TCFHist.
Definition stype_eqb (a b : stype) : bool :=
  match a, b with
  | TFloat, TFloat | THist, THist | TFHist, TFHist | TCHist, TCHist | TCFHist, TCFHist => true
  | _, _ => false
  end.
Definition stype_of (v : value) : stype :=
  match v with
  | VF _ => TFloat
  | VH i => if i <? 0 then TCHist else THist
  | VFH i => if i <? 0 then TCFHist else TFHist
  end.

Inductive aerr := EOOB | EOOO | ETooOld | EDup.

(* the window snapshot an appender takes at creation: headAppenderBase.minValidTime/headMaxt/oooTimeWindow *)
Record snap := mkSnap { sn_minValid : Z; sn_headMaxt : Z; sn_oooWin : Z }.

Definition sample := (Z * value)%type.

(* memSeries, as far as admission can see it *)
Record series := mkSeries {
  s_last : option sample;     (* None: headChunks == nil; Some (headChunks.maxTime, last*Value) *)
  s_in : list sample;         (* in-order samples, newest first *)
  s_ooo : list sample;        (* ooo.oooHeadChunk: ascending by t *)
  s_ooo_old : list sample     (* samples of OOO chunks already cut (m-mapped) *)
}.
Definition empty_series := mkSeries None [] [] [].

(* memSeries.appendable / appendableHistogram / appendableFloatHistogram.  The three Go functions
   differ only in the duplicate test (float: last value is a float with the same bits;
   histogram: h.Equals(lastHistogramValue), false if that is nil; likewise float histogram),
   which is value_eqb here.  Returns (isOOO, err); oooDelta only feeds a metric and is dropped. *)
Definition appendable (last : option sample) (t : Z) (v : value) (sn : snap) : bool * option aerr :=
  let rest :=
    if (sn_oooWin sn >? 0) && (t >=? sub64 (sn_headMaxt sn) (sn_oooWin sn)) then (true, None)
    else if sn_oooWin sn >? 0 then (true, Some ETooOld)
    else if t <? sn_minValid sn then (false, Some EOOB)
    else (false, Some EOOO) in
  if t >=? sn_minValid sn then
    match last with
    | None => (false, None)
    | Some (msMaxt, lv) =>
        if t >? msMaxt then (false, None)
        else if t =? msMaxt then
          (if value_eqb lv v then (false, None) else (false, Some EDup))
        else rest
    end
  else rest.

(* OOOChunk.Insert on an ascending list: false (None) when the timestamp exists. *)
Fixpoint ooo_insert (l : list sample) (t : Z) (v : value) : option (list sample) :=
  match l with
  | [] => Some [(t, v)]
  | (t', v') :: r =>
      if t <? t' then Some ((t, v) :: l)
      else if t =? t' then None
      else match ooo_insert r t v with Some r' => Some ((t', v') :: r') | None => None end
  end.

(* memSeries.insert: cut a new OOO head chunk when there is none or it holds oooCapMax samples *)
Definition series_insert (cap : Z) (s : series) (t : Z) (v : value) : series :=
  let '(cur, old) :=
    if (Z.of_nat (length (s_ooo s)) =? cap) then ([], s_ooo_old s ++ s_ooo s) else (s_ooo s, s_ooo_old s) in
  match ooo_insert cur t v with
  | Some cur' => mkSeries (s_last s) (s_in s) cur' old
  | None => mkSeries (s_last s) (s_in s) cur old
  end.

(* memSeries.append / appendHistogram / appendFloatHistogram, order check of (histograms)
   appendPreprocessor: a nil head chunk is cut with maxTime = MinInt64; `c.maxTime >= t` drops
   the sample (but the cut chunk stays, with lastValue still the zero float). Returns the
   series and whether the sample went in. *)
Definition series_append (s : series) (t : Z) (v : value) : series * bool :=
  let '(mx, lv) := match s_last s with Some p => p | None => (minInt64, VF 0) end in
  if mx >=? t then (mkSeries (Some (mx, lv)) (s_in s) (s_ooo s) (s_ooo_old s), false)
  else (mkSeries (Some (t, v)) ((t, v) :: s_in s) (s_ooo s) (s_ooo_old s), true).

(* appenderCommitContext.inOrderMint / inOrderMaxt *)
Record acc := mkAcc { ac_mint : Z; ac_maxt : Z }.
Definition acc0 := mkAcc maxInt64 minInt64.
Definition acc_add (a : acc) (t : Z) : acc :=
  mkAcc (if t <? ac_mint a then t else ac_mint a) (if t >? ac_maxt a then t else ac_maxt a).

(* the body of the commit loops after the staleness conversion: re-run appendable, then
   insert / append / nothing *)
Definition commit_sample (cap : Z) (sn : snap) (s : series) (t : Z) (v : value) : series * option Z :=
  match appendable (s_last s) t v sn with
  | (_, Some _) => (s, None)
  | (true, None) => (series_insert cap s t v, None)
  | (false, None) =>
      let '(s', ok) := series_append s t v in (s', if ok then Some t else None)
  end.

(* ---- head *)
Record cfg := mkCfg { c_chunkRange : Z; c_oooWin : Z; c_oooCap : Z }.

Record head := mkHead {
  h_mint : Z;                 (* Head.minTime, MaxInt64 = not initialised *)
  h_maxt : Z;                 (* Head.maxTime, MinInt64 initially *)
  h_minValid : Z;             (* Head.minValidTime *)
  h_series : Z -> series      (* series by identity; absent = empty_series (getOrCreate) *)
}.
Definition head0 := mkHead maxInt64 minInt64 minInt64 (fun _ => empty_series).

Definition set_series (h : head) (sid : Z) (s : series) : head :=
  mkHead (h_mint h) (h_maxt h) (h_minValid h) (fun k => if k =? sid then s else h_series h k).

Definition initialized (h : head) : bool := negb (h_mint h =? maxInt64).

(* Head.initTime (sequential: the spin loop of the losing side is a no-op) *)
Definition init_time (h : head) (t : Z) : head :=
  if h_maxt h =? minInt64 then
    mkHead (if h_mint h =? maxInt64 then t else h_mint h) t (h_minValid h) (h_series h)
  else h.

(* Head.appendableMinValidTime and the snapshot of Head.appender()/appenderV2() *)
Definition appendable_min_valid (c : cfg) (h : head) : Z :=
  Z.max (sub64 (h_maxt h) (godiv (c_chunkRange c) 2)) (h_minValid h).
Definition snapshot (c : cfg) (h : head) : snap :=
  mkSnap (appendable_min_valid c h) (h_maxt h) (c_oooWin c).

(* Head.updateMinMaxTime *)
Definition update_min_max (h : head) (a : acc) : head :=
  mkHead (if ac_mint a >=? h_mint h then h_mint h else ac_mint a)
         (if ac_maxt a <=? h_maxt h then h_maxt h else ac_maxt a)
         (h_minValid h) (h_series h).

(* ---- appender *)
Definition entry := (Z * Z * value)%type. (* series, t, value *)
Definition e_sid (e : entry) : Z := fst (fst e).
Definition e_t (e : entry) : Z := snd (fst e).
Definition e_val (e : entry) : value := snd e.

Record batch := mkBatch { b_f : list entry; b_h : list entry; b_fh : list entry }.
Definition batch0 := mkBatch [] [] [].
Definition push (b : batch) (e : entry) : batch :=
  match stype_of (e_val e) with
  | TFloat => mkBatch (b_f b ++ [e]) (b_h b) (b_fh b)
  | THist | TCHist => mkBatch (b_f b) (b_h b ++ [e]) (b_fh b)
  | TFHist | TCFHist => mkBatch (b_f b) (b_h b) (b_fh b ++ [e])
  end.

Fixpoint lookup_type (m : list (Z * stype)) (k : Z) : option stype :=
  match m with [] => None | (k', v) :: r => if k' =? k then Some v else lookup_type r k end.

Record appender := mkApp {
  a_v2 : bool;                 (* headAppenderV2 *)
  a_discard : bool;            (* v1 hints.DiscardOutOfOrder *)
  a_snap : option snap;        (* None: initAppender whose head appender does not exist yet *)
  a_batches : list batch;      (* newest first *)
  a_types : list (Z * stype)   (* typesInBatch: histogram types only *)
}.

(* getCurrentBatch followed by the append to the batch's slice *)
Definition add_entry (a : appender) (e : entry) : appender :=
  let st := stype_of (e_val e) in
  let sid := e_sid e in
  let new_batch :=
    mkApp (a_v2 a) (a_discard a) (a_snap a) (push batch0 e :: a_batches a)
          (match st with TFloat => [] | _ => [(sid, st)] end) in
  match a_batches a with
  | [] => new_batch
  | b :: bs =>
      let cont types := mkApp (a_v2 a) (a_discard a) (a_snap a) (push b e :: bs) types in
      match lookup_type (a_types a) sid with
      | Some prev =>
          if stype_eqb prev st then cont (a_types a)    (* prevST == st *)
          else new_batch                                (* float after histogram / type change *)
      | None =>
          match st with
          | TFloat => cont (a_types a)                  (* !ok && st == stFloat *)
          | _ => cont ((sid, st) :: a_types a)          (* !ok: record type, continue batch *)
          end
      end
  end.

(* Head.Appender / Head.AppenderV2 *)
Definition new_appender (c : cfg) (h : head) (v2 : bool) : appender :=
  mkApp v2 false (if initialized h then Some (snapshot c h) else None) [] [].

(* initAppender.SetOptions drops the options while a.app == nil *)
Definition set_options (a : appender) (discard : bool) : appender :=
  match a_snap a with
  | Some _ => mkApp (a_v2 a) discard (a_snap a) (a_batches a) (a_types a)
  | None => a
  end.

Definition err_code (e : aerr) : Z :=
  match e with EOOB => 1 | EOOO => 2 | ETooOld => 3 | EDup => 4 end.

(* Append / AppendHistogram (v1) and AppenderV2.Append; flag = AOptions.RejectOutOfOrder (v2).
   Returns the head (initTime may have run), the appender and the error code (0 = nil). *)
Definition append (c : cfg) (h : head) (a : appender) (flag : bool) (sid t : Z) (v : value)
  : head * appender * Z :=
  let '(h1, a1, sn) :=
    match a_snap a with
    | Some sn => (h, a, sn)
    | None =>
        let h' := init_time h t in
        let sn := snapshot c h' in
        (h', mkApp (a_v2 a) (a_discard a) (Some sn) (a_batches a) (a_types a), sn)
    end in
  if (sn_oooWin sn =? 0) && (t <? sn_minValid sn) then (h1, a1, 1)
  else
    (* a float staleness marker takes the histogram type the series has in the current batch *)
    let v' :=
      if is_stale_float v then
        match lookup_type (a_types a1) sid with
        | Some THist | Some TCHist => VH 0
        | Some TFHist | Some TCFHist => VFH 0
        | _ => v
        end
      else v in
    let '(isOOO, err) := appendable (s_last (h_series h1 sid)) t v' sn in
    let reject :=
      if a_v2 a1 then isOOO && flag
      else match v', err with
           | VF _, None => isOOO && a_discard a1
           | _, _ => false
           end in
    if reject then (h1, a1, 2)
    else match err with
         | Some e => (h1, a1, err_code e)
         | None => (h1, add_entry a1 (sid, t, v'), 0)
         end.

(* ---- commit.  State of one Commit call: series map, acc, and the histogram / float histogram
   slices of the batch being committed (commitFloats may append to them). *)
Definition smap := Z -> series.
Definition smap_set (m : smap) (sid : Z) (s : series) : smap :=
  fun k => if k =? sid then s else m k.

Definition commit_plain (cap : Z) (sn : snap) (st : smap * acc) (e : entry) : smap * acc :=
  let '(m, ac) := st in
  let '(s', r) := commit_sample cap sn (m (e_sid e)) (e_t e) (e_val e) in
  (smap_set m (e_sid e) s', match r with Some t => acc_add ac t | None => ac end).

(* commitFloats: one iteration *)
Definition commit_float (cap : Z) (sn : snap)
  (st : smap * acc * list entry * list entry) (e : entry) : smap * acc * list entry * list entry :=
  let '(m, ac, hs, fhs) := st in
  let conv :=
    if is_stale_float (e_val e) then
      match s_last (m (e_sid e)) with
      | Some (_, VH _) => Some THist
      | Some (_, VFH _) => Some TFHist
      | _ => None
      end
    else None in
  match conv with
  | Some THist => (m, ac, hs ++ [(e_sid e, e_t e, VH 0)], fhs)
  | Some _ => (m, ac, hs, fhs ++ [(e_sid e, e_t e, VFH 0)])
  | None => let '(m', ac') := commit_plain cap sn (m, ac) e in (m', ac', hs, fhs)
  end.

Definition commit_batch (cap : Z) (sn : snap) (st : smap * acc) (b : batch) : smap * acc :=
  let '(m, ac) := st in
  let '(m1, ac1, hs, fhs) := fold_left (commit_float cap sn) (b_f b) (m, ac, b_h b, b_fh b) in
  let st2 := fold_left (commit_plain cap sn) hs (m1, ac1) in
  fold_left (commit_plain cap sn) fhs st2.

Definition default_snap := mkSnap 0 0 0.

(* headAppenderBase.Commit (an initAppender without head appender commits nothing) *)
Definition commit (c : cfg) (h : head) (a : appender) : head :=
  let sn := match a_snap a with Some sn => sn | None => default_snap end in
  let '(m, ac) := fold_left (commit_batch (c_oooCap c) sn) (rev (a_batches a)) (h_series h, acc0) in
  update_min_max (mkHead (h_mint h) (h_maxt h) (h_minValid h) m) ac.

(* Rollback: nothing reaches the series *)
Definition rollback (h : head) (a : appender) : head := h.

(* ---- what a query sees: all samples of a series, grouped by timestamp, ascending.  When a
   timestamp occurs in several chunks (in-order / OOO head chunk / older OOO chunks) every
   stored value is kept as a candidate (which one the query merge returns is not part of C02);
   in-order candidates come first. *)
Fixpoint group_insert (l : list (Z * list value)) (t : Z) (v : value) : list (Z * list value) :=
  match l with
  | [] => [(t, [v])]
  | (t', vs) :: r =>
      if t <? t' then (t, [v]) :: l
      else if t =? t' then (t', vs ++ [v]) :: r
      else (t', vs) :: group_insert r t v
  end.

Definition series_samples (s : series) : list sample := rev (s_in s) ++ s_ooo s ++ s_ooo_old s.

Definition series_view (s : series) : list (Z * list value) :=
  fold_left (fun l p => group_insert l (fst p) (snd p)) (series_samples s) [].

(* ---- vocabulary of the theorems *)
(* a head appender with window snapshot sn that has accepted nothing yet, and the appender
   after accepting the entries of log in that order (getCurrentBatch batching) *)
Definition fresh_appender (sn : snap) : appender := mkApp false false (Some sn) [] [].
Definition appender_of (sn : snap) (log : list entry) : appender :=
  fold_left add_entry log (fresh_appender sn).

(* heads are compared pointwise on the series map *)
Definition head_eq (h1 h2 : head) : Prop :=
  h_mint h1 = h_mint h2 /\ h_maxt h1 = h_maxt h2 /\ h_minValid h1 = h_minValid h2 /\
  forall sid, h_series h1 sid = h_series h2 sid.

(* Head.minTime / maxTime hold int64 values *)
Definition head_wf (h : head) : Prop := h_mint h <= maxInt64 /\ minInt64 <= h_maxt h.

Definition flat (b : batch) : list entry := b_f b ++ b_h b ++ b_fh b.
(* all entries held by an appender, in commit order *)
Definition entries (a : appender) : list entry := concat (map flat (rev (a_batches a))).

(* model/FastRegex.v — executable model of model/labels/regexp.go (FastRegexMatcher):
   optimizeAlternatingLiterals, optimizeAlternatingSimpleContains, clearCapture,
   clearBeginEndText, findSetMatches*, optimizeConcatRegex, isSimpleConcatenationPattern,
   stringMatcherFromRegexp(Internal), optimizeEqualOrPrefixStringMatchers, the StringMatcher
   implementations, compileMatchStringFunction / MatchString / SetMatches.
   Definitions only (proofs: proof/FastRegexProofs.v).

   Strings are rune lists (valid UTF-8). Byte-level facts that matter are modelled through
   [enc] (UTF-8 encoding): byte lengths (lengthMask, minPrefixLen) and the byte-sliced keys of
   equalMultiStringMapMatcher.prefixes. Oracles (Section variables): F = Unicode simple
   folding (unicode.SimpleFold orbits), NL = toNormalisedLower on non-ASCII byte strings
   (NFKD + unicode.ToLower), TL = strings.ToLower on non-ASCII byte strings; the ASCII fast
   paths of both are modelled. m.re.MatchString is lib/Regex.re_match on the tree m.re was
   compiled from (Regexp.String() round trip trusted). *)
From Coq Require Import List ZArith Bool.
From Verif Require Import lib.Regex.
Import ListNotations.
Open Scope Z_scope.

Definition bytes := list Z.

(* ---- small string helpers *)
Fixpoint str_eqb (a b : list Z) : bool :=
  match a, b with
  | [], [] => true
  | x :: a', y :: b' => (x =? y) && str_eqb a' b'
  | _, _ => false
  end.
Definition mem_str (s : list Z) (l : list (list Z)) : bool := existsb (str_eqb s) l.

(* strings.HasPrefix *)
Fixpoint is_prefix (p s : list Z) : bool :=
  match p, s with
  | [], _ => true
  | x :: p', y :: s' => (x =? y) && is_prefix p' s'
  | _ :: _, [] => false
  end.
Definition len {A} (l : list A) : Z := Z.of_nat (length l).
(* strings.HasSuffix *)
Definition is_suffix (p s : list Z) : bool := is_prefix (rev p) (rev s).
(* s[:len(s)-len(p)] *)
Definition drop_suffix (p s : list Z) : list Z := firstn (length s - length p) s.
(* strings.Contains *)
Fixpoint contains_str (sub s : list Z) : bool :=
  is_prefix sub s || match s with [] => false | _ :: t => contains_str sub t end.
(* s[i+len(sub):] for the first occurrence i of sub in s (strings.Index), None if absent *)
Fixpoint after_first (sub s : list Z) : option (list Z) :=
  if is_prefix sub s then Some (skipn (length sub) s)
  else match s with [] => None | _ :: t => after_first sub t end.

(* UTF-8 *)
Definition enc1 (r : Z) : bytes :=
  if r <? 128 then [r]
  else if r <? 2048 then [192 + r / 64; 128 + r mod 64]
  else if r <? 65536 then [224 + r / 4096; 128 + (r / 64) mod 64; 128 + r mod 64]
  else [240 + r / 262144; 128 + (r / 4096) mod 64; 128 + (r / 64) mod 64; 128 + r mod 64].
Definition enc (s : str) : bytes := flat_map enc1 s.
Definition blen (s : str) : Z := len (enc s).
(* lengthMask: the bit index *)
Definition lmask (s : str) : Z := Z.min (blen s) 63.

Definition lower_ascii (c : Z) : Z := if (65 <=? c) && (c <=? 90) then c + 32 else c.
Definition is_ascii (b : bytes) : bool := forallb (fun c => c <? 128) b.

Fixpoint lookup (k : bytes) (t : list (bytes * bytes)) : option bytes :=
  match t with
  | [] => None
  | (a, v) :: t' => if str_eqb a k then Some v else lookup k t'
  end.
Definition oracle_miss : bytes := [-1].

(* ---- the StringMatcher tree. In SMultiMap: if cs then [values] are rune strings, else they
   are byte strings (normalised lower case); keys of [prefixes] are byte strings. *)
Inductive sm :=
| SEqual (s : str) (cs : bool)
| SEmpty
| SOr (l : list sm)
| SContains (lft : option sm) (subs : list str) (rgt : option sm)
| SPrefix (cs : bool) (p : str) (rgt : sm)
| SSuffix (lft : sm) (suffix : str) (cs : bool)
| SAnyNonEmpty (nl : bool)
| SZeroOrOne (nl : bool)
| SNoNL
| STrue
| SMultiSlice (cs : bool) (values : list str)
| SMultiMap (cs : bool) (values : list (list Z)) (minPrefixLen : Z) (prefixes : list (bytes * list sm)).

(* ---- clearCapture / clearBeginEndText *)
Fixpoint strip (r : re) : re := match r with RCapture x => strip x | _ => r end.

Definition is_begin (r : re) : bool := match r with RBeginText => true | _ => false end.
Definition is_end (r : re) : bool := match r with REndText => true | _ => false end.

Definition clear_begin_end (r : re) : re :=
  match r with
  | RAlt _ => r
  | RConcat l =>
      match l with
      | [] => r
      | [x] => if is_begin x || is_end x then REmpty false else r
      | x :: t =>
          let l1 := if is_begin x then t else l in
          RConcat (if is_end (last l1 RNoMatch) then removelast l1 else l1)
      end
  | RCapture x | RStar x | RPlus x | RQuest x | RRepeat _ _ x =>
      if is_begin x || is_end x then REmpty false else r
  | _ => r
  end.

(* ---- findSetMatches. The Go nil slice is []; a non-nil empty slice never arises. *)
Definition max_set_matches : Z := 256.
Definition too_many (a b : list str) : bool := len a + len b >? max_set_matches.

Definition range_runes (lo hi : Z) : list Z :=
  map (fun k => lo + Z.of_nat k) (seq 0 (Z.to_nat (hi - lo + 1))).

Section FsmLoops.
Variable f : re -> str -> list str * bool.   (* findSetMatchesInternal on sub-expressions *)

(* findSetMatchesFromAlternate *)
Fixpoint alt_loop (l : list re) (base : str) (first : bool) (acc : list str) (cs : bool)
  : list str * bool :=
  match l with
  | [] => (acc, cs)
  | x :: t =>
      let '(found, c) := f x base in
      if isnil found then ([], false)
      else if too_many acc found then ([], false)
      else let cs' := if first then c else cs in
           if negb (Bool.eqb cs' c) then ([], false)
           else alt_loop t base false (acc ++ found) cs'
  end.

(* findSetMatchesFromConcat: the loop over the current matches for sub-expression x *)
Fixpoint inner_loop (g : str -> list str * bool) (i0 : bool) (bs : list str) (j0 : bool)
  (nm : list str) (mcs : bool) : option (list str * bool) :=
  match bs with
  | [] => Some (nm, mcs)
  | b :: bs' =>
      let '(m, c) := g b in
      if isnil m then None
      else if too_many nm m then None
      else let mcs' := if i0 && j0 then c else mcs in
           if negb (Bool.eqb mcs' c) then None
           else inner_loop g i0 bs' false (nm ++ m) mcs'
  end.

Fixpoint cat_loop (l : list re) (i0 : bool) (matches : list str) (mcs : bool) : list str * bool :=
  match l with
  | [] => (matches, mcs)
  | x :: t =>
      match inner_loop (f x) i0 matches true [] mcs with
      | None => ([], false)
      | Some (nm, mcs') => cat_loop t false nm mcs'
      end
  end.
End FsmLoops.

Fixpoint fsm (r : re) (base : str) {struct r} : list str * bool :=
  match r with
  | RBeginText | REndText => ([], false)
  | RLit f rs => ([base ++ rs], negb f)
  | REmpty f => if isnil base then ([], false) else ([base], negb f)
  | RAlt l => alt_loop fsm l base true [] false
  | RCapture x => fsm x base
  | RConcat l => if isnil l then ([], false) else cat_loop fsm l true [base] false
  | RClass f rg =>
      let total := fold_left (fun a p => a + (snd p - fst p) + 1) rg 0 in
      if total >? max_set_matches then ([], false)
      else (flat_map (fun p => map (fun c => base ++ [c]) (range_runes (fst p) (snd p))) rg, negb f)
  | _ => ([], false)
  end.

Definition find_set_matches (r : re) : list str * bool := fsm (clear_begin_end r) [].

(* ---- optimizeAlternatingSimpleContains *)
Definition is_match_any (r : re) : bool :=
  match r with RStar RAny => true | _ => false end.
Definition is_cs_literal (r : re) : bool :=
  match r with RLit false _ => true | _ => false end.

Definition simple_contains_lit (r : re) : option re :=
  match r with
  | RConcat [a; b; c] => if is_cs_literal b && is_match_any a && is_match_any c then Some b else None
  | _ => None
  end.

Fixpoint all_some {A} (l : list (option A)) : option (list A) :=
  match l with
  | [] => Some []
  | None :: _ => None
  | Some x :: t => match all_some t with Some r => Some (x :: r) | None => None end
  end.

Definition optimize_alt_simple_contains (r : re) : re :=
  match r with
  | RAlt l =>
      match all_some (map simple_contains_lit l) with
      | Some lits => if 1 <? len lits then RConcat [RStar RAny; RAlt lits; RStar RAny] else r
      | None => r
      end
  | _ => r
  end.

(* ---- optimizeConcatRegex: (caseInsensitivePrefix, prefix, suffix, contains); "" is [] *)
Definition lit_of (r : re) : option (bool * str) :=
  match r with RLit f rs => Some (f, rs) | _ => None end.

Fixpoint middle_contains (l : list re) : list str :=
  (* literals (case sensitive) of all but the last element *)
  match l with
  | [] => []
  | [_] => []
  | x :: t => match x with RLit false rs => rs :: middle_contains t | _ => middle_contains t end
  end.

Definition optimize_concat (subs0 : list re) : bool * str * str * list str :=
  let sub := map strip subs0 in
  let sub := match sub with x :: t => if is_begin x then t else sub | [] => sub end in
  let sub := if isnil sub then sub else if is_end (last sub RNoMatch) then removelast sub else sub in
  match sub with
  | [] => (false, [], [], [])
  | x :: t =>
      let '(ci, prefix) := match lit_of x with Some (f, rs) => (f, rs) | None => (false, []) end in
      let suffix := match lit_of (last sub RNoMatch) with
                    | Some (false, rs) => rs | _ => [] end in
      (ci, prefix, suffix, middle_contains t)
  end.

(* isSimpleConcatenationPattern: the loop over re.Sub[1:len-1] with its prevLiteral flag
   (two adjacent literals are rejected; fix d2b0409570) *)
Fixpoint simple_mid (l : list re) (prev : bool) : bool :=
  match l with
  | [] => true
  | x :: t =>
      if is_match_any x then simple_mid t false
      else if is_cs_literal x then (if prev then false else simple_mid t true)
      else false
  end.

Definition is_simple_concat (r : re) : bool :=
  match r with
  | RConcat l =>
      if len l <? 2 then false
      else is_match_any (hd RNoMatch l) && is_match_any (last l RNoMatch) &&
           simple_mid (removelast (tl l)) false
  | _ => false
  end.

(* the code before "fix: labels: FastRegexMatcher accepts text between adjacent literals of a
   simple concatenation": every middle element a wildcard or a case-sensitive literal *)
Definition is_simple_concat_old (r : re) : bool :=
  match r with
  | RConcat l =>
      if len l <? 2 then false
      else is_match_any (hd RNoMatch l) && is_match_any (last l RNoMatch) &&
           forallb (fun x => is_match_any x || is_cs_literal x) (removelast (tl l))
  | _ => false
  end.

(* ---- stringMatcherFromRegexpInternal *)
Definition is_wild_op (r : re) : bool :=
  match r with RPlus _ | RStar _ | RQuest _ => true | _ => false end.

(* The OpConcat case after the recursive calls have been made: ps pairs every (capture-free)
   sub-expression with the matcher stringMatcherFromRegexpInternal returns for it. Three
   steps: (1) split off a leading / trailing Plus|Star|Quest (None = "return nil");
   (2) findSetMatchesInternal on what is left, or the literal+matcher special cases;
   (3) the final switch. *)
Definition is_none {A} (o : option A) : bool := match o with None => true | _ => false end.

Definition split_wild (ps : list (re * option sm))
  : option (option sm * list (re * option sm) * option sm) :=
  match ps with
  | [] => None
  | (x0, m0) :: rest =>
      let lw := is_wild_op x0 in
      if lw && is_none m0 then None else
      let lft := if lw then m0 else None in
      let ps1 := if lw then rest else ps in
      let '(xl, ml) := last ps1 (RNoMatch, None) in
      let rw := is_wild_op xl in
      if rw && is_none ml then None else
      let rgt := if rw then ml else None in
      let mid := if rw then removelast ps1 else ps1 in
      Some (lft, mid, rgt)
  end.

Definition refine_mid (lft : option sm) (mid : list (re * option sm)) (rgt : option sm)
  : option sm * option sm * list str * bool :=
  let '(matches, mcs) := fsm (RConcat (map fst mid)) [] in
  match isnil matches, mid with
  | true, [(a, ma); (b, mb)] =>
      match rgt, lit_of a with
      | None, Some (f, rs) =>
          match mb with
          | Some _ => (lft, mb, [rs], negb f)
          | None => (lft, rgt, matches, mcs)
          end
      | _, _ =>
          match lft, lit_of b with
          | None, Some (f, rs) =>
              match ma with
              | Some _ => (ma, rgt, [rs], negb f)
              | None => (lft, rgt, matches, mcs)
              end
          | _, _ => (lft, rgt, matches, mcs)
          end
      end
  | _, _ => (lft, rgt, matches, mcs)
  end.

Definition assemble (lft rgt : option sm) (matches : list str) (mcs : bool) : option sm :=
  match matches with
  | [] => None
  | m1 :: mt =>
      match lft, rgt with
      | None, None => Some (SOr (map (fun m => SEqual m mcs) matches))
      | None, Some rt =>
          if isnil mt then Some (SPrefix mcs m1 rt)
          else if mcs then Some (SContains lft matches rgt) else None
      | Some lf, None =>
          if isnil mt then Some (SSuffix lf m1 mcs)
          else if mcs then Some (SContains lft matches rgt) else None
      | Some _, Some _ =>
          if mcs then Some (SContains lft matches rgt) else None
      end
  end.

Definition concat_logic (ps : list (re * option sm)) : option sm :=
  match ps with
  | [] => Some SEmpty
  | [(_, m)] => m
  | _ =>
      match split_wild ps with
      | None => None
      | Some (lft, mid, rgt) =>
          let '(lft', rgt', matches, mcs) := refine_mid lft mid rgt in
          assemble lft' rgt' matches mcs
      end
  end.

Fixpoint smi (r : re) : option sm :=
  match r with
  | RCapture x => smi x
  | RBeginText | REndText => None
  | RPlus x => match x with
               | RAny => Some (SAnyNonEmpty true)
               | RAnyNotNL => Some (SAnyNonEmpty false)
               | _ => None end
  | RStar x => match x with
               | RAny => Some STrue
               | RAnyNotNL => Some SNoNL
               | _ => None end
  | RQuest x => match x with
                | RAny => Some (SZeroOrOne true)
                | RAnyNotNL => Some (SZeroOrOne false)
                | _ => None end
  | REmpty _ => Some SEmpty
  | RLit f rs => Some (SEqual rs (negb f))
  | RAlt l =>
      match all_some (map smi l) with
      | Some ms => Some (SOr ms)
      | None => None
      end
  | RConcat l =>
      concat_logic (map (fun x => (strip x, smi x)) l)
  | _ => None
  end.

(* ---- optimizeEqualOrPrefixStringMatchers *)
Inductive leaf := LEq (s : str) (cs : bool) | LPre (p : str) (cs : bool) (m : sm).
Definition leaf_cs (l : leaf) : bool := match l with LEq _ cs => cs | LPre _ cs _ => cs end.
Definition is_leq (l : leaf) : bool := match l with LEq _ _ => true | _ => false end.

(* findEqualOrPrefixStringMatchers: Some leaves iff it returns true (m an element of an or) *)
Fixpoint leaves (m : sm) : option (list leaf) :=
  match m with
  | SOr l => match all_some (map leaves l) with
             | Some ls => Some (concat ls)
             | None => None end
  | SEqual s cs => Some [LEq s cs]
  | SPrefix cs p _ => Some [LPre p cs m]
  | _ => None
  end.

Definition min_equal_multi_threshold : Z := 16.

Fixpoint add_prefix (k : bytes) (m : sm) (ps : list (bytes * list sm)) : list (bytes * list sm) :=
  match ps with
  | [] => [(k, [m])]
  | (k', ms) :: t => if str_eqb k' k then (k', ms ++ [m]) :: t else (k', ms) :: add_prefix k m t
  end.

Section Oracles.
Variable F : rune -> rune -> bool.
Variable NL TL : bytes -> bytes.

(* toNormalisedLower / strings.ToLower: ASCII fast path, else the oracle *)
Definition norm_lower (b : bytes) : bytes := if is_ascii b then map lower_ascii b else NL b.
Definition to_lower (b : bytes) : bytes := if is_ascii b then map lower_ascii b else TL b.

(* newEqualMultiStringMatcher + add (values only) *)
Definition new_multi (cs : bool) (est : Z) (vals : list str) : sm :=
  if est <? min_equal_multi_threshold then SMultiSlice cs vals
  else SMultiMap cs (if cs then vals else map (fun v => norm_lower (enc v)) vals) 0 [].

Definition optimize_eop (threshold : Z) (input : sm) : sm :=
  match input with
  | SOr _ =>
      match leaves input with
      | None => input
      | Some lv =>
          let cs := match lv with l0 :: _ => leaf_cs l0 | [] => false end in
          if negb (forallb (fun l => Bool.eqb (leaf_cs l) cs) lv) then input else
          let nv := len (filter is_leq lv) in
          let np := len (filter (fun l => negb (is_leq l)) lv) in
          if nv + np <? threshold then input else
          let minp := fold_left (fun (a : option Z) l =>
                         match l with
                         | LPre p _ _ => match a with
                                         | None => Some (blen p)
                                         | Some x => Some (Z.min x (blen p)) end
                         | _ => a end) lv None in
          let minp := match minp with Some x => x | None => 0 end in
          if (nv <? min_equal_multi_threshold) && (np =? 0) then
            SMultiSlice cs (flat_map (fun l => match l with LEq s _ => [s] | _ => [] end) lv)
          else
          SMultiMap cs
            (flat_map (fun l => match l with
                                | LEq s _ => [if cs then s else norm_lower (enc s)]
                                | _ => [] end) lv)
            minp
            (fold_left (fun acc l =>
                          match l with
                          | LPre p _ m =>
                              let k := firstn (Z.to_nat minp) (enc p) in
                              add_prefix (if cs then k else to_lower k) m acc
                          | _ => acc end) lv [])
      end
  | _ => input
  end.

Definition string_matcher_from_regexp (r : re) : option sm :=
  match smi (clear_begin_end r) with
  | Some m => Some (optimize_eop min_equal_multi_threshold m)
  | None => None
  end.

(* ---- Matches *)
Fixpoint equal_fold (a b : str) : bool :=
  match a, b with
  | [], [] => true
  | x :: a', y :: b' => feq F x y && equal_fold a' b'
  | _, _ => false
  end.

(* prefixCaseInsensitiveMatchLen: Some rest-of-s after the matched prefix *)
Fixpoint pci_slow (p s : str) : option str :=
  match p with
  | [] => Some s
  | pr :: p' => match s with
                | [] => None
                | sr :: s' => if feq F sr pr then pci_slow p' s' else None
                end
  end.
Fixpoint pci (p s : str) : option str :=
  match p with
  | [] => Some s
  | pr :: p' =>
      match s with
      | [] => None
      | sr :: s' =>
          if (128 <=? pr) || (128 <=? sr) then pci_slow p s
          else if (pr =? sr) || (lower_ascii pr =? lower_ascii sr) then pci p' s'
          else None
      end
  end.
(* suffixCaseInsensitiveMatchLen: Some s-without-the-matched-suffix *)
Definition sci (suf s : str) : option str :=
  match pci (rev suf) (rev s) with Some r => Some (rev r) | None => None end.

(* containsStringMatcher with both sides: every occurrence of sub, lft to rgt *)
Fixpoint contains_lr (lf rt : str -> bool) (sub : str) (pre s : str) : bool :=
  (is_prefix sub s && lf (rev pre) && rt (skipn (length sub) s))
  || match s with [] => false | c :: t => contains_lr lf rt sub (c :: pre) t end.

Definition mask_ok (vs : list str) (s : str) : bool := existsb (fun v => lmask v =? lmask s) vs.

Fixpoint smm (m : sm) (s : str) {struct m} : bool :=
  match m with
  | SEqual v cs => if cs then str_eqb v s else equal_fold v s
  | SEmpty => isnil s
  | SOr l => existsb (fun x => smm x s) l
  | SContains lft subs rgt =>
      match lft, rgt with
      | Some lf, Some rt => existsb (fun sub => contains_lr (smm lf) (smm rt) sub [] s) subs
      | Some lf, None => existsb (fun sub => is_suffix sub s && smm lf (drop_suffix sub s)) subs
      | None, Some rt => existsb (fun sub => is_prefix sub s && smm rt (skipn (length sub) s)) subs
      | None, None => false
      end
  | SPrefix cs p rt =>
      if cs then is_prefix p s && smm rt (skipn (length p) s)
      else match pci p s with Some rest => smm rt rest | None => false end
  | SSuffix lf suf cs =>
      if cs then is_suffix suf s && smm lf (drop_suffix suf s)
      else match sci suf s with Some rest => smm lf rest | None => false end
  | SAnyNonEmpty nl => negb (isnil s) && (nl || negb (memZ 10 s))
  | SZeroOrOne nl => match s with [] => true | [c] => nl || negb (c =? 10) | _ => false end
  | SNoNL => negb (memZ 10 s)
  | STrue => true
  | SMultiSlice cs vs =>
      if cs then mask_ok vs s && mem_str s vs else existsb (fun v => equal_fold s v) vs
  | SMultiMap cs vs minp pres =>
      let vpart :=
        if isnil vs then None
        else if (minp =? 0) && cs && negb (mask_ok vs s) then Some false
        else if mem_str (if cs then s else norm_lower (enc s)) vs then Some true
        else None in
      match vpart with
      | Some b => b
      | None =>
          if (0 <? minp) && (minp <=? blen s) then
            let k := firstn (Z.to_nat minp) (enc s) in
            let k := if cs then k else norm_lower k in
            (* map lookup (keys are unique) and the loop over the matchers stored there *)
            existsb (fun p => match p with
                              | (k', ms) => str_eqb k' k && existsb (fun x => smm x s) ms
                              end) pres
          else false
      end
  end.

(* ---- optimizeAlternatingLiterals (on the pattern text) *)
Definition is_meta (c : Z) : bool := memZ c [92; 46; 43; 42; 63; 40; 41; 124; 91; 93; 123; 125; 94; 36].
Definition literal_str (s : str) : bool := negb (existsb is_meta s).

Fixpoint split_bar (s cur : str) : list str :=
  match s with
  | [] => [rev cur]
  | c :: t => if c =? 124 then rev cur :: split_bar t [] else split_bar t (c :: cur)
  end.

Fixpoint nodup_str (l : list (list Z)) : list (list Z) :=
  match l with
  | [] => []
  | x :: t => if mem_str x t then nodup_str t else x :: nodup_str t
  end.

(* multiStringMatcherBuilder.setMatches() *)
Definition multi_set_matches (m : sm) : list str :=
  match m with
  | SMultiSlice _ vs => vs
  | SMultiMap _ vs _ pres =>
      let d := nodup_str vs in
      if (max_set_matches <=? len d) || negb (isnil pres) then [] else d
  | _ => []
  end.

Definition optimize_alternating_literals (pat : str) : option (sm * list str) :=
  if isnil pat then Some (SEmpty, [])
  else
    let parts := split_bar pat [] in
    if len parts =? 1 then
      if literal_str pat then Some (SEqual pat true, [pat]) else None
    else if forallb literal_str parts then
      let m := new_multi true (len parts) parts in Some (m, multi_set_matches m)
    else None.

(* ---- NewFastRegexMatcher / compileMatchStringFunction *)
Record frm := mkFrm {
  f_re : option re;       (* the tree m.re is compiled from; None: never parsed *)
  f_set : list str;
  f_sm : option sm;
  f_ci : bool;
  f_prefix : str;
  f_suffix : str;
  f_contains : list str }.

Definition new_frm_gen (simple : re -> bool) (pat : str) (parsed : re) : frm :=
  match optimize_alternating_literals pat with
  | Some (m, set) => mkFrm None set (Some m) false [] [] []
  | None =>
      let p1 := optimize_alt_simple_contains parsed in
      let p2 := strip p1 in
      let '(p3, (ci, prefix, suffix, contains)) :=
        match p2 with
        | RConcat l => (RConcat (map strip l), optimize_concat l)
        | _ => (p2, (false, [], [], []))
        end in
      let '(matches, cs) := find_set_matches p3 in
      let p4 := clear_begin_end p3 in
      let set := if cs then matches else [] in
      let sm0 := if 1 <? len matches then Some (new_multi cs (len matches) matches) else None in
      let sm1 := match sm0 with
                 | Some _ => sm0
                 | None => if simple p4 then Some STrue else string_matcher_from_regexp p4
                 end in
      mkFrm (Some p1) set sm1 ci prefix suffix contains
  end.

Definition new_frm := new_frm_gen is_simple_concat.
Definition new_frm_old := new_frm_gen is_simple_concat_old.

Fixpoint contains_in_order_multi (s : str) (subs : list str) : bool :=
  match subs with
  | [] => true
  | x :: t => match after_first x s with Some rest => contains_in_order_multi rest t | None => false end
  end.
Definition contains_in_order (s : str) (subs : list str) : bool :=
  match subs with [x] => contains_str x s | _ => contains_in_order_multi s subs end.

Definition re_fallback (m : frm) (s : str) : bool :=
  match f_re m with Some r => re_match F r s | None => false end.

Definition match_string (m : frm) (s : str) : bool :=
  match f_set m with
  | [x] => str_eqb s x
  | _ =>
      if isnil (f_prefix m) && isnil (f_suffix m) && isnil (f_contains m) &&
         match f_sm m with Some _ => true | None => false end
      then match f_sm m with Some x => smm x s | None => false end
      else if f_ci m && negb (isnil (f_prefix m)) then
        match pci (f_prefix m) s with Some _ => re_fallback m s | None => false end
      else
        (isnil (f_prefix m) || is_prefix (f_prefix m) s) &&
        (isnil (f_suffix m) || is_suffix (f_suffix m) s) &&
        (isnil (f_contains m) || contains_in_order s (f_contains m)) &&
        match f_sm m with Some x => smm x s | None => re_fallback m s end
  end.

Definition set_matches (m : frm) : list str := f_set m.

End Oracles.

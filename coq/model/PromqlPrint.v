(* model/PromqlPrint.v — executable model of the PromQL printer (promql/parser/printer.go,
   Node.String) and of the part of the yacc grammar (generated_parser.y + the helper
   functions of parse.go) that reads printed expressions back, at TOKEN level (definitions only).

   Tokens are what the real lexer (lex.go) produces: an item kind plus a payload
     NUMBER   -> float64 bits of the parsed value          (strconv is an oracle: harness)
     DURATION -> nanoseconds of the parsed duration        (model.ParseDuration: harness)
     STRING   -> the unquoted bytes                        (strutil.Unquote / strconv.Quote: harness)
     words    -> their text (keywords keep their spelling, the grammar's maybe_label needs it)
   Not modelled: duration expressions (experimental flag), positions, the lexer's character
   level, checkAST's rejections (only its rewriting of VectorMatching is modelled). *)
From Coq Require Import List ZArith Bool NArith String Ascii.
Import ListNotations.
Open Scope Z_scope.

Definition str := list N.

Fixpoint seqb (a b : str) : bool :=
  match a, b with
  | [], [] => true
  | x :: a', y :: b' => N.eqb x y && seqb a' b'
  | _, _ => false
  end.

Fixpoint s2b (s : string) : str :=
  match s with
  | EmptyString => []
  | String c r => N_of_ascii c :: s2b r
  end.

(* words, as byte lists *)
Definition W___name__ : str := Eval vm_compute in s2b "__name__".
Definition W_anchored : str := Eval vm_compute in s2b "anchored".
Definition W_and : str := Eval vm_compute in s2b "and".
Definition W_atan2 : str := Eval vm_compute in s2b "atan2".
Definition W_avg : str := Eval vm_compute in s2b "avg".
Definition W_bool : str := Eval vm_compute in s2b "bool".
Definition W_bottomk : str := Eval vm_compute in s2b "bottomk".
Definition W_by : str := Eval vm_compute in s2b "by".
Definition W_count : str := Eval vm_compute in s2b "count".
Definition W_count_values : str := Eval vm_compute in s2b "count_values".
Definition W_end : str := Eval vm_compute in s2b "end".
Definition W_group : str := Eval vm_compute in s2b "group".
Definition W_group_left : str := Eval vm_compute in s2b "group_left".
Definition W_group_right : str := Eval vm_compute in s2b "group_right".
Definition W_ignoring : str := Eval vm_compute in s2b "ignoring".
Definition W_inf : str := Eval vm_compute in s2b "inf".
Definition W_limit_ratio : str := Eval vm_compute in s2b "limit_ratio".
Definition W_limitk : str := Eval vm_compute in s2b "limitk".
Definition W_max : str := Eval vm_compute in s2b "max".
Definition W_min : str := Eval vm_compute in s2b "min".
Definition W_offset : str := Eval vm_compute in s2b "offset".
Definition W_on : str := Eval vm_compute in s2b "on".
Definition W_or : str := Eval vm_compute in s2b "or".
Definition W_quantile : str := Eval vm_compute in s2b "quantile".
Definition W_smoothed : str := Eval vm_compute in s2b "smoothed".
Definition W_start : str := Eval vm_compute in s2b "start".
Definition W_stddev : str := Eval vm_compute in s2b "stddev".
Definition W_stdvar : str := Eval vm_compute in s2b "stdvar".
Definition W_sum : str := Eval vm_compute in s2b "sum".
Definition W_topk : str := Eval vm_compute in s2b "topk".
Definition W_unless : str := Eval vm_compute in s2b "unless".
Definition W_without : str := Eval vm_compute in s2b "without".
Definition W_fill : str := Eval vm_compute in s2b "fill".
Definition W_fill_left : str := Eval vm_compute in s2b "fill_left".
Definition W_fill_right : str := Eval vm_compute in s2b "fill_right".

(* ------------------------------------------------------------------ AST *)
Inductive binop := BOr | BAnd | BUnless | BEqlc | BNeq | BLte | BLss | BGte | BGtr | BTrimU | BTrimL
                 | BAdd | BSub | BMul | BDiv | BMod | BAtan2 | BPow.
Inductive aggop := ASum | AAvg | ACount | AMin | AMax | AGroup | AStddev | AStdvar | ATopk | ABottomk
                 | ACountValues | AQuantile | ALimitk | ALimitRatio.
Inductive mtype := MEq | MNeq | MRe | MNre.
Inductive atmod := AtNone | AtTs (ms : Z) | AtStart | AtEnd.
Inductive ext := XNone | XAnchored | XSmoothed.
Inductive card := COneToOne | CManyToOne | COneToMany | CManyToMany.
Inductive vtype := VScalar | VVector | VMatrix | VString | VNone.

Record matcher := mkM { m_name : str; m_type : mtype; m_val : str }.

(* VectorSelector. vs_ms are the matchers WITHOUT the implicit trailing __name__ matcher the
   parser appends for vs_name <> "" ; they are kept in the printer's order (sorted by rendered
   text: the harness canonicalises, matchers are a set). vs_off: nanoseconds, 0 = none. *)
Record vsel := mkVS { vs_name : str; vs_ms : list matcher; vs_at : atmod; vs_ext : ext; vs_off : Z }.

(* VectorMatching. fill values are float64 bits. *)
Record vmatch := mkVM { vm_card : card; vm_on : bool; vm_labels : list str; vm_include : list str;
                        vm_fl : option Z; vm_fr : option Z }.

Inductive expr :=
| ENum (bits : Z)                       (* NumberLiteral, Duration = false *)
| EDurLit (neg : bool) (ns : Z)         (* NumberLiteral, Duration = true: |Val| in ns *)
| EStr (s : str)
| EVS (v : vsel)
| EMat (v : vsel) (rng : Z)
| ESub (e : expr) (rng step : Z) (at_ : atmod) (off : Z)
| ECall (f : str) (args : list expr)
| EAgg (op : aggop) (without : bool) (grp : list str) (param : option expr) (e : expr)
| EBin (op : binop) (rb : bool) (vm : option vmatch) (l r : expr)
| EUn (neg : bool) (e : expr)
| EParen (e : expr).

(* ------------------------------------------------------------------ tokens *)
Inductive kind :=
| KNUM | KDUR | KSTR | KID | KMID
| KLP | KRP | KLB | KRB | KLK | KRK | KCOMMA | KCOLON | KAT
| KEQL | KEQLRE | KNEQRE
| KOP (o : binop) | KAGG (a : aggop)
| KBOOL | KBY | KWITHOUT | KON | KIGNORING | KGROUPL | KGROUPR | KFILL | KFILLL | KFILLR
| KOFFSET | KANCHORED | KSMOOTHED | KSTART | KEND | KSTEP | KRANGE | KMAXOF | KMINOF
| KOTHER.

Record tok := mkT { tk : kind; tx : str; tz : Z }.

Definition T (k : kind) : tok := mkT k [] 0.
Definition TW (k : kind) (s : str) : tok := mkT k s 0.   (* word-like token with its text *)
Definition TN (bits : Z) : tok := mkT KNUM [] bits.
Definition TD (ns : Z) : tok := mkT KDUR [] ns.
Definition TS (s : str) : tok := mkT KSTR s 0.

(* ------------------------------------------------------------------ float64 bit helpers *)
Definition sign_bit : Z := 9223372036854775808.      (* 2^63 *)
Definition inf_bits : Z := 9218868437227405312.      (* 0x7FF0000000000000 *)
Definition nan_bits : Z := 9221120237041090561.      (* 0x7FF8000000000001, Go's math.NaN(); harness canonicalises every NaN to it *)
Definition is_nan (b : Z) : bool := b =? nan_bits.
Definition is_negf (b : Z) : bool := (sign_bit <=? b) && negb (is_nan b).
(* Val *= -1 *)
Definition fneg (b : Z) : Z := if is_nan b then b else if sign_bit <=? b then b - sign_bit else b + sign_bit.
Definition fabs (b : Z) : Z := if is_negf b then b - sign_bit else b.

(* ------------------------------------------------------------------ lexing of a bare word *)
Definition lower (c : N) : N := if (N.leb 65 c && N.leb c 90)%bool then (c + 32)%N else c.

Definition kwtab : list (string * kind) :=
  [("and", KOP BAnd); ("or", KOP BOr); ("unless", KOP BUnless); ("atan2", KOP BAtan2);
   ("sum", KAGG ASum); ("avg", KAGG AAvg); ("count", KAGG ACount); ("min", KAGG AMin); ("max", KAGG AMax);
   ("group", KAGG AGroup); ("stddev", KAGG AStddev); ("stdvar", KAGG AStdvar); ("topk", KAGG ATopk);
   ("bottomk", KAGG ABottomk); ("count_values", KAGG ACountValues); ("quantile", KAGG AQuantile);
   ("limitk", KAGG ALimitk); ("limit_ratio", KAGG ALimitRatio);
   ("offset", KOFFSET); ("smoothed", KSMOOTHED); ("anchored", KANCHORED); ("by", KBY); ("without", KWITHOUT);
   ("on", KON); ("ignoring", KIGNORING); ("group_left", KGROUPL); ("group_right", KGROUPR);
   ("bool", KBOOL); ("start", KSTART); ("end", KEND); ("step", KSTEP); ("range", KRANGE);
   ("max_of", KMAXOF); ("min_of", KMINOF); ("inf", KNUM); ("nan", KNUM)]%string.
(* fill / fill_left / fill_right are keywords only when followed by "(" (lexKeywordOrIdentifier);
   a printed label is followed by "," or ")" so they lex as IDENTIFIER there. *)

Definition kwtab_b : list (str * kind) := Eval vm_compute in map (fun p => (s2b (fst p), snd p)) kwtab.
Fixpoint kw_lookup (w : str) (t : list (str * kind)) : option kind :=
  match t with
  | [] => None
  | (s, k) :: t' => if seqb w s then Some k else kw_lookup w t'
  end.

Definition has_colon (w : str) : bool := existsb (N.eqb 58) w.

(* lexKeywordOrIdentifier on a whole word (outside braces and brackets) *)
Definition lex_word (w : str) : tok :=
  match kw_lookup (map lower w) kwtab_b with
  | Some KNUM => mkT KNUM [] (if seqb (map lower w) W_inf then inf_bits else nan_bits)
  | Some k => TW k w
  | None => if has_colon w then TW KMID w else TW KID w
  end.

(* model.LegacyValidation.IsValidLabelName / Matcher.shouldQuoteName: [a-zA-Z_][a-zA-Z0-9_]* *)
Definition is_alpha_ (c : N) : bool :=
  (N.eqb c 95 || (N.leb 97 c && N.leb c 122) || (N.leb 65 c && N.leb c 90))%bool.
Definition is_digit (c : N) : bool := (N.leb 48 c && N.leb c 57)%bool.
Definition legacy_label (s : str) : bool :=
  match s with
  | [] => false
  | c :: r => is_alpha_ c && forallb (fun c => is_alpha_ c || is_digit c) r
  end.

(* ------------------------------------------------------------------ float oracles
   Three conversions go through float64 in the real code and are NOT modelled; they are tables
   (identity where no entry) written by the harness with the real library functions:
     o_drt  duration position (offset, range, step): ns of the DURATION item -> ns the parser stores,
            time.Duration(math.Round(dur.Seconds()*1e9))            (used by the parser model)
     o_dlp  duration literal: |Val| in ns -> ns printed by model.Duration(Val*1e9).String()
     o_tsp  @ timestamp: |ms| -> ms read back from the "%.3f" text of float64(ms)/1000 *)
Record orc := mkOrc { o_drt : list (Z * Z); o_dlp : list (Z * Z); o_tsp : list (Z * Z) }.
Fixpoint olook (t : list (Z * Z)) (x : Z) : Z :=
  match t with [] => x | (k, v) :: t' => if k =? x then v else olook t' x end.
Definition orc_id : orc := mkOrc [] [] [].

(* ------------------------------------------------------------------ the printer *)
(* strconv.FormatFloat(v,'f',-1,64) / fmt %v as tokens: "-x" -> SUB NUMBER, "+Inf" -> ADD NUMBER *)
Definition print_num (b : Z) : list tok :=
  if is_negf b then [T (KOP BSub); TN (b - sign_bit)]
  else if b =? inf_bits then [T (KOP BAdd); TN b]
  else [TN b].

(* model.Duration(d).String(): millisecond resolution, truncating *)
Definition trunc_ms (ns : Z) : Z := Z.quot ns 1000000 * 1000000.

(* writeLabels *)
Definition print_label (s : str) : tok := if legacy_label s then lex_word s else TS s.
Fixpoint commas (l : list (list tok)) : list tok :=
  match l with
  | [] => []
  | [x] => x
  | x :: r => x ++ T KCOMMA :: commas r
  end.
Definition print_labels (l : list str) : list tok := commas (map (fun s => [print_label s]) l).

Definition mtype_tok (t : mtype) : tok :=
  match t with MEq => T KEQL | MNeq => T (KOP BNeq) | MRe => T KEQLRE | MNre => T KNEQRE end.

(* labels.Matcher.String: inside braces every bare word is an IDENTIFIER *)
Definition print_matcher (m : matcher) : list tok :=
  [(if legacy_label (m_name m) then TW KID (m_name m) else TS (m_name m)); mtype_tok (m_type m); TS (m_val m)].

Definition name_label : str := W___name__.
Definition is_name_matcher (name : str) (m : matcher) : bool :=
  seqb (m_name m) name_label && (match m_type m with MEq => true | _ => false end)
  && seqb (m_val m) name && negb (match m_val m with [] => true | _ => false end).

Definition print_at (oc : orc) (a : atmod) : list tok :=
  match a with
  | AtNone => []
  | AtTs ms => T KAT :: (if ms <? 0 then [T (KOP BSub); mkT KNUM [] (olook (o_tsp oc) (- ms))] else [mkT KNUM [] (olook (o_tsp oc) ms)])
  | AtStart => [T KAT; TW KSTART W_start; T KLP; T KRP]
  | AtEnd => [T KAT; TW KEND W_end; T KLP; T KRP]
  end.
(* NB: the NUMBER token after "@" carries |milliseconds| (harness: round(value*1000)) instead of
   float bits — "%.3f" and timestamp.FromFloatSeconds are float oracles. *)

Definition print_ext (x : ext) : list tok :=
  match x with XNone => [] | XAnchored => [TW KANCHORED W_anchored] | XSmoothed => [TW KSMOOTHED W_smoothed] end.

Definition print_off (off : Z) : list tok :=
  if 0 <? off then [TW KOFFSET W_offset; TD (trunc_ms off)]
  else if off <? 0 then [TW KOFFSET W_offset; T (KOP BSub); TD (trunc_ms (- off))]
  else [].

(* VectorSelector.String without its modifiers *)
Definition print_vs_base (v : vsel) : list tok :=
  let ms := filter (fun m => negb (is_name_matcher (vs_name v) m)) (vs_ms v) in
  (match vs_name v with [] => [] | n => [lex_word n] end) ++
  (match ms with [] => [] | _ => T KLK :: commas (map print_matcher ms) ++ [T KRK] end).

Definition print_vs (oc : orc) (v : vsel) : list tok :=
  print_vs_base v ++ print_at oc (vs_at v) ++ print_ext (vs_ext v) ++ print_off (vs_off v).

Definition binop_word (o : binop) : str :=
  match o with BAnd => W_and | BOr => W_or | BUnless => W_unless | BAtan2 => W_atan2 | _ => [] end.
Definition op_tok (o : binop) : tok := TW (KOP o) (binop_word o).

Definition aggop_word (a : aggop) : str :=
  match a with
  | ASum => W_sum | AAvg => W_avg | ACount => W_count | AMin => W_min | AMax => W_max
  | AGroup => W_group | AStddev => W_stddev | AStdvar => W_stdvar | ATopk => W_topk
  | ABottomk => W_bottomk | ACountValues => W_count_values | AQuantile => W_quantile
  | ALimitk => W_limitk | ALimitRatio => W_limit_ratio
  end.
Definition agg_has_param (a : aggop) : bool :=
  match a with ATopk | ABottomk | ACountValues | AQuantile | ALimitk | ALimitRatio => true | _ => false end.

Definition fill_tok (k : kind) (w : str) (b : Z) : list tok :=
  TW k w :: T KLP :: print_num b ++ [T KRP].

(* BinaryExpr.getMatchingStr *)
Definition print_matching (vm : option vmatch) : list tok :=
  match vm with
  | None => []
  | Some m =>
      let grouped := match vm_card m with CManyToOne | COneToMany => true | _ => false end in
      (if (match vm_labels m with [] => false | _ => true end) || vm_on m || grouped
       then (if vm_on m then TW KON W_on else TW KIGNORING W_ignoring) :: T KLP :: print_labels (vm_labels m) ++ [T KRP]
       else []) ++
      (if grouped
       then (match vm_card m with CManyToOne => TW KGROUPL W_group_left | _ => TW KGROUPR W_group_right end)
            :: T KLP :: print_labels (vm_include m) ++ [T KRP]
       else []) ++
      (match vm_fl m, vm_fr m with
       | Some a, Some b =>
           (* *LHS == *RHS on float64: NaN differs from itself, +0 == -0 *)
           if (negb (is_nan a)) && ((a =? b) || ((fabs a =? 0) && (fabs b =? 0)))
           then fill_tok KFILL W_fill a
           else fill_tok KFILLL W_fill_left a ++ fill_tok KFILLR W_fill_right b
       | Some a, None => fill_tok KFILLL W_fill_left a
       | None, Some b => fill_tok KFILLR W_fill_right b
       | None, None => []
       end)
  end.

Definition print_range (rng : Z) : tok := TD (trunc_ms rng).

Section Print.
Variable oc : orc.
Fixpoint print (e : expr) : list tok :=
  match e with
  | ENum b => print_num b
  | EDurLit neg ns => if neg then [T (KOP BSub); TD (olook (o_dlp oc) ns)] else [TD (olook (o_dlp oc) ns)]
  | EStr s => [TS s]
  | EVS v => print_vs oc v
  | EMat v rng =>
      print_vs_base v ++ [T KLB; print_range rng; T KRB] ++ print_ext (vs_ext v) ++ print_at oc (vs_at v) ++ print_off (vs_off v)
  | ESub e rng step a off =>
      print e ++ [T KLB; print_range rng; T KCOLON] ++ (if step =? 0 then [] else [TD (trunc_ms step)]) ++ [T KRB]
      ++ print_at oc a ++ print_off off
  | ECall f args =>
      lex_word f :: T KLP :: commas (map print args) ++ [T KRP]
  | EAgg op wo grp param e =>
      TW (KAGG op) (aggop_word op) ::
      (if wo then TW KWITHOUT W_without :: T KLP :: print_labels grp ++ [T KRP]
       else match grp with [] => [] | _ => TW KBY W_by :: T KLP :: print_labels grp ++ [T KRP] end) ++
      T KLP :: (match param with Some p => if agg_has_param op then print p ++ [T KCOMMA] else [] | None => [] end)
      ++ print e ++ [T KRP]
  | EBin op rb vm l r =>
      print l ++ op_tok op :: (if rb then [TW KBOOL W_bool] else []) ++ print_matching vm ++ print r
  | EUn neg e => T (KOP (if neg then BSub else BAdd)) :: print e
  | EParen e => T KLP :: print e ++ [T KRP]
  end.

(* Prettify (prettier.go): the same text with different white space. [split] is the oracle
   needsSplit (len(String()) > 100). Tokens and white-space markers. *)
Inductive ptok := PT (t : tok) | PWS.
Definition pts (l : list tok) : list ptok := map PT l.
Fixpoint strip_ws (l : list ptok) : list tok :=
  match l with [] => [] | PT t :: r => t :: strip_ws r | PWS :: r => strip_ws r end.

Fixpoint pcommas (l : list (list ptok)) : list ptok :=
  match l with
  | [] => []
  | [x] => x
  | x :: r => x ++ PT (T KCOMMA) :: PWS :: pcommas r
  end.

  Variable split : expr -> bool.
  Fixpoint pretty (e : expr) : list ptok :=
    PWS ::
    match e with
    | EAgg op wo grp param e1 =>
        if split e then
          pts (TW (KAGG op) (aggop_word op) ::
               (if wo then TW KWITHOUT W_without :: T KLP :: print_labels grp ++ [T KRP]
                else match grp with [] => [] | _ => TW KBY W_by :: T KLP :: print_labels grp ++ [T KRP] end))
          ++ PT (T KLP) :: PWS ::
          (match param with Some p => if agg_has_param op then pretty p ++ [PT (T KCOMMA); PWS] else [] | None => [] end)
          ++ pretty e1 ++ [PWS; PT (T KRP)]
        else pts (print e)
    | EBin op rb vm l r =>
        if split e then
          pretty l ++ PWS :: pts (op_tok op :: (if rb then [TW KBOOL W_bool] else []) ++ print_matching vm) ++ PWS :: pretty r
        else pts (print e)
    | ECall f args =>
        if split e then PT (lex_word f) :: PT (T KLP) :: PWS :: pcommas (map pretty args) ++ [PWS; PT (T KRP)]
        else pts (print e)
    | EParen e1 =>
        if split e then PT (T KLP) :: PWS :: pretty e1 ++ [PWS; PT (T KRP)] else pts (print e)
    | ESub e1 rng step a off =>
        if split e then
          pretty e1 ++ pts ([T KLB; print_range rng; T KCOLON] ++ (if step =? 0 then [] else [TD (trunc_ms step)]) ++ [T KRB]
                           ++ print_at oc a ++ print_off off)
        else pts (print e)
    | EUn neg e1 => PT (T (KOP (if neg then BSub else BAdd))) :: pretty e1
    | _ => pts (print e)
    end.
End Print.

(* model/TsdbSpec.v — the FLAT specification of the TSDB as seen by queries (property C01).
   Definitions only.  A state maps every series id to the list of its live samples: the samples
   whose append was acknowledged, in acknowledgement order, minus those removed by a later
   Delete.  A query returns, per selected series, the strictly increasing timestamps in range
   that carry a live sample, each with the list of values stored at it (the implementation must
   return exactly these timestamps, each with ONE of these values). *)
From Coq Require Import List ZArith Bool.
Import ListNotations.
Open Scope Z_scope.

Definition sid := Z.
Record sample := mkS { st : Z; sv : Z }.   (* timestamp, value (an integer code of the float) *)

Definition sstate := sid -> list sample.
Definition sempty : sstate := fun _ => [].

Definition memZ (x : Z) (l : list Z) : bool := existsb (Z.eqb x) l.
Definition in_rng (mint maxt t : Z) : bool := (mint <=? t) && (t <=? maxt).

Inductive sop :=
| SAck (l : list (sid * sample))            (* one committed transaction: the acknowledged samples *)
| SDelete (mint maxt : Z) (sel : list sid)  (* Delete(mint, maxt, matchers) ; sel = matching series *)
| SNop.                                      (* compactions, tombstone cleaning, restart *)

Definition ack1 (sp : sstate) (x : sid * sample) : sstate :=
  fun i => if i =? fst x then sp i ++ [snd x] else sp i.

Definition spec_step (sp : sstate) (o : sop) : sstate :=
  match o with
  | SAck l => fold_left ack1 l sp
  | SDelete mint maxt sel =>
      fun i => if memZ i sel then filter (fun x => negb (in_rng mint maxt (st x))) (sp i) else sp i
  | SNop => sp
  end.

Definition spec_run (ops : list sop) : sstate := fold_left spec_step ops sempty.

(* ---- queries ---- *)
(* insertion into a strictly increasing list, dropping duplicates *)
Fixpoint ins (t : Z) (l : list Z) : list Z :=
  match l with
  | [] => [t]
  | u :: r => if t <? u then t :: l else if t =? u then l else u :: ins t r
  end.
Definition sort_uniq (l : list Z) : list Z := fold_right ins [] l.

Definition vals_at (l : list sample) (t : Z) : list Z :=
  map sv (filter (fun x => st x =? t) l).

(* the answer for one series given the list of its candidate samples (already restricted to
   what is visible): strictly increasing timestamps, each with all candidate values *)
Definition series_answer (l : list sample) : list (Z * list Z) :=
  map (fun t => (t, vals_at l t)) (sort_uniq (map st l)).

Definition answer := list (sid * list (Z * list Z)).

(* sel is the list of selected series ids (the harness passes them sorted, without duplicates);
   a series without a sample in range is absent *)
Definition query_of (cands : sid -> list sample) (mint maxt : Z) (sel : list sid) : answer :=
  flat_map (fun i =>
     let l := filter (fun x => in_rng mint maxt (st x)) (cands i) in
     match l with [] => [] | _ => [(i, series_answer l)] end) sel.

Definition spec_query (sp : sstate) (mint maxt : Z) (sel : list sid) : answer :=
  query_of sp mint maxt sel.

(* what it means for an observed result (one value per timestamp) to be a correct answer:
   same series, same timestamps in the same (increasing) order, each value one of the candidates *)
Fixpoint pts_ok (obs : list (Z * Z)) (want : list (Z * list Z)) : bool :=
  match obs, want with
  | [], [] => true
  | (t, v) :: o', (t', vs) :: w' => (t =? t') && memZ v vs && pts_ok o' w'
  | _, _ => false
  end.
Fixpoint answer_ok (obs : list (sid * list (Z * Z))) (want : answer) : bool :=
  match obs, want with
  | [], [] => true
  | (i, o) :: obs', (j, w) :: want' => (i =? j) && pts_ok o w && answer_ok obs' want'
  | _, _ => false
  end.

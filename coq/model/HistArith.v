(* model/HistArith.v — executable model of native-histogram arithmetic (C31).
   Anchors: /repo/model/histogram/{float_histogram.go,histogram.go,generic.go}.

   Representation.
   * Counts are integers (Z): the harness only generates integer-valued float64 counts below
     2^53, for which float64 addition is exact; the Kahan compensation terms are then all 0.
   * A bucket layout (spans + bucket slice) is expanded into the list of its buckets
     (absolute index, count), in slice order: `expand`.  All operations are modelled on this
     "absolute bucket list" (including explicitly present zero-count buckets), which is the
     observable the property talks about (the bucket map index -> count).
   * An exponential bucket boundary 2^(idx * 2^-schema) and a zero threshold are compared
     through an order embedding into Z: the position on the schema-8 grid in half steps,
     `bcode idx s = 2 * idx * 2^(8-s)`; a threshold strictly between two schema-8 boundaries p
     and p+1 has code 2p+1 (the harness only generates one such threshold per gap, so the code
     is injective on what it generates), the threshold 0 is `T0` (below every boundary).
   * Custom bucket bounds are integers (integer-valued floats in the harness). *)
From Coq Require Import List ZArith Bool.
Import ListNotations.
Open Scope Z_scope.

(* ---------- basic types ---------- *)

Record span := mkSpan { s_off : Z; s_len : Z }.           (* Span{Offset int32, Length uint32} *)
Definition bkt := (Z * Z)%type.                             (* absolute bucket index, count *)

Inductive err :=
| ESpanNegOffset        (* ErrHistogramSpanNegativeOffset *)
| ESpansBucketsMismatch (* ErrHistogramSpansBucketsMismatch *)
| EIncompatible         (* ErrHistogramsIncompatibleSchema *)
| EReduceArgs           (* the three "programming error" returns of ReduceResolution *)
| EPanic                (* a Go panic *)
| EFuel.                (* model loop ran out of fuel: never happens, excluded by theorems *)

Inductive res (A : Type) := Ok (a : A) | Err (e : err).
Arguments Ok {A} _.
Arguments Err {A} _.

Definition err_eqb (a b : err) : bool :=
  match a, b with
  | ESpanNegOffset, ESpanNegOffset | ESpansBucketsMismatch, ESpansBucketsMismatch
  | EIncompatible, EIncompatible | EReduceArgs, EReduceArgs | EPanic, EPanic | EFuel, EFuel => true
  | _, _ => false
  end.

Inductive thr := T0 | TC (c : Z).

Definition thr_eqb (a b : thr) : bool :=
  match a, b with T0, T0 => true | TC x, TC y => x =? y | _, _ => false end.
Definition thr_ltb (a b : thr) : bool :=
  match a, b with T0, T0 => false | T0, TC _ => true | TC _, T0 => false | TC x, TC y => x <? y end.
Definition thr_leb (a b : thr) : bool := negb (thr_ltb b a).

Definition customSchema : Z := -53.
Definition is_custom (s : Z) : bool := s =? customSchema.
Definition is_exp (s : Z) : bool := (-4 <=? s) && (s <=? 8).

(* getBoundExponential(idx, schema) as a threshold code *)
Definition bcode (idx s : Z) : Z := Z.shiftl (2 * idx) (8 - s).
Definition upper (idx s : Z) : thr := TC (bcode idx s).          (* absolute upper bound of bucket idx *)
Definition lower (idx s : Z) : thr := TC (bcode (idx - 1) s).    (* absolute lower bound *)

(* ---------- spans -> absolute bucket list ---------- *)

Fixpoint take_span (idx : Z) (n : nat) (bs : list Z) : option (list bkt * list Z) :=
  match n with
  | O => Some ([], bs)
  | S n' => match bs with
            | [] => None
            | b :: bs' => match take_span (idx + 1) n' bs' with
                          | Some (l, r) => Some ((idx, b) :: l, r)
                          | None => None
                          end
            end
  end.

(* the checks are those of reduceResolution / checkHistogramSpans, in the same order *)
Fixpoint expand_from (first : bool) (idx : Z) (sp : list span) (bs : list Z) : res (list bkt) :=
  match sp with
  | [] => match bs with [] => Ok [] | _ => Err ESpansBucketsMismatch end
  | s :: sp' =>
      if negb first && (s_off s <? 0) then Err ESpanNegOffset else
      let n := Z.to_nat (s_len s) in
      match take_span (idx + s_off s) n bs with
      | None => Err ESpansBucketsMismatch
      | Some (l, r) =>
          match expand_from false (idx + s_off s + Z.of_nat n) sp' r with
          | Ok l' => Ok (l ++ l')
          | Err e => Err e
          end
      end
  end.
Definition expand (sp : list span) (bs : list Z) : res (list bkt) := expand_from true 0 sp bs.

(* the bucket map: total count recorded for index t *)
Fixpoint total (l : list bkt) (t : Z) : Z :=
  match l with
  | [] => 0
  | b :: l' => if fst b =? t then snd b + total l' t else total l' t
  end.
Definition sumc (l : list bkt) : Z := fold_right (fun b s => snd b + s) 0 l.
Definition nonzero (b : bkt) : bool := negb (snd b =? 0).

(* ---------- targetIdx / reduceResolution (absolute counts) ---------- *)

(* ((idx - 1) >> (origin - target)) + 1 ; Go's >> on int32 is arithmetic = floor *)
Definition target_idx (idx k : Z) : Z := Z.shiftr (idx - 1) k + 1.
Definition retarget (k : Z) (l : list bkt) : list bkt := map (fun b => (target_idx (fst b) k, snd b)) l.

(* one iteration of the inner loop of reduceResolution (deltaBuckets=false); acc is the list of
   target buckets so far, last one first.  The Go `switch` has four cases and no default: a
   bucket whose target index is smaller than the last one matches none and is dropped. *)
Definition reduce_step (k : Z) (acc : list bkt) (b : bkt) : list bkt :=
  let t := target_idx (fst b) k in
  match acc with
  | [] => [(t, snd b)]                                   (* len(targetSpans) == 0 *)
  | (lt, lc) :: acc' =>
      if lt =? t then (lt, lc + snd b) :: acc'           (* merge into the same target bucket *)
      else if lt + 1 <=? t then (t, snd b) :: acc        (* adjacent, or behind a gap: new bucket *)
      else acc                                            (* no case: dropped *)
  end.
Definition reduce_abs (k : Z) (l : list bkt) : list bkt := rev (fold_left (reduce_step k) l []).

(* ---------- compactBuckets ---------- *)

Fixpoint zeros_from (from : Z) (n : nat) : list bkt :=
  match n with O => [] | S n' => (from, 0) :: zeros_from (from + 1) n' end.

(* gaps (absent indices) of at most k between two kept buckets are filled with empty buckets *)
Fixpoint fill (k : Z) (l : list bkt) : list bkt :=
  match l with
  | [] => []
  | b :: l' =>
      b :: (match l' with
            | [] => []
            | b' :: _ => let g := fst b' - fst b - 1 in
                         if (0 <? g) && (g <=? k) then zeros_from (fst b + 1) (Z.to_nat g) else []
            end) ++ fill k l'
  end.

(* Result of compactBuckets(maxEmptyBuckets = k) as a bucket list: all empty buckets at the
   start/end of spans and all runs of more than k empty buckets are cut; runs/gaps of at most k
   between populated buckets are (kept as / turned into) explicit empty buckets. *)
Definition compact_abs (k : Z) (l : list bkt) : list bkt := fill k (filter nonzero l).

(* ---------- addBuckets / kahanAddBuckets (integer counts) ---------- *)

Definition scale (sgn : Z) (l : list bkt) : list bkt := map (fun b => (fst b, sgn * snd b)) l.

Fixpoint merge_add (sgn : Z) (la : list bkt) : list bkt -> list bkt :=
  match la with
  | [] => fun lb => scale sgn lb
  | a :: la' =>
      fix inner (lb : list bkt) : list bkt :=
        match lb with
        | [] => la
        | b :: lb' =>
            if fst a <? fst b then a :: merge_add sgn la' lb
            else if fst a =? fst b then (fst a, snd a + sgn * snd b) :: merge_add sgn la' lb'
            else (fst b, sgn * snd b) :: inner lb'
        end
  end.

(* "Buckets in spansB with an absolute upper limit <= threshold are ignored" — only a leading
   run (lowerThanThreshold flag), only for exponential schemas. *)
Definition bound_le (idx s : Z) (t : thr) : bool := thr_leb (upper idx s) t.
Fixpoint dropwhile {A} (f : A -> bool) (l : list A) : list A :=
  match l with [] => [] | x :: l' => if f x then dropwhile f l' else l end.
Definition drop_below (s : Z) (t : thr) (l : list bkt) : list bkt :=
  if is_exp s then dropwhile (fun b => bound_le (fst b) s t) l else l.

(* ---------- histograms ---------- *)

Record rawfh := mkRF { r_hint : Z; r_schema : Z; r_zt : thr; r_zc : Z; r_cnt : Z; r_sum : Z;
                       r_ps : list span; r_pb : list Z; r_ns : list span; r_nb : list Z;
                       r_cv : list Z }.

Record fh := mkH { hint : Z; schema : Z; zt : thr; zc : Z; cnt : Z; sum : Z;
                   pos : list bkt; neg : list bkt; cv : list Z }.

Definition abs_of_raw (r : rawfh) : res fh :=
  match expand (r_ps r) (r_pb r) with
  | Err e => Err e
  | Ok p => match expand (r_ns r) (r_nb r) with
            | Err e => Err e
            | Ok n => Ok (mkH (r_hint r) (r_schema r) (r_zt r) (r_zc r) (r_cnt r) (r_sum r) p n (r_cv r))
            end
  end.

(* ---------- zeroCountForLargerThreshold / trimBucketsInZeroBucket / reconcileZeroBuckets ---------- *)

(* one side of the scan: buckets are added to the zero count until one starts at or above T;
   a bucket that T cuts through ends the scan and, if populated, moves T to its far bound *)
Fixpoint scan_side (s : Z) (T : thr) (l : list bkt) (acc : Z) : Z * option thr :=
  match l with
  | [] => (acc, None)
  | (i, c) :: l' =>
      if thr_leb T (lower i s) then (acc, None)                 (* b.Lower >= largerThreshold *)
      else let acc' := acc + c in
           if thr_ltb T (upper i s)                             (* b.Upper > largerThreshold *)
           then (acc', if c =? 0 then None else Some (upper i s))
           else scan_side s T l' acc'
  end.

Fixpoint zcflt_loop (fuel : nat) (h : fh) (T : thr) : res (Z * thr) :=
  match fuel with
  | O => Err EFuel
  | S f =>
      let '(z1, adj1) := scan_side (schema h) T (pos h) (zc h) in
      let T1 := match adj1 with Some t => t | None => T end in
      let '(z2, adj2) := scan_side (schema h) T1 (neg h) z1 in
      match adj2 with
      | Some t => zcflt_loop f h t                              (* continue outer *)
      | None => Ok (z2, T1)
      end
  end.

Definition zcflt (h : fh) (T : thr) : res (Z * thr) :=
  if thr_eqb T (zt h) then Ok (zc h, T)
  else if thr_ltb T (zt h) then Err EPanic
  else zcflt_loop (S (length (neg h))) h T.

Fixpoint trim_side (s : Z) (T : thr) (l : list bkt) : list bkt :=
  match l with
  | [] => []
  | (i, c) :: l' => if thr_leb T (lower i s) then l else (i, 0) :: trim_side s T l'
  end.

(* set the buckets inside the zero bucket to 0, then Compact(0) *)
Definition trim (h : fh) : fh :=
  mkH (hint h) (schema h) (zt h) (zc h) (cnt h) (sum h)
      (compact_abs 0 (trim_side (schema h) (zt h) (pos h)))
      (compact_abs 0 (trim_side (schema h) (zt h) (neg h))) (cv h).

Definition set_zero (h : fh) (z : Z) (t : thr) : fh :=
  mkH (hint h) (schema h) t z (cnt h) (sum h) (pos h) (neg h) (cv h).

(* returns the modified receiver and the zero count of `other` for the common threshold *)
Fixpoint reconcile_loop (fuel : nat) (h o : fh) (oz : Z) (ot : thr) : res (fh * Z) :=
  if thr_eqb ot (zt h) then Ok (h, oz) else
  match fuel with
  | O => Err EFuel
  | S f =>
      match (if thr_ltb ot (zt h) then zcflt o (zt h) else Ok (oz, ot)) with
      | Err e => Err e
      | Ok (oz1, ot1) =>
          if thr_ltb (zt h) ot1 then
            match zcflt h ot1 with
            | Err e => Err e
            | Ok (hz, ht) => reconcile_loop f (trim (set_zero h hz ht)) o oz1 ot1
            end
          else reconcile_loop f h o oz1 ot1
      end
  end.

Definition reconcile (h o : fh) : res (fh * Z) :=
  reconcile_loop (length (pos h) + length (neg h) + length (pos o) + length (neg o) + 3)%nat
                 h o (zc o) (zt o).

(* ---------- custom buckets with mismatched bounds ---------- *)

Fixpoint list_eqb (a b : list Z) : bool :=
  match a, b with
  | [], [] => true
  | x :: a', y :: b' => (x =? y) && list_eqb a' b'
  | _, _ => false
  end.

Fixpoint intersect_fuel (fuel : nat) (a b : list Z) : list Z :=
  match fuel with
  | O => []
  | S f => match a, b with
           | x :: a', y :: b' => if x =? y then x :: intersect_fuel f a' b'
                                 else if x <? y then intersect_fuel f a' b else intersect_fuel f a b'
           | _, _ => []
           end
  end.
Definition intersect (a b : list Z) : list Z := intersect_fuel (length a + length b) a b.

(* upper bound of custom bucket idx; None = +Inf *)
Definition cbound (bounds : list Z) (idx : Z) : option Z :=
  if (0 <=? idx) && (idx <? Z.of_nat (length bounds)) then nth_error bounds (Z.to_nat idx) else None.

Fixpoint find_ge (inter : list Z) (x : Z) (p : Z) : option Z :=
  match inter with
  | [] => None
  | y :: r => if x <=? y then Some p else find_ge r x (p + 1)
  end.

(* index of the bucket in the intersected layout that source bucket idx is added to *)
Definition map_idx (inter bounds : list Z) (idx : Z) : Z :=
  match cbound bounds idx with
  | None => Z.of_nat (length inter)
  | Some sb => match find_ge inter sb 0 with Some p => p | None => Z.of_nat (length inter) end
  end.
Definition remap (inter bounds : list Z) (l : list bkt) : list bkt :=
  map (fun b => (map_idx inter bounds (fst b), snd b)) l.

Fixpoint zrange (from : Z) (n : nat) : list Z :=
  match n with O => [] | S n' => from :: zrange (from + 1) n' end.

(* addCustomBucketsWithMismatches: both mapped onto the intersected layout; zero-valued target
   buckets are left out of the result *)
Definition add_mism (sgn : Z) (la : list bkt) (ba : list Z) (lb : list bkt) (bb : list Z)
           (inter : list Z) : list bkt :=
  let ma := remap inter ba la in
  let mb := remap inter bb lb in
  filter nonzero (map (fun t => (t, total ma t + sgn * total mb t))
                      (zrange 0 (S (length inter)))).

(* ---------- Add / Sub / KahanAdd ---------- *)

(* adjustCounterReset: hints 0 unknown, 1 reset, 2 not-reset, 3 gauge *)
Definition adjust_hint (h o : Z) : Z * bool :=
  if o =? h then (h, false)
  else if h =? 3 then (h, false)
  else if o =? 3 then (3, false)
  else if h =? 0 then (h, false)
  else if o =? 0 then (0, false)
  else (0, true).

Record arith_out := mkAO { ao_h : fh; ao_collision : bool; ao_reconciled : bool }.

Definition idx_nonneg (l : list bkt) : bool := forallb (fun b => 0 <=? fst b) l.

(* sgn = 1: Add and KahanAdd (compensation is identically 0 on integer counts); sgn = -1: Sub *)
Definition arith (sgn : Z) (h o : fh) : res arith_out :=
  if xorb (is_custom (schema h)) (is_custom (schema o)) then Err EIncompatible else
  let '(hint', coll) := adjust_hint (hint h) (hint o) in
  if is_custom (schema h) then
    if negb (idx_nonneg (pos h) && idx_nonneg (pos o)) then Err EPanic else
    if list_eqb (cv h) (cv o) then
      Ok (mkAO (mkH hint' (schema h) (zt h) (zc h) (cnt h + sgn * cnt o) (sum h + sgn * sum o)
                    (merge_add sgn (pos h) (drop_below (schema h) (zt h) (pos o))) (neg h) (cv h))
               coll false)
    else
      let inter := intersect (cv h) (cv o) in
      Ok (mkAO (mkH hint' (schema h) (zt h) (zc h) (cnt h + sgn * cnt o) (sum h + sgn * sum o)
                    (add_mism sgn (pos h) (cv h) (pos o) (cv o) inter) (neg h) inter)
               coll true)
  else
    match reconcile h o with
    | Err e => Err e
    | Ok (h1, oz) =>
        let s' := Z.min (schema h) (schema o) in
        let red (s : Z) (l : list bkt) := if s' <? s then reduce_abs (s - s') l else l in
        let T := zt h1 in
        Ok (mkAO (mkH hint' s' T (zc h1 + sgn * oz) (cnt h + sgn * cnt o) (sum h + sgn * sum o)
                      (merge_add sgn (red (schema h) (pos h1)) (drop_below s' T (red (schema o) (pos o))))
                      (merge_add sgn (red (schema h) (neg h1)) (drop_below s' T (red (schema o) (neg o))))
                      (cv h))
                 coll false)
    end.

(* ---------- Compact / ReduceResolution on histograms ---------- *)

Definition compact_h (k : Z) (h : fh) : fh :=
  mkH (hint h) (schema h) (zt h) (zc h) (cnt h) (sum h) (compact_abs k (pos h)) (compact_abs k (neg h)) (cv h).

(* on the raw histogram because the span errors are part of the behaviour *)
Definition reduce_h (target : Z) (r : rawfh) : res fh :=
  if is_custom (r_schema r) then Err EReduceArgs
  else if is_custom target then Err EReduceArgs
  else if r_schema r <=? target then Err EReduceArgs
  else match expand (r_ps r) (r_pb r) with
       | Err e => Err e
       | Ok p => match expand (r_ns r) (r_nb r) with
                 | Err e => Err e
                 | Ok n => let k := r_schema r - target in
                           Ok (mkH (r_hint r) target (r_zt r) (r_zc r) (r_cnt r) (r_sum r)
                                   (reduce_abs k p) (reduce_abs k n) (r_cv r))
                 end
       end.

(* ---------- DetectReset ---------- *)

Definition any_nonzero (l : list bkt) : bool := existsb nonzero l.

(* detectReset(currIt, prevIt) on the bucket sequences the two iterators yield *)
Fixpoint dr_lists (prev : list bkt) : list bkt -> bool :=
  match prev with
  | [] => fun _ => false
  | p :: prev' =>
      fix inner (cur : list bkt) : bool :=
        match cur with
        | [] => any_nonzero prev
        | c :: cur' =>
            if fst c <? fst p then inner cur'
            else if fst p <? fst c then nonzero p || dr_lists prev' cur
            else (snd c <? snd p) || dr_lists prev' cur
        end
  end.

(* what floatBucketIterator(positive, absoluteStartValue = T, targetSchema = ts) yields *)
Definition iter_abs (s ts : Z) (T : thr) (l : list bkt) : list bkt :=
  drop_below ts T (if ts <? s then reduce_abs (s - ts) l else l).

Definition obound_leb (a b : option Z) : bool :=
  match a, b with _, None => true | None, Some _ => false | Some x, Some y => x <=? y end.
Definition obound_eqb (a b : option Z) : bool :=
  match a, b with None, None => true | Some x, Some y => x =? y | _, _ => false end.
Definition obound_ltb (a b : option Z) : bool := negb (obound_leb b a).

Fixpoint rollup (bounds : list Z) (bd : option Z) (l : list bkt) (acc : Z) : Z * list bkt :=
  match l with
  | [] => (acc, [])
  | b :: l' => if obound_leb (cbound bounds (fst b)) bd then rollup bounds bd l' (acc + snd b) else (acc, l)
  end.

(* detectResetWithMismatchedCustomBounds; cbs/pbs: the remaining bounds, +Inf (None) last *)
Fixpoint dmm (ccv pcv : list Z) (cbs : list (option Z)) : list (option Z) -> list bkt -> list bkt -> bool :=
  match cbs with
  | [] => fun _ _ _ => false
  | cb :: cbs' =>
      fix inner (pbs : list (option Z)) (cur prev : list bkt) : bool :=
        match pbs with
        | [] => false
        | pb :: pbs' =>
            if obound_eqb cb pb then
              let '(csum, cur') := rollup ccv cb cur 0 in
              let '(psum, prev') := rollup pcv cb prev 0 in
              if csum <? psum then true else dmm ccv pcv cbs' pbs' cur' prev'
            else if obound_ltb cb pb then dmm ccv pcv cbs' pbs cur prev
            else inner pbs' cur prev
        end
  end.
Definition with_inf (l : list Z) : list (option Z) := map Some l ++ [None].

Definition detect_reset (h p : fh) : res bool :=
  if hint h =? 1 then Ok true
  else if hint h =? 2 then Ok false
  else if cnt h <? cnt p then Ok true
  else if is_custom (schema h) && negb (is_custom (schema p)) then Ok true
  else if is_custom (schema h) && negb (list_eqb (cv h) (cv p)) then
    if negb (idx_nonneg (pos h) && idx_nonneg (pos p)) then Err EPanic else
    Ok (dmm (cv h) (cv p) (with_inf (cv h)) (with_inf (cv p)) (pos h) (pos p))
  else if schema p <? schema h then Ok true
  else if thr_ltb (zt h) (zt p) then Ok true
  else match zcflt p (zt h) with
       | Err e => Err e
       | Ok (pz, nt) =>
           if negb (thr_eqb nt (zt h)) then Ok true
           else if zc h <? pz then Ok true
           else
             let ci := iter_abs (schema h) (schema h) (zt h) in
             let pi := iter_abs (schema p) (schema h) (zt h) in
             Ok (dr_lists (pi (pos p)) (ci (pos h)) || dr_lists (pi (neg p)) (ci (neg h)))
       end.

(* ---------- integer histograms (delta-encoded buckets) ---------- *)

Record rawih := mkRI { i_hint : Z; i_schema : Z; i_zt : thr; i_zc : Z; i_cnt : Z; i_sum : Z;
                       i_ps : list span; i_pd : list Z; i_ns : list span; i_nd : list Z;
                       i_cv : list Z }.

(* absolute counts from deltas: the running sum kept by regularBucketIterator and by ToFloat *)
Fixpoint cumsum_from (acc : Z) (ds : list Z) : list Z :=
  match ds with [] => [] | d :: ds' => (acc + d) :: cumsum_from (acc + d) ds' end.
Definition cumsum (ds : list Z) : list Z := cumsum_from 0 ds.

(* Histogram.ToFloat *)
Definition to_float (h : rawih) : rawfh :=
  if is_custom (i_schema h) then
    mkRF (i_hint h) (i_schema h) T0 0 (i_cnt h) (i_sum h) (i_ps h) (cumsum (i_pd h)) [] [] (i_cv h)
  else
    mkRF (i_hint h) (i_schema h) (i_zt h) (i_zc h) (i_cnt h) (i_sum h)
         (i_ps h) (cumsum (i_pd h)) (i_ns h) (cumsum (i_nd h)) [].

(* an integer histogram seen through its bucket iterators *)
Definition float_view (h : rawih) : rawfh :=
  mkRF (i_hint h) (i_schema h) (i_zt h) (i_zc h) (i_cnt h) (i_sum h)
       (i_ps h) (cumsum (i_pd h)) (i_ns h) (cumsum (i_nd h)) (i_cv h).

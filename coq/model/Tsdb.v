(* model/Tsdb.v — STRUCTURED executable model of the TSDB read/write path behind property C01
   (definitions only; proofs are in proof/TsdbProofs.v).  It mirrors the architecture of
   /repo/tsdb: a head (minTime / maxTime / minValidTime with their MaxInt64 / MinInt64 "unset"
   sentinels, per series the in-order chunks, the out-of-order samples and the head
   tombstones) and a list of persistent blocks (mint, maxt, out-of-order hint, per series
   samples, tombstones), and the operations

     Commit      headAppender.Commit  (the samples the implementation ACCEPTED, each flagged
                 in-order / out-of-order as the implementation classified it; admission itself
                 is property C02 and is not re-decided here)              head_append.go
     Delete      DB.Delete = Block.Delete on overlapping blocks + Head.Delete     db.go, block.go, head.go
     Compact     DB.Compact with the block planner switched off: the compactable() loop of
                 compactHead (block [minTime, rangeForTimestamp(minTime)) ; truncateMemory ;
                 gc ; min-time adjustment) followed, if a block was cut, by compactOOOHead   db.go, head.go
     CompactOOO  DB.CompactOOOHead = compactOOO (one block per aligned range starting at
                 rangeStartForTimestamp(oooMinT)) ; truncateOOO                              db.go, head.go
     CleanTombstones  DB.CleanTombstones                                                    db.go, block.go
     Restart     DB.Close ; Open = reload, Head.Truncate(maxt of in-order blocks), Head.Init
                 (m-mapped chunks kept, WAL replay with the minValidTime cut-off, gc)       db.go, head.go, head_wal.go
   and Query = DB.Querier(mint,maxt).Select.

   Go `/` is Z.quot (godiv).  Series ids are small integers (the harness numbers its label
   sets); maps over series are functions sid -> _ ; the finite set of series that may carry
   data is cfg.universe (needed where the code iterates over all series).

   Deliberate abstractions (none changes an observable compared by the tie):
   - tombstones are a plain list of closed intervals; only coverage matters (the merging done
     by tombstones.Intervals.Add is property C20);
   - m-mapped and in-memory head chunks are one newest-first list (they differ only when the
     series is not time ordered); ms_open = false means "headChunks == nil" (after a restart);
   - sample-count / byte-size based chunk cutting is not modelled (the harness sets
     SamplesPerChunk so high that only the nextAt rule cuts chunks);
   - Block.Delete adds its tombstone when the series has a SAMPLE in [mint,maxt], the code when
     it has a CHUNK overlapping [mint,maxt]: the extra tombstones of the code cover no sample;
   - WAL checkpoints and the deletion of head chunk files are not modelled: Restart replays
     the whole log of the history (the skipped records lie below an earlier truncation time);
   - the out-of-order part of the head after Restart (WBL replay + m-mapped OOO chunks found on
     disk) is an input of the Restart op, read from the implementation by the harness. *)
From Coq Require Import List ZArith Bool.
From Verif Require Import lib.Int64 model.TsdbSpec.
Import ListNotations.
Open Scope Z_scope.

Record cfg := mkCfg { chunkRange : Z; oooWindow : Z; universe : list sid }.

Definition ivl := (Z * Z)%type.
Definition covered (ivs : list ivl) (t : Z) : bool :=
  existsb (fun iv => (fst iv <=? t) && (t <=? snd iv)) ivs.

(* memChunk / mmappedChunk: minTime, maxTime and the samples (oldest first); c_ref = 0 for a
   chunk that only lives in memory, k > 0 for a chunk written to the head chunk files under
   the ref of the k-th series record of its series (a file chunk keeps the ref it was written
   with, even when the memSeries later carries another ref) *)
Record chunk := mkC { c_min : Z; c_max : Z; c_samples : list sample; c_ref : nat }.

(* memSeries: chunks newest first; nextAt; whether the newest chunk is an open head chunk;
   all out-of-order samples of the series still in the head, in insertion order *)
Record mseries := mkMS { ms_chunks : list chunk; ms_nextAt : Z; ms_open : bool; ms_ooo : list sample }.
Definition ms_empty : mseries := mkMS [] 0 false [].

Record head := mkHead { h_minT : Z; h_maxT : Z; h_minValid : Z;
                        h_series : sid -> mseries; h_tomb : sid -> list ivl }.
Record block := mkBlock { b_mint : Z; b_maxt : Z; b_ooo : bool;
                          b_data : sid -> list sample; b_tomb : sid -> list ivl }.
(* s_wal: the WAL in log order: (i, None) = a series record of series i (written by the
   appender that created the memSeries), (i, Some x) = a sample record (appended without error
   in a committed transaction); s_wtomb: every tombstone record Head.Delete logged.  WAL checkpoints are not
   modelled (they only drop samples below an earlier truncation time). *)
Record state := mkState { s_head : head; s_blocks : list block; s_fuelout : bool;
                          s_wal : list (sid * option sample); s_wtomb : list (sid * ivl);
                          s_ref : sid -> nat }.
(* s_ref i = k: the memSeries of series i carries the ref of the k-th series record of i in the
   WAL (0: none).  A series that was garbage collected and created again gets a new ref; after a
   restart every series carries the ref of its FIRST record (later records are mapped onto it). *)

Definition head0 : head := mkHead maxInt64 minInt64 minInt64 (fun _ => ms_empty) (fun _ => []).
Definition state0 : state := mkState head0 [] false [] [] (fun _ => O).

Definition upd {A} (f : sid -> A) (k : sid) (v : A) : sid -> A := fun i => if i =? k then v else f i.

(* db.go rangeForTimestamp: (t/width)*width + width *)
Definition rangeFor (t w : Z) : Z := godiv t w * w + w.
(* db.go rangeStartForTimestamp *)
Definition rangeStart (t w : Z) : Z := if t >=? 0 then w * godiv t w else w * godiv (t - w + 1) w.

Definition lmin (l : list sample) : Z := fold_right (fun x a => Z.min (st x) a) maxInt64 l.
Definition lmax (l : list sample) : Z := fold_right (fun x a => Z.max (st x) a) minInt64 l.

(* in-order samples of a series, oldest first *)
Definition io_samples (m : mseries) : list sample := flat_map c_samples (rev (ms_chunks m)).

(* memSeries.minTime(): minTime of the oldest chunk, MinInt64 without in-order chunks *)
Fixpoint oldest_min (cs : list chunk) : Z :=
  match cs with
  | [] => minInt64
  | [c] => c_min c
  | _ :: r => oldest_min r
  end.
(* memSeries.maxTime() *)
Definition newest_max (cs : list chunk) : Z := match cs with [] => minInt64 | c :: _ => c_max c end.

(* ---------------- Commit ---------------- *)
(* memSeries.append / appendPreprocessor / cutNewHeadChunk for an accepted in-order sample *)
Definition append_io (cr : Z) (m : mseries) (x : sample) : mseries :=
  let t := st x in
  let cut := mkMS (mkC t t [x] O :: ms_chunks m) (rangeFor t cr) true (ms_ooo m) in
  match ms_chunks m with
  | [] => cut
  | c :: r =>
      if negb (ms_open m) then cut
      else if t >=? ms_nextAt m then cut
      else mkMS (mkC (c_min c) t (c_samples c ++ [x]) (c_ref c) :: r) (ms_nextAt m) true (ms_ooo m)
  end.

Definition acc := (sid * sample * bool)%type.   (* series, sample, true = out-of-order *)

Definition commit1 (cr : Z) (h : head) (a : acc) : head :=
  let '(i, x, ooo) := a in
  let m := h_series h i in
  if ooo then
    mkHead (h_minT h) (h_maxT h) (h_minValid h)
           (upd (h_series h) i (mkMS (ms_chunks m) (ms_nextAt m) (ms_open m) (ms_ooo m ++ [x]))) (h_tomb h)
  else
    mkHead (Z.min (h_minT h) (st x)) (Z.max (h_maxT h) (st x)) (h_minValid h)
           (upd (h_series h) i (append_io cr m x)) (h_tomb h).

Definition is_none {A} (o : option A) : bool := match o with None => true | Some _ => false end.
Definition count_markers (wal : list (sid * option sample)) (i : sid) : nat :=
  length (filter (fun p => (fst p =? i) && is_none (snd p)) wal).

(* initAppender.Append -> Head.initTime: the first Append of an appender obtained while the head
   was uninitialised sets maxTime and minTime to its timestamp at once (whatever becomes of the
   sample or of the appender) *)
Definition init_time (h : head) (first : option Z) : head :=
  match first with
  | Some t =>
      if (h_minT h =? maxInt64) && (h_maxT h =? minInt64)
      then mkHead t t (h_minValid h) (h_series h) (h_tomb h) else h
  | None => h
  end.

(* one appender: [first] = timestamp of its first Append call (None: no Append at all);
   [l] = the samples Commit stored; [logged] = what the appender wrote to the WAL: series
   records of the series it created, then its sample records.  A rollback is commit [] markers first. *)
Definition commit (c : cfg) (l : list acc) (logged : list (sid * option sample)) (first : option Z) (s : state) : state :=
  mkState (fold_left (commit1 (chunkRange c)) l (init_time (s_head s) first)) (s_blocks s) (s_fuelout s)
          (s_wal s ++ logged) (s_wtomb s)
          (fun i => if existsb (fun p => (fst p =? i) && is_none (snd p)) logged
                    then S (count_markers (s_wal s) i) else s_ref s i).

(* ---------------- Delete ---------------- *)
Definition clamp (a b mint maxt : Z) : Z * Z := (Z.max a mint, Z.min b maxt).

Definition b_overlaps (b : block) (mint maxt : Z) : bool := (b_mint b <=? maxt) && (mint <? b_maxt b).

Definition block_delete (mint maxt : Z) (sel : list sid) (b : block) : block :=
  if b_overlaps b mint maxt then
    mkBlock (b_mint b) (b_maxt b) (b_ooo b) (b_data b)
      (fun i => let d := b_data b i in
                if memZ i sel && existsb (fun x => in_rng mint maxt (st x)) d
                then clamp mint maxt (lmin d) (lmax d) :: b_tomb b i else b_tomb b i)
  else b.

(* the stones Head.Delete computes (and logs to the WAL) *)
Definition head_stones (mint maxt : Z) (sel : list sid) (h : head) : list (sid * ivl) :=
  if (h_minT h <=? maxt) && (mint <=? h_maxT h) then
    let '(m1, m2) := clamp mint maxt (h_minT h) (h_maxT h) in
    flat_map (fun i =>
         let cs := ms_chunks (h_series h i) in
         let t0 := oldest_min cs in let t1 := newest_max cs in
         if (t0 =? minInt64) || (t1 =? minInt64) then []
         else let '(a, b) := clamp m1 m2 t0 t1 in
              if a >? b then [] else [(i, (a, b))]) sel
  else [].

Definition stones_of (l : list (sid * ivl)) (i : sid) : list ivl :=
  map snd (filter (fun p => fst p =? i) l).

Definition head_delete (mint maxt : Z) (sel : list sid) (h : head) : head :=
  let stones := head_stones mint maxt sel h in
  mkHead (h_minT h) (h_maxT h) (h_minValid h) (h_series h)
         (fun i => stones_of stones i ++ h_tomb h i).

Definition delete (mint maxt : Z) (sel : list sid) (s : state) : state :=
  mkState (head_delete mint maxt sel (s_head s)) (map (block_delete mint maxt sel) (s_blocks s)) (s_fuelout s)
          (s_wal s) (s_wtomb s ++ head_stones mint maxt sel (s_head s)) (s_ref s).

(* ---------------- head garbage collection ---------------- *)
(* memSeries.truncateChunksBefore: from the newest chunk backwards, the first chunk with
   maxTime < mint is dropped together with everything older *)
Fixpoint keep_new (cs : list chunk) (mint : Z) : list chunk :=
  match cs with
  | [] => []
  | c :: r => if c_max c <? mint then [] else c :: keep_new r mint
  end.
Definition is_nil {A} (l : list A) : bool := match l with [] => true | _ => false end.

Definition gc_series (mint : Z) (m : mseries) : mseries :=
  let k := keep_new (ms_chunks m) mint in
  mkMS k (ms_nextAt m) (ms_open m && negb (is_nil k)) (ms_ooo m).
Definition has_data (m : mseries) : bool := negb (is_nil (ms_chunks m)) || negb (is_nil (ms_ooo m)).

(* Head.gc with mint = Head.MinTime(): series, tombstones (DeleteTombstones of vanished series,
   TruncateBefore(mint)) *)
Definition gc_only (h : head) : head :=
  let mint := h_minT h in
  let ser := fun i => gc_series mint (h_series h i) in
  mkHead (h_minT h) (h_maxT h) (h_minValid h) ser
         (fun i => if has_data (ser i) then filter (fun iv => mint <=? snd iv) (h_tomb h i) else []).

(* stripeSeries.gc: actualMint = min over the remaining series of memSeries.minTime() *)
Definition actual_mint (u : list sid) (h : head) : Z :=
  let a := fold_right (fun i a => let m := h_series h i in
                                  if has_data m then Z.min (oldest_min (ms_chunks m)) a else a) maxInt64 u in
  if a =? maxInt64 then h_minT h else a.

(* Head.truncateSeriesAndChunkDiskMapper: gc, then raise minTime/minValidTime towards the
   first sample actually present, but not beyond appendableMinValidTime *)
Definition gc_adjust (c : cfg) (h : head) : head :=
  let h1 := gc_only h in
  let am := actual_mint (universe c) h1 in
  if am >? h_minT h1 then
    let amvt := Z.max (h_maxT h1 - godiv (chunkRange c) 2) (h_minValid h1) in
    let n := if am <? amvt then am else amvt in
    mkHead n (h_maxT h1) n (h_series h1) (h_tomb h1)
  else h1.

(* Head.truncateMemory(mint) on an initialised head *)
Definition truncate_memory (c : cfg) (h : head) (mint : Z) : head :=
  if (h_minT h >=? mint) && negb (h_minT h =? maxInt64) then h
  else gc_adjust c (mkHead mint (Z.max (h_maxT h) mint) mint (h_series h) (h_tomb h)).

(* ---------------- head compaction ---------------- *)
Definition initialized (h : head) : bool := negb (h_minT h =? maxInt64).
(* Head.compactable: MaxTime - MinTime > chunkRange/2*3 (int64 subtraction) *)
Definition compactable (c : cfg) (h : head) : bool :=
  initialized h && (sub64 (h_maxT h) (h_minT h) >? godiv (chunkRange c) 2 * 3).

(* the block written from RangeHead(head, mint, maxt-1): in-order samples in [mint, maxt-1]
   that the head tombstones do not cover *)
Definition head_block (h : head) (mint maxt : Z) : block :=
  mkBlock mint maxt false
    (fun i => filter (fun x => in_rng mint (maxt - 1) (st x) && negb (covered (h_tomb h i) (st x)))
                     (io_samples (h_series h i)))
    (fun _ => []).

(* BlockMeta.Stats.NumSamples: distinct timestamps per series *)
Definition num_samples (u : list sid) (b : block) : Z :=
  fold_right (fun i a => Z.of_nat (length (sort_uniq (map st (b_data b i)))) + a) 0 u.

(* LeveledCompactor.Write does not write a block without samples *)
Definition add_block (u : list sid) (b : block) (bs : list block) : list block :=
  if 0 <? num_samples u b then bs ++ [b] else bs.

Definition compact_head_once (c : cfg) (s : state) : state :=
  let h := s_head s in
  let mint := h_minT h in
  let maxt := rangeFor mint (chunkRange c) in
  mkState (truncate_memory c h maxt) (add_block (universe c) (head_block h mint maxt) (s_blocks s)) (s_fuelout s)
          (s_wal s) (s_wtomb s) (s_ref s).

Fixpoint compact_loop (c : cfg) (fuel : nat) (s : state) (did : bool) : state * bool :=
  match fuel with
  | O => (mkState (s_head s) (s_blocks s) (s_fuelout s || compactable c (s_head s)) (s_wal s) (s_wtomb s) (s_ref s), did)
  | S f => if compactable c (s_head s) then compact_loop c f (compact_head_once c s) true else (s, did)
  end.

(* ---------------- out-of-order head compaction ---------------- *)
Fixpoint ranges (t hi w : Z) (fuel : nat) : list Z :=
  match fuel with
  | O => []
  | S f => if t <=? hi then t :: ranges (t + w) hi w f else []
  end.

Definition ooo_block (h : head) (t w : Z) : block :=
  mkBlock t (t + w) true (fun i => filter (fun x => in_rng t (t + w - 1) (st x)) (ms_ooo (h_series h i))) (fun _ => []).

Definition clear_ooo (h : head) : head :=
  mkHead (h_minT h) (h_maxT h) (h_minValid h)
         (fun i => let m := h_series h i in mkMS (ms_chunks m) (ms_nextAt m) (ms_open m) []) (h_tomb h).

Definition all_ooo (u : list sid) (h : head) : list sample := flat_map (fun i => ms_ooo (h_series h i)) u.

Definition compact_ooo (c : cfg) (s : state) : state :=
  if oooWindow c >? 0 then
    let h := s_head s in
    let all := all_ooo (universe c) h in
    match all with
    | [] => s
    | _ =>
        let w := chunkRange c in
        let lo := rangeStart (lmin all) w in
        let hi := lmax all in
        let starts := ranges lo hi w (Z.to_nat ((hi - lo) / w + 1)) in
        let bs := fold_left (fun acc t => add_block (universe c) (ooo_block h t w) acc) starts (s_blocks s) in
        mkState (gc_adjust c (clear_ooo h)) bs (s_fuelout s) (s_wal s) (s_wtomb s) (s_ref s)
    end
  else s.

Definition compact (c : cfg) (s : state) : state :=
  let h := s_head s in
  let fuel := (Z.to_nat (Z.max 0 ((h_maxT h - h_minT h) / chunkRange c)) + 3)%nat in
  let '(s1, did) := compact_loop c (if initialized h then fuel else 1%nat) s false in
  if did then compact_ooo c s1 else s1.

(* ---------------- head compaction while an appender is open ---------------- *)
(* A series an open appender has appended to (memSeries.pendingCommit) survives the head gc even
   without chunks; stripeSeries.gc then takes memSeries.minTime() = MinInt64 for it, so the
   min-time adjustment does not happen.  Same definitions as above with the pending series. *)
Definition actual_mint_p (u pend : list sid) (h : head) : Z :=
  let a := fold_right (fun i a => let m := h_series h i in
                                  if has_data m || memZ i pend then Z.min (oldest_min (ms_chunks m)) a else a) maxInt64 u in
  if a =? maxInt64 then h_minT h else a.

Definition gc_adjust_p (c : cfg) (pend : list sid) (h : head) : head :=
  let h1 := gc_only h in
  let am := actual_mint_p (universe c) pend h1 in
  if am >? h_minT h1 then
    let amvt := Z.max (h_maxT h1 - godiv (chunkRange c) 2) (h_minValid h1) in
    let n := if am <? amvt then am else amvt in
    mkHead n (h_maxT h1) n (h_series h1) (h_tomb h1)
  else h1.

Definition truncate_memory_p (c : cfg) (pend : list sid) (h : head) (mint : Z) : head :=
  if (h_minT h >=? mint) && negb (h_minT h =? maxInt64) then h
  else gc_adjust_p c pend (mkHead mint (Z.max (h_maxT h) mint) mint (h_series h) (h_tomb h)).

Definition compact_head_once_p (c : cfg) (pend : list sid) (s : state) : state :=
  let h := s_head s in
  let mint := h_minT h in
  let maxt := rangeFor mint (chunkRange c) in
  mkState (truncate_memory_p c pend h maxt) (add_block (universe c) (head_block h mint maxt) (s_blocks s)) (s_fuelout s)
          (s_wal s) (s_wtomb s) (s_ref s).

Fixpoint compact_loop_p (c : cfg) (pend : list sid) (fuel : nat) (s : state) (did : bool) : state * bool :=
  match fuel with
  | O => (mkState (s_head s) (s_blocks s) (s_fuelout s || compactable c (s_head s)) (s_wal s) (s_wtomb s) (s_ref s), did)
  | S f => if compactable c (s_head s) then compact_loop_p c pend f (compact_head_once_p c pend s) true else (s, did)
  end.

Definition compact_ooo_p (c : cfg) (pend : list sid) (s : state) : state :=
  if oooWindow c >? 0 then
    let h := s_head s in
    let all := all_ooo (universe c) h in
    match all with
    | [] => s
    | _ =>
        let w := chunkRange c in
        let lo := rangeStart (lmin all) w in
        let hi := lmax all in
        let starts := ranges lo hi w (Z.to_nat ((hi - lo) / w + 1)) in
        let bs := fold_left (fun acc t => add_block (universe c) (ooo_block h t w) acc) starts (s_blocks s) in
        mkState (gc_adjust_p c pend (clear_ooo h)) bs (s_fuelout s) (s_wal s) (s_wtomb s) (s_ref s)
    end
  else s.

Definition compact_p (c : cfg) (pend : list sid) (s : state) : state :=
  let h := s_head s in
  let fuel := (Z.to_nat (Z.max 0 ((h_maxT h - h_minT h) / chunkRange c)) + 3)%nat in
  let '(s1, did) := compact_loop_p c pend (if initialized h then fuel else 1%nat) s false in
  if did then compact_ooo_p c pend s1 else s1.

(* ---------------- CleanTombstones ---------------- *)
Definition has_tomb (u : list sid) (b : block) : bool := existsb (fun i => negb (is_nil (b_tomb b i))) u.
Definition clean_block (u : list sid) (b : block) : list block :=
  if has_tomb u b then
    let b' := mkBlock (b_mint b) (b_maxt b) (b_ooo b)
                (fun i => filter (fun x => negb (covered (b_tomb b i) (st x))) (b_data b i)) (fun _ => []) in
    if 0 <? num_samples u b' then [b'] else []
  else [b].
Definition clean_tombstones (c : cfg) (s : state) : state :=
  mkState (s_head s) (flat_map (clean_block (universe c)) (s_blocks s)) (s_fuelout s) (s_wal s) (s_wtomb s) (s_ref s).

(* ---------------- Restart ---------------- *)
(* DB.inOrderBlocksMaxTime *)
Definition inorder_blocks_maxt (bs : list block) : option Z :=
  fold_left (fun a b => if b_ooo b then a else
                          match a with None => Some (b_maxt b) | Some m => Some (Z.max m (b_maxt b)) end) bs None.

(* Close m-maps all but the newest chunk of every series (Head.mmapHeadChunks); Init loads the
   m-mapped chunks as they are and replays the WAL on top of them. *)
Definition on_disk (k : nat) (c : chunk) : chunk :=
  mkC (c_min c) (c_max c) (c_samples c) (if Nat.eqb (c_ref c) 0 then k else c_ref c).
(* all chunks but the open head chunk are (or get) written to the chunk files, under ref k if
   they were not on disk yet *)
Definition mmap_all (k : nat) (m : mseries) : list chunk :=
  match ms_chunks m with
  | c :: r => if ms_open m then c :: map (on_disk k) r else map (on_disk k) (c :: r)
  | [] => []
  end.
Definition mmapped_chunks (k : nat) (m : mseries) : list chunk :=
  let cs := mmap_all k m in if ms_open m then tl cs else cs.

(* walSubsetProcessor.processWALSamples for one record of this series: below minValidTime or not
   above mmMaxTime -> skipped; not above the newest chunk's maxTime -> rejected by
   appendPreprocessor; otherwise appended (chunks cut during the replay are m-mapped at once,
   which the model does not need to remember) *)
Definition replay1 (cr mv mmMax : Z) (m : mseries) (x : sample) : mseries :=
  let t := st x in
  if (t <? mv) || (t <=? mmMax) then m
  else if negb (is_nil (ms_chunks m)) && (t <=? newest_max (ms_chunks m)) then m
  else append_io cr m x.

Definition wal_of (wal : list (sid * option sample)) (i : sid) : list (option sample) :=
  map snd (filter (fun p => fst p =? i) wal).

(* Head.loadWAL for one series.  EVERY series record of the series (the first one, and the later
   ones written when the series had been garbage collected and was created again) resets the
   memSeries to the m-mapped chunks found on disk FOR THAT REF (resetSeriesWithMMappedChunks:
   "any samples replayed till now would already be compacted"); the chunk files carry the ref the
   chunk had when it was written (c_ref; s_ref at Close for the new ones).  Sample records: below minValidTime or not above mmMaxTime ->
   skipped; otherwise they count for Head.updateMinMaxTime and are appended unless
   appendPreprocessor rejects them (not above the newest chunk's maxTime). *)
Record rst := mkR { r_k : nat; r_m : mseries; r_mmMax : Z; r_mm : Z * Z }.

Definition replay_entry (cr mv : Z) (mc : list chunk) (ooo : list sample)
                        (r : rst) (e : option sample) : rst :=
  match e with
  | None =>
      let k := S (r_k r) in
      let cs := filter (fun c => Nat.eqb (c_ref c) k) mc in
      mkR k (mkMS cs 0 false ooo) (newest_max cs)
          (match cs with [] => r_mm r
           | _ => (Z.min (fst (r_mm r)) (oldest_min cs), Z.max (snd (r_mm r)) (newest_max cs)) end)
  | Some x =>
      let t := st x in
      if (t <? mv) || (t <=? r_mmMax r) then r
      else
        let m := r_m r in
        let m' := if negb (is_nil (ms_chunks m)) && (t <=? newest_max (ms_chunks m)) then m
                  else append_io cr m x in
        mkR (r_k r) m' (r_mmMax r) (Z.min (fst (r_mm r)) t, Z.max (snd (r_mm r)) t)
  end.

Definition restart_series (cr mv : Z) (refidx : nat) (wal : list (option sample)) (ooo : list sample)
                          (m : mseries) (mm : Z * Z) : rst :=
  let r := fold_left (replay_entry cr mv (mmapped_chunks refidx m) ooo) wal (mkR O (mkMS [] 0 false ooo) minInt64 mm) in
  (* chunks cut during the replay were m-mapped at once, under the ref of the first record *)
  let m' := r_m r in
  mkR (r_k r) (mkMS (mmap_all 1 m') (ms_nextAt m') (ms_open m') (ms_ooo m')) (r_mmMax r) (r_mm r).

Definition restart (c : cfg) (reloaded : sid -> list sample) (s : state) : state :=
  let h := s_head s in
  let b := inorder_blocks_maxt (s_blocks s) in
  let mv := match b with Some x => x | None => minInt64 end in
  let mm0 := match b with Some x => (x, x) | None => (maxInt64, minInt64) end in
  let rs := fun i mm => restart_series (chunkRange c) mv (s_ref s i) (wal_of (s_wal s) i) (reloaded i) (h_series h i) mm in
  let mm := fold_right (fun i a => r_mm (rs i a)) mm0 (universe c) in
  let minT := if fst mm <? mv then mv else fst mm in
  let h1 := mkHead minT (snd mm) mv
              (fun i => r_m (rs i mm0))
              (fun i => filter (fun iv => mv <=? snd iv) (stones_of (s_wtomb s) i)) in
  mkState (gc_only h1) (s_blocks s) (s_fuelout s) (s_wal s) (s_wtomb s)
          (fun i => if Nat.eqb (count_markers (s_wal s) i) 0 then O else 1%nat).

(* ---------------- operations, runs ---------------- *)
Inductive op :=
| Commit (l : list acc) (logged : list (sid * option sample)) (first : option Z)
| Delete (mint maxt : Z) (sel : list sid)
| Compact
| CompactOOO
| CleanTombstones
| Restart (reloaded : list (sid * list sample))
| CompactPending (pend : list sid).   (* DB.Compact while an appender that touched [pend] is open *)

Definition assoc (l : list (sid * list sample)) : sid -> list sample :=
  fun i => match find (fun p => fst p =? i) l with Some p => snd p | None => [] end.

Definition step (c : cfg) (s : state) (o : op) : state :=
  match o with
  | Commit l lg f => commit c l lg f s
  | Delete mint maxt sel => delete mint maxt sel s
  | Compact => compact c s
  | CompactOOO => compact_ooo c s
  | CleanTombstones => clean_tombstones c s
  | Restart rl => restart c (assoc rl) s
  | CompactPending pend => compact_p c pend s
  end.

Definition run (c : cfg) (ops : list op) : state := fold_left (step c) ops state0.

(* ---------------- Query ---------------- *)
(* head_cands h floor i: the in-order samples from [floor] on and all out-of-order samples of
   series i that the head tombstones do not cover *)
Definition head_cands (h : head) (mint : Z) (i : sid) : list sample :=
  let m := h_series h i in
  filter (fun x => (Z.max (h_minT h) mint <=? st x) && negb (covered (h_tomb h i) (st x))) (io_samples m)
  ++ filter (fun x => negb (covered (h_tomb h i) (st x))) (ms_ooo m).

(* DB.Querier: the head is queried when maxt >= Head.MinTime() or the head's out-of-order time
   range overlaps the query (MinOOOTime/MaxOOOTime are not modelled: approximated per series by
   "the series has out-of-order samples in the head"); the head querier is a block querier over RangeHead(head, mint, maxt) with the
   query's OWN mint: an in-order sample below Head.MinTime() that still sits in a chunk
   straddling the last truncation point is returned (it normally duplicates a block sample). *)
Definition head_gate (h : head) (maxt : Z) (i : sid) : bool :=
  (h_minT h <=? maxt) || negb (is_nil (ms_ooo (h_series h i))).

Definition head_cands_q (h : head) (maxt : Z) (i : sid) : list sample :=
  if head_gate h maxt i then
    let m := h_series h i in
    filter (fun x => negb (covered (h_tomb h i) (st x))) (io_samples m)
    ++ filter (fun x => negb (covered (h_tomb h i) (st x))) (ms_ooo m)
  else [].

Definition block_cands (b : block) (i : sid) : list sample :=
  filter (fun x => negb (covered (b_tomb b i) (st x))) (b_data b i).

Definition cands (s : state) (mint maxt : Z) (i : sid) : list sample :=
  head_cands_q (s_head s) maxt i
  ++ flat_map (fun b => if b_overlaps b mint maxt then block_cands b i else []) (s_blocks s).

Definition query (s : state) (mint maxt : Z) (sel : list sid) : answer :=
  query_of (cands s mint maxt) mint maxt sel.

(* ---------------- abstraction ---------------- *)
(* the live samples of series i: the in-order head samples from Head.MinTime() on, the
   out-of-order head samples, the block samples, minus what the tombstones cover *)
Definition abs (s : state) : sstate :=
  fun i => head_cands (s_head s) (h_minT (s_head s)) i ++ flat_map (fun b => block_cands b i) (s_blocks s).

Definition spec_of_op (o : op) : sop :=
  match o with
  | Commit l _ _ => SAck (map (fun a => (fst (fst a), snd (fst a))) l)
  | Delete mint maxt sel => SDelete mint maxt sel
  | _ => SNop
  end.

(* observables compared with the implementation *)
Definition block_meta (u : list sid) (b : block) : Z * Z * bool * Z :=
  (b_mint b, b_maxt b, b_ooo b, num_samples u b).

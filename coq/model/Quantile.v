(* model/Quantile.v — executable model (definitions only) of promql/quantile.go:
     HistogramQuantile, HistogramFraction (native histograms, via the bucket sequence that
     FloatHistogram.AllBucketIterator yields), BucketQuantile with coalesceBuckets,
     ensureMonotonicAndIgnoreSmallDeltas (incl. util/almost.Equal) and sort.Search,
   and of the bodies of histogram_count / histogram_sum / histogram_avg (promql/functions.go).

   Arithmetic is exact rational ([Q]); bucket bounds are extended rationals ([ext]: custom
   buckets have a first bucket starting at -Inf and a last one ending at +Inf; the classic +Inf
   bucket).  float64 results are [res] = NaN or an extended rational.
   The exponential interpolation of standard-schema buckets (log2/exp2) is abstract: Section
   variables [iexp] (value at a fraction of a bucket) and [fexp] (fraction of a bucket below a
   value); the proofs assume only that they are monotone and stay between the endpoints. *)
From Coq Require Import List ZArith QArith Qabs Bool.
Import ListNotations.
Open Scope Q_scope.

(* ------------------------------------------------------------------ extended rationals *)
Inductive ext := NInf | Fin (q : Q) | PInf.
Inductive res := RNaN | R (e : ext).

Definition ext_leb (a b : ext) : bool :=
  match a, b with
  | NInf, _ => true
  | _, PInf => true
  | Fin x, Fin y => Qle_bool x y
  | _, _ => false
  end.
Definition ext_ltb (a b : ext) : bool := negb (ext_leb b a).
Definition ext_eqb (a b : ext) : bool := ext_leb a b && ext_leb b a.
Definition Qlt_bool (a b : Q) : bool := negb (Qle_bool b a).

Definition is_ninf (a : ext) : bool := match a with NInf => true | _ => false end.
Definition is_pinf (a : ext) : bool := match a with PInf => true | _ => false end.

(* ------------------------------------------------------------------ native histograms *)
Record bucket := mkB { bl : ext; bu : ext; bc : Q }.

Record hist := mkH {
  h_count : Q;
  h_sum : res;              (* RNaN = NaN sum (NaN observations or +Inf and -Inf observed) *)
  h_custom : bool;          (* UsesCustomBuckets() *)
  h_haspos : bool;          (* len(PositiveBuckets) > 0 *)
  h_hasneg : bool;          (* len(NegativeBuckets) > 0 *)
  h_buckets : list bucket   (* what AllBucketIterator yields, ascending *)
}.

Definition sum_nan (h : hist) : bool := match h_sum h with RNaN => true | _ => false end.

(* Go's zero value of histogram.Bucket[float64], the value of [bucket] before the first it.At() *)
Definition zero_bucket : bucket := mkB (Fin 0) (Fin 0) 0.

(* the search loop of HistogramQuantile:
     for it.Next() { bucket = it.At(); if bucket.Count == 0 {continue}
                     count += bucket.Count; if count >= rank {break} }
   returns the last bucket assigned, the accumulated count, and the not yet iterated rest *)
Fixpoint scan (bs : list bucket) (rank cum : Q) (last : bucket) : bucket * Q * list bucket :=
  match bs with
  | [] => (last, cum, [])
  | b :: r =>
      if Qeq_bool (bc b) 0 then scan r rank cum b
      else let cum' := cum + bc b in
           if Qle_bool rank cum' then (b, cum', r) else scan r rank cum' b
  end.

(* bucket.Lower + (bucket.Upper-bucket.Lower)*fraction in float64 semantics for the bound
   combinations that can reach this line: finite/finite; finite/+Inf (a custom histogram whose
   only bucket is (-Inf,+Inf): Inf*0 = NaN, Inf*positive = +Inf).  A -Inf lower bound never
   reaches it (replaced by 0 or returned early for custom buckets; standard-schema bounds are
   finite); that combination is mapped to NaN as float64 arithmetic would (-Inf + Inf). *)
Definition lin (l u : ext) (f : Q) : res :=
  match l, u with
  | Fin a, Fin b => R (Fin (a + (b - a) * f))
  | Fin a, PInf => if Qeq_bool f 0 then RNaN else if Qle_bool 0 f then R PInf else R NInf
  | Fin a, NInf => if Qeq_bool f 0 then RNaN else if Qle_bool 0 f then R NInf else R PInf
  | _, _ => RNaN
  end.

Section Interp.
  (* exponential interpolation inside a standard-schema bucket (l,u) not containing 0:
     iexp l u f = the value at fraction f  (Go: exp2(log2 l + (log2 u - log2 l) * f), mirrored
     for negative buckets); fexp l u v = Bucket.FractionBelow(v, false). *)
  Variable iexp : Q -> Q -> Q -> Q.
  Variable fexp : Q -> Q -> Q -> Q.

  Definition interp_q (custom : bool) (l u : ext) (f : Q) : res :=
    if custom || (ext_leb l (Fin 0) && ext_leb (Fin 0) u) then lin l u f
    else match l, u with
         | Fin a, Fin b => R (Fin (iexp a b f))
         | _, _ => RNaN
         end.

  (* the interpolation formulas at fraction = +Inf (pos) / -Inf in float64 semantics *)
  Definition interp_inf (custom : bool) (l u : ext) (pos : bool) : res :=
    match l, u with
    | Fin a, Fin b =>
        if custom || (Qle_bool a 0 && Qle_bool 0 b) then
          if Qeq_bool a b then RNaN
          else if Bool.eqb (Qle_bool a b) pos then R PInf else R NInf
        else if Qlt_bool 0 a then (if pos then R PInf else R (Fin 0))
        else (if pos then R (Fin 0) else R NInf)
    | Fin a, PInf => if custom then (if pos then R PInf else R NInf) else RNaN
    | _, _ => RNaN
    end.

  (* zero-bucket / custom-bucket bound adjustments and early returns of HistogramQuantile:
     inl = returned immediately, inr = the bounds used for the interpolation *)
  Definition qadjust (h : hist) (b : bucket) : res + (ext * ext) :=
    let custom := h_custom h in
    if negb custom && ext_ltb (bl b) (Fin 0) && ext_ltb (Fin 0) (bu b) then
      if negb (h_hasneg h) && h_haspos h then inr (Fin 0, bu b)
      else if negb (h_haspos h) && h_hasneg h then inr (bl b, Fin 0)
      else inr (bl b, bu b)
    else if custom then
      if is_ninf (bl b) then
        if ext_leb (bu b) (Fin 0) then inl (R (bu b)) else inr (Fin 0, bu b)
      else if is_pinf (bu b) then inl (R (bl b))
      else inr (bl b, bu b)
    else inr (bl b, bu b).

  (* [overwrite] = true models the code before "fix: promql: histogram_quantile interpolates in
     the last bucket when the sum is NaN" (e11e8e804f), whose NaN-detection loop
     `for it.Next() { bucket = it.At(); count += bucket.Count }` assigned the OUTER variable:
     with a NaN sum and buckets left to iterate, the interpolation used the LAST bucket of the
     histogram (unadjusted bounds, its count) instead of the bucket holding the rank. *)
  Definition hquantile_gen (overwrite : bool) (q : Q) (h : hist) : res :=
    if Qlt_bool q 0 then R NInf
    else if Qlt_bool 1 q then R PInf
    else if Qeq_bool (h_count h) 0 then RNaN
    else
      let fwd := sum_nan h || Qlt_bool q (1 # 2) in
      let bs := if fwd then h_buckets h else rev (h_buckets h) in
      let rank := if fwd then q * h_count h else (1 - q) * h_count h in
      let '(b, cum, rest) := scan bs rank 0 zero_bucket in
      let custom := h_custom h in
      let adj := qadjust h b in
      match adj with
      | inl r => r
      | inr (l, u) =>
          let cum := if Qlt_bool (h_count h) cum then h_count h else cum in
          if Qlt_bool cum rank then (if sum_nan h then RNaN else R u)
          else
            let rank' := if fwd then rank - (cum - bc b) else cum - rank in
            let '(l2, u2, c2) :=
              match overwrite && sum_nan h, rest with
              | true, _ :: _ => let b2 := last rest b in (bl b2, bu b2, bc b2)
              | _, _ => (l, u, bc b)
              end in
            if Qeq_bool c2 0 then
              (* rank/0: 0/0 = NaN (no populated bucket at all), otherwise +-Inf *)
              if Qeq_bool rank' 0 then RNaN else interp_inf custom l2 u2 (Qle_bool 0 rank')
            else interp_q custom l2 u2 (rank' / c2)
      end.

  Definition hquantile : Q -> hist -> res := hquantile_gen false.
  Definition hquantile_old : Q -> hist -> res := hquantile_gen true.

  (* ---- HistogramFraction ---- *)
  Record fstate := mkFS {
    fs_count : Q; fs_rank : Q;
    fs_lrank : Q; fs_urank : Q; fs_lset : bool; fs_uset : bool
  }.

  (* rank + b.Count * FractionBelow(v) for a bucket with (adjusted) bounds l u; v is strictly
     inside (l,u), hence finite *)
  Definition frac_interp (lineark : bool) (l u : ext) (c rank : Q) (v : ext) : Q :=
    match v with
    | Fin x =>
        if lineark then
          match l, u with
          | NInf, _ => c
          | Fin a, Fin b => rank + c * ((x - a) / (b - a))
          | Fin a, PInf => rank        (* finite / Inf = 0 *)
          | _, _ => rank
          end
        else
          match l, u with
          | Fin a, Fin b => rank + c * fexp a b x
          | _, _ => rank
          end
    | _ => rank
    end.

  (* the zero-bucket bound adjustment of HistogramFraction (applied to any bucket with
     Lower <= 0 <= Upper, custom buckets included) and whether to interpolate linearly *)
  Definition fadjust (h : hist) (b : bucket) : ext * ext * bool :=
    let zb := ext_leb (bl b) (Fin 0) && ext_leb (Fin 0) (bu b) in
    let '(l, u) :=
      if zb then
        if negb (h_hasneg h) && h_haspos h then (Fin 0, bu b)
        else if negb (h_haspos h) && h_hasneg h then (bl b, Fin 0)
        else (bl b, bu b)
      else (bl b, bu b) in
    (l, u, h_custom h || zb).

  (* one iteration of the main loop; the bool says "break" *)
  Definition fstep (h : hist) (lower upper : ext) (b : bucket) (s : fstate) : fstate * bool :=
    let count := fs_count s + bc b in
    let rank := fs_rank s in
    let '(l, u, lineark) := fadjust h b in
    let '(lrank, lset) :=
      if negb (fs_lset s) && ext_leb lower l then (rank, true) else (fs_lrank s, fs_lset s) in
    let '(urank, uset) :=
      if negb (fs_uset s) && ext_leb upper l then (rank, true) else (fs_urank s, fs_uset s) in
    if lset && uset then (mkFS count rank lrank urank lset uset, true)
    else
      let '(lrank, lset) :=
        if negb lset && ext_ltb l lower && ext_ltb lower u
        then (frac_interp lineark l u (bc b) rank lower, true) else (lrank, lset) in
      let '(urank, uset) :=
        if negb uset && ext_ltb l upper && ext_ltb upper u
        then (frac_interp lineark l u (bc b) rank upper, true) else (urank, uset) in
      if lset && uset then (mkFS count rank lrank urank lset uset, true)
      else (mkFS count (rank + bc b) lrank urank lset uset, false).

  (* returns the state at loop exit and the buckets not yet iterated *)
  Fixpoint floop (h : hist) (lower upper : ext) (bs : list bucket) (s : fstate)
    : fstate * list bucket :=
    match bs with
    | [] => (s, [])
    | b :: r =>
        let '(s', brk) := fstep h lower upper b s in
        if brk then (s', r) else floop h lower upper r s'
    end.

  Definition sumc (bs : list bucket) : Q := fold_right (fun b a => bc b + a) 0 bs.

  (* the two ranks after the loop and the final clamping to the (non-NaN) count *)
  Definition hfranks (lower upper : ext) (h : hist) : Q * Q :=
    let '(s, rest) := floop h lower upper (h_buckets h) (mkFS 0 0 0 0 false false) in
    let count := if sum_nan h then fs_count s + sumc rest else h_count h in
    let lrank := if negb (fs_lset s) || Qlt_bool count (fs_lrank s) then count else fs_lrank s in
    let urank := if negb (fs_uset s) || Qlt_bool count (fs_urank s) then count else fs_urank s in
    (lrank, urank).

  (* lower/upper NaN are not modelled (the function returns NaN before anything else) *)
  Definition hfraction (lower upper : ext) (h : hist) : res :=
    if Qeq_bool (h_count h) 0 then RNaN
    else if ext_leb upper lower then R (Fin 0)
    else let '(lrank, urank) := hfranks lower upper h in
         R (Fin ((urank - lrank) / h_count h)).
End Interp.

(* the two interpolations instantiated linearly (exact for custom buckets and the zero bucket,
   where the Go code interpolates linearly as well) *)
Definition ilin (a b f : Q) : Q := a + (b - a) * f.
Definition flin (a b x : Q) : Q := (x - a) / (b - a).

(* ---- histogram_count / histogram_sum / histogram_avg (simpleHistogramFunc bodies) ---- *)
Definition hist_count (h : hist) : res := R (Fin (h_count h)).
Definition hist_sum (h : hist) : res := h_sum h.
(* h.Sum / h.Count in float64 semantics *)
Definition fdiv (s : res) (c : Q) : res :=
  match s with
  | RNaN => RNaN
  | R (Fin x) =>
      if Qeq_bool c 0 then (if Qeq_bool x 0 then RNaN else if Qle_bool 0 x then R PInf else R NInf)
      else R (Fin (x / c))
  | R PInf => if Qlt_bool c 0 then R NInf else R PInf
  | R NInf => if Qlt_bool c 0 then R PInf else R NInf
  end.
Definition hist_avg (h : hist) : res := fdiv (h_sum h) (h_count h).

(* ------------------------------------------------------------------ classic histograms *)
Record cbucket := mkCB { ub : ext; cc : Q }.

(* slices.SortFunc by upper bound: modelled as insertion sort (the order of equal upper
   bounds is irrelevant: coalesceBuckets adds their counts) *)
Fixpoint cinsert (b : cbucket) (l : list cbucket) : list cbucket :=
  match l with
  | [] => [b]
  | x :: r => if ext_leb (ub b) (ub x) then b :: l else x :: cinsert b r
  end.
Definition csort (l : list cbucket) : list cbucket := fold_right cinsert [] l.

(* coalesceBuckets: merge runs of equal upper bounds (input sorted, non-empty) *)
Fixpoint coalesce_go (last : cbucket) (bs : list cbucket) : list cbucket :=
  match bs with
  | [] => [last]
  | b :: r =>
      if ext_eqb (ub b) (ub last) then coalesce_go (mkCB (ub last) (cc last + cc b)) r
      else last :: coalesce_go b r
  end.
Definition coalesce (bs : list cbucket) : list cbucket :=
  match bs with [] => [] | b :: r => coalesce_go b r end.

(* util/almost.Equal(a, b, epsilon) on finite values; minNormal = 2^-1022.
   (the clamp min(absSum, MaxFloat64) is the identity on finite float64 sums that do not
   overflow; counts near MaxFloat64 are outside the model) *)
Definition min_normal : Q := 1 # (2 ^ 1022).
Definition almost_equal (a b eps : Q) : bool :=
  if Qeq_bool a b then true
  else
    let abs_sum := Qabs a + Qabs b in
    let diff := Qabs (a - b) in
    if Qeq_bool a 0 || Qeq_bool b 0 || Qlt_bool abs_sum min_normal
    then Qlt_bool diff (eps * min_normal)
    else Qlt_bool (diff / abs_sum) eps.

Definition small_delta_tolerance : Q := 1 # 1000000000000.

(* ensureMonotonicAndIgnoreSmallDeltas: returns the corrected buckets and forcedMonotonic *)
Fixpoint ensure_go (tol prev : Q) (bs : list cbucket) : list cbucket * bool :=
  match bs with
  | [] => ([], false)
  | b :: r =>
      let curr := cc b in
      if Qeq_bool curr prev then
        let '(r', f) := ensure_go tol prev r in (b :: r', f)
      else if almost_equal prev curr tol then
        let '(r', f) := ensure_go tol prev r in (mkCB (ub b) prev :: r', f)
      else if Qlt_bool curr prev then
        let '(r', f) := ensure_go tol prev r in (mkCB (ub b) prev :: r', true)
      else
        let '(r', f) := ensure_go tol curr r in (b :: r', f)
  end.
Definition ensure_monotonic (tol : Q) (bs : list cbucket) : list cbucket * bool :=
  match bs with
  | [] => ([], false)
  | b :: r => let '(r', f) := ensure_go tol (cc b) r in (b :: r', f)
  end.

(* sort.Search(n, f): i, j := 0, n; for i < j { h := (i+j)/2; if !f(h) {i = h+1} else {j = h} } *)
Fixpoint bsearch (fuel : nat) (f : nat -> bool) (i j : nat) : option nat :=
  if Nat.ltb i j then
    match fuel with
    | O => None                       (* out of fuel: never with fuel >= j - i *)
    | S fuel' =>
        let h := Nat.div2 (i + j) in
        if negb (f h) then bsearch fuel' f (S h) j else bsearch fuel' f i h
    end
  else Some i.
Definition sort_search (n : nat) (f : nat -> bool) : option nat := bsearch n f 0%nat n.

Definition dflt : cbucket := mkCB (Fin 0) 0.
Definition nthb (bs : list cbucket) (i : nat) : cbucket := nth i bs dflt.

Inductive qres := QOk (r : res) (forced : bool) | QPanic | QFuel.

(* BucketQuantile for q in [0,1] or outside (q NaN not modelled).
   buckets[len-1] on an empty slice panics (index out of range). *)
Definition bucket_quantile (q : Q) (bs0 : list cbucket) : qres :=
  if Qlt_bool q 0 then QOk (R NInf) false
  else if Qlt_bool 1 q then QOk (R PInf) false
  else
    let sorted := csort bs0 in
    match sorted with
    | [] => QPanic
    | _ =>
        if negb (is_pinf (ub (last sorted dflt))) then QOk RNaN false
        else
          let '(bs, forced) := ensure_monotonic small_delta_tolerance (coalesce sorted) in
          let n := length bs in
          if Nat.ltb n 2 then QOk RNaN forced
          else
            let observations := cc (nthb bs (n - 1)) in
            if Qeq_bool observations 0 then QOk RNaN forced
            else
              let rank := q * observations in
              match sort_search (n - 1) (fun i => Qle_bool rank (cc (nthb bs i))) with
              | None => QFuel
              | Some b =>
                  if Nat.eqb b (n - 1) then QOk (R (ub (nthb bs (n - 2)))) forced
                  else if Nat.eqb b 0 && ext_leb (ub (nthb bs 0)) (Fin 0)
                  then QOk (R (ub (nthb bs 0))) forced
                  else
                    let bend := ub (nthb bs b) in
                    let '(bstart, count, rank) :=
                      if Nat.ltb 0 b
                      then (ub (nthb bs (b - 1)),
                            cc (nthb bs b) - cc (nthb bs (b - 1)),
                            rank - cc (nthb bs (b - 1)))
                      else (Fin 0, cc (nthb bs b), rank) in
                    (* bucketStart + (bucketEnd-bucketStart)*(rank/count); 0/0 = NaN *)
                    if Qeq_bool count 0 then QOk RNaN forced
                    else QOk (lin bstart bend (rank / count)) forced
              end
    end.

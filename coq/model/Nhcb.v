(* model/Nhcb.v — executable model of the classic-histogram -> NHCB conversion done while parsing.

   Transcribed from
     /repo/util/convertnhcb/convertnhcb.go   TempHistogram.{SetBucketCount,SetCount,SetSum,Convert},
                                             GetHistogramMetricBaseName, GetHistogramMetricBase
     /repo/model/textparse/nhcbparse.go      NHCBParser.{Next,differentMetric,storeClassicLabels,
                                             storeExponentialLabels,handleClassicHistogramSeries,
                                             processClassicHistogramSeries,storeExemplars,
                                             nextExemplarPtr,swapExemplars,processNHCB,
                                             StartTimestamp,Exemplar,Histogram}

   The pull loop of Next() is turned into a push function: [step] consumes one entry of the
   wrapped parser and returns the entries the wrapper hands to its caller for it (an optional
   converted histogram first — the stateEmitting round trip — then the entry itself unless it
   is swallowed).  Definitions only; proofs are in proof/NhcbProofs.v.

   Numbers.  Sample values and bucket bounds are float64 in Go.  The model carries them as
   [num]: [Fin z] is the dyadic rational z/8 (exact in float64 for the magnitudes used), plus
   the three special values.  Cumulative counts (values of _bucket/_count series that are
   collected) must be finite; a non-finite one puts the run outside the model ([p_oom]). *)
From Coq Require Import List ZArith Bool String.
Import ListNotations.
Open Scope Z_scope.

(* ------------------------------------------------------------------ numbers *)
Inductive num := Fin (z : Z) | PInf | NInf | NaN.

Definition num_eqb (a b : num) : bool :=          (* structural (bit) equality, for comparisons *)
  match a, b with
  | Fin x, Fin y => x =? y | PInf, PInf => true | NInf, NInf => true | NaN, NaN => true
  | _, _ => false
  end.
Definition num_feq (a b : num) : bool :=          (* Go's == on float64 *)
  match a, b with NaN, _ | _, NaN => false | _, _ => num_eqb a b end.
Definition num_lt (a b : num) : bool :=           (* Go's < on float64 *)
  match a, b with
  | NaN, _ | _, NaN => false
  | Fin x, Fin y => x <? y
  | NInf, NInf => false | NInf, _ => true
  | _, PInf => negb (num_eqb a PInf)
  | _, _ => false
  end.
Definition num_ge (a b : num) : bool :=           (* Go's >= *)
  match a, b with NaN, _ | _, NaN => false | _, _ => negb (num_lt a b) end.

(* ------------------------------------------------------------------ TempHistogram *)
Definition bucket := (num * Z)%type.              (* le, cumulative count (scaled by 8) *)
Record temph := mkTH {
  th_b : list bucket; th_count : Z; th_sum : num; th_err : bool; th_hasCount : bool }.
Definition th_empty : temph := mkTH [] 0 (Fin 0) false false.     (* NewTempHistogram / Reset *)

Inductive insres := IOk (l : list bucket) | IErr | IPanic.

(* the "default" branch of SetBucketCount: i := sort.Search(first le >= boundary), duplicate
   test, the two cumulativity tests, insertion.  [prev] is buckets[i-1].count when i > 0.
   IPanic is the index-out-of-range Go would raise if no bucket were >= boundary. *)
Fixpoint th_insert (prev : option Z) (l : list bucket) (b : num) (c : Z) : insres :=
  match l with
  | [] => IPanic
  | (le, cn) :: r =>
      if num_ge le b then
        if num_feq le b then IOk l
        else if (match prev with Some p => c <? p | None => false end) then IErr
        else if c >? cn then IErr
        else IOk ((b, c) :: l)
      else match th_insert (Some cn) r b c with
           | IOk r' => IOk ((le, cn) :: r')
           | e => e
           end
  end.

Definition th_seterr (h : temph) : temph := mkTH (th_b h) (th_count h) (th_sum h) true (th_hasCount h).
Definition th_setb (h : temph) (l : list bucket) : temph :=
  mkTH l (th_count h) (th_sum h) (th_err h) (th_hasCount h).

(* SetBucketCount; None = Go panic *)
Definition set_bucket (h : temph) (b : num) (c : Z) : option temph :=
  if th_err h then Some h
  else if num_eqb b NaN then Some (th_seterr h)
  else if c <? 0 then Some (th_seterr h)
  else match last (map Some (th_b h)) None with
       | None => Some (th_setb h [(b, c)])
       | Some (lle, lc) =>
           if num_lt lle b then
             if c <? lc then Some (th_seterr h) else Some (th_setb h (th_b h ++ [(b, c)]))
           else if num_feq lle b then Some h
           else match th_insert None (th_b h) b c with
                | IOk l => Some (th_setb h l)
                | IErr => Some (th_seterr h)
                | IPanic => None
                end
       end.

Definition set_count (h : temph) (c : Z) : temph :=
  if th_err h then h
  else if c <? 0 then th_seterr h
  else mkTH (th_b h) c (th_sum h) false true.
Definition set_sum (h : temph) (s : num) : temph :=
  if th_err h then h else mkTH (th_b h) (th_count h) s (th_err h) (th_hasCount h).

(* the converted histogram, projected: float or integer flavour, count, sum, custom bounds and
   the absolute (de-cumulated) count of every bucket including the implicit +Inf one.  Counts
   are scaled by 8 like all numbers.  (Span layout / Compact are not modelled: the harness
   expands the spans of the real result to absolute counts.) *)
Record nhcb := mkNH { nh_float : bool; nh_count : Z; nh_sum : num; nh_bounds : list num; nh_cnts : list Z }.

Fixpoint decumulate (prev : Z) (l : list bucket) : list Z :=
  match l with [] => [] | (_, c) :: r => (c - prev) :: decumulate c r end.

Definition is_int8 (z : Z) : bool := z mod 8 =? 0.

(* Convert.  None = error (sticky error, or count mismatch). *)
Definition convert (h : temph) : option nhcb :=
  if th_err h then None
  else
    let count := match last (map Some (th_b h)) None with
                 | Some (_, lc) => if th_hasCount h then th_count h else lc
                 | None => th_count h
                 end in
    let bs := match last (map Some (th_b h)) None with
              | Some (lle, _) => if num_feq lle PInf then th_b h else th_b h ++ [(PInf, count)]
              | None => [(PInf, count)]
              end in
    let isint := forallb (fun b => is_int8 (snd b)) bs && is_int8 count in
    match last (map Some bs) None with
    | Some (_, lc) =>
        if count =? lc then
          Some (mkNH (negb isint) count (th_sum h) (map fst (removelast bs)) (decumulate 0 bs))
        else None
    | None => None
    end.

(* Histogram.Validate / FloatHistogram.Validate on a converted histogram: bounds are strictly
   increasing and NaN-free by construction and the bucket sum telescopes to the count, so the
   only way to fail is a negative de-cumulated bucket (the appended +Inf bucket when _count is
   below the highest explicit bucket). *)
Definition validate (n : nhcb) : bool := forallb (fun c => 0 <=? c) (nh_cnts n).

(* ------------------------------------------------------------------ labels and names *)
Definition labels := list (string * string).
Definition NAME : string := "__name__".
Definition LE : string := "le".

Fixpoint lget (l : labels) (n : string) : string :=
  match l with [] => EmptyString | (k, v) :: r => if String.eqb k n then v else lget r n end.
Fixpoint lhas (l : labels) (n : string) : bool :=
  match l with [] => false | (k, _) :: r => String.eqb k n || lhas r n end.

Definition cut_suffix (s suf : string) : option string :=
  let n := String.length s in let m := String.length suf in
  if (m <=? n)%nat && String.eqb (substring (n - m) m s) suf then Some (substring 0 (n - m) s) else None.

Inductive suffix := SufNone | SufBucket | SufSum | SufCount.
Definition base_name (s : string) : suffix * string :=
  match cut_suffix s "_bucket" with
  | Some r => (SufBucket, r)
  | None => match cut_suffix s "_sum" with
            | Some r => (SufSum, r)
            | None => match cut_suffix s "_count" with
                      | Some r => (SufCount, r)
                      | None => (SufNone, s)
                      end
            end
  end.

(* what Labels.HashWithoutLabels(buf, names...) hashes: every label except __name__ and the
   named ones.  The 64-bit xxhash is taken as injective on the label sets of one run. *)
Definition without (l : labels) (names : list string) : labels :=
  filter (fun kv => negb (String.eqb (fst kv) NAME || existsb (String.eqb (fst kv)) names)) l.

Fixpoint labels_eqb (a b : labels) : bool :=
  match a, b with
  | [], [] => true
  | (k, v) :: r, (k', v') :: r' => String.eqb k k' && String.eqb v v' && labels_eqb r r'
  | _, _ => false
  end.

(* GetHistogramMetricBase: Builder.Set(__name__, name).Del(le).Labels() *)
Definition metric_base (l : labels) (name : string) : labels :=
  map (fun kv => if String.eqb (fst kv) NAME then (NAME, name) else kv)
      (filter (fun kv => negb (String.eqb (fst kv) LE)) l).

(* ------------------------------------------------------------------ entries *)
Definition T_HISTOGRAM : Z := 2.     (* codes of model.MetricType: see the harness *)

(* an exemplar: identity (>= 1; stands for labels and value) and its timestamp if it has one *)
Definition exem := (Z * option Z)%type.
Definition ex_zero : exem := (0, None).          (* exemplar.Exemplar{} *)

Record sample := mkS {
  s_lset : labels;
  s_ts : option Z;          (* timestamp, if the entry has one *)
  s_st : Z;                 (* StartTimestamp() *)
  s_ex : list exem          (* the exemplars Exemplar() yields, in order, each read into a zeroed struct *)
}.

Inductive bentry :=                         (* what the wrapped parser yields *)
| BSeries (s : sample) (v : num)
| BHist (s : sample) (hid : Z)              (* native (exponential) histogram, opaque *)
| BType (name : string) (typ : Z)
| BOther (kind : Z) (a b : string).         (* help / unit / comment *)

Inductive oentry :=                         (* what the caller of the wrapper sees *)
| OSeries (s : sample) (v : num)
| OHist (s : sample) (hid : Z)
| ONhcb (s : sample) (h : nhcb)
| OType (name : string) (typ : Z)
| OOther (kind : Z) (a b : string).

Definition is_nhcb (o : oentry) : bool := match o with ONhcb _ _ => true | _ => false end.
(* a wrapped parser's entry as the caller would see it without conversion *)
Definition to_o (e : bentry) : oentry :=
  match e with
  | BSeries s v => OSeries s v | BHist s h => OHist s h | BType n t => OType n t | BOther k a b => OOther k a b
  end.

Inductive cstate := SStart | SCollecting | SInhibiting.   (* stateEmitting is internal to [step] *)

(* the exemplar buffer: tempExemplars (physical array up to its capacity, its length) and
   tempExemplarCount. *)
Record exbuf := mkEB { eb_arr : list exem; eb_len : nat; eb_cnt : nat }.
Definition eb_empty : exbuf := mkEB [] 0 0.

(* Go's append growth for one more element (doubling; exact for the 40-byte Exemplar up to 32) *)
Definition growcap (c : nat) : nat := match c with O => 1%nat | _ => (2 * c)%nat end.

Fixpoint zero_nth (n : nat) (l : list exem) : list exem :=
  match l, n with
  | [], _ => []
  | _ :: r, O => ex_zero :: r
  | y :: r, S k => y :: zero_nth k r
  end.

(* nextExemplarPtr.  [zero] = repair 3 of notes/C36_fix.md: a slot taken into use again by
   re-slicing is zeroed first. *)
Definition next_ptr (zero : bool) (e : exbuf) : exbuf :=
  if (Z.of_nat (eb_cnt e) =? Z.of_nat (eb_len e) - 1) then e
  else if (eb_len e =? List.length (eb_arr e))%nat then
    mkEB (firstn (eb_len e) (eb_arr e) ++ repeat ex_zero (growcap (eb_len e) - eb_len e)) (S (eb_len e)) (eb_cnt e)
  else mkEB (if zero then zero_nth (eb_len e) (eb_arr e) else eb_arr e) (S (eb_len e)) (eb_cnt e).

(* parser.Exemplar(ex) writing into slot n.  OpenMetricsParser.Exemplar assigns Labels and Value
   always but HasTs/Ts only when the exemplar has a timestamp ([partial] = true): whatever the
   slot held before shows through.  The scripted parser of the harness assigns every field. *)
Fixpoint write_nth (partial : bool) (n : nat) (x : exem) (l : list exem) : list exem :=
  match l, n with
  | [], _ => []
  | old :: r, O =>
      (fst x, match snd x with Some t => Some t | None => if partial then snd old else None end) :: r
  | y :: r, S k => y :: write_nth partial k x r
  end.

(* storeExemplars: for ex := next(); parser.Exemplar(ex); ex = next() { count++ } *)
Fixpoint store_exemplars (partial zero : bool) (e : exbuf) (xs : list exem) : exbuf :=
  match xs with
  | [] => next_ptr zero e
  | x :: r =>
      let e1 := next_ptr zero e in
      store_exemplars partial zero
        (mkEB (write_nth partial (eb_len e1 - 1) x (eb_arr e1)) (eb_len e1) (S (eb_cnt e1))) r
  end.

Record pst := mkP {
  p_state : cstate;
  p_typ : Z; p_bname : string;                 (* last Type() *)
  p_ts : option Z;                             (* p.ts: timestamp of the last series/histogram read *)
  p_tmpl : labels; p_tmp : temph; p_ex : exbuf; p_tmpst : Z;
  p_lastname : string; p_lasthash : labels;
  p_oom : bool;                                (* left the modelled domain (non-finite count / Go panic) *)
  p_tmpts : option Z;                          (* repaired code only: timestamp of the last collated series *)
  p_curex : list exem                          (* repaired code only: the current collated series' exemplars
                                                  as stored in tempExemplars *)
}.
Definition p_init : pst := mkP SStart (-1) EmptyString None [] th_empty eb_empty 0 EmptyString [] false None [].

Definition set_state (p : pst) (s : cstate) : pst :=
  mkP s (p_typ p) (p_bname p) (p_ts p) (p_tmpl p) (p_tmp p) (p_ex p) (p_tmpst p) (p_lastname p) (p_lasthash p) (p_oom p) (p_tmpts p) (p_curex p).

Definition different_metric (p : pst) (l : labels) : bool :=
  if negb (p_typ p =? T_HISTOGRAM) then true
  else if negb (String.eqb (p_lastname p) (snd (base_name (lget l NAME)))) then true
  else negb (labels_eqb (p_lasthash p) (without l [LE])).

(* [fix_ts], [fix_keepex]: the repairs proposed in notes/C36_fix.md (false = the code as found):
   fix_ts      the converted histogram carries the timestamp of its last collated series, kept
               by value, instead of whatever p.ts points to when it is emitted;
   fix_keepex  a kept classic series still reports its exemplars (served from tempExemplars);
   fix_exzero  a buffer slot taken into use again is zeroed (no stale exemplar timestamp);
   fix_exreset a failed conversion also empties tempExemplars;
   fix_validate a converted histogram that fails Validate is dropped like one that fails to
               convert (state and TempHistogram reset). *)
Record cfg := mkCfg { keep_classic : bool; parse_st : bool; ex_partial : bool;
                      fix_ts : bool; fix_keepex : bool;
                      fix_exzero : bool; fix_exreset : bool; fix_validate : bool }.

(* processNHCB: (converted?, state afterwards, the histogram entry to emit) *)
Definition process_nhcb (c : cfg) (p : pst) : bool * pst * list oentry :=
  match p_state p with
  | SCollecting =>
      let failed :=
        (false,
         mkP SStart (p_typ p) (p_bname p) (p_ts p) (p_tmpl p) th_empty
             (mkEB (eb_arr (p_ex p)) (if fix_exreset c then O else eb_len (p_ex p)) 0) 0
             (p_lastname p) (p_lasthash p) (p_oom p) (p_tmpts p) (p_curex p),
         []) in
      match convert (p_tmp p) with
      | Some n =>
          if validate n then
            (true,
             mkP SStart (p_typ p) (p_bname p) (p_ts p) (p_tmpl p) th_empty
                 (mkEB (eb_arr (p_ex p)) 0 0) 0 (p_lastname p) (p_lasthash p) (p_oom p) (p_tmpts p) (p_curex p),
             [ONhcb (mkS (p_tmpl p) (if fix_ts c then p_tmpts p else p_ts p) (p_tmpst p)
                         (firstn (eb_cnt (p_ex p)) (eb_arr (p_ex p)))) n])
          else if fix_validate c then failed
          else (false, p, [])            (* `return false` before anything is reset *)
      | None => failed
      end
  | _ => (false, p, [])
  end.

Inductive upd := UBucket (le : num) | UCount | USum.

(* processClassicHistogramSeries *)
Definition process_classic (c : cfg) (p : pst) (s : sample) (v : num) (name : string) (u : upd) : pst :=
  let p1 := match p_state p with
            | SCollecting => p
            | _ => mkP SCollecting (p_typ p) (p_bname p) (p_ts p) (metric_base (s_lset s) name) (p_tmp p)
                       (p_ex p) (if parse_st c then s_st s else 0) name (without (s_lset s) [LE]) (p_oom p) (p_tmpts p) (p_curex p)
            end in
  let ex := store_exemplars (ex_partial c) (fix_exzero c) (p_ex p1) (s_ex s) in
  let '(tmp, oom) :=
    match u, v with
    | USum, _ => (set_sum (p_tmp p1) v, false)
    | UCount, Fin z => (set_count (p_tmp p1) z, false)
    | UBucket le, Fin z => match set_bucket (p_tmp p1) le z with
                           | Some t => (t, false)
                           | None => (p_tmp p1, true)
                           end
    | _, _ => (p_tmp p1, true)
    end in
  mkP (p_state p1) (p_typ p1) (p_bname p1) (p_ts p1) (p_tmpl p1) tmp ex (p_tmpst p1)
      (p_lastname p1) (p_lasthash p1) (p_oom p1 || oom) (p_ts p1)
      (firstn (eb_cnt ex - eb_cnt (p_ex p1)) (skipn (eb_cnt (p_ex p1)) (eb_arr ex))).

(* strconv.ParseFloat on the le label value is an oracle, tabulated by the harness *)
Section WithParse.
Variable parse_le : string -> option num.

(* handleClassicHistogramSeries *)
Definition handle_classic (c : cfg) (p : pst) (s : sample) (v : num) : bool * pst :=
  if negb (p_typ p =? T_HISTOGRAM) then (false, p)
  else
    let '(suf, name) := base_name (lget (s_lset s) NAME) in
    if negb (String.eqb name (p_bname p)) then (false, p)
    else match suf with
         | SufBucket =>
             if negb (lhas (s_lset s) LE) then (false, p)
             else match parse_le (lget (s_lset s) LE) with
                  | Some le => if num_eqb le NaN then (false, p)
                               else (true, process_classic c p s v name (UBucket le))
                  | None => (false, p)
                  end
         | SufCount => (true, process_classic c p s v name UCount)
         | SufSum => (true, process_classic c p s v name USum)
         | SufNone => (false, p)
         end.

(* what the caller observes for a series entry returned in state [p] (after handling):
   Exemplar() is the wrapped parser's, already drained if the series was collected;
   StartTimestamp() is tempST while collecting, the wrapped parser's otherwise *)
Definition out_series (c : cfg) (p : pst) (collected : bool) (s : sample) (v : num) : oentry :=
  OSeries (mkS (s_lset s) (s_ts s)
               (match p_state p with SCollecting => p_tmpst p | _ => s_st s end)
               (if collected then (if fix_keepex c then p_curex p else []) else s_ex s)) v.

Definition emit_series (c : cfg) (r : bool * pst) (s : sample) (v : num) : pst * list oentry :=
  let '(isn, p) := r in
  (p, if isn && negb (keep_classic c) then [] else [out_series c p isn s v]).

Definition set_ts (p : pst) (t : option Z) : pst :=
  mkP (p_state p) (p_typ p) (p_bname p) t (p_tmpl p) (p_tmp p) (p_ex p) (p_tmpst p) (p_lastname p) (p_lasthash p) (p_oom p) (p_tmpts p) (p_curex p).

(* one entry of the wrapped parser through Next() (and, if a converted histogram is inserted,
   the following Next() that re-handles the cached entry) *)
Definition step (c : cfg) (p : pst) (e : bentry) : pst * list oentry :=
  match e with
  | BSeries s v =>
      let p := set_ts p (s_ts s) in
      match p_state p with
      | SCollecting =>
          if different_metric p (s_lset s) then
            let '(_, p1, fl) := process_nhcb c p in
            let '(p2, out) := emit_series c (handle_classic c p1 s v) s v in
            (p2, fl ++ out)
          else emit_series c (handle_classic c p s v) s v
      | SInhibiting =>
          if different_metric p (s_lset s) then
            emit_series c (handle_classic c (set_state p SStart) s v) s v
          else emit_series c (false, p) s v
      | SStart => emit_series c (handle_classic c p s v) s v
      end
  | BHist s hid =>
      (* state = inhibiting first, so the processNHCB() below it never converts *)
      (mkP SInhibiting (p_typ p) (p_bname p) (s_ts s) (p_tmpl p) (p_tmp p) (p_ex p) (p_tmpst p)
           (lget (s_lset s) NAME) (without (s_lset s) []) (p_oom p) (p_tmpts p) (p_curex p),
       [OHist s hid])
  | BType name typ =>
      let p0 := mkP (p_state p) typ name (p_ts p) (p_tmpl p) (p_tmp p) (p_ex p) (p_tmpst p)
                    (p_lastname p) (p_lasthash p) (p_oom p) (p_tmpts p) (p_curex p) in
      let '(_, p1, fl) := process_nhcb c p0 in
      (p1, fl ++ [OType name typ])
  | BOther k a b =>
      let '(_, p1, fl) := process_nhcb c p in
      (p1, fl ++ [OOther k a b])
  end.

Fixpoint run_from (c : cfg) (p : pst) (es : list bentry) : pst * list oentry :=
  match es with
  | [] => (p, [])
  | e :: r => let '(p1, o1) := step c p e in
              let '(p2, o2) := run_from c p1 r in
              (p2, o1 ++ o2)
  end.

(* a whole parse: the wrapped parser's entries, then io.EOF ([eof] = true; a last conversion
   is attempted) or another error (returned at once, nothing flushed) *)
Definition run (c : cfg) (es : list bentry) (eof : bool) : list oentry * bool :=
  let '(p, out) := run_from c p_init es in
  (if eof then out ++ snd (process_nhcb c p) else out, p_oom p).

(* ---- the protobuf parser's own conversion (ProtobufParser with convertClassicHistogramsToNHCB) ----
   The protobuf parser does not use NHCBParser: for every metric of a histogram family that has
   no native histogram it calls convertToNHCB (SetCount, SetSum, SetBucketCount for every
   explicit bucket, Convert — no Validate) and emits the result right behind the metric's
   classic series, which it emits only with keep-classic.  A conversion error ends the parse.
   The model works on the entry stream of the same parser WITHOUT conversion: a classic
   histogram metric is a maximal run of classic series with one label set; classic series
   directly behind a native histogram of the same label set belong to that native metric. *)
Record pgroup := mkPG { pg_name : string; pg_key : labels; pg_first : sample;
                        pg_tmp : option temph; pg_ex : list exem }.

Definition proto_close (g : option pgroup) : option (list oentry) :=
  match g with
  | None => Some []
  | Some g =>
      match pg_tmp g with
      | None => None
      | Some t =>
          match convert t with
          | Some n => Some [ONhcb (mkS (metric_base (s_lset (pg_first g)) (pg_name g)) (s_ts (pg_first g))
                                       (s_st (pg_first g)) (pg_ex g)) n]
          | None => None
          end
      end
  end.

(* the protobuf parser converts HISTOGRAM and GAUGE_HISTOGRAM families alike *)
Definition T_GAUGE_HISTOGRAM : Z := 3.
Definition proto_role (typ : Z) (bname : string) (l : labels) : option (string * upd) :=
  if negb ((typ =? T_HISTOGRAM) || (typ =? T_GAUGE_HISTOGRAM)) then None
  else let '(suf, name) := base_name (lget l NAME) in
       if negb (String.eqb name bname) then None
       else match suf with
            | SufBucket => if lhas l LE then
                             match parse_le (lget l LE) with
                             | Some le => if num_eqb le NaN then None else Some (name, UBucket le)
                             | None => None
                             end
                           else None
            | SufCount => Some (name, UCount)
            | SufSum => Some (name, USum)
            | SufNone => None
            end.

Definition proto_apply (t : option temph) (u : upd) (v : num) : option temph :=
  match t with
  | None => None
  | Some t =>
      match u, v with
      | USum, _ => Some (set_sum t v)
      | UCount, Fin z => Some (set_count t z)
      (* the synthesised le="+Inf" series of a histogram without explicit +Inf bucket is not
         fed to the TempHistogram; feeding it is equivalent (Convert appends the same bucket) *)
      | UBucket le, Fin z => set_bucket t le z
      | _, _ => None
      end
  end.

(* exemplars of the converted histogram: the buckets' exemplars that have a timestamp *)
Definition ex_with_ts (l : list exem) : list exem :=
  filter (fun e => match snd e with Some _ => true | None => false end) l.

Fixpoint proto_walk (keep : bool) (typ : Z) (bname : string) (nat_key : option labels)
    (g : option pgroup) (es : list bentry) : list oentry * bool :=
  let closing (k : list oentry -> list oentry * bool) : list oentry * bool :=
    match proto_close g with
    | Some fl => let '(o, ok) := k fl in (o, ok)
    | None => ([], false)
    end in
  match es with
  | [] => closing (fun fl => (fl, true))
  | BSeries s v :: r =>
      match proto_role typ bname (s_lset s) with
      | Some (name, u) =>
          let key := without (s_lset s) [LE] in
          if match nat_key with Some k => labels_eqb k key | None => false end then
            closing (fun fl => let '(o, ok) := proto_walk keep typ bname nat_key None r in
                               (fl ++ OSeries s v :: o, ok))
          else
            let own := if keep then [OSeries s v] else [] in
            if match g with Some g0 => labels_eqb (pg_key g0) key | None => false end then
              match g with
              | Some g0 =>
                  let g1 := mkPG (pg_name g0) (pg_key g0) (pg_first g0) (proto_apply (pg_tmp g0) u v)
                                 (pg_ex g0 ++ ex_with_ts (s_ex s)) in
                  let '(o, ok) := proto_walk keep typ bname nat_key (Some g1) r in (own ++ o, ok)
              | None => ([], false)
              end
            else
              closing (fun fl =>
                let g1 := mkPG name key s (proto_apply (Some th_empty) u v) (ex_with_ts (s_ex s)) in
                let '(o, ok) := proto_walk keep typ bname None (Some g1) r in (fl ++ own ++ o, ok))
      | None =>
          closing (fun fl => let '(o, ok) := proto_walk keep typ bname nat_key None r in
                             (fl ++ OSeries s v :: o, ok))
      end
  | BHist s h :: r =>
      closing (fun fl => let '(o, ok) := proto_walk keep typ bname (Some (without (s_lset s) [])) None r in
                         (fl ++ OHist s h :: o, ok))
  | BType n t :: r =>
      closing (fun fl => let '(o, ok) := proto_walk keep t n None None r in (fl ++ OType n t :: o, ok))
  | BOther k a b :: r =>
      closing (fun fl => let '(o, ok) := proto_walk keep typ bname nat_key None r in
                         (fl ++ OOther k a b :: o, ok))
  end.

Definition proto_run (keep : bool) (es : list bentry) : list oentry * bool :=
  proto_walk keep (-1) EmptyString None None es.

End WithParse.

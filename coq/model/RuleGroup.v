(* model/RuleGroup.v — executable model for C45 (recording rules write their results and
   staleness markers).  Definitions only; proofs are in proof/RuleGroupProofs.v.

   Transcribed from /repo/rules/group.go (Group.Eval incl. the per-rule closure `eval`,
   seriesInPreviousEval, the stale-marker loop, cleanupStaleSeries, CopyState, the
   markStale closure of Group.run) and /repo/rules/recording.go (RecordingRule.Eval).

   Abstractions (see notes/C45.md):
   * label names/values and metric names are integers (the harness numbers them so that the
     integer order of label names is the byte order of the strings; `__name__` is 0);
   * sample values are integers (the generated data and expressions keep every float64 an
     exactly represented integer) or the staleness marker;
   * the storage is the abstract append-only series store [st_append] (the head appender's
     admission rule with out-of-order ingestion disabled, which is what rules ask for with
     DiscardOutOfOrder): older than the series' newest sample = out of order, same timestamp
     and different value = duplicate, same timestamp and value = accepted no-op;
   * the query function is a small instant-query evaluator [query] over that store (selector
     with the 5m look-back and staleness handling, optional sum by, "* k + c", optional "> k")
     — the expressions the harness generates and hands to the real PromQL engine. *)
From Coq Require Import List ZArith Bool.
Import ListNotations.
Open Scope Z_scope.

(* ------------------------------------------------------------------ labels *)
Definition label := (Z * Z)%type.
Definition lset := list label.          (* sorted by label name, names distinct *)
Definition name_label : Z := 0.         (* __name__ *)

Definition label_eqb (a b : label) : bool := (fst a =? fst b) && (snd a =? snd b).
Fixpoint lset_eqb (a b : lset) : bool :=
  match a, b with
  | [], [] => true
  | x :: a', y :: b' => label_eqb x y && lset_eqb a' b'
  | _, _ => false
  end.

Fixpoint lget (l : lset) (k : Z) : option Z :=
  match l with
  | [] => None
  | (k', v) :: r => if k =? k' then Some v else lget r k
  end.

(* labels.Builder.Set k v (v non-empty) followed by Labels(): sorted insert / replace *)
Fixpoint lput (l : lset) (k v : Z) : lset :=
  match l with
  | [] => [(k, v)]
  | (k', v') :: r =>
      if k <? k' then (k, v) :: l
      else if k =? k' then (k, v) :: r
      else (k', v') :: lput r k v
  end.

Definition ldel (l : lset) (k : Z) : lset := filter (fun p => negb (fst p =? k)) l.
Definition lkeep (l : lset) (ks : list Z) : lset := filter (fun p => existsb (Z.eqb (fst p)) ks) l.

Definition mem (l : lset) (ls : list lset) : bool := existsb (lset_eqb l) ls.

(* ------------------------------------------------------------------ storage *)
Inductive val := VNum (z : Z) | VStale.
Definition val_eqb (a b : val) : bool :=
  match a, b with
  | VNum x, VNum y => x =? y
  | VStale, VStale => true
  | _, _ => false
  end.

Definition sample := (Z * val)%type.                 (* (timestamp ms, value) *)
Definition store := list (lset * list sample).       (* per series: newest sample first *)

Inductive ares := AOk | AOOO | ADup.                 (* nil / ErrOutOfOrderSample / ErrDuplicateSampleForTimestamp *)
Definition ares_ok (r : ares) : bool := match r with AOk => true | _ => false end.

Fixpoint samples (st : store) (l : lset) : list sample :=
  match st with
  | [] => []
  | (l', ss) :: rest => if lset_eqb l l' then ss else samples rest l
  end.

(* admission rule of the head appender for one float sample (OOO window 0 / DiscardOutOfOrder) *)
Definition admission (ss : list sample) (t : Z) (v : val) : ares :=
  match ss with
  | [] => AOk
  | (t0, v0) :: _ =>
      if t <? t0 then AOOO
      else if t =? t0 then (if val_eqb v v0 then AOk else ADup)
      else AOk
  end.

(* the samples of a series after an admitted append: identical (t, v) is a no-op *)
Definition push (ss : list sample) (t : Z) (v : val) : list sample :=
  match ss with
  | [] => [(t, v)]
  | (t0, _) :: _ => if t =? t0 then ss else (t, v) :: ss
  end.

Fixpoint st_put (st : store) (l : lset) (t : Z) (v : val) : store :=
  match st with
  | [] => [(l, [(t, v)])]
  | (l', ss) :: rest =>
      if lset_eqb l l' then (l', push ss t v) :: rest
      else (l', ss) :: st_put rest l t v
  end.

Definition st_append (st : store) (l : lset) (t : Z) (v : val) : store * ares :=
  match admission (samples st l) t v with
  | AOk => (st_put st l t v, AOk)
  | r => (st, r)
  end.

(* ------------------------------------------------------------------ instant queries *)
Definition lookback : Z := 300000.                   (* promql.EngineOpts.LookbackDelta default, ms *)

Fixpoint latest_le (ss : list sample) (qt : Z) : option sample :=
  match ss with
  | [] => None
  | (t, v) :: r => if t <=? qt then Some (t, v) else latest_le r qt
  end.

(* evaluator.vectorSelectorSingle: newest sample in (qt - lookback, qt], absent if stale *)
Definition sel_sample (ss : list sample) (qt : Z) : option Z :=
  match latest_le ss qt with
  | Some (t, VNum z) => if qt - lookback <? t then Some z else None
  | _ => None
  end.

Record expr := mkExpr {
  e_name : Z;                    (* metric name of the selector *)
  e_match : option label;        (* optional equality matcher  l="v" *)
  e_by : option (list Z);        (* Some ls:  sum by (ls) (<selector>) *)
  e_mul : Z;
  e_add : Z;                     (* (...) * mul + add   (drops the metric name) *)
  e_gt : option Z                (* (...) > k           (filter) *)
}.

Definition matches (e : expr) (l : lset) : bool :=
  match lget l name_label with Some n => n =? e_name e | None => false end &&
  match e_match e with
  | None => true
  | Some (k, v) => match lget l k with Some v' => v' =? v | None => false end
  end.

Definition vector := list (lset * Z).

Definition select (st : store) (e : expr) (qt : Z) : vector :=
  flat_map (fun ls => if matches e (fst ls)
                      then match sel_sample (snd ls) qt with Some z => [(fst ls, z)] | None => [] end
                      else []) st.

Fixpoint agg_add (acc : vector) (k : lset) (z : Z) : vector :=
  match acc with
  | [] => [(k, z)]
  | (k', z') :: r => if lset_eqb k k' then (k', z' + z) :: r else (k', z') :: agg_add r k z
  end.

Definition sum_by (ks : list Z) (v : vector) : vector :=
  fold_left (fun acc lz => agg_add acc (lkeep (fst lz) ks) (snd lz)) v [].

Definition query (st : store) (e : expr) (qt : Z) : vector :=
  let v0 := select st e qt in
  let v1 := match e_by e with
            | Some ks => sum_by ks v0
            | None => map (fun lz => (ldel (fst lz) name_label, snd lz)) v0
            end in
  let v2 := map (fun lz => (fst lz, snd lz * e_mul e + e_add e)) v1 in
  match e_gt e with
  | Some k => filter (fun lz => k <? snd lz) v2
  | None => v2
  end.

(* ------------------------------------------------------------------ RecordingRule.Eval *)
Record rule := mkRule { r_name : Z; r_labels : lset; r_expr : expr }.

Definition relabel (r : rule) (l : lset) : lset :=
  fold_left (fun acc kv => lput acc (fst kv) (snd kv)) (r_labels r) (lput l name_label (r_name r)).

Fixpoint has_dup (ls : list lset) : bool :=
  match ls with
  | [] => false
  | l :: r => mem l r || has_dup r
  end.

(* None: the rule evaluation failed (ErrDuplicateRecordingLabelSet, or the limit is exceeded) *)
Definition rule_eval (qf : store -> expr -> Z -> vector) (st : store) (r : rule) (qt limit : Z) : option vector :=
  let vec := map (fun lz => (relabel r (fst lz), snd lz)) (qf st (r_expr r) qt) in
  if has_dup (map fst vec) then None
  else if (0 <? limit) && (limit <? Z.of_nat (length vec)) then None
  else Some vec.

(* ------------------------------------------------------------------ Group.Eval *)
Definition arec := (lset * Z * val * ares)%type.     (* one Append call and its result *)

(* the loop over the result vector: append, remember the series whose append succeeded *)
Fixpoint append_vec (st : store) (vec : vector) (qt : Z) : store * list lset * list arec :=
  match vec with
  | [] => (st, [], [])
  | (l, z) :: rest =>
      let (st1, r) := st_append st l qt (VNum z) in
      let '(st2, ok, log) := append_vec st1 rest qt in
      (st2, (if ares_ok r then l :: ok else ok), (l, qt, VNum z, r) :: log)
  end.

Fixpoint append_stale (st : store) (ls : list lset) (qt : Z) : store * list arec :=
  match ls with
  | [] => (st, [])
  | l :: rest =>
      let (st1, r) := st_append st l qt VStale in
      let (st2, log) := append_stale st1 rest qt in
      (st2, (l, qt, VStale, r) :: log)
  end.

(* series of the previous successful evaluation that this one did not (successfully) write *)
Definition vanished (prev ok : list lset) : list lset := filter (fun l => negb (mem l ok)) prev.

(* the closure `eval` of Group.Eval for one rule: new store, new seriesInPreviousEval[i],
   and the Append calls of the rule's appender (None: rule.Eval failed, no appender) *)
Definition eval_rule (qf : store -> expr -> Z -> vector) (st : store) (r : rule) (prev : list lset) (qt limit : Z)
  : store * list lset * option (list arec) :=
  match rule_eval qf st r qt limit with
  | None => (st, prev, None)
  | Some vec =>
      let '(st1, ok, log1) := append_vec st vec qt in
      let (st2, log2) := append_stale st1 (vanished prev ok) qt in
      (st2, ok, Some (log1 ++ log2))
  end.

Inductive event :=
| EvRaw (r : ares)                                   (* a sample written directly (scrape) *)
| EvRule (gid ri : Z) (apps : option (list arec))    (* one rule evaluation *)
| EvCleanup (gid : Z) (apps : list arec).            (* cleanupStaleSeries' appender *)

(* rules are evaluated in order, each against the store left by its predecessors *)
Fixpoint eval_rules (qf : store -> expr -> Z -> vector) (gid : Z) (st : store) (qt limit : Z) (i : Z)
         (rules : list (rule * list lset)) : store * list (rule * list lset) * list event :=
  match rules with
  | [] => (st, [], [])
  | (r, prev) :: rs =>
      let '(st1, prev1, apps) := eval_rule qf st r prev qt limit in
      let '(st2, rs2, evs) := eval_rules qf gid st1 qt limit (i + 1) rs in
      (st2, (r, prev1) :: rs2, EvRule gid i apps :: evs)
  end.

(* cleanupStaleSeries: nothing at all when staleSeries is empty *)
Definition cleanup (gid : Z) (st : store) (stale : list lset) (qt : Z) : store * list event :=
  match stale with
  | [] => (st, [])
  | _ => let (st', log) := append_stale st stale qt in (st', [EvCleanup gid log])
  end.

Record group := mkGroup {
  g_rules : list (rule * list lset);   (* rules[i] with seriesInPreviousEval[i] *)
  g_stale : list lset;                 (* staleSeries *)
  g_offset : Z;                        (* query offset, ms *)
  g_limit : Z
}.

Definition group_eval (qf : store -> expr -> Z -> vector) (gid : Z) (st : store) (g : group) (ts : Z)
  : store * group * list event :=
  let qt := ts - g_offset g in
  let '(st1, rs, evs) := eval_rules qf gid st qt (g_limit g) 0 (g_rules g) in
  let (st2, evc) := cleanup gid st1 (g_stale g) qt in
  (st2, mkGroup rs [] (g_offset g) (g_limit g), evs ++ evc).

(* ------------------------------------------------------------------ CopyState *)
Definition rkey := (Z * lset)%type.                  (* nameAndLabels(rule) *)
Definition rkey_of (r : rule) : rkey := (r_name r, r_labels r).
Definition rkey_eqb (a b : rkey) : bool := (fst a =? fst b) && lset_eqb (snd a) (snd b).

(* ruleMap: key -> queue of the not yet matched old rules (represented by their
   seriesInPreviousEval entry, which is all CopyState reads through the index) *)
Definition rmap := list (rkey * list (list lset)).

Fixpoint rm_push (m : rmap) (k : rkey) (p : list lset) : rmap :=
  match m with
  | [] => [(k, [p])]
  | (k', q) :: r => if rkey_eqb k k' then (k', q ++ [p]) :: r else (k', q) :: rm_push r k p
  end.

Fixpoint rm_get (m : rmap) (k : rkey) : list (list lset) :=
  match m with
  | [] => []
  | (k', q) :: r => if rkey_eqb k k' then q else rm_get r k
  end.

Fixpoint rm_pop (m : rmap) (k : rkey) : rmap :=
  match m with
  | [] => []
  | (k', q) :: r => if rkey_eqb k k' then (k', tl q) :: r else (k', q) :: rm_pop r k
  end.

Definition build_map (from : list (rule * list lset)) : rmap :=
  fold_left (fun m rp => rm_push m (rkey_of (fst rp)) (snd rp)) from [].

Fixpoint match_rules (m : rmap) (rules : list rule) : list (rule * list lset) * rmap :=
  match rules with
  | [] => ([], m)
  | r :: rs =>
      match rm_get m (rkey_of r) with
      | [] => let (out, m') := match_rules m rs in ((r, []) :: out, m')
      | p :: _ => let (out, m') := match_rules (rm_pop m (rkey_of r)) rs in ((r, p) :: out, m')
      end
  end.

(* "Handle deleted and unmatched duplicate rules": every old rule whose KEY still has
   unmatched entries contributes all its series (also an old rule that was itself matched,
   when a later duplicate of it was not — as in the Go code) *)
Definition copy_state (newrules : list rule) (from : group) : list (rule * list lset) * list lset :=
  let (matched, m') := match_rules (build_map (g_rules from)) newrules in
  (matched,
   g_stale from ++ flat_map (fun rp => match rm_get m' (rkey_of (fst rp)) with
                                       | [] => []
                                       | _ => snd rp
                                       end) (g_rules from)).

(* ------------------------------------------------------------------ histories *)
Inductive op :=
| OpRaw (l : lset) (t : Z) (v : val)                         (* scraped sample / marker *)
| OpLoad (gid : Z) (rules : list rule) (offset limit : Z)    (* (re)load: NewGroup + CopyState(old) *)
| OpEval (gid : Z) (ts : Z)                                  (* Group.Eval(ts) *)
| OpRemove (gid : Z) (ts : Z).                               (* group deleted: markStale path of run() *)

Record state := mkState { s_store : store; s_groups : list (Z * group) }.

Fixpoint find_group (gs : list (Z * group)) (gid : Z) : option group :=
  match gs with
  | [] => None
  | (i, g) :: r => if i =? gid then Some g else find_group r gid
  end.

Fixpoint set_group (gs : list (Z * group)) (gid : Z) (g : group) : list (Z * group) :=
  match gs with
  | [] => [(gid, g)]
  | (i, g') :: r => if i =? gid then (gid, g) :: r else (i, g') :: set_group r gid g
  end.

Definition del_group (gs : list (Z * group)) (gid : Z) : list (Z * group) :=
  filter (fun ig => negb (fst ig =? gid)) gs.

Definition load_group (old : option group) (rules : list rule) (off limit : Z) : group :=
  match old with
  | None => mkGroup (map (fun r => (r, [])) rules) [] off limit
  | Some from => let (rs, stale) := copy_state rules from in mkGroup rs stale off limit
  end.

Definition step (qf : store -> expr -> Z -> vector) (s : state) (o : op) : state * list event :=
  match o with
  | OpRaw l t v =>
      let (st', r) := st_append (s_store s) l t v in (mkState st' (s_groups s), [EvRaw r])
  | OpLoad gid rules off limit =>
      (mkState (s_store s)
               (set_group (s_groups s) gid (load_group (find_group (s_groups s) gid) rules off limit)), [])
  | OpEval gid ts =>
      match find_group (s_groups s) gid with
      | None => (s, [])
      | Some g =>
          let '(st', g', evs) := group_eval qf gid (s_store s) g ts in
          (mkState st' (set_group (s_groups s) gid g'), evs)
      end
  | OpRemove gid ts =>
      match find_group (s_groups s) gid with
      | None => (s, [])
      | Some g =>
          (* run()'s deferred closure: all seriesInPreviousEval go to staleSeries, then
             cleanupStaleSeries(now) *)
          let stale := g_stale g ++ flat_map snd (g_rules g) in
          let (st', evs) := cleanup gid (s_store s) stale (ts - g_offset g) in
          (mkState st' (del_group (s_groups s) gid), evs)
      end
  end.

Fixpoint run_from (qf : store -> expr -> Z -> vector) (s : state) (ops : list op) : state * list event :=
  match ops with
  | [] => (s, [])
  | o :: r =>
      let (s1, e1) := step qf s o in
      let (s2, e2) := run_from qf s1 r in
      (s2, e1 ++ e2)
  end.

Definition init : state := mkState [] [].
Definition run (qf : store -> expr -> Z -> vector) (ops : list op) : state * list event := run_from qf init ops.

(* ------------------------------------------------------------------ dependency analysis, batches
   buildDependencyMap (rules/group.go) for rules whose expression has one vector selector with
   a metric name: a rule depends on every EARLIER rule of the group whose name the selector's
   name matcher matches; ruleDependencyController.AnalyseRules stores that on the rules and
   concurrentRuleEvalController.SplitGroupIntoBatches (rules/manager.go) orders the batches:
   all rules without dependencies (concurrently), then one by one the rules with dependencies
   and dependents, then all rules with dependencies but without dependents (concurrently). *)
Definition dep_on (r o : rule) : bool := e_name (r_expr r) =? r_name o.

Definition has_dependency (rules : list rule) (i : nat) : bool :=
  match nth_error rules i with
  | Some r => existsb (dep_on r) (firstn i rules)
  | None => false
  end.

Definition has_dependent (rules : list rule) (j : nat) : bool :=
  match nth_error rules j with
  | Some o => existsb (fun r => dep_on r o) (skipn (S j) rules)
  | None => false
  end.

Definition one_batch (b : list nat) : list (list nat) := match b with [] => [] | _ => [b] end.

Definition split_batches (rules : list rule) : list (list nat) :=
  let idx := seq 0 (length rules) in
  one_batch (filter (fun i => negb (has_dependency rules i)) idx)
  ++ map (fun i => [i]) (filter (fun i => has_dependency rules i && has_dependent rules i) idx)
  ++ one_batch (filter (fun i => has_dependency rules i && negb (has_dependent rules i)) idx).

(* model/Otlp.v — executable model of the OTLP -> Prometheus conversion core
   (storage/remote/otlptranslator/prometheusremotewrite): convertBucketsLayout,
   exponentialToNativeHistogram, explicitHistogramToCustomBucketsHistogram, the number data
   point / classic histogram paths, convertTimeStamp and the temporality gate of FromMetrics.
   Definitions only.  int32 / int64 / uint64 arithmetic wraps as in Go; floats are carried as
   their IEEE-754 bit patterns (Z) and are only ever copied, except int->float64 conversion,
   which is [float_of_Z] (round to nearest even). *)
From Coq Require Import List ZArith Bool Lia.
From Verif Require Import lib.Int64.
Import ListNotations.
Open Scope Z_scope.

Definition minInt32 : Z := -2147483648.
Definition maxInt32 : Z := 2147483647.
Definition two32 : Z := 4294967296.
Definition wrap32 (z : Z) : Z := (z + 2147483648) mod two32 - 2147483648.
Definition int32 (z : Z) : Prop := minInt32 <= z <= maxInt32.
Definition int32b (z : Z) : bool := (minInt32 <=? z) && (z <=? maxInt32).

(* ---------- convertBucketsLayout ---------- *)

Record span := mkSpan { s_off : Z; s_len : Z }.

(* loop state.  [sdone ++ [scur]] is the Go slice `spans` (never empty: it is created with one
   element, so `spans[len(spans)-1]` cannot panic); [snidx] exists only in the fixed variant. *)
Record st := mkSt { sdone : list span; scur : span; sdeltas : list Z;
                    scnt : Z; sprev : Z; sbidx : Z; snidx : Z }.

(* appendDelta := func(count) { spans[len-1].Length++; deltas = append(deltas, count-prevCount); prevCount = count } *)
Definition append_delta (s : st) (c : Z) : st :=
  mkSt (sdone s) (mkSpan (s_off (scur s)) (s_len (scur s) + 1)) (sdeltas s ++ [sub64 c (sprev s)])
       (scnt s) c (sbidx s) (snidx s).

Definition new_span (s : st) (gap : Z) : st :=
  mkSt (sdone s ++ [scur s]) (mkSpan gap 0) (sdeltas s) (scnt s) (sprev s) (sbidx s) (snidx s).

Fixpoint zeros (n : nat) (s : st) : st :=
  match n with O => s | S k => zeros k (append_delta s 0) end.

(* if gap > 2 { new span } else { for range gap { appendDelta(0) } }; appendDelta(count) *)
Definition emit (s : st) (gap : Z) : st :=
  let s1 := if gap >? 2 then new_span s gap else zeros (Z.to_nat gap) s in
  append_delta s1 (scnt s).

(* x >> k for an int32 x and a shift count k >= 0: Go's arithmetic shift, = floor (x / 2^k)
   = Z.shiftr x k (lemma ashr_shiftr); counts >= 31 give the sign, and are cut off here only so
   that evaluation does not iterate k times *)
Definition ashr (x k : Z) : Z := if 31 <=? k then (if x <? 0 then -1 else 0) else Z.shiftr x k.

(* (int32(i)+offset)>>scaleDown + 1 *)
Definition tgt (off sd i : Z) : Z := wrap32 (ashr (wrap32 (wrap32 i + off)) sd + 1).

Definition set_cnt_bidx (s : st) (c b : Z) : st :=
  mkSt (sdone s) (scur s) (sdeltas s) c (sprev s) b (snidx s).
Definition set_nidx (s : st) (n : Z) : st :=
  mkSt (sdone s) (scur s) (sdeltas s) (scnt s) (sprev s) (sbidx s) n.

(* one iteration of `for i := range numBuckets`.
   [fixed] = false: the code as it is (bucketIdx is not advanced in the count == 0 branch and
   the gap is nextBucketIdx - bucketIdx - 1);
   [fixed] = true: the proposed repair (notes/C43_fix.md): bucketIdx is advanced there and gaps
   are measured from nextIdx, the index following the last appended bucket. *)
Definition step (fixed : bool) (off sd : Z) (s : st) (i c : Z) : st :=
  let next := tgt off sd i in
  if sbidx s =? next then set_cnt_bidx s (add64 (scnt s) (wrap64 c)) (sbidx s)
  else if scnt s =? 0 then set_cnt_bidx s (wrap64 c) (if fixed then next else sbidx s)
  else
    let gap := if fixed then wrap32 (sbidx s - snidx s) else wrap32 (next - sbidx s - 1) in
    let s1 := emit s gap in
    let s2 := if fixed then set_nidx s1 (wrap32 (sbidx s + 1)) else s1 in
    set_cnt_bidx s2 (wrap64 c) next.

Fixpoint loop (fixed : bool) (off sd i : Z) (cs : list Z) (s : st) : st :=
  match cs with
  | [] => s
  | c :: r => loop fixed off sd (i + 1) r (step fixed off sd s i c)
  end.

Definition convert_buckets_layout_gen (fixed : bool) (counts : list Z) (off sd : Z) (adjust : bool)
  : list span * list Z :=
  match counts with
  | [] => ([], [])
  | _ =>
    let n := Z.of_nat (length counts) in
    let b0 := wrap32 (ashr off sd + 1) in
    let init_off := if adjust then b0 else off in
    let s1 := loop fixed off sd 0 counts (mkSt [] (mkSpan init_off 0) [] 0 0 b0 b0) in
    let gap := if fixed then wrap32 (sbidx s1 - snidx s1)
               else wrap32 (ashr (wrap32 (wrap32 n + off - 1)) sd + 1 - sbidx s1) in
    let s2 := emit s1 gap in
    (sdone s2 ++ [scur s2], sdeltas s2)
  end.

Definition convert_buckets_layout := convert_buckets_layout_gen true.
Definition convert_buckets_layout_old := convert_buckets_layout_gen false.

(* ---------- floats ---------- *)

Definition staleNaN : Z := 9218868437227405314.      (* 0x7ff0000000000002 *)
Definition posInf : Z := 9218868437227405312.        (* 0x7ff0000000000000 *)
Definition two63 : Z := 9223372036854775808.
Definition two52 : Z := 4503599627370496.
Definition two53 : Z := 9007199254740992.

(* Go float64(v) for an int64 / uint64 v: IEEE-754 round to nearest, ties to even *)
Definition float_of_Z (v : Z) : Z :=
  if v =? 0 then 0 else
  let sgn := if v <? 0 then two63 else 0 in
  let n := Z.abs v in
  let e := Z.log2 n in
  let me :=
    if e <=? 52 then (Z.shiftl n (52 - e), e) else
    let sh := e - 52 in
    let q := Z.shiftr n sh in
    let r := n - Z.shiftl q sh in
    let half := Z.shiftl 1 (sh - 1) in
    let q' := if (r >? half) || ((r =? half) && Z.odd q) then q + 1 else q in
    if q' =? two53 then (two52, e + 1) else (q', e) in
  sgn + (snd me + 1023) * two52 + (fst me - two52).

(* f != 0 on bit patterns (NaN != 0 is true, -0 != 0 is false) *)
Definition float_nonzero (bits : Z) : bool := negb (bits =? 0) && negb (bits =? two63).

(* ---------- data points ---------- *)

(* convertTimeStamp: int64(timestamp) / 1_000_000, timestamp a uint64 of nanoseconds *)
Definition convert_timestamp (ns : Z) : Z := godiv (wrap64 ns) 1000000.

Inductive numval := IntV (v : Z) | DblV (bits : Z) | EmptyV.
Record numpt := mkNum { n_val : numval; n_norec : bool; n_ts : Z; n_st : Z }.

Record buckets := mkB { b_off : Z; b_counts : list Z }.
Record exppt := mkExp { e_scale : Z; e_zero : Z; e_pos : buckets; e_neg : buckets; e_count : Z;
                        e_hassum : bool; e_sum : Z; e_norec : bool; e_ts : Z; e_st : Z }.
Record histpt := mkHist { h_bounds : list Z; h_counts : list Z; h_count : Z;
                          h_hassum : bool; h_sum : Z; h_norec : bool; h_ts : Z; h_st : Z }.

Record hist := mkH { hint : Z; schema : Z; zcount : Z;
                     pspans : list span; pdeltas : list Z; nspans : list span; ndeltas : list Z;
                     hsum : Z; hcount : Z; custom : list Z }.

Inductive series := SPlain | SSum | SCount | SBucket (le_bits : Z).
Inductive sample := Float (s : series) (st t v : Z) | Hist (st t : Z) (h : hist).

Definition hintUnknown : Z := 0.
Definition hintGauge : Z := 3.
Definition customBucketsSchema : Z := -53.

Definition num_value (p : numpt) : Z :=
  if n_norec p then staleNaN else
  match n_val p with IntV v => float_of_Z v | DblV b => b | EmptyV => 0 end.

Definition num_sample (p : numpt) : sample :=
  Float SPlain (convert_timestamp (n_st p)) (convert_timestamp (n_ts p)) (num_value p).

(* sum, count and zero-count/non-zero-sum warning shared by both histogram conversions *)
Definition sum_count (norec hassum : bool) (sum count : Z) : Z * Z * bool :=
  if norec then (staleNaN, staleNaN, false)
  else let s := if hassum then sum else 0 in (s, count, (count =? 0) && float_nonzero s).

(* exponentialToNativeHistogram; None = the "Scale must be >= -4" error *)
Definition exp_to_native (fixed : bool) (p : exppt) (delta : bool) : option (hist * bool) :=
  if e_scale p <? -4 then None else
  let sd := if e_scale p >? 8 then wrap32 (e_scale p - 8) else 0 in
  let sc := if e_scale p >? 8 then 8 else e_scale p in
  let ps := convert_buckets_layout_gen fixed (b_counts (e_pos p)) (b_off (e_pos p)) sd true in
  let ns := convert_buckets_layout_gen fixed (b_counts (e_neg p)) (b_off (e_neg p)) sd true in
  let '(s, c, w) := sum_count (e_norec p) (e_hassum p) (e_sum p) (e_count p) in
  Some (mkH (if delta then hintGauge else hintUnknown) sc (e_zero p)
            (fst ps) (snd ps) (fst ns) (snd ns) s c [], w).

(* getBucketOffset *)
Fixpoint leading_zeros (l : list Z) : nat :=
  match l with 0 :: r => S (leading_zeros r) | _ => O end.

(* explicitHistogramToCustomBucketsHistogram *)
Definition explicit_to_custom (fixed : bool) (p : histpt) (delta : bool) : hist * bool :=
  let o := leading_zeros (h_counts p) in
  let ps := convert_buckets_layout_gen fixed (skipn o (h_counts p)) (wrap32 (Z.of_nat o)) 0 false in
  let '(s, c, w) := sum_count (h_norec p) (h_hassum p) (h_sum p) (h_count p) in
  (mkH (if delta then hintGauge else hintUnknown) customBucketsSchema 0
       (fst ps) (snd ps) [] [] s c (h_bounds p), w).

(* addHistogramDataPoints (classic): _sum (if set), _count, cumulative _bucket{le}, +Inf *)
Fixpoint classic_buckets (norec : bool) (st t cum : Z) (bounds counts : list Z) : list sample :=
  match bounds, counts with
  | b :: bs, c :: cs =>
      let cum' := u64 (cum + c) in
      Float (SBucket b) st t (if norec then staleNaN else float_of_Z cum')
        :: classic_buckets norec st t cum' bs cs
  | _, _ => []
  end.

Definition classic_samples (p : histpt) : list sample :=
  let st := convert_timestamp (h_st p) in
  let t := convert_timestamp (h_ts p) in
  let nr := h_norec p in
  (if h_hassum p then [Float SSum st t (if nr then staleNaN else h_sum p)] else [])
  ++ [Float SCount st t (if nr then staleNaN else float_of_Z (h_count p))]
  ++ classic_buckets nr st t 0 (h_bounds p) (h_counts p)
  ++ [Float (SBucket posInf) st t (if nr then staleNaN else float_of_Z (h_count p))].

(* ---------- FromMetrics, one metric ---------- *)

Inductive temporality := TUnspec | TDelta | TCumul.
Inductive metric :=
  | MGauge (pts : list numpt)
  | MSum (t : temporality) (pts : list numpt)
  | MHist (t : temporality) (pts : list histpt)
  | MExp (t : temporality) (pts : list exppt).

Record settings := mkSet { allow_delta : bool; to_nhcb : bool }.

Record result := mkRes { r_samples : list sample; r_err : bool; r_warn_empty : bool; r_warn_zc : bool }.

Definition temp_ok (s : settings) (t : temporality) : bool :=
  match t with TCumul => true | TDelta => allow_delta s | TUnspec => false end.
Definition is_delta (t : temporality) : bool := match t with TDelta => true | _ => false end.

(* addExponentialHistogramDataPoints: stops at the first data point that fails to convert *)
Fixpoint exp_points (fixed : bool) (delta : bool) (pts : list exppt) : list sample * bool * bool :=
  match pts with
  | [] => ([], false, false)
  | p :: r =>
      match exp_to_native fixed p delta with
      | None => ([], true, false)
      | Some (h, w) =>
          let '(ss, e, w') := exp_points fixed delta r in
          (Hist (convert_timestamp (e_st p)) (convert_timestamp (e_ts p)) h :: ss, e, w || w')
      end
  end.

Fixpoint nhcb_points (fixed : bool) (delta : bool) (pts : list histpt) : list sample * bool :=
  match pts with
  | [] => ([], false)
  | p :: r =>
      let '(h, w) := explicit_to_custom fixed p delta in
      let '(ss, w') := nhcb_points fixed delta r in
      (Hist (convert_timestamp (h_st p)) (convert_timestamp (h_ts p)) h :: ss, w || w')
  end.

Definition empty_result := mkRes [] false true false.
Definition error_result := mkRes [] true false false.

Definition from_metric_gen (fixed : bool) (s : settings) (m : metric) : result :=
  match m with
  | MGauge pts =>
      match pts with [] => empty_result | _ => mkRes (map num_sample pts) false false false end
  | MSum t pts =>
      if negb (temp_ok s t) then error_result else
      match pts with [] => empty_result | _ => mkRes (map num_sample pts) false false false end
  | MHist t pts =>
      if negb (temp_ok s t) then error_result else
      match pts with
      | [] => empty_result
      | _ => if to_nhcb s
             then let '(ss, w) := nhcb_points fixed (is_delta t) pts in mkRes ss false false w
             else mkRes (flat_map classic_samples pts) false false false
      end
  | MExp t pts =>
      if negb (temp_ok s t) then error_result else
      match pts with
      | [] => empty_result
      | _ => let '(ss, e, w) := exp_points fixed (is_delta t) pts in mkRes ss e false w
      end
  end.

(* ---------- specification vocabulary ---------- *)

(* the buckets denoted by a span/delta encoding: (index, absolute count), in encoding order *)
Fixpoint expand_span (pos abs : Z) (n : nat) (ds : list Z) : list (Z * Z) * Z * list Z :=
  match n with
  | O => ([], abs, ds)
  | S k =>
      match ds with
      | [] => ([], abs, [])
      | d :: r =>
          let '(l, a, rest) := expand_span (pos + 1) (abs + d) k r in
          ((pos, abs + d) :: l, a, rest)
      end
  end.

Fixpoint expand (pos abs : Z) (spans : list span) (ds : list Z) : list (Z * Z) :=
  match spans with
  | [] => []
  | s :: r =>
      let '(l, a, rest) := expand_span (pos + s_off s) abs (Z.to_nat (s_len s)) ds in
      l ++ expand (pos + s_off s + s_len s) a r rest
  end.

Definition buckets_of (sd : list span * list Z) : list (Z * Z) := expand 0 0 (fst sd) (snd sd).

(* count held by bucket [p] *)
Definition bucket_at (bs : list (Z * Z)) (p : Z) : Z :=
  fold_right (fun pc acc => if fst pc =? p then snd pc + acc else acc) 0 bs.

(* well-formed encoding: one delta per span slot, no negative offset after the first span *)
Fixpoint later_offsets_ok (spans : list span) : bool :=
  match spans with [] => true | s :: r => (0 <=? s_off s) && later_offsets_ok r end.
Definition layout_wf (sd : list span * list Z) : bool :=
  (Z.of_nat (length (snd sd)) =? fold_right (fun s a => s_len s + a) 0 (fst sd)) &&
  forallb (fun s => 0 <=? s_len s) (fst sd) &&
  match fst sd with [] => true | _ :: r => later_offsets_ok r end.

(* reference re-bucketing: source bucket i (index i + off) belongs to target
   ((i + off) >> k) + 1 when merging 2^k buckets with the OTel->Prometheus index shift,
   and keeps its index i + off for custom buckets *)
Definition target_of (off k : Z) (adjust : bool) (i : Z) : Z :=
  if adjust then ashr (i + off) k + 1 else i + off.

Fixpoint ref_sum_from (off k : Z) (adjust : bool) (i : Z) (cs : list Z) (p : Z) : Z :=
  match cs with
  | [] => 0
  | c :: r => (if target_of off k adjust i =? p then c else 0) + ref_sum_from off k adjust (i + 1) r p
  end.
Definition ref_sum (cs : list Z) (off k : Z) (adjust : bool) (p : Z) : Z := ref_sum_from off k adjust 0 cs p.

Definition sumZ (l : list Z) : Z := fold_right Z.add 0 l.

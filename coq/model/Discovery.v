(* model/Discovery.v — executable model of discovery.Manager (discovery/manager.go):
   updateGroup, allGroups, ApplyConfig (registerProviders, provider cancel/cleanup, refTargets
   copy), the updater loop and the sender loop, as a labelled transition system whose labels are
   the atomic critical sections of the real code.  Definitions only; proofs are in
   proof/DiscoveryProofs.v.

   Encoding: set names (jobs), provider names ("typ/N" -> N), config identities (DeepEqual
   classes of discovery.Config values) and group sources are Z.  A target group is
   (source, identity, number of targets); the manager never looks at anything else. *)
From Coq Require Import List ZArith Bool.
Import ListNotations.
Open Scope Z_scope.

(* ---------- target groups and the per-poolKey map  map[string]*targetgroup.Group ---------- *)

Record group := mkG { gsrc : Z; gid : Z; gnt : Z (* len(tg.Targets) *) }.
Definition batch := list (option group).        (* []*targetgroup.Group, None = nil entry *)
Definition imap := list (Z * group).            (* source -> group *)

Fixpoint iget (k : Z) (m : imap) : option group :=
  match m with
  | [] => None
  | (k', g) :: r => if k =? k' then Some g else iget k r
  end.

Fixpoint iset (k : Z) (g : group) (m : imap) : imap :=
  match m with
  | [] => [(k, g)]
  | (k', g') :: r => if k =? k' then (k, g) :: r else (k', g') :: iset k g r
  end.

Definition idel (k : Z) (m : imap) : imap := filter (fun kv => negb (fst kv =? k)) m.

(* body of the loop of updateGroup *)
Definition apply_group (m : imap) (og : option group) : imap :=
  match og with
  | None => m                                        (* if tg == nil { continue } *)
  | Some g => if 0 <? gnt g then iset (gsrc g) g m   (* len(tg.Targets) > 0: replace *)
              else idel (gsrc g) m                   (* empty group: delete the source *)
  end.
Definition apply_batch (m : imap) (b : batch) : imap := fold_left apply_group b m.

(* ---------- m.targets : map[poolKey]map[string]*Group ---------- *)

Definition key := (Z * Z)%type.                     (* poolKey{setName, provider} *)
Definition keyb (a b : key) : bool := (fst a =? fst b) && (snd a =? snd b).
Definition tmap := list (key * imap).

Fixpoint tget (k : key) (T : tmap) : option imap :=
  match T with
  | [] => None
  | (k', m) :: r => if keyb k k' then Some m else tget k r
  end.
Fixpoint tset (k : key) (m : imap) (T : tmap) : tmap :=
  match T with
  | [] => [(k, m)]
  | (k', m') :: r => if keyb k k' then (k, m) :: r else (k', m') :: tset k m r
  end.
Definition tdel (k : key) (T : tmap) : tmap := filter (fun e => negb (keyb k (fst e))) T.
Definition inner (k : key) (T : tmap) : imap := match tget k T with Some m => m | None => [] end.

(* Manager.updateGroup *)
Definition updateGroup (k : key) (b : batch) (T : tmap) : tmap :=
  tset k (apply_batch (inner k T) b) T.

(* ---------- providers ---------- *)

(* program counter of the updater goroutine of a provider *)
Inductive ustate :=
| UIdle                                   (* blocked in select on ctx.Done / updates *)
| URecv (b : batch)                       (* received tgs, p.mu.RLock not yet taken *)
| UBusy (b : batch) (rem : list Z)        (* holds p.mu.RLock, subs still to update *)
| UTrig.                                  (* RLock released, about to arm triggerSend *)

Record prov := mkP {
  pname : Z;                (* N of "typ/N" *)
  pcfg : Z;                 (* identity of p.config (DeepEqual class) *)
  psubs : list Z;           (* p.subs *)
  pnew : list Z;            (* p.newSubs *)
  pstarted : bool;          (* p.cancel != nil *)
  pu : ustate;
  papplied : list batch     (* ghost: batches fully applied by the updater since start *)
}.

Definition set_pu (u : ustate) (p : prov) : prov :=
  mkP (pname p) (pcfg p) (psubs p) (pnew p) (pstarted p) u (papplied p).
Definition set_applied (h : list batch) (p : prov) : prov :=
  mkP (pname p) (pcfg p) (psubs p) (pnew p) (pstarted p) (pu p) h.

Definition zmem (x : Z) (l : list Z) : bool := existsb (Z.eqb x) l.

(* ---------- allGroups ---------- *)

Definition snap := list (Z * list group).          (* map[string][]*targetgroup.Group *)

Fixpoint smem (s : Z) (a : snap) : bool :=
  match a with [] => false | (s', _) :: r => (s =? s') || smem s r end.
Fixpoint sappend (s : Z) (gs : list group) (a : snap) : snap :=
  match a with
  | [] => []
  | (s', l) :: r => if s =? s' then (s', l ++ gs) :: r else (s', l) :: sappend s gs r
  end.

Definition ag_sub (T : tmap) (pn : Z) (acc : snap) (s : Z) : snap :=
  let acc1 := if smem s acc then acc else acc ++ [(s, [])] in
  match tget (s, pn) T with
  | Some m => sappend s (map snd m) acc1
  | None => acc1
  end.
(* one iteration of the provider loop of allGroups (p.mu.RLock + targetsMtx held) *)
Definition ag_prov (T : tmap) (acc : snap) (p : prov) : snap :=
  fold_left (ag_sub T (pname p)) (psubs p) acc.
Definition allGroups (P : list prov) (T : tmap) : snap := fold_left (ag_prov T) P [].

(* ---------- ApplyConfig ---------- *)

Definition cfg := list (Z * list (Z * bool)).      (* setName -> [(config identity, NewDiscoverer succeeds)] *)
Definition STATIC_EMPTY : Z := -1.                 (* StaticConfig{{}} *)

Fixpoint add_newsub (c : Z) (s : Z) (P : list prov) : list prov :=
  match P with
  | [] => []
  | p :: r =>
      if pcfg p =? c
      then mkP (pname p) (pcfg p) (psubs p) (if zmem s (pnew p) then pnew p else pnew p ++ [s])
               (pstarted p) (pu p) (papplied p) :: r
      else p :: add_newsub c s r
  end.

(* closure `add` of registerProviders; state = (m.providers, m.lastProvider, added) *)
Definition add_cfg (s : Z) (st : list prov * Z * bool) (c : Z * bool) : list prov * Z * bool :=
  let '(P, last, added) := st in
  if existsb (fun p => pcfg p =? fst c) P then (add_newsub (fst c) s P, last, true)
  else if snd c then (P ++ [mkP last (fst c) [] [s] false UIdle []], last + 1, true)
  else (P, last, added).

Definition register_job (st : list prov * Z) (jc : Z * list (Z * bool)) : list prov * Z :=
  let '(P, last) := st in
  let '(P1, last1, added) := fold_left (add_cfg (fst jc)) (snd jc) (P, last, false) in
  if added then (P1, last1)
  else let '(P2, last2, _) := add_cfg (fst jc) (P1, last1, false) (STATIC_EMPTY, true) in (P2, last2).

Definition register (c : cfg) (P : list prov) (last : Z) : list prov * Z :=
  fold_left register_job c (P, last).

Definition cancelled (p : prov) : bool := (Nat.eqb (length (pnew p)) 0) && pstarted p.

(* body of `for _, prov := range m.providers` of ApplyConfig (cancel branch includes the
   provider's cleaner, which ApplyConfig waits for) *)
Definition reload_prov (acc : list prov * tmap) (p : prov) : list prov * tmap :=
  let '(NP, T) := acc in
  let pn := pname p in
  if cancelled p then
    (NP, fold_left (fun T s => tdel (s, pn) T) (psubs p) T)
  else
    let '(ref, T1) :=
      fold_left (fun (a : imap * tmap) s =>
                   let '(_, T) := a in
                   (inner (s, pn) T, if zmem s (pnew p) then T else tdel (s, pn) T))
                (psubs p) ([], T) in
    let T2 := fold_left (fun T s => if Nat.ltb 0 (length ref) then tset (s, pn) ref T else T)
                        (pnew p) T1 in
    (NP ++ [mkP pn (pcfg p) (pnew p) [] true (pu p) (papplied p)], T2).

(* ---------- global state and steps ---------- *)

Inductive sstate :=
| SIdle                              (* waiting for the next tick *)
| SSnap (k : nat) (acc : snap)       (* took triggerSend; inside allGroups, k providers read *)
| SHave (acc : snap)                 (* allGroups returned, about to try the send *)
| SRearm.                            (* send found no receiver (default branch); about to put the
                                        trigger back with a NON-BLOCKING send *)

Record state := mkS {
  providers : list prov;
  targets : tmap;
  trigger : bool;                    (* len(m.triggerSend) = 1 *)
  lastp : Z;                         (* m.lastProvider *)
  sender : sstate;
  cwait : bool;                      (* a consumer is blocked in <-SyncCh() *)
  delivered : snap                   (* last map received by the consumer *)
}.

Definition init : state := mkS [] [] false 0 SIdle false [].

Inductive label :=
| EUpdate (pn : Z) (b : batch)       (* updater of pn receives b from its Discoverer *)
| ELock (pn : Z)                     (* p.mu.RLock *)
| ESub (pn : Z)                      (* one m.updateGroup(poolKey{s, pn}, tgs) *)
| EUnlock (pn : Z)                   (* p.mu.RUnlock *)
| ETrig (pn : Z)                     (* select { case m.triggerSend <- struct{}{}: default: } *)
| ETake                              (* sender: case <-m.triggerSend *)
| ESnapProv                          (* sender: one provider iteration of allGroups *)
| ESnapDone                          (* sender: allGroups returns *)
| ESend                              (* sender: select { case m.syncCh <- v: ... default: ... } *)
| ERearm                             (* sender: select { case m.triggerSend <- struct{}{}: default: }
                                        — never blocks: if an updater or a reload has armed the
                                        trigger since ETake, the put-back is simply dropped *)
| EWait                              (* consumer blocks in receive *)
| EUnwait                            (* consumer gives up waiting (slow consumer) *)
| EReload (c : cfg)                  (* ApplyConfig *)
| ESpurious.                         (* trigger armed by the updater of a cancelled provider *)

Definition hasname (pn : Z) (p : prov) : bool := pname p =? pn.

Fixpoint replace_first (pn : Z) (p' : prov) (P : list prov) : list prov :=
  match P with
  | [] => []
  | p :: r => if hasname pn p then p' :: r else p :: replace_first pn p' r
  end.

Definition set_providers P (s : state) :=
  mkS P (targets s) (trigger s) (lastp s) (sender s) (cwait s) (delivered s).

Definition is_busy (p : prov) : bool := match pu p with UBusy _ _ => true | _ => false end.

Definition sender_allows_reload (s : sstate) : bool :=
  match s with SIdle => true | SSnap O _ => true | SSnap _ _ => false | SHave _ => true | SRearm => true end.

Definition reload (c : cfg) (s : state) : option state :=
  let '(P1, last1) := register c (providers s) (lastp s) in
  if sender_allows_reload (sender s) && forallb (fun p => negb (is_busy p) || cancelled p) P1 then
    let '(NP, T) := fold_left reload_prov P1 ([], targets s) in
    Some (mkS NP T (Nat.ltb 0 (length P1) || trigger s) last1 (sender s) (cwait s) (delivered s))
  else None.

Definition step (s : state) (l : label) : option state :=
  match l with
  | EUpdate pn b =>
      match find (hasname pn) (providers s) with
      | Some p => match pu p with
                  | UIdle => if pstarted p
                             then Some (set_providers (replace_first pn (set_pu (URecv b) p) (providers s)) s)
                             else None
                  | _ => None
                  end
      | None => None
      end
  | ELock pn =>
      match find (hasname pn) (providers s) with
      | Some p => match pu p with
                  | URecv b => Some (set_providers (replace_first pn (set_pu (UBusy b (psubs p)) p) (providers s)) s)
                  | _ => None
                  end
      | None => None
      end
  | ESub pn =>
      match find (hasname pn) (providers s) with
      | Some p => match pu p with
                  | UBusy b (j :: rem) =>
                      Some (mkS (replace_first pn (set_pu (UBusy b rem) p) (providers s))
                                (updateGroup (j, pn) b (targets s))
                                (trigger s) (lastp s) (sender s) (cwait s) (delivered s))
                  | _ => None
                  end
      | None => None
      end
  | EUnlock pn =>
      match find (hasname pn) (providers s) with
      | Some p => match pu p with
                  | UBusy b [] =>
                      Some (set_providers
                              (replace_first pn (set_applied (papplied p ++ [b]) (set_pu UTrig p)) (providers s)) s)
                  | _ => None
                  end
      | None => None
      end
  | ETrig pn =>
      match find (hasname pn) (providers s) with
      | Some p => match pu p with
                  | UTrig =>
                      Some (mkS (replace_first pn (set_pu UIdle p) (providers s)) (targets s)
                                true (lastp s) (sender s) (cwait s) (delivered s))
                  | _ => None
                  end
      | None => None
      end
  | ETake =>
      match sender s with
      | SIdle => if trigger s
                 then Some (mkS (providers s) (targets s) false (lastp s) (SSnap 0 []) (cwait s) (delivered s))
                 else None
      | _ => None
      end
  | ESnapProv =>
      match sender s with
      | SSnap k acc =>
          match nth_error (providers s) k with
          | Some p => Some (mkS (providers s) (targets s) (trigger s) (lastp s)
                                (SSnap (S k) (ag_prov (targets s) acc p)) (cwait s) (delivered s))
          | None => None
          end
      | _ => None
      end
  | ESnapDone =>
      match sender s with
      | SSnap k acc =>
          if Nat.leb (length (providers s)) k
          then Some (mkS (providers s) (targets s) (trigger s) (lastp s) (SHave acc) (cwait s) (delivered s))
          else None
      | _ => None
      end
  | ESend =>
      match sender s with
      | SHave acc =>
          if cwait s
          then Some (mkS (providers s) (targets s) (trigger s) (lastp s) SIdle false acc)
          else Some (mkS (providers s) (targets s) (trigger s) (lastp s) SRearm false (delivered s))
      | _ => None
      end
  | ERearm =>
      match sender s with
      | SRearm =>
          (* enabled whatever `trigger s` is: a blocking put-back would be disabled (stuck for
             ever, the sender being the only reader) when the trigger is already armed *)
          Some (mkS (providers s) (targets s) true (lastp s) SIdle (cwait s) (delivered s))
      | _ => None
      end
  | EWait => if cwait s then None
             else Some (mkS (providers s) (targets s) (trigger s) (lastp s) (sender s) true (delivered s))
  | EUnwait => if cwait s
               then Some (mkS (providers s) (targets s) (trigger s) (lastp s) (sender s) false (delivered s))
               else None
  | EReload c => reload c s
  | ESpurious => Some (mkS (providers s) (targets s) true (lastp s) (sender s) (cwait s) (delivered s))
  end.

Fixpoint run (s : state) (tr : list label) : option state :=
  match tr with
  | [] => Some s
  | l :: r => match step s l with Some s' => run s' r | None => None end
  end.

(* ---------- the reference fold (specification level) ---------- *)

(* latest group per source, in order of the *last* occurrence scanning backwards;
   sources whose latest group is empty are absent *)
Fixpoint latest_rev (seen : list Z) (l : list group) : list group :=
  match l with
  | [] => []
  | g :: r => if zmem (gsrc g) seen then latest_rev seen r
              else (if 0 <? gnt g then [g] else []) ++ latest_rev (gsrc g :: seen) r
  end.
Definition flat (h : list batch) : list group :=
  flat_map (fun b => flat_map (fun og => match og with Some g => [g] | None => [] end) b) h.
Definition latest (h : list batch) : list group := latest_rev [] (rev (flat h)).

Definition fold_batches (h : list batch) : imap := fold_left apply_batch h [].

(* model/CompactRace.v — C06: the compaction / truncation protocol of tsdb.DB as atomic steps,
   interleaved with the steps of DB.Querier, querier iteration and Close.

   Executable definitions only.  Anchors (tsdb/):
     db.go    compactHead, compactOOOHead, compactBlocks, reloadBlocks, deleteBlocks, Querier
     head.go  truncateMemory, truncateOOO, truncateSeriesAndChunkDiskMapper,
              WaitForPendingReadersInTimeRange, WaitForPendingReadersForOOOChunksAtOrBefore,
              IsQuerierCollidingWithTruncation
     ooo_isolation.go  TrackReadAfter / HasOpenReadsAtOrBefore
     ooo_head_read.go  NewOOOCompactionHead, getOOOSeriesChunks (lastGarbageCollectedMmapRef filter)
     block.go  Block.Close (closing flag, pendingReaders), startRead

   Every event below is one critical section of the real code, named after the verifhook site
   that is hit right after it (see notes/C06.md for the site list).  The compaction actor is
   sequential (db.cmtx); its program counter is [cpc].  Several queriers may be in creation or
   open at once.

   Abstractions (sound for what queries return; see notes):
   * a sample is a triple (series, t, v); the set of committed samples is fixed during a trace
     (no appends race with the maintenance run);
   * [head_ino] is the set of in-order samples the head is responsible for; samples of a chunk
     straddling the truncation point that physically stay in memory are not modelled (they are
     in the block as well and the merging querier returns one copy);
   * m-map references of out-of-order chunks are abstracted to the generation number L of the
     out-of-order compaction that m-mapped them last (NewOOOCompactionHead m-maps every OOO head
     chunk and reports the largest reference; all thresholds the code compares a reference with
     are such largest references, so the abstraction preserves every comparison);
   * Block.pendingReaders (a WaitGroup counter) is the list of (querier, block) registrations;
     the isolation open-reads list is the list of (querier, mint, maxt) registrations. *)
From Coq Require Import List ZArith Bool.
Import ListNotations.
Open Scope Z_scope.

Record sample := mkS { s_sid : Z; s_t : Z; s_v : Z }.

Definition sample_eq_dec : forall a b : sample, {a = b} + {a <> b}.
Proof. decide equality; apply Z.eq_dec. Defined.

Definition sample_eqb (a b : sample) : bool :=
  (s_sid a =? s_sid b) && (s_t a =? s_t b) && (s_v a =? s_v b).

Record block := mkB { b_id : Z; b_mint : Z; b_maxt : Z; b_samples : list sample }.

(* an out-of-order chunk in head memory; oc_ref = None: the in-memory OOO head chunk *)
Record oochunk := mkOC { oc_ref : option Z; oc_samples : list sample }.

Inductive stage := Begun | Opened | Done.

Record querier := mkQ {
  q_id : Z; q_mint : Z; q_maxt : Z; q_stage : stage;
  q_blocks : list block;      (* blocks captured under db.mtx.RLock (those overlapping the range) *)
  q_hm : Z;                   (* db.head.MinTime() read at the start of Querier *)
  q_ooo : bool;               (* overlapsOOO *)
  q_hashead : bool;           (* maxt >= head.MinTime() || overlapsOOO *)
  q_gc : Z;                   (* db.lastGarbageCollectedMmapRef as seen under the RLock *)
  q_from : option Z;          (* lowest time read from the in-order head (None: no head querier) *)
  q_oooref : option Z         (* Some r: reads OOO chunks with reference > r *)
}.

Inductive cpc :=
| Idle
| HWritten (bs : list block) (T : Z)      (* compactHead: block written, not loaded *)
| HReloaded (T : Z)                       (* reloadBlocks swapped db.blocks *)
| TimePub (T : Z)                         (* lastMemoryTruncationTime stored *)
| FlagSet (T : Z)                         (* memTruncationInProcess = true *)
| Awaited (T hm0 : Z)                     (* WaitForPendingReadersInTimeRange(hm0, T) returned *)
| MinSet (T hm0 : Z)                      (* h.minTime = T *)
| Truncated (T : Z)                       (* gc done, flag still set *)
| OStarted (L : Z)                        (* NewOOOCompactionHead done *)
| OWritten (L : Z) (bs : list block)
| OReloaded (L : Z)
| GcPub (L : Z)                           (* db.lastGarbageCollectedMmapRef = L (under db.mtx) *)
| OAwaited (L : Z)                        (* WaitForPendingReadersForOOOChunksAtOrBefore returned *)
| OTruncated (L : Z)
| BWritten (b : block) (parents : list Z) (* compactBlocks: merged block written *)
| BReloaded
(* DB.CompactStaleHead / CompactSelectedSeries (compactHeadViewLocked + Head.truncateSeries) *)
| VWritten (bs : list block) (sids : list Z)  (* block of the selected series written for one chunk range *)
| VReloaded (sids : list Z)                   (* reloadBlocks swapped db.blocks *)
| VAwaited (sids : list Z) (T : Z).           (* truncateSeries: WaitForPendingReadersInTimeRange(h.MinTime(), T) returned *)

Record state := mkSt {
  head_ino : list sample;
  head_mint : Z;
  ooo_mem : list oochunk;
  ooo_mint : Z; ooo_maxt : Z;            (* head.MinOOOTime / MaxOOOTime *)
  db_blocks : list block;                (* db.blocks *)
  to_close : list Z;                     (* blocks handed to deleteBlocks, not yet closed *)
  closing : list Z;                      (* Block.closing = true, pendingReaders.Wait not returned *)
  closed : list Z;                       (* readers closed, files released / deleted *)
  trunc_time : Z; trunc_flag : bool;     (* lastMemoryTruncationTime / memTruncationInProcess *)
  gc_ref : Z;                            (* db.lastGarbageCollectedMmapRef *)
  pc : cpc;
  iso : list (Z * Z * Z);                (* head isolation open reads: (querier, mint, maxt) *)
  ooo_reads : list (Z * Z);              (* oooIsolation open reads: (querier, minRef) *)
  pending : list (Z * Z);                (* Block.pendingReaders: (querier, block id) *)
  queriers : list querier;
  failed : bool                          (* a reader hit ErrClosing or read a released block *)
}.

Definition set_head (s : state) (hi : list sample) (hm : Z) : state :=
  mkSt hi hm (ooo_mem s) (ooo_mint s) (ooo_maxt s) (db_blocks s) (to_close s) (closing s) (closed s)
       (trunc_time s) (trunc_flag s) (gc_ref s) (pc s) (iso s) (ooo_reads s) (pending s) (queriers s) (failed s).
Definition set_ooo (s : state) (om : list oochunk) (lo : Z) : state :=
  mkSt (head_ino s) (head_mint s) om lo (ooo_maxt s) (db_blocks s) (to_close s) (closing s) (closed s)
       (trunc_time s) (trunc_flag s) (gc_ref s) (pc s) (iso s) (ooo_reads s) (pending s) (queriers s) (failed s).
Definition set_blocks (s : state) (bs : list block) (tc : list Z) : state :=
  mkSt (head_ino s) (head_mint s) (ooo_mem s) (ooo_mint s) (ooo_maxt s) bs tc (closing s) (closed s)
       (trunc_time s) (trunc_flag s) (gc_ref s) (pc s) (iso s) (ooo_reads s) (pending s) (queriers s) (failed s).
Definition set_closing (s : state) (tc cg cd : list Z) : state :=
  mkSt (head_ino s) (head_mint s) (ooo_mem s) (ooo_mint s) (ooo_maxt s) (db_blocks s) tc cg cd
       (trunc_time s) (trunc_flag s) (gc_ref s) (pc s) (iso s) (ooo_reads s) (pending s) (queriers s) (failed s).
Definition set_trunc (s : state) (t : Z) (f : bool) : state :=
  mkSt (head_ino s) (head_mint s) (ooo_mem s) (ooo_mint s) (ooo_maxt s) (db_blocks s) (to_close s) (closing s) (closed s)
       t f (gc_ref s) (pc s) (iso s) (ooo_reads s) (pending s) (queriers s) (failed s).
Definition set_gc (s : state) (g : Z) : state :=
  mkSt (head_ino s) (head_mint s) (ooo_mem s) (ooo_mint s) (ooo_maxt s) (db_blocks s) (to_close s) (closing s) (closed s)
       (trunc_time s) (trunc_flag s) g (pc s) (iso s) (ooo_reads s) (pending s) (queriers s) (failed s).
Definition set_pc (s : state) (p : cpc) : state :=
  mkSt (head_ino s) (head_mint s) (ooo_mem s) (ooo_mint s) (ooo_maxt s) (db_blocks s) (to_close s) (closing s) (closed s)
       (trunc_time s) (trunc_flag s) (gc_ref s) p (iso s) (ooo_reads s) (pending s) (queriers s) (failed s).
Definition set_readers (s : state) (i : list (Z * Z * Z)) (o : list (Z * Z)) (p : list (Z * Z))
    (qs : list querier) : state :=
  mkSt (head_ino s) (head_mint s) (ooo_mem s) (ooo_mint s) (ooo_maxt s) (db_blocks s) (to_close s) (closing s) (closed s)
       (trunc_time s) (trunc_flag s) (gc_ref s) (pc s) i o p qs (failed s).
Definition set_failed (s : state) (f : bool) : state :=
  mkSt (head_ino s) (head_mint s) (ooo_mem s) (ooo_mint s) (ooo_maxt s) (db_blocks s) (to_close s) (closing s) (closed s)
       (trunc_time s) (trunc_flag s) (gc_ref s) (pc s) (iso s) (ooo_reads s) (pending s) (queriers s) f.

(* ---- helpers ---------------------------------------------------------------------------- *)

Definition memZ (x : Z) (l : list Z) : bool := existsb (Z.eqb x) l.
Definition in_range (lo hi : Z) (x : sample) : bool := (lo <=? s_t x) && (s_t x <=? hi).
(* Block.OverlapsClosedInterval: b.MinTime <= maxt && mint < b.MaxTime *)
Definition block_overlaps (mint maxt : Z) (b : block) : bool := (b_mint b <=? maxt) && (mint <? b_maxt b).
(* samples a block [mint, maxt) takes from a source *)
Definition in_block_range (mint maxt : Z) (x : sample) : bool := (mint <=? s_t x) && (s_t x <? maxt).
Definition blocks_samples (bs : list block) : list sample := flat_map b_samples bs.
Definition ooo_samples (om : list oochunk) : list sample := flat_map oc_samples om.
Definition all_ids (s : state) : list Z := map b_id (db_blocks s) ++ to_close s ++ closing s ++ closed s.
Definition all_done (s : state) : bool :=
  forallb (fun q => match q_stage q with Done => true | _ => false end) (queriers s).
Definition find_q (s : state) (id : Z) : option querier := find (fun q => q_id q =? id) (queriers s).
Definition others (s : state) (id : Z) : list querier := filter (fun q => negb (q_id q =? id)) (queriers s).
Definition mem_sample (x : sample) (l : list sample) : bool := existsb (sample_eqb x) l.
Definition block_wf (b : block) : bool := forallb (in_block_range (b_mint b) (b_maxt b)) (b_samples b).
Definition chunk_visible (r : Z) (c : oochunk) : bool :=
  match oc_ref c with None => true | Some cr => r <? cr end.

(* everything the database holds: the committed samples *)
Definition committed (s : state) : list sample :=
  blocks_samples (db_blocks s) ++ head_ino s ++ ooo_samples (ooo_mem s).

(* the well-formed quiescent states a maintenance run starts from *)
Definition wf_init (s : state) : bool :=
  match pc s with Idle => true | _ => false end
  && negb (trunc_flag s) && negb (failed s)
  && match queriers s, iso s, ooo_reads s, pending s, to_close s, closing s with
     | [], [], [], [], [], [] => true | _, _, _, _, _, _ => false end
  && forallb (fun x => head_mint s <=? s_t x) (head_ino s)
  && forallb (fun x => (ooo_mint s <=? s_t x) && (s_t x <=? ooo_maxt s)) (ooo_samples (ooo_mem s))
  && forallb (fun c => match oc_ref c with None => true | Some r => gc_ref s <? r end) (ooo_mem s)
  && (0 <=? gc_ref s)
  && forallb block_wf (db_blocks s)
  && forallb (fun b => negb (memZ (b_id b) (closed s))) (db_blocks s).

(* ---- events ------------------------------------------------------------------------------ *)

Inductive ev :=
(* head compaction: DB.compactHead *)
| EHWritten (id : option Z) (mint maxt : Z)   (* c06.head.block_written *)
| ESwapped                                     (* c06.reload.swapped *)
| EBlockClosing (id : Z)                       (* c06.block.closing *)
| EBlockClosed (id : Z)                        (* c06.block.readers_done *)
| ETimePub                                     (* c06.trunc.time_published *)
| EFlagSet                                     (* c06.trunc.flag_set *)
| EAwaited                                     (* c06.trunc.readers_awaited *)
| EMinSet                                      (* c06.trunc.mintime_set *)
| EGcDone (newmint newoomin : Z)               (* c06.head.gc_done: observed head.MinTime / MinOOOTime *)
| EHeadDone                                    (* c06.head.done *)
(* out-of-order compaction: DB.compactOOOHead *)
| EOStart (L : Z)                              (* c06.ooo.started *)
| EOWritten (bs : list (Z * Z * Z))            (* c06.ooo.block_written: (id, mint, maxt) *)
| EGcPub                                       (* c06.ooo.gcref_published *)
| EOAwaited                                    (* c06.ooo.readers_awaited *)
| EODone                                       (* c06.ooo.done *)
(* block compaction: DB.compactBlocks *)
| EBWritten (id : Z) (parents : list Z) (mint maxt : Z)  (* c06.blocks.block_written *)
(* stale-series / selected-series compaction: DB.CompactStaleHead, DB.CompactSelectedSeries *)
| EVWritten (id mint maxt : Z) (sids : list Z)  (* seen at c06.reload.swapped: a new block of the view *)
| EVAwaited (T : Z)                             (* c06.truncateSeries.afterWait; T = Head.MaxTime() at the start *)
| EVEvicted (ev : list Z)                       (* the call returned; ev = series gone from the head *)
(* DB.Querier, iteration, Close *)
| EQBegin (q mint maxt : Z)                    (* c06.q.begun (or Querier returned, no head part) *)
| EQOpenHead (q : Z)                           (* c06.q.head_opened *)
| EQFinish (q : Z)                             (* Querier returned *)
| EQIter (q : Z)
| EQClose (q : Z).

Definition guard (b : bool) (s : state) : option state := if b then Some s else None.

Fixpoint zlist_eqb (a b : list Z) : bool :=
  match a, b with
  | [], [] => true
  | x :: r, y :: r' => (x =? y) && zlist_eqb r r'
  | _, _ => false
  end.

(* the samples EGcDone keeps, and the checks on the observed new head / OOO minimum time *)
Definition gc_done (s : state) (hi : list sample) (om : list oochunk) (lower newmint newoomin : Z) (p : cpc)
    : option state :=
  guard ((lower <=? newmint)
         && forallb (fun x => newmint <=? s_t x) hi
         && forallb (fun x => newoomin <=? s_t x) (ooo_samples om))
        (set_pc (set_ooo (set_head s hi newmint) om newoomin) p).

Definition mk_oblock (om : list oochunk) (d : Z * Z * Z) : block :=
  let '(id, mint, maxt) := d in
  mkB id mint maxt (nodup sample_eq_dec (filter (in_block_range mint maxt) (ooo_samples om))).

Definition fresh_ids (s : state) (ids : list Z) : bool :=
  forallb (fun i => negb (memZ i (all_ids s))) ids.

Fixpoint distinct (l : list Z) : bool :=
  match l with [] => true | x :: r => negb (memZ x r) && distinct r end.

(* IsQuerierCollidingWithTruncation *)
Definition colliding (s : state) (mint maxt : Z) : bool * bool * Z :=
  if trunc_flag s then
    if maxt <? trunc_time s then (true, false, trunc_time s)
    else if mint <? trunc_time s then (true, true, trunc_time s)
    else (false, false, 0)
  else (false, false, 0).

(* what iterating an open querier returns now *)
Definition q_result (s : state) (q : querier) : list sample :=
  let hp := match q_from q with
            | Some f => filter (fun x => f <=? s_t x) (head_ino s)
            | None => [] end in
  let op := match q_oooref q with
            | Some r => ooo_samples (filter (chunk_visible r) (ooo_mem s))
            | None => [] end in
  nodup sample_eq_dec (filter (in_range (q_mint q) (q_maxt q)) (blocks_samples (q_blocks q) ++ hp ++ op)).

Definition step (s : state) (e : ev) : option state :=
  match e with
  | EHWritten id mint maxt =>
      match pc s with
      | Idle =>
          let smp := filter (in_block_range mint maxt) (head_ino s) in
          let bs := match id with Some i => [mkB i mint maxt smp] | None => [] end in
          guard ((mint <=? head_mint s) && (mint <? maxt)
                 && match id with Some i => negb (memZ i (all_ids s)) | None => match smp with [] => true | _ => false end end)
                (set_pc s (HWritten bs maxt))
      | _ => None
      end
  | ESwapped =>
      if all_done s then
        match pc s with
        | HWritten bs T => Some (set_pc (set_blocks s (db_blocks s ++ bs) (to_close s)) (HReloaded T))
        | OWritten L bs => Some (set_pc (set_blocks s (db_blocks s ++ bs) (to_close s)) (OReloaded L))
        | BWritten b ps =>
            Some (set_pc (set_blocks s (filter (fun x => negb (memZ (b_id x) ps)) (db_blocks s) ++ [b]) ps) BReloaded)
        | VWritten bs sids => Some (set_pc (set_blocks s (db_blocks s ++ bs) (to_close s)) (VReloaded sids))
        | _ => None
        end
      else None
  | EBlockClosing id =>
      guard (memZ id (to_close s) && negb (memZ id (closing s)))
            (set_closing s (to_close s) (id :: closing s) (closed s))
  | EBlockClosed id =>
      if memZ id (closing s) && negb (existsb (fun p => snd p =? id) (pending s)) then
        let tc := filter (fun x => negb (x =? id)) (to_close s) in
        let s' := set_closing s tc (filter (fun x => negb (x =? id)) (closing s)) (id :: closed s) in
        Some (match pc s, tc with BReloaded, [] => set_pc s' Idle | _, _ => s' end)
      else None
  | ETimePub =>
      match pc s, to_close s with
      | HReloaded T, [] => guard (head_mint s <? T) (set_pc (set_trunc s T (trunc_flag s)) (TimePub T))
      | _, _ => None
      end
  | EFlagSet =>
      match pc s with
      | TimePub T => Some (set_pc (set_trunc s (trunc_time s) true) (FlagSet T))
      | _ => None
      end
  | EAwaited =>
      match pc s with
      | FlagSet T =>
          (* WaitForPendingReadersInTimeRange(h.MinTime(), T): no open read overlaps [hm, T-1] *)
          guard (negb (existsb (fun r => let '(_, lo, hi) := r in (lo <=? T - 1) && (head_mint s <=? hi)) (iso s)))
                (set_pc s (Awaited T (head_mint s)))
      | _ => None
      end
  | EMinSet =>
      match pc s with
      | Awaited T hm0 => Some (set_pc (set_head s (head_ino s) T) (MinSet T hm0))
      | _ => None
      end
  | EGcDone newmint newoomin =>
      match pc s with
      | MinSet T _ =>
          gc_done s (filter (fun x => T <=? s_t x) (head_ino s)) (ooo_mem s) T newmint newoomin (Truncated T)
      | OAwaited L =>
          gc_done s (head_ino s)
                  (filter (fun c => match oc_ref c with None => true | Some r => L <? r end) (ooo_mem s))
                  (head_mint s) newmint newoomin (OTruncated L)
      | _ => None
      end
  | EHeadDone =>
      match pc s, to_close s with
      | Truncated T, _ => Some (set_pc (set_trunc s (trunc_time s) false) Idle)
      | HReloaded T, [] => guard (T <=? head_mint s) (set_pc s Idle)   (* truncateMemory returned early *)
      | _, _ => None
      end
  | EOStart L =>
      match pc s with
      | Idle =>
          guard (match ooo_mem s with [] => L =? 0 | _ => 0 <? L end
                 && ((gc_ref s <? L) || (L =? 0))
                 && forallb (fun c => match oc_ref c with None => true | Some r => r <? L end) (ooo_mem s))
                (set_pc (set_ooo s (map (fun c => mkOC (Some L) (oc_samples c)) (ooo_mem s)) (ooo_mint s)) (OStarted L))
      | _ => None
      end
  | EOWritten ds =>
      match pc s with
      | OStarted L =>
          let bs := map (mk_oblock (ooo_mem s)) ds in
          guard (fresh_ids s (map b_id bs) && distinct (map b_id bs)
                 && forallb (fun d => let '(_, mint, maxt) := d in mint <? maxt) ds
                 && forallb (fun x => mem_sample x (blocks_samples bs)) (ooo_samples (ooo_mem s)))
                (set_pc s (OWritten L bs))
      | _ => None
      end
  | EGcPub =>
      match pc s, to_close s with
      | OReloaded L, [] => guard ((0 <? L) && all_done s) (set_pc (set_gc s L) (GcPub L))
      | _, _ => None
      end
  | EOAwaited =>
      match pc s with
      | GcPub L =>
          (* HasOpenReadsAtOrBefore(L): some open read has minRef < L *)
          guard (negb (existsb (fun r => snd r <? L) (ooo_reads s))) (set_pc s (OAwaited L))
      | _ => None
      end
  | EODone =>
      match pc s, to_close s with
      | OTruncated L, _ => Some (set_pc s Idle)
      | OReloaded L, [] => guard (L =? 0) (set_pc s Idle)
      | _, _ => None
      end
  | EBWritten id ps mint maxt =>
      match pc s with
      | Idle =>
          let smp := nodup sample_eq_dec
                       (blocks_samples (filter (fun x => memZ (b_id x) ps) (db_blocks s))) in
          let b := mkB id mint maxt smp in
          guard (match ps with [] => false | _ => true end
                 && forallb (fun p => memZ p (map b_id (db_blocks s))) ps
                 && negb (memZ id (all_ids s)) && block_wf b
                 && match to_close s with [] => true | _ => false end)
                (set_pc s (BWritten b ps))
      | _ => None
      end
  | EVWritten id mint maxt sids =>
      (* compactHeadViewLocked: one block per chunk range with the in-order samples of the
         selected series; all blocks are written before anything is evicted *)
      let b := mkB id mint maxt
                 (filter (fun x => in_block_range mint maxt x && memZ (s_sid x) sids) (head_ino s)) in
      let ok := (mint <? maxt) && negb (memZ id (all_ids s))
                && match to_close s with [] => true | _ => false end in
      match pc s with
      | Idle => guard ok (set_pc s (VWritten [b] sids))
      | VReloaded sids' => guard (ok && zlist_eqb sids sids') (set_pc s (VWritten [b] sids))
      | _ => None
      end
  | EVAwaited T =>
      (* Head.truncateSeries: returns early when h.MinTime() > maxt, else
         WaitForPendingReadersInTimeRange(h.MinTime(), maxt) - which treats its upper bound as
         exclusive (maxt--): no open read overlaps [h.MinTime(), T-1] *)
      let ok := (head_mint s <=? T)
                && negb (existsb (fun r => let '(_, lo, hi) := r in (lo <=? T - 1) && (head_mint s <=? hi)) (iso s)) in
      match pc s with
      | Idle => guard ok (set_pc s (VAwaited [] T))
      | VReloaded sids => guard ok (set_pc s (VAwaited sids T))
      | _ => None
      end
  | EVEvicted ev =>
      match pc s with
      | VAwaited sids T =>
          (* gcSeries: the evicted series (a subset of the selected ones, all of whose samples are
             at or below T and were written to the blocks) leave the head entirely *)
          let gone := filter (fun x => memZ (s_sid x) ev) (head_ino s) in
          guard (forallb (fun i => memZ i sids) ev
                 && forallb (fun x => (s_t x <=? T) && mem_sample x (blocks_samples (db_blocks s))) gone)
                (set_pc (set_head s (filter (fun x => negb (memZ (s_sid x) ev)) (head_ino s)) (head_mint s)) Idle)
      | VReloaded _ => guard (match ev with [] => true | _ => false end) (set_pc s Idle)  (* early return *)
      | _ => None
      end
  | EQBegin q mint maxt =>
      if negb (existsb (fun x => q_id x =? q) (queriers s)) && (mint <=? maxt) then
        let bs := filter (block_overlaps mint maxt) (db_blocks s) in
        let ooo := (mint <=? ooo_maxt s) && (ooo_mint s <=? maxt) in
        let hh := (head_mint s <=? maxt) || ooo in
        let nq := mkQ q mint maxt Begun bs (head_mint s) ooo hh (gc_ref s) None None in
        let s' := set_readers s (iso s) (ooo_reads s) (map (fun b => (q, b_id b)) bs ++ pending s)
                              (nq :: queriers s) in
        (* startRead: ErrClosing if the block is closing *)
        Some (if existsb (fun b => memZ (b_id b) (closing s) || memZ (b_id b) (closed s)) bs
              then set_failed s' true else s')
      else None
  | EQOpenHead q =>
      match find_q s q with
      | Some x =>
          match q_stage x with
          | Begun =>
              guard (q_hashead x)
                    (set_readers s ((q, q_mint x, q_maxt x) :: iso s) (ooo_reads s) (pending s)
                       (mkQ q (q_mint x) (q_maxt x) Opened (q_blocks x) (q_hm x) (q_ooo x) (q_hashead x)
                            (q_gc x) None None :: others s q))
          | _ => None
          end
      | None => None
      end
  | EQFinish q =>
      match find_q s q with
      | Some x =>
          match q_stage x with
          | Begun =>
              guard (negb (q_hashead x))
                    (set_readers s (iso s) (ooo_reads s) (pending s)
                       (mkQ q (q_mint x) (q_maxt x) Done (q_blocks x) (q_hm x) (q_ooo x) (q_hashead x)
                            (q_gc x) None None :: others s q))
          | Opened =>
              let '(close, getnew, newmint) := colliding s (q_mint x) (q_maxt x) in
              let inomint := if close then newmint else Z.max (q_hm x) (q_mint x) in
              let iso1 := if close then filter (fun r => negb (fst (fst r) =? q)) (iso s) else iso s in
              let iso2 := if getnew then (q, newmint, q_maxt x) :: iso1 else iso1 in
              let inner := if close then (if getnew then Some newmint else None) else Some (q_mint x) in
              if q_ooo x then
                Some (set_readers s ((q, inomint, q_maxt x) :: iso2) ((q, q_gc x) :: ooo_reads s) (pending s)
                        (mkQ q (q_mint x) (q_maxt x) Done (q_blocks x) (q_hm x) (q_ooo x) (q_hashead x)
                             (q_gc x) (Some inomint) (Some (q_gc x)) :: others s q))
              else
                Some (set_readers s iso2 (ooo_reads s) (pending s)
                        (mkQ q (q_mint x) (q_maxt x) Done (q_blocks x) (q_hm x) (q_ooo x) (q_hashead x)
                             (q_gc x) inner None :: others s q))
          | Done => None
          end
      | None => None
      end
  | EQIter q =>
      match find_q s q with
      | Some x =>
          match q_stage x with
          | Done =>
              Some (if existsb (fun b => memZ (b_id b) (closed s)) (q_blocks x) then set_failed s true else s)
          | _ => None
          end
      | None => None
      end
  | EQClose q =>
      match find_q s q with
      | Some x =>
          match q_stage x with
          | Done =>
              Some (set_readers s (filter (fun r => negb (fst (fst r) =? q)) (iso s))
                                  (filter (fun r => negb (fst r =? q)) (ooo_reads s))
                                  (filter (fun r => negb (fst r =? q)) (pending s))
                                  (others s q))
          | _ => None
          end
      | None => None
      end
  end.

(* one output per EQIter: (querier, mint, maxt, samples returned) *)
Definition output (s : state) (e : ev) : list (Z * Z * Z * list sample) :=
  match e with
  | EQIter q =>
      match find_q s q with
      | Some x => [(q, q_mint x, q_maxt x, q_result s x)]
      | None => []
      end
  | _ => []
  end.

Fixpoint run (s : state) (tr : list ev) : option (state * list (Z * Z * Z * list sample)) :=
  match tr with
  | [] => Some (s, [])
  | e :: r =>
      match step s e with
      | Some s' =>
          match run s' r with
          | Some (sf, outs) => Some (sf, output s e ++ outs)
          | None => None
          end
      | None => None
      end
  end.

(* index of the first event that is not enabled (for diagnostics), -1 if the trace is valid *)
Fixpoint first_bad (s : state) (tr : list ev) (i : Z) : Z :=
  match tr with
  | [] => -1
  | e :: r => match step s e with Some s' => first_bad s' r (i + 1) | None => i end
  end.

(* ---- the wait conditions of the maintenance actor (for the progress statement) ------------- *)

Definition is_maint (e : ev) : bool :=
  match e with
  | EQBegin _ _ _ | EQOpenHead _ | EQFinish _ | EQIter _ | EQClose _ => false
  | _ => true
  end.

(* the events of the stale-series / selected-series compaction *)
Definition is_view (e : ev) : bool :=
  match e with EVWritten _ _ _ _ | EVAwaited _ | EVEvicted _ => true | _ => false end.
Definition no_view (tr : list ev) : bool := forallb (fun e => negb (is_view e)) tr.

(* the step the maintenance actor takes next when it is in the middle of a run and its wait
   condition (if it has one) is met; payload-carrying steps are represented by one witness *)
Definition next_wait (s : state) : option ev :=
  match pc s, to_close s, closing s with
  | _, _, id :: _ => Some (EBlockClosed id)
  | HWritten _ _, _, _ | OWritten _ _, _, _ | BWritten _ _, _, _ | VWritten _ _, _, _ => Some ESwapped
  | VReloaded _, _, _ => Some (EVAwaited (head_mint s))
  | FlagSet _, _, _ => Some EAwaited
  | OReloaded L, [], _ => if 0 <? L then Some EGcPub else None
  | GcPub _, _, _ => Some EOAwaited
  | _, _, _ => None
  end.

(* model/LabelsX.v — executable model of model/labels (definitions only, no proofs).

   Three label-set representations selected by build tags in /repo/model/labels:
     * slicelabels   (labels_slicelabels.go):   Labels = []Label                    -> [I_slice]
     * stringlabels  (labels_stringlabels.go):  Labels = one length-prefixed string -> [I_string]
       (transcribed at the byte level: decodeSize/decodeString/encodeSize, Builder.Labels'
        merge copying raw byte ranges, Compare's first-differing-byte + field walk, Get/Has'
        first-byte peek with early exit, Len's skipping loop)
     * dedupelabels  (labels_dedupelabels.go):  Labels = symbol table + varint indexes -> [I_dedupe]
       (the symbol table is modelled abstractly as an injective numbering, i.e. a label set is
        its decoded entry list; the algorithms - merge, early-exit Get/Has, cached
        ScratchBuilder output, Bytes without the leading 0xfe - are the ones of that file;
        the varint index codec is modelled separately below: [dd_encode_varint]/[dd_decode_varint])
   and the code shared by all builds (labels_common.go): Builder.Set/Del/Keep/Get/Range/Reset,
   Labels.String.

   Strings are byte lists (Go compares strings bytewise).  A Go panic (index out of range,
   "String too long to encode as label.") is [Panic]; loops over the encoded data use fuel =
   length of the data with a distinct [OutOfFuel]. *)
From Coq Require Import List ZArith Bool Lia.
Import ListNotations.
Open Scope Z_scope.

Definition str := list Z.
Definition label := (str * str)%type.

Inductive res (A : Type) := Ok (a : A) | Panic | OutOfFuel.
Arguments Ok {A} a.
Arguments Panic {A}.
Arguments OutOfFuel {A}.

Definition bind {A B} (r : res A) (f : A -> res B) : res B :=
  match r with Ok a => f a | Panic => Panic | OutOfFuel => OutOfFuel end.
Notation "'let*' x ':=' r 'in' k" := (bind r (fun x => k)) (at level 200, x binder, r at level 100, k at level 200).

(* ---------------------------------------------------------------- strings *)
Fixpoint str_cmp (a b : str) : comparison :=
  match a, b with
  | [], [] => Eq
  | [], _ :: _ => Lt
  | _ :: _, [] => Gt
  | x :: a', y :: b' => match x ?= y with Eq => str_cmp a' b' | c => c end
  end.
Definition str_eqb (a b : str) : bool := match str_cmp a b with Eq => true | _ => false end.
Definition str_ltb (a b : str) : bool := match str_cmp a b with Lt => true | _ => false end.
Definition label_eqb (a b : label) : bool := str_eqb (fst a) (fst b) && str_eqb (snd a) (snd b).
Fixpoint list_eqb {A} (e : A -> A -> bool) (a b : list A) : bool :=
  match a, b with
  | [], [] => true
  | x :: a', y :: b' => e x y && list_eqb e a' b'
  | _, _ => false
  end.
Definition labels_eqb := list_eqb label_eqb.
Definition mem (n : str) (l : list str) : bool := existsb (str_eqb n) l.
Definition has_name (n : str) (l : list label) : bool := existsb (fun x => str_eqb (fst x) n) l.
Definition zlen {A} (l : list A) : Z := Z.of_nat (length l).
Definition sgn (z : Z) : Z := match z with Z0 => 0 | Zpos _ => 1 | Zneg _ => -1 end.
Definition rep (n : Z) (c : Z) : str := repeat c (Z.to_nat n).

(* slices.SortFunc(ls, cmp by Name): for <= 12 elements Go runs insertion sort (stable); for
   more elements pdqsort is not stable, but every sort the model is compared on then has
   unique names (see notes), where the result is unique. *)
Fixpoint ins (x : label) (l : list label) : list label :=
  match l with
  | [] => [x]
  | y :: t => if str_ltb (fst x) (fst y) then x :: l else y :: ins x t
  end.
Definition sort_labels (l : list label) : list label := fold_left (fun acc x => ins x acc) l [].
Fixpoint ins_s (x : str) (l : list str) : list str :=
  match l with
  | [] => [x]
  | y :: t => if str_ltb x y then x :: l else y :: ins_s x t
  end.
Definition sort_strs (l : list str) : list str := fold_left (fun acc x => ins_s x acc) l [].

(* ---------------------------------------------------------------- slicelabels *)
Definition sep : Z := 255.
Definition labelSep : Z := 254.

Fixpoint sl_get (ls : list label) (n : str) : str :=
  match ls with [] => [] | (k, v) :: t => if str_eqb k n then v else sl_get t n end.
Definition sl_has (ls : list label) (n : str) : bool := has_name n ls.

(* Compare, labels_slicelabels.go *)
Fixpoint sl_compare (a b : list label) : Z :=
  match a, b with
  | (an, av) :: a', (bn, bv) :: b' =>
      if negb (str_eqb an bn) then (if str_ltb an bn then -1 else 1)
      else if negb (str_eqb av bv) then (if str_ltb av bv then -1 else 1)
      else sl_compare a' b'
  | _, _ => sgn (zlen a - zlen b)
  end.

(* Bytes: labelSep, then name sep value joined by sep *)
Fixpoint join_nv (first : bool) (ls : list label) : str :=
  match ls with
  | [] => []
  | (n, v) :: t => (if first then [] else [sep]) ++ n ++ [sep] ++ v ++ join_nv false t
  end.
Definition sl_bytes (ls : list label) : str := labelSep :: join_nv true ls.
(* Hash input of slicelabels and dedupelabels: (name sep value sep)* *)
Definition hash_input (ls : list label) : str := flat_map (fun l => fst l ++ [sep] ++ snd l ++ [sep]) ls.

(* Builder.Labels, labels_slicelabels.go *)
Definition sl_blabels (base : list label) (add : list label) (del : list str) : list label :=
  match del, add with
  | [], [] => base
  | _, _ =>
      let res := filter (fun l => negb (mem (fst l) del || has_name (fst l) add)) base in
      match add with [] => res | _ => sort_labels (res ++ add) end
  end.

(* ---------------------------------------------------------------- stringlabels codec *)
(* sizeWhenEncoded / encodeSize.  [fixed] = true: the tree after "fix: ... sizeWhenEncoded"
   (x < 1<<24: a length that does not fit the 24 bits encodeSize writes is rejected with the
   panic "String too long to encode as label."); false: the code as it was (x <= 1<<24
   accepted, so 2^24 was written as 255,0,0,0 = length 0: C39_len_2pow24_old_refuted). *)
Definition two24 : Z := 16777216.
Definition encode_size_gen (fixed : bool) (v : Z) : res str :=
  if v <? 255 then Ok [v]
  else if (if fixed then v <? two24 else v <=? two24)
       then Ok [255; v mod 256; (v / 256) mod 256; (v / 65536) mod 256]
  else Panic.
Definition encode_size : Z -> res str := encode_size_gen true.
Definition encode_size_old : Z -> res str := encode_size_gen false.
Definition encode_str_old (s : str) : res str := let* p := encode_size_old (zlen s) in Ok (p ++ s).
Definition encode_str (s : str) : res str := let* p := encode_size (zlen s) in Ok (p ++ s).
(* marshalLabelToSizedBuffer (writes back to front into a buffer sized by labelSize; modelled
   as forward concatenation) *)
Definition encode_label (l : label) : res str :=
  let* n := encode_str (fst l) in let* v := encode_str (snd l) in Ok (n ++ v).
Fixpoint encode_labels (ls : list label) : res str :=
  match ls with
  | [] => Ok []
  | l :: t => let* a := encode_label l in let* b := encode_labels t in Ok (a ++ b)
  end.

(* decodeSize(data, index): the data from index on is the suffix [d]; returns size and rest *)
Definition decode_size (d : str) : res (Z * str) :=
  match d with
  | [] => Panic
  | b :: r =>
      if b =? 255 then
        match r with
        | b0 :: b1 :: b2 :: r' => Ok (b0 + b1 * 256 + b2 * 65536, r')
        | _ => Panic
        end
      else Ok (b, r)
  end.
(* data[index : index+size] panics when it reaches past the end *)
Definition take (n : Z) (d : str) : res (str * str) :=
  if zlen d <? n then Panic else Ok (firstn (Z.to_nat n) d, skipn (Z.to_nat n) d).
Definition decode_string (d : str) : res (str * str) :=
  let* '(n, r) := decode_size d in take n r.
(* i += size without touching the data: no bounds check *)
Definition skip (n : Z) (d : str) : str := skipn (Z.to_nat n) d.

(* Range / Len / Get / Has, labels_stringlabels.go; fuel = length data *)
Fixpoint st_range_f (fuel : nat) (d : str) : res (list label) :=
  match d with
  | [] => Ok []
  | _ => match fuel with
         | O => OutOfFuel
         | S f => let* '(n, d1) := decode_string d in
                  let* '(v, d2) := decode_string d1 in
                  let* t := st_range_f f d2 in Ok ((n, v) :: t)
         end
  end.
Definition st_range (d : str) : res (list label) := st_range_f (length d) d.

Fixpoint st_len_f (fuel : nat) (d : str) (count : Z) : res Z :=
  match d with
  | [] => Ok count
  | _ => match fuel with
         | O => OutOfFuel
         | S f => let* '(s1, r1) := decode_size d in
                  let* '(s2, r2) := decode_size (skip s1 r1) in
                  st_len_f f (skip s2 r2) (count + 1)
         end
  end.
Definition st_len (d : str) : res Z := st_len_f (length d) d 0.

(* shared loop of Get and Has: Some (rest after the matching name) or None *)
Fixpoint st_find_f (fuel : nat) (d : str) (name : str) (n0 : Z) : res (option str) :=
  match d with
  | [] => Ok None
  | _ => match fuel with
         | O => OutOfFuel
         | S f =>
             let* '(size, r) := decode_size d in
             match r with
             | [] => Panic                                   (* ls.data[i] *)
             | c :: _ =>
                 if c =? n0 then
                   let* '(lName, r1) := take size r in
                   if str_eqb lName name then Ok (Some r1)
                   else let* '(s2, r2) := decode_size r1 in st_find_f f (skip s2 r2) name n0
                 else if c >? n0 then Ok None                 (* gone past *)
                 else let* '(s2, r2) := decode_size (skip size r) in st_find_f f (skip s2 r2) name n0
             end
         end
  end.
Definition st_get (d : str) (name : str) : res str :=
  match name with
  | [] => Ok []
  | n0 :: _ => let* o := st_find_f (length d) d name n0 in
               match o with
               | None => Ok []
               | Some r1 => let* '(v, _) := decode_string r1 in Ok v
               end
  end.
Definition st_has (d : str) (name : str) : res bool :=
  match name with
  | [] => Ok false
  | n0 :: _ => let* o := st_find_f (length d) d name n0 in
               Ok (match o with None => false | Some _ => true end)
  end.

(* Compare, labels_stringlabels.go.  [common_prefix] = index of the first differing byte
   (the 8-bytes-at-a-time loop is an optimisation of the bytewise one). *)
Fixpoint common_prefix (a b : str) : Z :=
  match a, b with
  | x :: a', y :: b' => if x =? y then 1 + common_prefix a' b' else 0
  | _, _ => 0
  end.
(* the field walk: [da], [db] are the data from index i on, [remn] = firstCharDifferent - i *)
Fixpoint st_cmp_walk (fuel : nat) (da db : str) (remn : Z) : res Z :=
  match fuel with
  | O => OutOfFuel
  | S f =>
      let* '(size, ra) := decode_size da in
      let hdr := zlen da - zlen ra in
      if hdr + size <=? remn then st_cmp_walk f (skip (hdr + size) da) (skip (hdr + size) db) (remn - (hdr + size))
      else
        let* '(aStr, _) := decode_string da in
        let* '(bStr, _) := decode_string db in
        Ok (if str_ltb aStr bStr then -1 else 1)
  end.
Definition st_compare (a b : str) : res Z :=
  let i := common_prefix a b in
  if i =? Z.min (zlen a) (zlen b) then Ok (sgn (zlen a - zlen b))
  else st_cmp_walk (S (length a)) a b i.

(* Builder.Labels, labels_stringlabels.go: [dl], [ad] are the sorted del / add from index d / a on *)
Fixpoint drop_lt (dl : list str) (n : str) : list str :=
  match dl with x :: t => if str_ltb x n then drop_lt t n else dl | [] => [] end.
Fixpoint emit_lt (ad : list label) (n : str) (buf : str) : res (list label * str) :=
  match ad with
  | x :: t => if str_ltb (fst x) n then let* e := encode_label x in emit_lt t n (buf ++ e) else Ok (ad, buf)
  | [] => Ok ([], buf)
  end.
Fixpoint emit_all (ad : list label) (buf : str) : res str :=
  match ad with
  | x :: t => let* e := encode_label x in emit_all t (buf ++ e)
  | [] => Ok buf
  end.
Fixpoint st_merge_f (fuel : nat) (d : str) (dl : list str) (ad : list label) (buf : str) : res str :=
  match d with
  | [] => emit_all ad buf
  | _ => match fuel with
         | O => OutOfFuel
         | S f =>
             let* '(lName, p1) := decode_string d in
             let* '(_, p2) := decode_string p1 in
             let dl := drop_lt dl lName in
             if (match dl with x :: _ => str_eqb x lName | [] => false end)
             then st_merge_f f p2 dl ad buf        (* this label has been deleted *)
             else
               let* '(ad, buf) := emit_lt ad lName buf in
               match ad with
               | y :: ad' => if str_eqb (fst y) lName
                             then let* e := encode_label y in st_merge_f f p2 dl ad' (buf ++ e)
                             else st_merge_f f p2 dl ad (buf ++ firstn (length d - length p2) d)
               | [] => st_merge_f f p2 dl ad (buf ++ firstn (length d - length p2) d)
               end
         end
  end.
Definition st_blabels (base : str) (add : list label) (del : list str) : res str :=
  match del, add with
  | [], [] => Ok base
  | _, _ => (* bufSize := len(base) + labelsSize(add): labelsSize panics on too long strings *)
      let* _ := encode_labels add in
      st_merge_f (length base) base (sort_strs del) (sort_labels add) []
  end.

(* New: sort, labelsSize, marshal *)
Definition st_new (ls : list label) : res str := encode_labels (sort_labels ls).

(* ---------------------------------------------------------------- dedupelabels *)
(* entry-level versions of the same algorithms (symbol table abstract) *)
Fixpoint dd_find (ls : list label) (name : str) (n0 : Z) : res (option str) :=
  match ls with
  | [] => Ok None
  | (k, v) :: t =>
      if str_eqb k name then Ok (Some v)
      else match k with
           | [] => Panic                                     (* lName[0] on an empty name *)
           | k0 :: _ => if k0 >? n0 then Ok None else dd_find t name n0
           end
  end.
Definition dd_get (ls : list label) (name : str) : res str :=
  match name with
  | [] => Ok []
  | n0 :: _ => let* o := dd_find ls name n0 in Ok (match o with None => [] | Some v => v end)
  end.
Definition dd_has (ls : list label) (name : str) : res bool :=
  match name with
  | [] => Ok false
  | n0 :: _ => let* o := dd_find ls name n0 in Ok (match o with None => false | Some _ => true end)
  end.
Definition dd_bytes (ls : list label) : str := join_nv true ls.

Fixpoint ll_emit_lt (ad : list label) (n : str) (buf : list label) : list label * list label :=
  match ad with
  | x :: t => if str_ltb (fst x) n then ll_emit_lt t n (buf ++ [x]) else (ad, buf)
  | [] => ([], buf)
  end.
Fixpoint dd_merge (base : list label) (dl : list str) (ad : list label) (buf : list label) : list label :=
  match base with
  | [] => buf ++ ad
  | (lName, lValue) :: rest =>
      let dl := drop_lt dl lName in
      let deleted := match dl with x :: _ => str_eqb x lName | [] => false end in
      if deleted then dd_merge rest dl ad buf else
      let '(ad, buf) := ll_emit_lt ad lName buf in
      match ad with
      | y :: ad' => if str_eqb (fst y) lName then dd_merge rest dl ad' (buf ++ [y])
                    else dd_merge rest dl ad (buf ++ [(lName, lValue)])
      | [] => dd_merge rest dl ad (buf ++ [(lName, lValue)])
      end
  end.
Definition dd_blabels (base : list label) (add : list label) (del : list str) : list label :=
  match del, add with
  | [], [] => base
  | _, _ => dd_merge base (sort_strs del) (sort_labels add) []
  end.

(* the index codec of dedupelabels: encodeVarint / decodeVarint (2, 3 or 4 bytes) *)
Definition dd_encode_varint (v : Z) : res str :=
  if v <? 32768 then Ok [v mod 256; v / 256]
  else if v <? 4194304 then Ok [v mod 256; ((v / 256) mod 128) + 128; v / 32768]
  else if v <? 536870912 then Ok [v mod 256; ((v / 256) mod 128) + 128; ((v / 32768) mod 128) + 128; v / 4194304]
  else Panic.
Definition dd_decode_varint (d : str) : res (Z * str) :=
  match d with
  | b0 :: b1 :: r =>
      let b := b0 + b1 * 256 in
      if b <? 32768 then Ok (b, r) else
      let value := b mod 32768 in
      match r with
      | b2 :: r2 =>
          if b2 <? 128 then Ok (value + b2 * 32768, r2)
          else match r2 with
               | b3 :: r3 => Ok (value + (b2 mod 128) * 32768 + b3 * 4194304, r3)
               | [] => Panic
               end
      | [] => Panic
      end
  | _ => Panic
  end.

(* ---------------------------------------------------------------- the three implementations *)
Record impl := mkImpl {
  L : Type;
  l_empty : L;
  l_new : list label -> res L;
  l_range : L -> res (list label);
  l_len : L -> res Z;
  l_get : L -> str -> res str;
  l_has : L -> str -> res bool;
  l_isempty : L -> bool;
  l_compare : L -> L -> res Z;
  l_equal : L -> L -> res bool;
  l_bytes : L -> res str;
  l_blabels : L -> list label -> list str -> res L;
  bl_sorts : bool;                (* Builder.Labels sorts b.add and b.del in place (visible to a later Builder.Range) *)
  (* ScratchBuilder: state = (add, output); slicelabels has no output field *)
  sb_cached : bool;               (* Labels() caches a non-empty output; Assign sets output *)
  l_of_adds : list label -> res L (* Labels() on the add slice, no sorting *)
}.

Definition I_slice : impl := {|
  L := list label; l_empty := [];
  l_new := fun ls => Ok (sort_labels ls);
  l_range := fun l => Ok l;
  l_len := fun l => Ok (zlen l);
  l_get := fun l n => Ok (sl_get l n);
  l_has := fun l n => Ok (sl_has l n);
  l_isempty := fun l => match l with [] => true | _ => false end;
  l_compare := fun a b => Ok (sgn (sl_compare a b));
  l_equal := fun a b => Ok (labels_eqb a b);
  l_bytes := fun l => Ok (sl_bytes l);
  l_blabels := fun b a d => Ok (sl_blabels b a d);
  bl_sorts := false;
  sb_cached := false;
  l_of_adds := fun a => Ok a |}.

Definition I_string : impl := {|
  L := str; l_empty := [];
  l_new := st_new;
  l_range := st_range;
  l_len := st_len;
  l_get := st_get;
  l_has := st_has;
  l_isempty := fun l => match l with [] => true | _ => false end;
  l_compare := fun a b => let* c := st_compare a b in Ok (sgn c);
  l_equal := fun a b => Ok (list_eqb Z.eqb a b);
  l_bytes := fun l => Ok l;
  l_blabels := st_blabels;
  bl_sorts := true;
  sb_cached := true;
  l_of_adds := encode_labels |}.

Definition I_dedupe : impl := {|
  L := list label; l_empty := [];
  l_new := fun ls => Ok (sort_labels ls);
  l_range := fun l => Ok l;
  l_len := fun l => Ok (zlen l);
  l_get := dd_get;
  l_has := dd_has;
  l_isempty := fun l => match l with [] => true | _ => false end;
  l_compare := fun a b => Ok (sgn (sl_compare a b));
  l_equal := fun a b => Ok (labels_eqb a b);
  l_bytes := fun l => Ok (dd_bytes l);
  l_blabels := fun b a d => Ok (dd_blabels b a d);
  bl_sorts := true;
  sb_cached := true;
  l_of_adds := fun a => Ok a |}.

(* ---------------------------------------------------------------- programs *)
Inductive op :=
| OBReset (r : nat)                 (* builder.Reset(R[r]) *)
| OBSet (n v : str)
| OBDel (ns : list str)
| OBKeep (ns : list str)
| OBLabels (r : nat)                (* R[r] = builder.Labels() *)
| OBGet (n : str)                   (* observe builder.Get(n) *)
| OBRange                           (* observe builder.Range *)
| OSReset
| OSAdd (n v : str)
| OSSort
| OSAssign (r : nat)
| OSLabels (r : nat)                (* R[r] = scratch.Labels() *)
| ONew (r : nat) (ls : list label)  (* R[r] = labels.New / FromStrings / FromMap *)
| ORebuild.                         (* fresh symbol table; every register rebuilt through a ScratchBuilder
                                       (Range -> Add -> Labels), as Head.RebuildSymbolTable does *)

Inductive event := EGet (v : str) | ERange (ls : list label).

Record lobs := mkO {
  o_range : list label; o_len : Z; o_empty : bool; o_str : str; o_bytes : str; o_hash : Z;
  o_stable : Z;                     (* labels.StableHash *)
  o_sref : Z;                       (* oracle: xxhash64 of hash_input (o_range), evaluated by the harness *)
  o_gets : list (str * bool)        (* per probe name: Get, Has *)
}.
Record transcript := mkT {
  t_panic : bool; t_events : list event; t_regs : list lobs;
  t_cmp : list Z;                   (* sign of Compare(R[i], R[j]), row major *)
  t_eq : list bool                  (* Equal(R[i], R[j]) *)
}.

(* labels_common.go: Builder *)
Section Machine.
Variable I : impl.

Record bstate := mkB { b_base : L I; b_del : list str; b_add : list label }.
Record sstate := mkS { s_add : list label; s_out : L I }.
Record mstate := mkM { m_regs : list (L I); m_b : bstate; m_s : sstate; m_ev : list event }.

Definition b_reset (base : L I) : res bstate :=
  let* r := l_range I base in
  Ok (mkB base (map fst (filter (fun l => match snd l with [] => true | _ => false end) r)) []).
(* Del: for every name, remove it from add (names in add are unique: Set replaces), append to del *)
Definition b_del1 (b : bstate) (n : str) : bstate :=
  mkB (b_base b) (b_del b ++ [n]) (filter (fun a => negb (str_eqb (fst a) n)) (b_add b)).
Definition b_delete (b : bstate) (ns : list str) : bstate := fold_left b_del1 ns b.
Fixpoint set_in (add : list label) (n v : str) : option (list label) :=
  match add with
  | [] => None
  | a :: t => if str_eqb (fst a) n then Some ((fst a, v) :: t)
              else match set_in t n v with Some t' => Some (a :: t') | None => None end
  end.
Definition b_set (b : bstate) (n v : str) : bstate :=
  match v with
  | [] => b_delete b [n]
  | _ => match set_in (b_add b) n v with
         | Some add' => mkB (b_base b) (b_del b) add'
         | None => mkB (b_base b) (b_del b) (b_add b ++ [(n, v)])
         end
  end.
Definition b_keep (b : bstate) (ns : list str) : res bstate :=
  let* r := l_range I (b_base b) in
  Ok (mkB (b_base b) (b_del b ++ map fst (filter (fun l => negb (mem (fst l) ns)) r)) (b_add b)).
Definition b_get (b : bstate) (n : str) : res str :=
  match find (fun a => str_eqb (fst a) n) (b_add b) with
  | Some a => Ok (snd a)
  | None => if mem n (b_del b) then Ok [] else l_get I (b_base b) n
  end.
Definition b_range (b : bstate) : res (list label) :=
  let* r := l_range I (b_base b) in
  Ok (filter (fun l => negb (mem (fst l) (b_del b)) && negb (has_name (fst l) (b_add b))) r ++ b_add b).
Definition b_labels (b : bstate) : res (L I) := l_blabels I (b_base b) (b_add b) (b_del b).
(* stringlabels / dedupelabels: slices.SortFunc(b.add), slices.Sort(b.del) happen in place *)
Definition b_after_labels (b : bstate) : bstate :=
  match b_del b, b_add b with
  | [], [] => b
  | _, _ => if bl_sorts I then mkB (b_base b) (sort_strs (b_del b)) (sort_labels (b_add b)) else b
  end.

(* ScratchBuilder *)
Definition s_labels (s : sstate) : res (sstate * L I) :=
  if sb_cached I then
    if l_isempty I (s_out s) then let* o := l_of_adds I (s_add s) in Ok (mkS (s_add s) o, o)
    else Ok (s, s_out s)
  else let* o := l_of_adds I (s_add s) in Ok (s, o).
Definition s_assign (s : sstate) (l : L I) : res sstate :=
  if sb_cached I then Ok (mkS (s_add s) l)
  else let* r := l_range I l in Ok (mkS r (s_out s)).

Definition setreg (regs : list (L I)) (r : nat) (l : L I) : list (L I) :=
  firstn r regs ++ l :: skipn (S r) regs.
Definition getreg (regs : list (L I)) (r : nat) : L I := nth r regs (l_empty I).   (* r < K checked by [ops_ok] *)

Definition rebuild1 (l : L I) : res (L I) := let* r := l_range I l in l_of_adds I r.
Fixpoint mapM {A B} (f : A -> res B) (l : list A) : res (list B) :=
  match l with [] => Ok [] | x :: t => let* y := f x in let* ys := mapM f t in Ok (y :: ys) end.

Definition step (m : mstate) (o : op) : res mstate :=
  let '(mkM regs b s ev) := m in
  match o with
  | OBReset r => let* b' := b_reset (getreg regs r) in Ok (mkM regs b' s ev)
  | OBSet n v => Ok (mkM regs (b_set b n v) s ev)
  | OBDel ns => Ok (mkM regs (b_delete b ns) s ev)
  | OBKeep ns => let* b' := b_keep b ns in Ok (mkM regs b' s ev)
  | OBLabels r => let* l := b_labels b in Ok (mkM (setreg regs r l) (b_after_labels b) s ev)
  | OBGet n => let* v := b_get b n in Ok (mkM regs b s (EGet v :: ev))
  | OBRange => let* l := b_range b in Ok (mkM regs b s (ERange l :: ev))
  | OSReset => Ok (mkM regs b (mkS [] (l_empty I)) ev)
  | OSAdd n v => Ok (mkM regs b (mkS (s_add s ++ [(n, v)]) (s_out s)) ev)
  | OSSort => Ok (mkM regs b (mkS (sort_labels (s_add s)) (s_out s)) ev)
  | OSAssign r => let* s' := s_assign s (getreg regs r) in Ok (mkM regs b s' ev)
  | OSLabels r => let* '(s', l) := s_labels s in Ok (mkM (setreg regs r l) b s' ev)
  | ONew r ls => let* l := l_new I ls in Ok (mkM (setreg regs r l) b s ev)
  | ORebuild => let* regs' := mapM rebuild1 regs in Ok (mkM regs' b s ev)
  end.

Fixpoint run_ops (m : mstate) (ops : list op) : res mstate :=
  match ops with [] => Ok m | o :: t => let* m' := step m o in run_ops m' t end.

End Machine.

Definition K : nat := 4.   (* registers *)
Definition init (I : impl) : mstate I :=
  mkM I (repeat (l_empty I) K) (mkB I (l_empty I) [] []) (mkS I [] (l_empty I)) [].

(* ---------------------------------------------------------------- observation *)
(* Labels.String (labels_common.go); strconv.Quote and model.LegacyValidation.IsValidLabelName
   are oracles tabulated per case: s |-> (Quote s, IsValidLabelName s) *)
Definition qtable := list (str * (str * bool)).
Fixpoint qlookup (q : qtable) (s : str) : option (str * bool) :=
  match q with [] => None | (k, v) :: t => if str_eqb k s then Some v else qlookup t s end.
Definition missing : str := [-1].
Definition quote (q : qtable) (s : str) : str := match qlookup q s with Some (x, _) => x | None => missing end.
Definition name_form (q : qtable) (s : str) : str :=
  match qlookup q s with Some (x, valid) => if valid then s else x | None => missing end.
Fixpoint string_body (q : qtable) (first : bool) (ls : list label) : str :=
  match ls with
  | [] => []
  | (n, v) :: t => (if first then [] else [44; 32]) ++ name_form q n ++ [61] ++ quote q v ++ string_body q false t
  end.
Definition labels_string (q : qtable) (ls : list label) : str := [123] ++ string_body q true ls ++ [125].

Section Observe.
Variable I : impl.
Variable q : qtable.
Variable probes : list str.

Definition observe1 (l : L I) : res lobs :=
  let* r := l_range I l in
  let* n := l_len I l in
  let* b := l_bytes I l in
  let* g := mapM (fun p => let* v := l_get I l p in let* h := l_has I l p in Ok (v, h)) probes in
  Ok (mkO r n (l_isempty I l) (labels_string q r) b 0 0 0 g).

Definition observe (m : mstate I) : res transcript :=
  let regs := m_regs I m in
  let* os := mapM observe1 regs in
  let* cs := mapM (fun a => mapM (fun b => l_compare I a b) regs) regs in
  let* es := mapM (fun a => mapM (fun b => l_equal I a b) regs) regs in
  Ok (mkT false (rev (m_ev I m)) os (concat cs) (concat es)).
End Observe.

Definition panicT : transcript := mkT true [] [] [] [].
(* the transcript of a program under one implementation *)
Definition run (I : impl) (q : qtable) (probes : list str) (ops : list op) : res transcript :=
  match (let* m := run_ops I (init I) ops in observe I q probes m) with
  | Ok t => Ok t
  | Panic => Ok panicT
  | OutOfFuel => OutOfFuel
  end.

(* ---------------------------------------------------------------- the documented protocol *)
(* Programs on which the three builds are required to agree: register indexes in range, label
   names non-empty, New/FromStrings/FromMap with unique names, and the ScratchBuilder used as
   documented: (Reset; Add*; Sort; Labels) or (Reset; Assign; Labels) - Labels() only on a
   strictly name-sorted add list, no Add after Labels()/Assign() without Reset, Assign only on a
   freshly reset builder.  (Outside the protocol the builds differ by design, see
   C39_any_sequence_refuted.) *)
Inductive phase := Clean | Adding | Done.
Fixpoint strictly_sorted (l : list label) : bool :=
  match l with
  | a :: ((b :: _) as t) => str_ltb (fst a) (fst b) && strictly_sorted t
  | _ => true
  end.
Definition nonempty_names (l : list label) : bool := forallb (fun x => match fst x with [] => false | _ => true end) l.
Definition wf_labels (l : list label) : bool := strictly_sorted l && nonempty_names l.
Fixpoint nodup_names (l : list label) : bool :=
  match l with [] => true | a :: t => negb (has_name (fst a) t) && nodup_names t end.

Definition proto_step (st : phase * list label) (o : op) : option (phase * list label) :=
  let '(ph, adds) := st in
  match o with
  | OBReset r => if Nat.ltb r K then Some st else None
  | OBSet n v => match n with [] => None | _ => Some st end
  | OBDel _ | OBKeep _ | OBGet _ | OBRange | ORebuild => Some st
  | OBLabels r => if Nat.ltb r K then Some st else None
  | OSReset => Some (Clean, [])
  | OSAdd n v => match n, ph with
                 | [], _ => None
                 | _, Done => None
                 | _, _ => Some (Adding, adds ++ [(n, v)])
                 end
  | OSSort => Some (ph, sort_labels adds)
  | OSAssign r => match ph with Clean => if Nat.ltb r K then Some (Done, adds) else None | _ => None end
  | OSLabels r => if Nat.ltb r K && strictly_sorted adds then Some (Done, adds) else None
  | ONew r ls => if Nat.ltb r K && nonempty_names ls && nodup_names ls then Some st else None
  end.
Fixpoint proto_run (st : phase * list label) (ops : list op) : bool :=
  match ops with
  | [] => true
  | o :: t => match proto_step st o with Some st' => proto_run st' t | None => false end
  end.
Definition protocol_ok (ops : list op) : bool := proto_run (Clean, []) ops.

(* register indexes in range: needed for the model to be comparable at all *)
Definition op_regs_ok (o : op) : bool :=
  match o with
  | OBReset r | OBLabels r | OSAssign r | OSLabels r | ONew r _ => Nat.ltb r K
  | _ => true
  end.

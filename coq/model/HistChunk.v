(* model/HistChunk.v — executable model of the SEMANTIC layer of native-histogram chunks
   (tsdb/chunkenc/histogram.go, float_histogram.go, histogram_st.go, float_histogram_st.go,
   histogram_meta.go): span layouts, the insert machinery, the appendable decision cascades,
   recode / recodeHistogram and the AppendHistogram / AppendFloatHistogram drivers.

   Definitions only (no proofs).  One model covers the integer and the float chunk: the kind
   selects (a) how bucket values are stored (integer: deltas between neighbouring buckets,
   float: absolute values as IEEE-754 bit patterns), (b) the comparisons.

   What is abstracted: the bit stream (a chunk is its layout + the list of stored samples; the
   iterator returns exactly what appendHistogram stored), the counter-reset header except for
   "is it GaugeType" (headers are property C12), start timestamps of the ST variants.
   bucketIterator is modelled by the list of bucket indices it yields ([idxs]).
   Integers are unbounded Z: for valid histograms every absolute bucket count (prefix sum of
   the deltas) lies in [0, Count], so int64 arithmetic on them does not wrap; int32(offset) in
   addBucket is not truncated (bucket indices of valid histograms are far below 2^31). *)
From Coq Require Import List ZArith Bool Lia.
Import ListNotations.
Open Scope Z_scope.

(* ---------- results ---------- *)
Inductive res (A : Type) : Type :=
| Ok (a : A)
| Panic          (* a Go run-time panic: index out of range, explicit panic(...) *)
| Fuel.          (* the Go loop would not terminate / the model ran out of fuel *)
Arguments Ok {A} a.
Arguments Panic {A}.
Arguments Fuel {A}.

Definition bind {A B} (r : res A) (f : A -> res B) : res B :=
  match r with Ok a => f a | Panic => Panic | Fuel => Fuel end.
Notation "x <- r ;; k" := (bind r (fun x => k)) (at level 61, r at next level, right associativity).

(* ---------- spans and the bucket iterator ---------- *)
Record span := mkSpan { s_off : Z; s_len : Z }.

Definition zseq (start len : Z) : list Z :=
  map (fun i => start + Z.of_nat i) (seq 0 (Z.to_nat len)).

(* newBucketIterator(spans) + repeated Next(): the absolute indices of the buckets, in order.
   [next] is the index right after the last bucket yielded so far (0 at the start). *)
Fixpoint idxs_from (next : Z) (l : list span) : list Z :=
  match l with
  | [] => []
  | s :: r => zseq (next + s_off s) (s_len s) ++ idxs_from (next + s_off s + Z.max 0 (s_len s)) r
  end.
Definition idxs (l : list span) : list Z := idxs_from 0 l.

(* countSpans *)
Definition count_spans (l : list span) : Z := fold_right (fun s acc => s_len s + acc) 0 l.

(* the addBucket closure of expandSpansBothWays / adjustForInserts; the span list is kept
   reversed (last span first), [last] is lastBucket *)
Definition add_bucket (st : list span * Z) (b : Z) : list span * Z :=
  let '(rs, last) := st in
  let offset := b - last - 1 in
  match rs with
  | s :: r => if offset =? 0 then (mkSpan (s_off s) (s_len s + 1) :: r, b)
              else (mkSpan offset 1 :: rs, b)
  | [] => ([mkSpan (offset + 1) 1], b)
  end.
Definition spans_of (l : list Z) : list span := rev (fst (fold_left add_bucket l ([], 0))).

(* ---------- inserts ---------- *)
Record ins := mkIns { i_pos : Z; i_num : Z; i_bidx : Z }.

Definition flush (i : ins) (l : list ins) : list ins := if 0 <? i_num i then i :: l else l.

(* expandSpansBothWays(a, b): [ia], [ib] are the index streams of the two iterators.
   Returns (forward inserts, backward inserts, merged bucket indices); mergedSpans is
   [spans_of] of the last component (addBucket is called once per merged bucket, in order).
   fp/fn = fInter.pos/num, bp/bn = bInter.pos/num. *)
Fixpoint both_go (fuel : nat) (ia ib : list Z) (fp fn bp bn : Z)
  : res (list ins * list ins * list Z) :=
  match fuel with
  | O => Fuel
  | S f =>
    match ia, ib with
    | a :: ia', b :: ib' =>
        if a =? b then
          r <- both_go f ia' ib' (fp + 1) 0 (bp + 1) 0 ;;
          let '(F, B, M) := r in Ok (flush (mkIns fp fn 0) F, flush (mkIns bp bn 0) B, a :: M)
        else if a <? b then
          r <- both_go f ia' ib (fp + 1) 0 bp (bn + 1) ;;
          let '(F, B, M) := r in Ok (flush (mkIns fp fn 0) F, B, a :: M)
        else
          r <- both_go f ia ib' fp (fn + 1) (bp + 1) 0 ;;
          let '(F, B, M) := r in Ok (F, flush (mkIns bp bn 0) B, b :: M)
    | a :: ia', [] =>
        r <- both_go f ia' [] fp fn bp (bn + 1) ;;
        let '(F, B, M) := r in Ok (F, B, a :: M)
    | [], b :: ib' =>
        r <- both_go f [] ib' fp (fn + 1) bp bn ;;
        let '(F, B, M) := r in Ok (F, B, b :: M)
    | [], [] => Ok (flush (mkIns fp fn 0) [], flush (mkIns bp bn 0) [], [])
    end
  end.

Definition expand_both (a b : list span) : res (list ins * list ins * list span) :=
  let ia := idxs a in let ib := idxs b in
  r <- both_go (S (length ia + length ib)) ia ib 0 0 0 0 ;;
  let '(F, B, M) := r in Ok (F, B, spans_of M).

(* addInsert closure: returns (inserts appended to the list, new pending insert) *)
Definition add_insert (i : ins) (other : Z) : list ins * ins :=
  if i_num i =? 0 then ([], mkIns (i_pos i) 1 other)
  else if i_bidx i + i_num i =? other then ([], mkIns (i_pos i) (i_num i + 1) (i_bidx i))
  else ([i], mkIns (i_pos i) 1 other).
(* the insert part of advanceA / advanceB: flush the pending insert, pos++ *)
Definition advance (i : ins) : list ins * ins :=
  (flush i [], mkIns (i_pos i + 1) 0 (i_bidx i)).

(* expandIntSpansAndBuckets / expandFloatSpansAndBuckets.  A, B: (bucket index, absolute count)
   streams of chunk state and new histogram.  None = "not ok" (counter reset / used bucket
   disappeared). *)
Section Expand.
  Variable gt : Z -> Z -> bool.       (* aCount > bCount *)
  Variable is_zero : Z -> bool.       (* aCount == 0 *)

  Fixpoint cnt_go (fuel : nat) (A B : list (Z * Z)) (ai bi : ins)
    : res (option (list ins * list ins)) :=
    match fuel with
    | O => Fuel
    | S f =>
      let a_only a A' :=         (* b misses bucket a of the chunk *)
        let '(e1, bi1) := add_insert bi a in
        let '(ea, ai') := advance ai in
        r <- cnt_go f A' B ai' bi1 ;;
        match r with None => Ok None | Some (F, Bk) => Ok (Some (ea ++ F, e1 ++ Bk)) end in
      let b_only b B' :=         (* the chunk misses bucket b *)
        let '(e1, ai1) := add_insert ai b in
        let '(eb, bi') := advance bi in
        r <- cnt_go f A B' ai1 bi' ;;
        match r with None => Ok None | Some (F, Bk) => Ok (Some (e1 ++ F, eb ++ Bk)) end in
      match A, B with
      | (a, ca) :: A', (b, cb) :: B' =>
          if a =? b then
            if gt ca cb then Ok None else
            let '(ea, ai') := advance ai in
            let '(eb, bi') := advance bi in
            r <- cnt_go f A' B' ai' bi' ;;
            match r with None => Ok None | Some (F, Bk) => Ok (Some (ea ++ F, eb ++ Bk)) end
          else if a <? b then
            if is_zero ca then a_only a A' else Ok None
          else b_only b B'
      | (a, ca) :: A', [] => if is_zero ca then a_only a A' else Ok None
      | [], (b, _) :: B' => b_only b B'
      | [], [] => Ok (Some (flush ai [], flush bi []))
      end
    end.
End Expand.

(* pair bucket indices with absolute counts; aBuckets[aCountIdx] out of range = panic *)
Fixpoint zip_counts (ix cs : list Z) : res (list (Z * Z)) :=
  match ix, cs with
  | [], _ => Ok []
  | i :: ix', c :: cs' => r <- zip_counts ix' cs' ;; Ok ((i, c) :: r)
  | _ :: _, [] => Panic
  end.

(* ---------- insert (generic over int64 deltas / float64 absolute values) ---------- *)
Definition extra (num : Z) : list Z := repeat 0 (Z.to_nat (num - 1)). (* for x := 1; x < num *)

(* the inner loop "for ii < len(inserts) && i == inserts[ii].pos" *)
Fixpoint take_ins (deltas : bool) (i v : Z) (first : bool) (l : list ins) : list Z * list ins :=
  match l with
  | x :: r =>
      if i_pos x =? i then
        let hd := if deltas && first then - v else 0 in
        let '(o, r') := take_ins deltas i v false r in (hd :: extra (i_num x) ++ o, r')
      else ([], l)
  | [] => ([], [])
  end.

(* "Insert empty buckets at the end" *)
Fixpoint leftover (deltas : bool) (len v : Z) (l : list ins) : res (list Z) :=
  match l with
  | [] => Ok []
  | x :: r =>
      if i_pos x <? len then Panic (* "leftover inserts must be after the current buckets" *)
      else w <- leftover deltas len 0 r ;;
           Ok (((if deltas then - v else 0) :: extra (i_num x)) ++ w)
  end.

(* the values written to out[0..], in order; i = index into in, v = last value seen *)
Fixpoint ins_body (deltas : bool) (i v : Z) (inp : list Z) (l : list ins) : res (list Z) :=
  match inp with
  | [] => leftover deltas i v l
  | d :: rest =>
      match l with
      | x :: _ =>
          if i_pos x =? i then
            let '(o, r') := take_ins deltas i v true l in
            w <- ins_body deltas (i + 1) (v + d) rest r' ;;
            Ok (o ++ (if deltas then d + v else d) :: w)
          else w <- ins_body deltas (i + 1) (v + d) rest l ;; Ok (d :: w)
      | [] => w <- ins_body deltas (i + 1) (v + d) rest l ;; Ok (d :: w)
      end
  end.

(* insert(in, out, inserts, deltas) with len(out) = n, out zero-initialised *)
Definition insert_go (deltas : bool) (inp : list Z) (l : list ins) (n : Z) : res (list Z) :=
  w <- ins_body deltas 0 0 inp l ;;
  let k := Z.of_nat (length w) in
  if n <? k then Panic (* index out of range on out[oi] *)
  else Ok (w ++ repeat 0 (Z.to_nat (n - k))).

(* ---------- adjustForInserts ---------- *)
Fixpoint adj_merge (fuel : nat) (l j : list Z) : res (list Z) :=
  match fuel with
  | O => Fuel
  | S f =>
    match l, j with
    | b :: l', x :: j' => if x <? b then r <- adj_merge f l j' ;; Ok (x :: r)
                          else r <- adj_merge f l' j ;; Ok (b :: r)
    | b :: l', [] => r <- adj_merge f l' [] ;; Ok (b :: r)
    | [], x :: j' => r <- adj_merge f [] j' ;; Ok (x :: r)
    | [], [] => Ok []
    end
  end.

Definition ins_idxs (l : list ins) : list Z := flat_map (fun x => zseq (i_bidx x) (i_num x)) l.

Definition adjust_for_inserts (spans : list span) (l : list ins) : res (list span) :=
  match l with
  | [] => Ok spans
  | _ =>
    (* consumeInsert never terminates an insert with num <= 0 *)
    if existsb (fun x => i_num x <=? 0) l then Fuel else
    let ix := idxs spans in let j := ins_idxs l in
    r <- adj_merge (S (length ix + length j)) ix j ;; Ok (spans_of r)
  end.

(* ---------- float64 comparisons on bit patterns ---------- *)
Definition two63 : Z := 9223372036854775808.
Definition fmag (b : Z) : Z := b mod two63.
Definition fnan (b : Z) : bool := 9218868437227405312 <? fmag b.     (* > 0x7FF0000000000000 *)
Definition fkey (b : Z) : Z := if two63 <=? b then - fmag b else fmag b.
Definition flt (a b : Z) : bool := negb (fnan a) && negb (fnan b) && (fkey a <? fkey b).
Definition feq (a b : Z) : bool := negb (fnan a) && negb (fnan b) && (fkey a =? fkey b).
Definition fis_zero (a : Z) : bool := fmag a =? 0.
(* putZeroThreshold / putCustomBound store -0 as +0; every other pattern is stored exactly *)
Definition fnorm (a : Z) : Z := if fis_zero a then 0 else a.
Definition stale_nan : Z := 9218868437227405314.                      (* 0x7ff0000000000002 *)
Definition is_stale (sum : Z) : bool := sum =? stale_nan.

Definition custom_schema : Z := -53.

(* ---------- histograms ---------- *)
Inductive kind := KInt | KFloat.
Inductive hint := HUnknown | HReset | HNotReset | HGauge.

(* count/zcount: uint64 for KInt, float64 bits for KFloat; zt, sum, custom: float64 bits;
   pb/nb: int64 deltas for KInt, float64 bits (absolute) for KFloat *)
Record hist := mkH {
  h_hint : hint; h_schema : Z; h_zt : Z; h_custom : list Z;
  h_count : Z; h_zcount : Z; h_sum : Z;
  h_ps : list span; h_ns : list span; h_pb : list Z; h_nb : list Z }.

Definition empty_hist (sum : Z) : hist := mkH HUnknown 0 0 [] 0 0 sum [] [] [] [].

Definition is_deltas (k : kind) : bool := match k with KInt => true | KFloat => false end.
Definition cnt_lt (k : kind) (a b : Z) : bool := match k with KInt => a <? b | KFloat => flt a b end.
Definition val_gt (k : kind) (a b : Z) : bool := match k with KInt => b <? a | KFloat => flt b a end.
Definition val_zero (k : kind) (a : Z) : bool := match k with KInt => a =? 0 | KFloat => fis_zero a end.

Fixpoint prefix_sums (acc : Z) (l : list Z) : list Z :=
  match l with [] => [] | d :: r => (acc + d) :: prefix_sums (acc + d) r end.
(* absolute bucket counts *)
Definition abs_counts (k : kind) (l : list Z) : list Z :=
  match k with KInt => prefix_sums 0 l | KFloat => l end.

Fixpoint bounds_match (a b : list Z) : bool :=
  match a, b with
  | [], [] => true
  | x :: a', y :: b' => feq x y && bounds_match a' b'
  | _, _ => false
  end.

(* ---------- chunks ---------- *)
Record samp := mkS { sm_t : Z; sm_count : Z; sm_zcount : Z; sm_sum : Z; sm_pb : list Z; sm_nb : list Z }.

Record chunk := mkC {
  c_gauge : bool;                          (* counter reset header == GaugeType *)
  c_schema : Z; c_zt : Z; c_custom : list Z; c_ps : list span; c_ns : list span;   (* layout *)
  c_samples : list samp;
  (* appender state that the cascades read *)
  a_cnt : Z; a_zcnt : Z; a_sum : Z; a_pb : list Z; a_nb : list Z }.

Definition empty_chunk (gauge : bool) : chunk := mkC gauge 0 0 [] [] [] [] 0 0 0 [] [].

(* Go copy(dst, src) *)
Definition copy_into (dst src : list Z) : list Z :=
  firstn (length dst) src ++ skipn (length src) dst.
Definition zeros (n : Z) : list Z := repeat 0 (Z.to_nat n).

(* appendHistogram / appendFloatHistogram (num = number of samples already in the chunk) *)
Definition append_raw (c : chunk) (t : Z) (h0 : hist) : chunk :=
  let h := if is_stale (h_sum h0) then empty_hist (h_sum h0) else h0 in
  let s := mkS t (h_count h) (h_zcount h) (h_sum h) (h_pb h) (h_nb h) in
  match c_samples c with
  | [] =>
      mkC (c_gauge c) (h_schema h) (fnorm (h_zt h))
          (if h_schema h =? custom_schema then map fnorm (h_custom h) else [])
          (h_ps h) (h_ns h) [s]
          (h_count h) (h_zcount h) (h_sum h)
          (copy_into (zeros (count_spans (h_ps h))) (h_pb h))
          (copy_into (zeros (count_spans (h_ns h))) (h_nb h))
  | _ =>
      mkC (c_gauge c) (c_schema c) (c_zt c) (c_custom c) (c_ps c) (c_ns c) (c_samples c ++ [s])
          (h_count h) (h_zcount h) (h_sum h)
          (copy_into (a_pb c) (h_pb h)) (copy_into (a_nb c) (h_nb h))
  end.

(* what the iterator returns for one stored sample (AtHistogram / AtFloatHistogram).  Of the
   hint only "GaugeType or not" is modelled (counterResetHint: GaugeType for every sample of a
   gauge chunk; Unknown / NotCounterReset otherwise, which the appenders treat alike); a stale
   sample is returned as the bare marker {Sum: StaleNaN}, whose hint is Unknown *)
Definition read_samp (c : chunk) (s : samp) : Z * hist :=
  if is_stale (sm_sum s) then (sm_t s, empty_hist (sm_sum s))
  else (sm_t s, mkH (if c_gauge c then HGauge else HUnknown) (c_schema c) (c_zt c) (c_custom c) (sm_count s) (sm_zcount s)
                    (sm_sum s) (c_ps c) (c_ns c) (sm_pb s) (sm_nb s)).
Definition read_chunk (c : chunk) : list (Z * hist) := map (read_samp c) (c_samples c).

Definition with_layout (h : hist) (ps ns : list span) (pb nb : list Z) : hist :=
  mkH (h_hint h) (h_schema h) (h_zt h) (h_custom h) (h_count h) (h_zcount h) (h_sum h) ps ns pb nb.

(* one side of the expand step of appendable *)
Definition expand_counts (k : kind) (aspans bspans : list span) (abuckets bbuckets : list Z)
  : res (option (list ins * list ins)) :=
  let ia := idxs aspans in let ib := idxs bspans in
  A <- zip_counts ia (abs_counts k abuckets) ;;
  B <- zip_counts ib (abs_counts k bbuckets) ;;
  cnt_go (val_gt k) (val_zero k) (S (length ia + length ib)) A B (mkIns 0 0 0) (mkIns 0 0 0).

Record inserts4 := mkI4 { pF : list ins; nF : list ins; pB : list ins; nB : list ins }.

(* HistogramAppender.appendable / FloatHistogramAppender.appendable (called with >= 1 sample
   in the chunk); None = not okToAppend *)
Definition appendable (k : kind) (c : chunk) (h : hist) : res (option inserts4) :=
  if c_gauge c then Ok None
  else match h_hint h with HReset => Ok None | _ =>
  if is_stale (h_sum h) then Ok (Some (mkI4 [] [] [] []))
  else if is_stale (a_sum c) then Ok None
  else if cnt_lt k (h_count h) (a_cnt c) then Ok None
  else if negb (h_schema h =? c_schema c) || negb (feq (h_zt h) (c_zt c)) then Ok None
  else if (h_schema h =? custom_schema) && negb (bounds_match (h_custom h) (c_custom c)) then Ok None
  else if cnt_lt k (h_zcount h) (a_zcnt c) then Ok None
  else
    rp <- expand_counts k (c_ps c) (h_ps h) (a_pb c) (h_pb h) ;;
    match rp with None => Ok None | Some (fp, bp) =>
      rn <- expand_counts k (c_ns c) (h_ns h) (a_nb c) (h_nb h) ;;
      match rn with None => Ok None | Some (fn, bn) => Ok (Some (mkI4 fp fn bp bn)) end
    end
  end.

(* appendableGauge *)
Definition appendable_gauge (c : chunk) (h : hist)
  : res (option (inserts4 * list span * list span)) :=
  if negb (c_gauge c) then Ok None
  else if is_stale (h_sum h) then Ok (Some (mkI4 [] [] [] [], [], []))
  else if is_stale (a_sum c) then Ok None
  else if negb (h_schema h =? c_schema c) || negb (feq (h_zt h) (c_zt c)) then Ok None
  else if (h_schema h =? custom_schema) && negb (bounds_match (h_custom h) (c_custom c)) then Ok None
  else
    rp <- expand_both (c_ps c) (h_ps h) ;;
    rn <- expand_both (c_ns c) (h_ns h) ;;
    let '(fp, bp, mp) := rp in let '(fn, bn, mn) := rn in
    Ok (Some (mkI4 fp fn bp bn, mp, mn)).

Definition nonempty {A} (l : list A) : bool := match l with [] => false | _ => true end.

(* recodeHistogram (the spans of h are already the widened ones) *)
Definition recode_hist (k : kind) (h : hist) (pBk nBk : list ins) : res hist :=
  pb <- (if nonempty pBk then insert_go (is_deltas k) (h_pb h) pBk (count_spans (h_ps h)) else Ok (h_pb h)) ;;
  nb <- (if nonempty nBk then insert_go (is_deltas k) (h_nb h) nBk (count_spans (h_ns h)) else Ok (h_nb h)) ;;
  Ok (with_layout h (h_ps h) (h_ns h) pb nb).

(* recode: re-append every stored sample with the forward inserts applied *)
Definition recode_one (k : kind) (pFw nFw : list ins) (ps ns : list span) (acc : res chunk)
    (th : Z * hist) : res chunk :=
  c' <- acc ;;
  let '(t, h) := th in
  pb <- (if nonempty pFw then insert_go (is_deltas k) (h_pb h) pFw (count_spans ps) else Ok (h_pb h)) ;;
  nb <- (if nonempty nFw then insert_go (is_deltas k) (h_nb h) nFw (count_spans ns) else Ok (h_nb h)) ;;
  Ok (append_raw c' t (with_layout h ps ns pb nb)).
Definition recode (k : kind) (c : chunk) (pFw nFw : list ins) (ps ns : list span) : res chunk :=
  fold_left (recode_one k pFw nFw ps ns) (read_chunk c) (Ok (empty_chunk (c_gauge c))).

Inductive outcome :=
| Same (c : chunk)        (* returned chunk == nil: appended to the receiver's chunk *)
| NewChunk (c : chunk)    (* returned (newChunk, false): the receiver's chunk is complete *)
| Recoded (c : chunk).    (* returned (chunk, true): replaces the receiver's chunk *)

Definition is_gauge_hint (h : hist) : bool := match h_hint h with HGauge => true | _ => false end.

(* the common tail of AppendHistogram after the backward step *)
Definition finish (k : kind) (c : chunk) (t : Z) (h1 : hist) (i : inserts4) : res (hist * outcome) :=
  if nonempty (pF i) || nonempty (nF i) then
    c' <- recode k c (pF i) (nF i) (h_ps h1) (h_ns h1) ;;
    Ok (h1, Recoded (append_raw c' t h1))
  else Ok (h1, Same (append_raw c t h1)).

(* AppendHistogram / AppendFloatHistogram with appendOnly = false.  Returns the caller's
   histogram as it is after the call and what happened to the chunk. *)
Definition append (k : kind) (c : chunk) (t : Z) (h : hist) : res (hist * outcome) :=
  match c_samples c with
  | [] =>
      let c0 := mkC (is_gauge_hint h) (c_schema c) (c_zt c) (c_custom c) (c_ps c) (c_ns c) []
                    (a_cnt c) (a_zcnt c) (a_sum c) (a_pb c) (a_nb c) in
      Ok (h, Same (append_raw c0 t h))
  | _ =>
    if negb (is_gauge_hint h) then
      r <- appendable k c h ;;
      match r with
      | None => Ok (h, NewChunk (append_raw (empty_chunk false) t h))
      | Some i =>
          h1 <- (if nonempty (pB i) || nonempty (nB i) then
                   sp <- (if negb (nonempty (pF i)) && negb (nonempty (nF i)) then Ok (c_ps c, c_ns c)
                          else ps <- adjust_for_inserts (h_ps h) (pB i) ;;
                               ns <- adjust_for_inserts (h_ns h) (nB i) ;; Ok (ps, ns)) ;;
                   recode_hist k (with_layout h (fst sp) (snd sp) (h_pb h) (h_nb h)) (pB i) (nB i)
                 else Ok h) ;;
          finish k c t h1 i
      end
    else
      r <- appendable_gauge c h ;;
      match r with
      | None => Ok (h, NewChunk (append_raw (empty_chunk true) t h))
      | Some (i, mp, mn) =>
          h1 <- (if nonempty (pB i) || nonempty (nB i) then
                   recode_hist k (with_layout h mp mn (h_pb h) (h_nb h)) (pB i) (nB i)
                 else Ok h) ;;
          finish k c t h1 i
      end
  end.

(* AppendHistogram / AppendFloatHistogram with appendOnly = true, as used when a chunk is
   re-encoded (populateWithDelChunkSeriesIterator.populateCurrForSingleChunk, i.e. compaction of
   chunks that are open or cut by the block range): None = an error is returned *)
Definition append_ao (k : kind) (c : chunk) (t : Z) (h : hist) : res (option chunk) :=
  match c_samples c with
  | [] => r <- append k c t h ;; (match snd r with Same c' | NewChunk c' | Recoded c' => Ok (Some c') end)
  | _ =>
    if negb (is_gauge_hint h) then
      r <- appendable k c h ;;
      match r with
      | None => Ok None      (* "histogram counter reset" / "histogram schema change" *)
      | Some i =>
          if nonempty (pF i) || nonempty (nF i) then
            (* the backward step runs first and may fail on its own; then "layout change" *)
            Ok None
          else
            r2 <- append k c t h ;;
            (match snd r2 with Same c' => Ok (Some c') | _ => Ok None end)
      end
    else
      r <- appendable_gauge c h ;;
      match r with
      | None => Ok None      (* "gauge histogram schema change" *)
      | Some (i, _, _) =>
          if nonempty (pB i) || nonempty (nB i) || nonempty (pF i) || nonempty (nF i) then Ok None
          else r2 <- append k c t h ;;
               (match snd r2 with Same c' => Ok (Some c') | _ => Ok None end)
      end
  end.

(* re-encode one chunk: every sample the iterator yields is appended, append-only, to a fresh
   chunk; None = the re-encoding fails with an error *)
Definition reencode (k : kind) (c : chunk) : res (option chunk) :=
  fold_left (fun acc th => a <- acc ;;
                           match a with None => Ok None | Some c' => append_ao k c' (fst th) (snd th) end)
            (read_chunk c) (Ok (Some (empty_chunk false))).

(* ---------- a series: completed chunks + the open chunk, driven with arbitrary cuts ---------- *)
Record op := mkOp { o_cut : bool; o_t : Z; o_h : hist }.

(* state: chunks in order, the last one is the open chunk *)
Definition step (k : kind) (st : res (list chunk)) (o : op) : res (list chunk) :=
  cs <- st ;;
  match rev cs with
  | [] => r <- append k (empty_chunk false) (o_t o) (o_h o) ;;
          (match snd r with Same c | NewChunk c | Recoded c => Ok [c] end)
  | last :: before =>
      if o_cut o then
        r <- append k (empty_chunk false) (o_t o) (o_h o) ;;
        (match snd r with Same c | NewChunk c | Recoded c => Ok (cs ++ [c]) end)
      else
        r <- append k last (o_t o) (o_h o) ;;
        match snd r with
        | Same c | Recoded c => Ok (rev before ++ [c])
        | NewChunk c => Ok (cs ++ [c])
        end
  end.

Definition run (k : kind) (ops : list op) : res (list chunk) := fold_left (step k) ops (Ok []).
Definition read_series (cs : list chunk) : list (Z * hist) := flat_map read_chunk cs.

(* ---------- the specification side: canonical bucket maps ---------- *)
(* absolute bucket index -> count, as an association list *)
Definition bucket_alist (k : kind) (spans : list span) (buckets : list Z) : list (Z * Z) :=
  combine (idxs spans) (abs_counts k buckets).

Fixpoint lookup (i : Z) (l : list (Z * Z)) : Z :=
  match l with [] => 0 | (j, v) :: r => if j =? i then v else lookup i r end.

(* canonical form: entries with a non-zero count (indices are increasing for valid spans) *)
Definition canon (k : kind) (spans : list span) (buckets : list Z) : list (Z * Z) :=
  filter (fun p => negb (val_zero k (snd p))) (bucket_alist k spans buckets).

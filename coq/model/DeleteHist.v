(* model/DeleteHist.v — vocabulary of the history part of property C20 ("after deleting a time
   range for the series selected by matchers, queries return no sample of those series inside
   the range and every other sample unchanged, ... before and after compaction, tombstone
   cleaning and restart").  Definitions only; proofs are in proof/DeleteHistProofs.v.
   It re-uses the flat specification (model/TsdbSpec.v) and the structured TSDB model
   (model/Tsdb.v) of property C01. *)
From Coq Require Import List ZArith Bool.
From Verif Require Import lib.Int64 model.TsdbSpec model.Tsdb.
Import ListNotations.
Open Scope Z_scope.

(* what a Delete(mint, maxt, sel) must do to ANY query answer: the points of the selected series
   with a timestamp in [mint, maxt] disappear (a series left without points is absent), every
   other point and every other series stays as it is, in the same order *)
Definition del_pts (mint maxt : Z) (pts : list (Z * list Z)) : list (Z * list Z) :=
  filter (fun p => negb (in_rng mint maxt (fst p))) pts.

Definition del_entry (mint maxt : Z) (sel : list sid) (p : sid * list (Z * list Z)) : answer :=
  if memZ (fst p) sel then
    match del_pts mint maxt (snd p) with [] => [] | q => [(fst p, q)] end
  else [p].

Definition del_answer (mint maxt : Z) (sel : list sid) (a : answer) : answer :=
  flat_map (del_entry mint maxt sel) a.

(* operations that must not change what queries return *)
Definition is_maint (o : op) : bool :=
  match o with
  | Compact | CompactOOO | CleanTombstones | Restart _ | CompactPending _ => true
  | Commit _ _ _ | Delete _ _ _ => false
  end.

(* the samples acknowledged by a list of specification operations *)
Definition acked_in (ops : list sop) (i : sid) (x : sample) : Prop :=
  exists l, In (SAck l) ops /\ In (i, x) l.

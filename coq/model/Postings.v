(* model/Postings.v — executable model for C16 (series selection and label queries follow
   matcher semantics).  Definitions only; proofs are in proof/PostingsProofs.v.

   Transcribed from (paths relative to /repo):
     tsdb/querier.go        PostingsForMatchers, postingsForMatcher, inversePostingsForMatcher,
                            labelValuesWithMatchers, labelNamesWithMatchers, selectSeriesSet,
                            blockBaseSeriesSet.Next (chunk/time-range filter), blockBaseQuerier.LabelNames
     tsdb/index/postings.go Intersect, Merge, Without (as functions on ref-sorted lists),
                            FindIntersectingPostings (order of results = first common ref)
     tsdb/head_read.go      headIndexReader.LabelValues/LabelNames/SortedLabelValues/SortedPostings
     tsdb/block.go          blockIndexReader.LabelValues/SortedLabelValues/LabelNames, OverlapsClosedInterval
     tsdb/db.go             DB.Querier (which blocks / head take part)
     storage/merge.go       NewMergeQuerier (0/1/n queriers), mergeGenericQuerier.Select/LabelValues/
                            LabelNames, mergeResults, mergeStrings, truncateToLimit
     model/labels           Matcher.Matches, Matcher.Inverse, labels.Compare

   Abstractions (stated in notes/C16.md): a Postings iterator is the ref-sorted list it yields
   (Next/Seek/At protocol collapsed); the k-way Seek loop of intersectPostings is the left fold
   of the two-pointer intersection; the loser tree of Merge is the fold of a two-way sorted
   union; the heap of FindIntersectingPostings is "order candidates by first common ref".
   Regex matching is an oracle: every regex matcher carries a finite table
   (label value -> bool) tabulated with Go's regexp (anchored, (?s)), and the list returned by
   FastRegexMatcher.SetMatches. *)
From Coq Require Import List ZArith NArith Bool.
Import ListNotations.
Open Scope Z_scope.

(* ---------- strings (byte lists) and label sets ---------- *)
Definition str := list N.

Fixpoint str_cmp (a b : str) : comparison :=
  match a, b with
  | [], [] => Eq
  | [], _ :: _ => Lt
  | _ :: _, [] => Gt
  | x :: a', y :: b' => match N.compare x y with Eq => str_cmp a' b' | c => c end
  end.
Definition str_eqb (a b : str) : bool := match str_cmp a b with Eq => true | _ => false end.
Definition str_ltb (a b : str) : bool := match str_cmp a b with Lt => true | _ => false end.
Definition is_nil {A} (s : list A) : bool := match s with [] => true | _ => false end.
Definition mem_str (s : str) (l : list str) : bool := existsb (str_eqb s) l.

Definition labels := list (str * str).

Fixpoint lfind (n : str) (ls : labels) : option str :=
  match ls with
  | [] => None
  | (k, v) :: r => if str_eqb k n then Some v else lfind n r
  end.
(* an absent label counts as the empty string *)
Definition lget (n : str) (ls : labels) : str := match lfind n ls with Some v => v | None => [] end.

(* labels.Compare: lexicographic over name,value,name,value,...; a proper prefix is lower *)
Fixpoint seq_cmp (a b : list str) : comparison :=
  match a, b with
  | [], [] => Eq
  | [], _ :: _ => Lt
  | _ :: _, [] => Gt
  | x :: a', y :: b' => match str_cmp x y with Eq => seq_cmp a' b' | c => c end
  end.
Definition flat (ls : labels) : list str := flat_map (fun p => [fst p; snd p]) ls.
Definition labels_cmp (a b : labels) : comparison := seq_cmp (flat a) (flat b).
Definition labels_eqb (a b : labels) : bool := match labels_cmp a b with Eq => true | _ => false end.
Definition labels_ltb (a b : labels) : bool := match labels_cmp a b with Lt => true | _ => false end.

(* ---------- matchers ---------- *)
Inductive mtype := MEq | MNe | MRe | MNre.

Record matcher := mkM {
  m_type : mtype;
  m_name : str;
  m_value : str;
  m_tab : list (str * bool);   (* oracle: Go regexp ^(?s:value)$ on each relevant string *)
  m_set : list str             (* oracle: FastRegexMatcher.SetMatches() *)
}.

Fixpoint tab_find (s : str) (t : list (str * bool)) : option bool :=
  match t with
  | [] => None
  | (k, b) :: r => if str_eqb k s then Some b else tab_find s r
  end.
Definition re_match (m : matcher) (s : str) : bool :=
  match tab_find s (m_tab m) with Some b => b | None => false end.

(* labels.Matcher.Matches *)
Definition matches (m : matcher) (s : str) : bool :=
  match m_type m with
  | MEq => str_eqb s (m_value m)
  | MNe => negb (str_eqb s (m_value m))
  | MRe => re_match m s
  | MNre => negb (re_match m s)
  end.

(* labels.Matcher.Inverse (same value, same compiled regex) *)
Definition inverse (m : matcher) : matcher :=
  mkM (match m_type m with MEq => MNe | MNe => MEq | MRe => MNre | MNre => MRe end)
      (m_name m) (m_value m) (m_tab m) (m_set m).

(* labels.Matcher.SetMatches: nil when m.re == nil *)
Definition set_matches (m : matcher) : list str :=
  match m_type m with MRe | MNre => m_set m | _ => [] end.

Definition is_not (m : matcher) : bool := match m_type m with MNe | MNre => true | _ => false end.
Definition dot_star : str := [46; 42]%N.
Definition dot_plus : str := [46; 43]%N.

(* ---------- postings combinators on ref-sorted lists ---------- *)
(* index.Merge (two-way; duplicates removed) *)
Fixpoint merge2 (a : list Z) : list Z -> list Z :=
  fix go (b : list Z) : list Z :=
    match a with
    | [] => b
    | x :: a' =>
        match b with
        | [] => a
        | y :: b' =>
            match x ?= y with
            | Lt => x :: merge2 a' b
            | Gt => y :: go b'
            | Eq => x :: merge2 a' b'
            end
        end
    end.
Definition merge_all (ls : list (list Z)) : list Z := fold_right merge2 [] ls.

(* index.Intersect (two-way) *)
Fixpoint isect (a : list Z) : list Z -> list Z :=
  fix go (b : list Z) : list Z :=
    match a with
    | [] => []
    | x :: a' =>
        match b with
        | [] => []
        | y :: b' =>
            match x ?= y with
            | Lt => isect a' b
            | Gt => go b'
            | Eq => x :: isect a' b'
            end
        end
    end.
(* Intersect(its...): none -> empty; one -> itself; else all of them *)
Definition intersect_all (its : list (list Z)) : list Z :=
  match its with
  | [] => []
  | a :: r => fold_left isect r a
  end.

(* index.Without (removedPostings) *)
Fixpoint without (a : list Z) : list Z -> list Z :=
  fix go (b : list Z) : list Z :=
    match a with
    | [] => []
    | x :: a' =>
        match b with
        | [] => a
        | y :: b' =>
            match x ?= y with
            | Lt => x :: without a' b
            | Gt => go b'
            | Eq => without a' b'
            end
        end
    end.

(* ---------- a store: the head or one persisted block ---------- *)
Inductive kind := Head | Block.

Record series := mkS { s_ref : Z; s_labels : labels; s_chunks : list (Z * Z) }.

Record store := mkSt {
  st_kind : kind;
  st_min : Z;                          (* head.MinTime() / block meta MinTime *)
  st_max : Z;                          (* head.MaxTime() / block meta MaxTime (exclusive) *)
  st_series : list series;             (* in ref order *)
  st_lvs : list (str * list str)       (* raw label-value order of the index per name
                                          (MemPostings.lvs / postings offset table) *)
}.

(* every series carries the pseudo pair ""="" (allPostingsKey) *)
Definition ix_val (s : series) (name : str) : option str :=
  if is_nil name then Some [] else lfind name (s_labels s).

Definition postings_val (st : store) (name v : str) : list Z :=
  map s_ref (filter (fun s => match ix_val s name with Some w => str_eqb w v | None => false end)
                    (st_series st)).

Fixpoint lvs_find (n : str) (t : list (str * list str)) : list str :=
  match t with
  | [] => []
  | (k, vs) :: r => if str_eqb k n then vs else lvs_find n r
  end.
Definition label_values_raw (st : store) (name : str) : list str := lvs_find name (st_lvs st).

(* IndexReader.Postings(name, values...) *)
Definition ix_postings (st : store) (name : str) (values : list str) : list Z :=
  merge_all (map (postings_val st name) values).
(* IndexReader.PostingsForLabelMatching *)
Definition ix_postings_matching (st : store) (name : str) (f : str -> bool) : list Z :=
  merge_all (map (postings_val st name) (filter f (label_values_raw st name))).
(* IndexReader.PostingsForAllLabelValues *)
Definition ix_postings_all_values (st : store) (name : str) : list Z :=
  merge_all (map (postings_val st name) (label_values_raw st name)).
Definition all_postings (st : store) : list Z := ix_postings st [] [[]].

(* ---------- PostingsForMatchers ---------- *)
Inductive res (A : Type) := Ok (a : A) | Err.
Arguments Ok {A} a.
Arguments Err {A}.

(* postingsForMatcher *)
Definition postings_for_matcher (st : store) (m : matcher) : list Z :=
  match m_type m with
  | MEq => ix_postings st (m_name m) [m_value m]
  | _ =>
      if (match m_type m with MRe => true | _ => false end) && negb (is_nil (set_matches m))
      then ix_postings st (m_name m) (set_matches m)
      else ix_postings_matching st (m_name m) (matches m)
  end.

(* inversePostingsForMatcher *)
Definition inverse_postings_for_matcher (st : store) (m : matcher) : list Z :=
  if (match m_type m with MNre => true | _ => false end) && negb (is_nil (set_matches m))
  then ix_postings st (m_name m) (set_matches m)
  else match m_type m with
       | MNe => ix_postings st (m_name m) [m_value m]
       | _ =>
           if is_nil (m_value m) && (match m_type m with MRe | MEq => true | _ => false end)
           then ix_postings_all_values st (m_name m)
           else ix_postings_matching st (m_name m) (fun s => negb (matches m s))
       end.

Definition is_all_key (m : matcher) : bool := is_nil (m_name m) && is_nil (m_value m).

Definition label_must_be_set (ms : list matcher) (name : str) : bool :=
  existsb (fun m => str_eqb (m_name m) name && negb (matches m [])) ms.

Definition is_subtracting (ms : list matcher) (m : matcher) : bool :=
  if negb (label_must_be_set ms (m_name m)) then true
  else is_not m && matches m [].

(* result of the main loop: error, early "return EmptyPostings()", or the two lists *)
Inductive loopres := LErr | LEmpty | LGo (its notIts : list (list Z)).

Definition is_re (m : matcher) := match m_type m with MRe => true | _ => false end.
Definition is_nre (m : matcher) := match m_type m with MNre => true | _ => false end.

Fixpoint pfm_loop (st : store) (all : list matcher) (ms : list matcher)
         (its notIts : list (list Z)) : loopres :=
  match ms with
  | [] => LGo its notIts
  | m :: r =>
      if is_all_key m then LErr
      else if is_re m && str_eqb (m_value m) dot_star then pfm_loop st all r its notIts
      else if is_nre m && str_eqb (m_value m) dot_star then LEmpty
      else if is_re m && str_eqb (m_value m) dot_plus then
        let it := ix_postings_all_values st (m_name m) in
        if is_nil it then LEmpty else pfm_loop st all r (its ++ [it]) notIts
      else if is_nre m && str_eqb (m_value m) dot_plus then
        pfm_loop st all r its (notIts ++ [ix_postings_all_values st (m_name m)])
      else if label_must_be_set all (m_name m) then
        let matchesEmpty := matches m [] in
        if is_not m && matchesEmpty then
          pfm_loop st all r its (notIts ++ [postings_for_matcher st (inverse m)])
        else if is_not m then
          let it := inverse_postings_for_matcher st (inverse m) in
          if is_nil it then LEmpty else pfm_loop st all r (its ++ [it]) notIts
        else
          let it := postings_for_matcher st m in
          if is_nil it then LEmpty else pfm_loop st all r (its ++ [it]) notIts
      else
        pfm_loop st all r its (notIts ++ [inverse_postings_for_matcher st m])
  end.

Definition pfm_general (st : store) (ms : list matcher) : res (list Z) :=
  let hasSub := existsb (is_subtracting ms) ms in
  let hasInt := existsb (fun m => negb (is_subtracting ms m)) ms in
  let its0 := if hasSub && negb hasInt then [all_postings st] else [] in
  (* slices.SortStableFunc: intersecting matchers first, both groups in original order *)
  let sorted := filter (fun m => negb (is_subtracting ms m)) ms ++ filter (is_subtracting ms) ms in
  match pfm_loop st ms sorted its0 [] with
  | LErr => Err
  | LEmpty => Ok []
  | LGo its notIts => Ok (fold_left without notIts (intersect_all its))
  end.

Definition postings_for_matchers (st : store) (ms : list matcher) : res (list Z) :=
  match ms with
  | [m] => if is_all_key m then Ok (all_postings st) else pfm_general st ms
  | _ => pfm_general st ms
  end.

(* ---------- sorting helpers ---------- *)
Fixpoint ins_str (x : str) (l : list str) : list str :=
  match l with
  | [] => [x]
  | y :: r => if str_ltb y x then y :: ins_str x r else x :: l
  end.
Definition sort_str (l : list str) : list str := fold_right ins_str [] l.   (* slices.Sort *)

Fixpoint ins_str_u (x : str) (l : list str) : list str :=
  match l with
  | [] => [x]
  | y :: r => match str_cmp y x with Lt => y :: ins_str_u x r | Eq => l | Gt => x :: l end
  end.
Definition sort_dedup_str (l : list str) : list str := fold_right ins_str_u [] l.  (* map keys, sorted *)

Fixpoint ins_series (x : series) (l : list series) : list series :=
  match l with
  | [] => [x]
  | y :: r => if labels_ltb (s_labels x) (s_labels y) then x :: l else y :: ins_series x r
  end.
Definition sort_series (l : list series) : list series := fold_right ins_series [] l.

Definition find_series (st : store) (ref : Z) : option series :=
  find (fun s => s_ref s =? ref) (st_series st).

Fixpoint lookup_all (st : store) (p : list Z) : list series :=
  match p with
  | [] => []
  | r :: p' => match find_series st r with Some s => s :: lookup_all st p' | None => lookup_all st p' end
  end.

Definition truncate {A} (limit : Z) (l : list A) : list A :=
  if (0 <? limit) && (limit <? Z.of_nat (length l)) then firstn (Z.to_nat limit) l else l.

(* ---------- Select on one store ---------- *)
(* blockBaseSeriesSet.Next: a series is yielded iff one of its chunks overlaps [mint,maxt] *)
Definition chunk_overlaps (mint maxt : Z) (c : Z * Z) : bool :=
  negb (snd c <? mint) && negb (maxt <? fst c).

Definition select_store (st : store) (mint maxt : Z) (sorted : bool) (ms : list matcher)
  : res (list labels) :=
  match postings_for_matchers st ms with
  | Err => Err
  | Ok p =>
      let ss := lookup_all st p in
      let ss := if sorted then sort_series ss else ss in
      Ok (map s_labels (filter (fun s => existsb (chunk_overlaps mint maxt) (s_chunks s)) ss))
  end.

(* ---------- LabelValues / LabelNames on one store ---------- *)
Fixpoint first_common (a : list Z) : list Z -> option Z :=
  fix go (b : list Z) : option Z :=
    match a with
    | [] => None
    | x :: a' =>
        match b with
        | [] => None
        | y :: b' =>
            match x ?= y with
            | Lt => first_common a' b
            | Gt => go b'
            | Eq => Some x
            end
        end
    end.

Fixpoint ins_key (x : Z * str) (l : list (Z * str)) : list (Z * str) :=
  match l with
  | [] => [x]
  | y :: r => if fst x <? fst y then x :: l else y :: ins_key x r
  end.

(* FindIntersectingPostings + values[idx]: the candidates that intersect p, in the order of
   their first common ref *)
Definition find_intersecting (p : list Z) (cands : list (str * list Z)) : list str :=
  let keyed := flat_map (fun c => match first_common p (snd c) with
                                  | Some r => [(r, fst c)] | None => [] end) cands in
  map snd (fold_right ins_key [] keyed).

(* labelValuesWithMatchers *)
Definition label_values_with_matchers (st : store) (name : str) (limit : Z) (ms : list matcher)
  : res (list str) :=
  let allValues := label_values_raw st name in
  let filtered := fold_left (fun vs m => if str_eqb (m_name m) name then filter (matches m) vs else vs)
                            ms allValues in
  let other := existsb (fun m => negb (str_eqb (m_name m) name)) ms in
  if is_nil filtered then Ok []
  else if negb other then Ok (truncate limit filtered)
  else match postings_for_matchers st ms with
       | Err => Err
       | Ok p =>
           let cands := map (fun v => (v, ix_postings st name [v])) filtered in
           let values := find_intersecting p cands in
           Ok (if 0 <? limit then firstn (Z.to_nat limit) values else values)
       end.

Definition head_out_of_range (st : store) (mint maxt : Z) : bool :=
  (maxt <? st_min st) || (st_max st <? Z.max mint (st_min st)).

(* Querier.LabelValues on one store (blockBaseQuerier -> index.SortedLabelValues) *)
Definition lv_store (st : store) (mint maxt : Z) (name : str) (limit : Z) (ms : list matcher)
  : res (list str) :=
  match st_kind st with
  | Head =>
      if head_out_of_range st mint maxt then Ok []
      else if is_nil ms then Ok (sort_str (truncate limit (label_values_raw st name)))
      else match label_values_with_matchers st name limit ms with
           | Err => Err | Ok vs => Ok (sort_str vs) end
  | Block =>
      if is_nil ms then Ok (truncate limit (label_values_raw st name))
      else match label_values_with_matchers st name limit ms with
           | Err => Err | Ok vs => Ok (sort_str vs) end
  end.

Definition names_of (ss : list series) : list str :=
  sort_dedup_str (flat_map (fun s => map fst (s_labels s)) ss).

(* Querier.LabelNames on one store *)
Definition ln_store (st : store) (mint maxt : Z) (limit : Z) (ms : list matcher) : res (list str) :=
  let r :=
    if (match st_kind st with Head => head_out_of_range st mint maxt | Block => false end) then Ok []
    else if is_nil ms then Ok (names_of (st_series st))
    else match postings_for_matchers st ms with
         | Err => Err
         | Ok p => Ok (names_of (lookup_all st p))       (* LabelNamesFor *)
         end in
  match r with Err => Err | Ok l => Ok (truncate limit l) end.

(* ---------- across stores: DB.Querier + storage.NewMergeQuerier ---------- *)
Inductive mode := Direct | DB.

Definition included (md : mode) (mint maxt : Z) (st : store) : bool :=
  match md with
  | Direct => true
  | DB => match st_kind st with
          | Head => st_min st <=? maxt
          | Block => (st_min st <=? maxt) && (mint <? st_max st)
          end
  end.

Fixpoint merge_str (a : list str) : list str -> list str :=
  fix go (b : list str) : list str :=
    match a with
    | [] => b
    | x :: a' =>
        match b with
        | [] => a
        | y :: b' =>
            match str_cmp x y with
            | Eq => x :: merge_str a' b'
            | Lt => x :: merge_str a' b
            | Gt => y :: go b'
            end
        end
    end.

(* mergeResults: None = out of fuel (never with fuel > length) *)
Fixpoint merge_results (fuel : nat) (limit : Z) (rs : list (list str)) : option (list str) :=
  match fuel with
  | O => None
  | S f =>
      match rs with
      | [] => Some []
      | [r] => Some r
      | _ =>
          let i := Nat.div (length rs) 2 in
          match merge_results f limit (firstn i rs), merge_results f limit (skipn i rs) with
          | Some s1, Some s2 =>
              Some (truncate limit (merge_str (truncate limit s1) (truncate limit s2)))
          | _, _ => None
          end
      end
  end.

Fixpoint collect {A} (l : list (res A)) : res (list A) :=
  match l with
  | [] => Ok []
  | Err :: _ => Err
  | Ok a :: r => match collect r with Err => Err | Ok t => Ok (a :: t) end
  end.

Fixpoint merge_labels (a : list labels) : list labels -> list labels :=
  fix go (b : list labels) : list labels :=
    match a with
    | [] => b
    | x :: a' =>
        match b with
        | [] => a
        | y :: b' =>
            match labels_cmp x y with
            | Eq => x :: merge_labels a' b'
            | Lt => x :: merge_labels a' b
            | Gt => y :: go b'
            end
        end
    end.

Inductive query :=
| QSelect (sorted : bool)
| QValues (name : str) (limit : Z)
| QNames (limit : Z).

Inductive answer := ASeries (l : list labels) | AStrs (l : list str) | AErr | AFuel.

Definition run_query (md : mode) (stores : list store) (mint maxt : Z) (q : query)
           (ms : list matcher) : answer :=
  let qs := filter (included md mint maxt) stores in
  match q with
  | QSelect sorted =>
      match qs with
      | [] => ASeries []
      | [st] => match select_store st mint maxt sorted ms with Err => AErr | Ok l => ASeries l end
      | _ => match collect (map (fun st => select_store st mint maxt true ms) qs) with
             | Err => AErr
             | Ok ls => ASeries (fold_right merge_labels [] ls)
             end
      end
  | QValues name limit =>
      match collect (map (fun st => lv_store st mint maxt name limit ms) qs) with
      | Err => AErr
      | Ok rs => match merge_results (S (length rs)) limit rs with
                 | Some r => AStrs r | None => AFuel end
      end
  | QNames limit =>
      match collect (map (fun st => ln_store st mint maxt limit ms) qs) with
      | Err => AErr
      | Ok rs => match merge_results (S (length rs)) limit rs with
                 | Some r => AStrs r | None => AFuel end
      end
  end.

(* ---------- well-formedness of a store (hypothesis of the theorems, checked on every case) ---------- *)
Fixpoint strictly_incr (l : list Z) : bool :=
  match l with
  | [] => true
  | x :: r => match r with [] => true | y :: _ => (x <? y) && strictly_incr r end
  end.

Fixpoint nodup_str (l : list str) : bool :=
  match l with
  | [] => true
  | x :: r => negb (mem_str x r) && nodup_str r
  end.

(* the raw value table lists, per name, exactly the values present on some series (no
   duplicates), incl. the pseudo pair ""="" *)
Definition store_wfb (st : store) : bool :=
  strictly_incr (map s_ref (st_series st)) &&
  nodup_str (map fst (st_lvs st)) &&
  forallb (fun e => nodup_str (snd e) &&
                    forallb (fun v => existsb (fun s => match ix_val s (fst e) with
                                                        | Some w => str_eqb w v | None => false end)
                                              (st_series st)) (snd e)) (st_lvs st) &&
  forallb (fun s => mem_str [] (label_values_raw st []) &&
                    forallb (fun p => negb (is_nil (fst p)) && negb (is_nil (snd p)) &&
                                      mem_str (snd p) (label_values_raw st (fst p)))
                            (s_labels s) &&
                    nodup_str (map fst (s_labels s)))
          (st_series st).

(* model/PromqlSelect.v — executable model for C28 (selectors: lookback, staleness, range windows,
   offset / @, subquery step alignment).  Definitions only; proofs are in proof/PromqlSelectProofs.v.

   Two separately written evaluators of one instant query over ONE series:
   * [engine_eval]  mirrors the algorithms of /repo/promql/engine.go
       (getTimeRangesForSelector, setOffsetForAtModifier, subqueryTimeRange/runSubquery/evalSubquery,
        evalSeries, rangeEvalTimestampFunctionOverVectorSelector, vectorSelectorSingle,
        matrixSelector / the Call path, matrixIterSlice) and of
       /repo/storage/memoized_iterator.go, /repo/storage/buffer.go;
   * [spec_eval]    is the documented semantics, written directly with [filter].

   All times are milliseconds in Z (the engine computes offsets as time.Duration nanoseconds in
   int64; overflow of that arithmetic is outside the model). *)
From Coq Require Import List ZArith Bool.
From Verif Require Import lib.Int64.
Import ListNotations.
Open Scope Z_scope.

(* ---------------------------------------------------------------- data *)

Inductive kind := KF | KH.             (* float | (float or integer) histogram *)

(* one stored sample; [s_stale]: float StaleNaN, or histogram whose Sum is StaleNaN;
   [s_id]: payload identifying the sample (float value / histogram count) *)
Record sample := mkS { s_t : Z; s_k : kind; s_stale : bool; s_id : Z }.

(* one output point: time, kind, integer payload *)
Record point := mkP { p_t : Z; p_k : kind; p_v : Z }.

Definition kind_eqb (a b : kind) : bool :=
  match a, b with KF, KF | KH, KH => true | _, _ => false end.

Definition pt_of (s : sample) : point := mkP (s_t s) (s_k s) (s_id s).
Definition smp_of (p : point) : sample := mkS (p_t p) (p_k p) false (p_v p).

Fixpoint drop_while {A} (f : A -> bool) (l : list A) : list A :=
  match l with
  | [] => []
  | x :: r => if f x then drop_while f r else l
  end.

Fixpoint last_opt {A} (l : list A) : option A :=
  match l with
  | [] => None
  | [x] => Some x
  | _ :: r => last_opt r
  end.

Definition is_nil {A} (l : list A) : bool := match l with [] => true | _ => false end.

(* ---------------------------------------------------------------- chunkenc.Iterator contract
   The underlying iterator over a series is its list of remaining samples; the head is the current
   element ([] = ValNone).  Seek(t) advances to the first remaining sample with T >= t and is a
   no-op when the current one already qualifies (storage.listSeriesIterator, and the contract of
   every chunkenc.Iterator). *)
Definition it_seek (t : Z) (rest : list sample) : list sample :=
  drop_while (fun s => s_t s <? t) rest.

(* ---------------------------------------------------------------- storage.MemoizedSeriesIterator *)

Record memo := mkMemo {
  m_rest : list sample;      (* b.it, positioned; b.valueType = ValNone iff [] *)
  m_last : Z;                (* b.lastTime *)
  m_prev : option sample;    (* b.prevTime/prevValue/prevFloatHistogram; None = prevTime sentinel *)
  m_delta : Z }.

(* NewMemoizedIterator + Reset: valueType = it.Next(), lastTime = prevTime = MinInt64 *)
Definition memo_new (delta : Z) (series : list sample) : memo :=
  mkMemo series minInt64 None delta.

(* PeekPrev: prevTime == math.MinInt64 means "nothing buffered" (also for a real sample there) *)
Definition memo_peek_prev (m : memo) : option sample :=
  match m_prev m with
  | Some p => if s_t p =? minInt64 then None else Some p
  | None => None
  end.

(* the loop `for b.Next() != ValNone { if b.lastTime >= t { return } }` of Seek; each Next stores
   the current element as prev and advances *)
Fixpoint memo_loop (t : Z) (rest : list sample) (last : Z) (prev : option sample)
  : list sample * Z * option sample :=
  match rest with
  | [] => ([], last, prev)
  | c :: rest' =>
      match rest' with
      | [] => ([], last, Some c)
      | n :: _ => if t <=? s_t n then (rest', s_t n, Some c)
                  else memo_loop t rest' (s_t n) (Some c)
      end
  end.

Definition memo_seek (t : Z) (m : memo) : memo :=
  let t0 := t - m_delta m in
  let m1 :=
    if negb (is_nil (m_rest m)) && (m_last m <? t0) then
      (* the seek advanced more than delta: forget prev, seek the underlying iterator *)
      let r := it_seek t0 (m_rest m) in
      mkMemo r (match r with [] => m_last m | c :: _ => s_t c end) None (m_delta m)
    else m in
  match m_rest m1 with
  | [] => m1
  | _ :: _ =>
      if t <=? m_last m1 then m1
      else let '(r, l, p) := memo_loop t (m_rest m1) (m_last m1) (m_prev m1) in
           mkMemo r l p (m_delta m)
  end.

(* ---------------------------------------------------------------- vectorSelectorSingle *)

Definition vector_selector_single (lookback : Z) (m : memo) (offset ts : Z) : memo * option sample :=
  let ref := ts - offset in
  let m' := memo_seek ref m in
  let peek :=
    match memo_peek_prev m' with
    | Some p => if s_t p <=? ref - lookback then None else Some p
    | None => None
    end in
  let pick :=
    match m_rest m' with
    | c :: _ => if ref <? s_t c then peek else Some c
    | [] => peek
    end in
  (m', match pick with
       | Some s => if s_stale s then None else Some s
       | None => None
       end).

(* ---------------------------------------------------------------- storage.BufferedSeriesIterator
   The sampleRing is modelled by its logical content (oldest first); the circular indexing and
   growth of the four typed buffers are not modelled. *)

Record bufit := mkBuf {
  b_rest : list sample;
  b_last : Z;
  b_buf : list sample;
  b_delta : Z }.

Definition buf_new (delta : Z) (series : list sample) : bufit := mkBuf series minInt64 [] delta.

(* add: append, then free the head while it is older than s.T - delta *)
Definition ring_add (delta : Z) (buf : list sample) (s : sample) : list sample :=
  drop_while (fun x => s_t x <? s_t s - delta) (buf ++ [s]).

Fixpoint buf_loop (t delta : Z) (rest : list sample) (last : Z) (buf : list sample)
  : list sample * Z * list sample :=
  match rest with
  | [] => ([], last, buf)
  | c :: rest' =>
      let buf' := ring_add delta buf c in
      match rest' with
      | [] => ([], last, buf')
      | n :: _ => if t <=? s_t n then (rest', s_t n, buf')
                  else buf_loop t delta rest' (s_t n) buf'
      end
  end.

Definition buf_seek (t : Z) (b : bufit) : bufit :=
  let t0 := t - b_delta b in
  let b1 :=
    if negb (is_nil (b_rest b)) && (b_last b <? t0) then
      let r := it_seek t0 (b_rest b) in
      mkBuf r (match r with [] => b_last b | c :: _ => s_t c end) [] (b_delta b)
    else b in
  match b_rest b1 with
  | [] => b1
  | _ :: _ =>
      if t <=? b_last b1 then b1
      else let '(r, l, bf) := buf_loop t (b_delta b) (b_rest b1) (b_last b1) (b_buf b1) in
           mkBuf r l bf (b_delta b)
  end.

(* matrixIterSlice called with empty floats/histograms (one step per series: instant query).
   Result in time order; the engine keeps floats and histograms in two slices, see [floats_of]. *)
Definition matrix_iter_slice (b : bufit) (mint maxt : Z) : list sample :=
  if mint =? maxt then [] else
  let b' := buf_seek maxt b in
  let frombuf := filter (fun s => negb (s_stale s) && (mint <? s_t s)) (b_buf b') in
  let sought :=
    match b_rest b' with
    | c :: _ => if (s_t c =? maxt) && negb (s_stale c) then [c] else []
    | [] => []
    end in
  frombuf ++ sought.

Definition floats_of (l : list point) : list point := filter (fun p => kind_eqb (p_k p) KF) l.
Definition hists_of (l : list point) : list point := filter (fun p => kind_eqb (p_k p) KH) l.

(* ---------------------------------------------------------------- queries *)

(* instant-vector valued inner expression:  m offset <off> @ <at>   |   timestamp(m offset .. @ ..) *)
Inductive inner :=
| IVSel (off : Z) (at_ : option Z)
| ITs (off : Z) (at_ : option Z).

Inductive rfn := FCount | FLast | FMin.      (* count_over_time | last_over_time | min_over_time *)

Inductive query :=
| QInner (i : inner)
| QRange (range off : Z) (at_ : option Z)                        (* m[range] offset .. @ ..      *)
| QRangeFn (f : rfn) (range off : Z) (at_ : option Z)            (* f(m[range] offset .. @ ..)   *)
| QSub (i : inner) (range step off : Z) (at_ : option Z)         (* (i)[range:step] offset .. @ .. ; step 0 = default *)
| QSubFn (f : rfn) (i : inner) (range step off : Z) (at_ : option Z)
(* two nesting levels:  (f1((i)[r1:s1] offset off1 @ a1))[r2:s2] offset off2 @ a2  and f2 of it.
   Only the statement ([spec_eval]) and the select hints ([hints]) are modelled for these; the
   engine's algorithm for them (window reuse of matrixIterSlice across the outer steps) is not. *)
| QSub2 (f1 : rfn) (i : inner) (r1 s1 off1 : Z) (a1 : option Z) (r2 s2 off2 : Z) (a2 : option Z)
| QSub2Fn (f2 f1 : rfn) (i : inner) (r1 s1 off1 : Z) (a1 : option Z) (r2 s2 off2 : Z) (a2 : option Z).

Definition modelled (q : query) : bool :=
  match q with QSub2 _ _ _ _ _ _ _ _ _ _ | QSub2Fn _ _ _ _ _ _ _ _ _ _ _ => false | _ => true end.

Record cfg := mkCfg { c_ts : Z; c_lookback : Z; c_defstep : Z }.

Inductive result := RVec (o : option point) | RMat (l : list point) | RErr.

Definition inner_off (i : inner) : Z := match i with IVSel o _ | ITs o _ => o end.
Definition inner_at (i : inner) : option Z := match i with IVSel _ a | ITs _ a => a end.

(* ---------------------------------------------------------------- range functions *)

(* funcCountOverTime / funcLastOverTime / funcMinOverTime on the two slices of one series *)
Definition apply_rfn (f : rfn) (T : Z) (fl hs : list point) : option point :=
  match f with
  | FCount => Some (mkP T KF (Z.of_nat (length fl + length hs)))
  | FLast =>
      match last_opt hs with
      | None => match last_opt fl with
                | Some p => Some (mkP T KF (p_v p))
                | None => Some (mkP T KF 0)
                end
      | Some h => match last_opt fl with
                  | Some p => if p_t h <? p_t p then Some (mkP T KF (p_v p)) else Some (mkP T KH (p_v h))
                  | None => Some (mkP T KH (p_v h))
                  end
      end
  | FMin => match fl with
            | [] => None
            | p :: r => Some (mkP T KF (fold_left Z.min (map p_v r) (p_v p)))
            end
  end.

(* the Call path: `if len(floats)+len(histograms) == 0 { continue }` *)
Definition call_rfn (f : rfn) (T : Z) (w : list point) : option point :=
  match w with
  | [] => None
  | _ => apply_rfn f T (floats_of w) (hists_of w)
  end.

(* ---------------------------------------------------------------- offsets and time ranges *)

(* getOffset of setOffsetForAtModifier: the selector's Offset for an evaluation at [evalTime];
   [subq] = subqOffset (+ evalTime - subqTs) of the enclosing subqueries on the path *)
Definition at_offset (evalTime off : Z) (at_ : option Z) (subq : Z) : Z :=
  match at_ with
  | None => off
  | Some a => off + ((evalTime - a) - subq)
  end.

(* subqueryTimeRange with the parent an instant evaluator (start = end = T, interval 1) *)
Definition sub_interval (c : cfg) (step : Z) : Z := if step =? 0 then c_defstep c else step.

Definition sub_start (T suboff range interval : Z) : Z :=
  let x := T - suboff - range in
  let s := interval * godiv x interval in
  if s <=? x then s + interval else s.

(* the step loop `for ts := start; ts <= end; ts += interval` *)
Definition steps (start end_ interval : Z) : list Z :=
  if end_ <? start then []
  else map (fun k => start + Z.of_nat k * interval) (seq 0 (Z.to_nat (godiv (end_ - start) interval + 1))).

(* getTimeRangesForSelector: the [Start, End] select hints of the query's single selector *)
Definition hints (c : cfg) (q : query) : Z * Z :=
  let T := c_ts c in
  let lb := c_lookback c in
  let sel (off : Z) (at_ : option Z) (evalRange : Z) :=
    let se := match at_ with Some a => a | None => T end in
    let start := if evalRange =? 0 then se - (lb - 1) else se - (evalRange - 1) in
    (start - off, se - off) in
  let sub (i : inner) (range off : Z) (at_ : option Z) :=
    let se := match at_ with Some a => a | None => T end in
    let '(start, end_) :=
      match inner_at i with
      | Some a => (a, a)
      | None => (se - off - range, se - off)
      end in
    (start - (lb - 1) - inner_off i, end_ - inner_off i) in
  (* subqueryTimes over the path [outer subquery; inner subquery]: offsets and ranges add up, an @
     on a subquery resets both to its own and fixes the time *)
  let sub2 (i : inner) (r1 off1 : Z) (a1 : option Z) (r2 off2 : Z) (a2 : option Z) :=
    let '(start, end_) :=
      match inner_at i with
      | Some a => (a, a)
      | None =>
          match a1 with
          | Some a => (a - off1 - r1, a - off1)
          | None => let se := match a2 with Some a => a | None => T end in
                    (se - (off2 + off1) - (r2 + r1), se - (off2 + off1))
          end
      end in
    (start - (lb - 1) - inner_off i, end_ - inner_off i) in
  match q with
  | QInner i => sel (inner_off i) (inner_at i) 0
  | QRange r off a => sel off a r
  | QRangeFn _ r off a => sel off a r
  | QSub i r _ off a => sub i r off a
  | QSubFn _ i r _ off a => sub i r off a
  | QSub2 _ i r1 _ off1 a1 r2 _ off2 a2 => sub2 i r1 off1 a1 r2 off2 a2
  | QSub2Fn _ _ i r1 _ off1 a1 r2 _ off2 a2 => sub2 i r1 off1 a1 r2 off2 a2
  end.

Definition restrict (h : Z * Z) (series : list sample) : list sample :=
  filter (fun s => (fst h <=? s_t s) && (s_t s <=? snd h)) series.

(* ---------------------------------------------------------------- the engine *)

(* evalSeries / rangeEvalTimestampFunctionOverVectorSelector over the steps of a (sub)evaluator
   with ONE memoized iterator threaded through the steps *)
Fixpoint eval_steps (lookback : Z) (isTs : bool) (m : memo) (offset : Z) (ts : list Z) : list point :=
  match ts with
  | [] => []
  | t :: r =>
      let '(m', o) := vector_selector_single lookback m offset t in
      match o with
      | Some s => (if isTs then mkP t KF (s_t s) else mkP t (s_k s) (s_id s)) :: eval_steps lookback isTs m' offset r
      | None => eval_steps lookback isTs m' offset r
      end
  end.

(* an inner expression evaluated by an evaluator {start, end, interval}, after
   setOffsetForAtModifier set the selector's Offset to [off] (PreprocessExpr wrapped it in a
   StepInvariantExpr iff it carries @: evaluated once at [start], then duplicated per step) *)
Definition eval_inner (c : cfg) (series : list sample) (i : inner) (off : Z) (ts : list Z) : list point :=
  let lb := c_lookback c in
  match ts with
  | [] => []                                     (* ev.endTimestamp < ev.startTimestamp *)
  | start :: _ =>
      match i with
      | IVSel _ None => eval_steps lb false (memo_new lb series) off ts
      | IVSel _ (Some _) =>
          match eval_steps lb false (memo_new lb series) off [start] with
          | p :: _ => map (fun t => mkP t (p_k p) (p_v p)) ts
          | [] => []
          end
      | ITs _ None => eval_steps lb true (memo_new (lb - 1) series) off ts
      | ITs o (Some a) =>
          (* special case in rangeEvalTimestampFunctionOverVectorSelector:
             vs.Offset = vs.OriginalOffset + (enh.Ts - *vs.Timestamp) *)
          match eval_steps lb true (memo_new (lb - 1) series) (o + (start - a)) [start] with
          | p :: _ => map (fun t => mkP t (p_k p) (p_v p)) ts
          | [] => []
          end
      end
  end.

(* runSubquery for a subquery directly under the instant evaluator at T *)
Definition run_subquery (c : cfg) (series : list sample) (i : inner) (range step off : Z) (at_ : option Z)
  : list point :=
  let T := c_ts c in
  let suboff := at_offset T off at_ 0 in               (* setOffsetForAtModifier(T): the subquery node *)
  let interval := sub_interval c step in
  let start := sub_start T suboff range interval in
  let end_ := T - suboff in
  (* setOffsetForAtModifier(subqStart, e.Expr), unconditionally: overrides what the call at T
     set for the selector below the subquery *)
  let inoff := at_offset start (inner_off i) (inner_at i) 0 in
  eval_inner c series i inoff (steps start end_ interval).

Definition engine_eval (c : cfg) (q : query) (series : list sample) : result :=
  let T := c_ts c in
  let lb := c_lookback c in
  match q with
  | QInner i =>
      match eval_inner c series i (at_offset T (inner_off i) (inner_at i) 0) [T] with
      | p :: _ => RVec (Some p)
      | [] => RVec None
      end
  | QRange r off a =>
      let offset := at_offset T off a 0 in
      let maxt := T - offset in
      RMat (map pt_of (matrix_iter_slice (buf_new r series) (maxt - r) maxt))
  | QRangeFn f r off a =>
      let offset := at_offset T off a 0 in
      let maxt := T - offset in
      RVec (call_rfn f T (map pt_of (matrix_iter_slice (buf_new r series) (maxt - r) maxt)))
  | QSub i r step off a => RMat (run_subquery c series i r step off a)
  | QSubFn f i r step off a =>
      (* evalSubquery: the result becomes the series of a matrix selector with the subquery's offset *)
      let pts := run_subquery c series i r step off a in
      let offset := at_offset T off a 0 in
      let maxt := T - offset in
      RVec (call_rfn f T (map pt_of (matrix_iter_slice (buf_new r (map smp_of pts)) (maxt - r) maxt)))
  | QSub2 _ _ _ _ _ _ _ _ _ _ | QSub2Fn _ _ _ _ _ _ _ _ _ _ _ => RErr     (* not modelled *)
  end.

(* what the engine computes on what the storage returns for the hinted range *)
Definition engine_on_storage (c : cfg) (q : query) (series : list sample) : result :=
  engine_eval c q (restrict (hints c q) series).

(* ---------------------------------------------------------------- the specification *)

(* effective evaluation time of a selector / subquery evaluated at [u] *)
Definition eff (u off : Z) (at_ : option Z) : Z :=
  match at_ with Some a => a | None => u end - off.

(* latest sample in (te - lookback, te]; absent if that sample is a staleness marker *)
Definition spec_instant (lookback : Z) (series : list sample) (te : Z) : option sample :=
  match last_opt (filter (fun s => (te - lookback <? s_t s) && (s_t s <=? te)) series) with
  | Some s => if s_stale s then None else Some s
  | None => None
  end.

(* the non-stale samples in (te - r, te] *)
Definition spec_window (r : Z) (series : list sample) (te : Z) : list sample :=
  filter (fun s => (te - r <? s_t s) && (s_t s <=? te) && negb (s_stale s)) series.

Definition spec_inner (c : cfg) (series : list sample) (i : inner) (u : Z) : option point :=
  match i with
  | IVSel off a =>
      match spec_instant (c_lookback c) series (eff u off a) with
      | Some s => Some (mkP u (s_k s) (s_id s)) | None => None end
  | ITs off a =>
      match spec_instant (c_lookback c) series (eff u off a) with
      | Some s => Some (mkP u KF (s_t s)) | None => None end
  end.

(* the multiples of [step] in (lo, hi], ascending (Z./ is floor division) *)
Definition spec_sub_times (step lo hi : Z) : list Z :=
  let f := step * (lo / step + 1) in
  if hi <? f then []
  else map (fun k => f + Z.of_nat k * step) (seq 0 (Z.to_nat ((hi - f) / step + 1))).

Definition spec_sub (c : cfg) (series : list sample) (i : inner) (range step off : Z) (at_ : option Z)
  : list point :=
  let te := eff (c_ts c) off at_ in
  flat_map (fun u => match spec_inner c series i u with Some p => [p] | None => [] end)
           (spec_sub_times (sub_interval c step) (te - range) te).

(* range functions over a window given in time order *)
Definition spec_rfn (f : rfn) (T : Z) (w : list point) : option point :=
  match w with
  | [] => None
  | _ =>
    match f with
    | FCount => Some (mkP T KF (Z.of_nat (length w)))
    | FLast => match last_opt w with Some p => Some (mkP T (p_k p) (p_v p)) | None => None end
    | FMin => match floats_of w with
              | [] => None
              | p :: r => Some (mkP T KF (fold_left Z.min (map p_v r) (p_v p)))
              end
    end
  end.

(* the outer subquery of a nested one: at each of its steps u2 the range function f1 over the inner
   subquery evaluated at u2 *)
Definition spec_sub2 (c : cfg) (series : list sample) (f1 : rfn) (i : inner) (r1 s1 off1 : Z) (a1 : option Z)
  (r2 s2 off2 : Z) (a2 : option Z) : list point :=
  let te := eff (c_ts c) off2 a2 in
  flat_map (fun u2 =>
              match spec_rfn f1 u2 (spec_sub (mkCfg u2 (c_lookback c) (c_defstep c)) series i r1 s1 off1 a1) with
              | Some p => [p] | None => [] end)
           (spec_sub_times (sub_interval c s2) (te - r2) te).

Definition spec_eval (c : cfg) (q : query) (series : list sample) : result :=
  let T := c_ts c in
  match q with
  | QInner i => RVec (spec_inner c series i T)
  | QRange r off a => RMat (map pt_of (spec_window r series (eff T off a)))
  | QRangeFn f r off a => RVec (spec_rfn f T (map pt_of (spec_window r series (eff T off a))))
  | QSub i r step off a => RMat (spec_sub c series i r step off a)
  | QSubFn f i r step off a =>
      (* every inner point lies in the outer window (te - r, te] *)
      RVec (spec_rfn f T (spec_sub c series i r step off a))
  | QSub2 f1 i r1 s1 off1 a1 r2 s2 off2 a2 => RMat (spec_sub2 c series f1 i r1 s1 off1 a1 r2 s2 off2 a2)
  | QSub2Fn f2 f1 i r1 s1 off1 a1 r2 s2 off2 a2 =>
      RVec (spec_rfn f2 T (spec_sub2 c series f1 i r1 s1 off1 a1 r2 s2 off2 a2))
  end.

(* ---------------------------------------------------------------- side conditions *)

Fixpoint sortedb (l : list sample) : bool :=
  match l with
  | [] => true
  | x :: r => match r with [] => true | y :: _ => (s_t x <? s_t y) && sortedb r end
  end.

Definition wf_query (c : cfg) (q : query) : bool :=
  (0 <? c_lookback c) && (0 <? c_defstep c) &&
  match q with
  | QInner _ => true
  | QRange r _ _ | QRangeFn _ r _ _ => 0 <? r
  | QSub _ r s _ _ | QSubFn _ _ r s _ _ => (0 <? r) && (0 <=? s)
  | QSub2 _ _ r1 s1 _ _ r2 s2 _ _ | QSub2Fn _ _ _ r1 s1 _ _ r2 s2 _ _ =>
      (0 <? r1) && (0 <=? s1) && (0 <? r2) && (0 <=? s2)
  end.

(* ---------------------------------------------------------------- the engine before the two fixes
   (commits f396586f2e and 39ad807544 in /repo), kept for the [_old_refuted] theorems:
   (1) timestamp(m offset o @ a): rangeEvalTimestampFunctionOverVectorSelector set
       vs.Offset = enh.Ts - *vs.Timestamp, dropping the selector's own offset;
   (2) runSubquery re-based the inner selectors' @ offsets only `if subqStart != ev.startTimestamp`:
       with a non-zero effective subquery offset whose first aligned step equals the query time
       the selector kept the offset computed by setOffsetForAtModifier(T). *)

Definition eval_inner_old (c : cfg) (series : list sample) (i : inner) (off : Z) (ts : list Z) : list point :=
  let lb := c_lookback c in
  match ts with
  | [] => []
  | start :: _ =>
      match i with
      | ITs _ (Some a) =>
          match eval_steps lb true (memo_new (lb - 1) series) (start - a) [start] with
          | p :: _ => map (fun t => mkP t (p_k p) (p_v p)) ts
          | [] => []
          end
      | _ => eval_inner c series i off ts
      end
  end.

Definition run_subquery_old (c : cfg) (series : list sample) (i : inner) (range step off : Z) (at_ : option Z)
  : list point :=
  let T := c_ts c in
  let suboff := at_offset T off at_ 0 in
  let in0 := at_offset T (inner_off i) (inner_at i) suboff in
  let interval := sub_interval c step in
  let start := sub_start T suboff range interval in
  let end_ := T - suboff in
  let inoff := if start =? T then in0 else at_offset start (inner_off i) (inner_at i) 0 in
  eval_inner_old c series i inoff (steps start end_ interval).

Definition engine_eval_old (c : cfg) (q : query) (series : list sample) : result :=
  let T := c_ts c in
  match q with
  | QInner i =>
      match eval_inner_old c series i (at_offset T (inner_off i) (inner_at i) 0) [T] with
      | p :: _ => RVec (Some p)
      | [] => RVec None
      end
  | QSub i r step off a => RMat (run_subquery_old c series i r step off a)
  | QSubFn f i r step off a =>
      let pts := run_subquery_old c series i r step off a in
      let maxt := T - at_offset T off a 0 in
      RVec (call_rfn f T (map pt_of (matrix_iter_slice (buf_new r (map smp_of pts)) (maxt - r) maxt)))
  | _ => engine_eval c q series
  end.

(* model/LimitRatio.v — executable model of the limit_ratio sampler of /repo/promql/engine.go
   (HashRatioSampler.SampleOffset / AddRatioSampleWithOffset / AddRatioSample and the
   LIMIT_RATIO branch of evaluator.aggregationK), over Coq's primitive binary64 floats.
   Definitions only; proofs are in proof/LimitRatioProofs.v.

   The property (C34) is about float64 rounding, so nothing here is abstracted to Q or R:
   every float operation of the Go code is the corresponding IEEE-754 binary64 primitive. *)
From Coq Require Import ZArith List Bool Floats.
Import ListNotations.
Open Scope Z_scope.

(* ---------- float64 <-> bit pattern (how the harness passes floats) ---------- *)

Definition float_of_bits (b : Z) : float :=
  let s := Z.testbit b 63 in
  let e := Z.land (Z.shiftr b 52) 2047 in
  let m := Z.land b (2 ^ 52 - 1) in
  if Z.eqb e 2047 then
    (if Z.eqb m 0 then (if s then neg_infinity else infinity) else nan)
  else if Z.eqb e 0 then
    match m with
    | Zpos p => SF2Prim (S754_finite s p (-1074))
    | _ => if s then neg_zero else zero
    end
  else
    match Z.add m (Z.pow 2 52) with
    | Zpos p => SF2Prim (S754_finite s p (e - 1075))
    | _ => nan
    end.

(* every NaN is mapped to -1 (payloads are not observable through the property) *)
Definition bits_of_float (f : float) : Z :=
  match Prim2SF f with
  | S754_zero s => if s then 2 ^ 63 else 0
  | S754_infinity s => (if s then 2 ^ 63 else 0) + 2047 * 2 ^ 52
  | S754_nan => -1
  | S754_finite s m e =>
      (if s then 2 ^ 63 else 0) +
      (if Z.ltb (Zpos m) (2 ^ 52) then Zpos m else (e + 1075) * 2 ^ 52 + (Zpos m - 2 ^ 52))
  end.

Definition float_same (a b : float) : bool := Z.eqb (bits_of_float a) (bits_of_float b).

(* Go `float64(u)` for u : uint64 — the correctly rounded (nearest-even) conversion of the
   integer 0 <= u < 2^64, via the standard library's SpecFloat rounding. *)
Definition float_of_uint64 (u : Z) : float :=
  SF2Prim (binary_normalize prec emax u 0 false).

(* ---------- HashRatioSampler ---------- *)

(* const float64MaxUint64 = float64(math.MaxUint64)  -- rounds to 2^64 *)
Definition float64MaxUint64 : float := float_of_uint64 (2 ^ 64 - 1).

(* func (HashRatioSampler) SampleOffset(metric) float64 {
     return float64(metric.Hash()) / float64MaxUint64 }          h = metric.Hash() *)
Definition sample_offset (h : Z) : float :=
  PrimFloat.div (float_of_uint64 h) float64MaxUint64.

(* func (HashRatioSampler) AddRatioSampleWithOffset(ratioLimit, sampleOffset float64) bool {
     return (ratioLimit >= 0 && sampleOffset < ratioLimit) ||
            (ratioLimit < 0 && sampleOffset >= (1.0+ratioLimit)) } *)
Definition add_ratio_sample (r off : float) : bool :=
  (PrimFloat.leb zero r && PrimFloat.ltb off r) ||
  (PrimFloat.ltb r zero && PrimFloat.leb (PrimFloat.add one r) off).

(* the complementary ratio, as a user (or the harness) computes it in float64 *)
Definition complement (r : float) : float := PrimFloat.sub r one.

(* the boundary the complementary selection really uses: fl(1 + fl(r - 1)) *)
Definition complement_boundary (r : float) : float := PrimFloat.add one (complement r).

(* the offsets on which r and r - 1 fail to act as complements: those between the two
   boundaries r and fl(1 + fl(r - 1)) (empty when the complement is exact) *)
Definition in_gap (r off : float) : bool :=
  let c1 := complement_boundary r in
  (PrimFloat.leb r off && PrimFloat.ltb off c1) || (PrimFloat.leb c1 off && PrimFloat.ltb off r).

(* ---------- the LIMIT_RATIO branch of aggregationK ---------- *)

Definition neg_one : float := PrimFloat.opp one.

(* switch { case fParam == 0: return nil; case fParam < -1.0: r = -1.0;
            case fParam > 1.0: r = 1.0; default: r = fParam } *)
Definition clamp (f : float) : float :=
  if PrimFloat.ltb f neg_one then neg_one
  else if PrimFloat.ltb one f then one
  else f.

(* ---------- fParams.Max()/Min() of a step-varying parameter (promql/value.go newFParams) ----------
   maxValue starts at -math.MaxFloat64 and is folded with math.Max, minValue starts at
   math.MaxFloat64 and is folded with math.Min (Go's special cases: +Inf/-Inf win over NaN,
   NaN otherwise propagates, Max(+0,-0) = +0, Min(-0,+0) = -0). *)
Definition max_float64 : float := 0x1.fffffffffffffp1023%float.

Definition go_max (x y : float) : float :=
  if PrimFloat.eqb x infinity || PrimFloat.eqb y infinity then infinity
  else if PrimFloat.is_nan x || PrimFloat.is_nan y then nan
  else if PrimFloat.eqb x zero && PrimFloat.eqb y zero then (if PrimFloat.get_sign x then y else x)
  else if PrimFloat.ltb y x then x else y.

Definition go_min (x y : float) : float :=
  if PrimFloat.eqb x neg_infinity || PrimFloat.eqb y neg_infinity then neg_infinity
  else if PrimFloat.is_nan x || PrimFloat.is_nan y then nan
  else if PrimFloat.eqb x zero && PrimFloat.eqb y zero then (if PrimFloat.get_sign x then x else y)
  else if PrimFloat.ltb x y then x else y.

Definition params_max (fs : list float) : float := fold_left go_max fs (PrimFloat.opp max_float64).
Definition params_min (fs : list float) : float := fold_left go_min fs max_float64.

Section Engine.
  (* L = label sets; hash = labels.Labels.Hash (xxhash), an oracle tabulated by the harness.
     A series is a label set plus whatever else it carries (value, histogram, position in
     the input): the payload type P is arbitrary and never inspected. *)
  Variable L P : Type.
  Variable hash : L -> Z.

  (* AddRatioSample(r, &s) = AddRatioSampleWithOffset(r, SampleOffset(&s.Metric)) *)
  Definition selects (r : float) (l : L) : bool :=
    add_ratio_sample r (sample_offset (hash l)).

  Inductive result := Selected (v : list (L * P)) | ErrNaN.

  (* evaluator.rangeEvalAgg + aggregationK for a constant parameter and an instant vector:
     r == 0 returns the empty vector before the NaN test; NaN is an error; otherwise every
     input sample is kept iff the sampler says so for the clamped ratio.  (Grouping only
     distributes the kept samples over per-group heaps; the output is their union.) *)
  Definition limit_ratio (f : float) (v : list (L * P)) : result :=
    if PrimFloat.eqb f zero then Selected []
    else if PrimFloat.is_nan f then ErrNaN
    else Selected (filter (fun s => selects (clamp f) (fst s)) v).
  (* ---------- range queries: one ratio per step (fParams with a non-constant parameter) ----------
     rangeEvalAgg:  if params.Max() == 0 && params.Min() == 0 { return nil }   (whole range empty)
                    if params.HasAnyNaN() { error }
                    for each step: fParam := params.Next(); aggregationK(fParam, ...)
     aggregationK:  fParam == 0 -> nothing for this step; otherwise the clamped ratio filters
                    the samples present at the step. *)
  Definition step_select (f : float) (v : list (L * P)) : list (L * P) :=
    if PrimFloat.eqb f zero then [] else filter (fun s => selects (clamp f) (fst s)) v.

  Inductive range_result := RSelected (steps : list (list (L * P))) | RErrNaN.

  Definition limit_ratio_range (fs : list float) (vs : list (list (L * P))) : range_result :=
    if PrimFloat.eqb (params_max fs) zero && PrimFloat.eqb (params_min fs) zero
    then RSelected (map (fun _ => []) vs)
    else if existsb PrimFloat.is_nan fs then RErrNaN
    else RSelected (map (fun fv => step_select (fst fv) (snd fv)) (combine fs vs)).
End Engine.

Arguments Selected {L P} _.
Arguments ErrNaN {L P}.
Arguments RSelected {L P} _.
Arguments RErrNaN {L P}.

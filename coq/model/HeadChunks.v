(* model/HeadChunks.v — executable model of tsdb/chunks/head_chunks.go (ChunkDiskMapper) with the
   asynchronous write queue of chunk_write_queue.go / queue.go.  Definitions only (proofs are in
   proof/HeadChunksProofs.v).

   Layer 1 (bytes): the head chunk file format
       file   = 8-byte header (magic 0x0130BC91, version 1, 3 x 0) ++ records ++ zero padding
       record = seriesRef BE64 | mint BE64 | maxt BE64 | enc (bit 7 = out-of-order) |
                uvarint len | data | crc32c(all previous bytes of the record) BE32
     [parse_one]/[iter_file]/[iterate_all] = IterateAllChunks after a restart (fileEnd = file size),
     [open_dir] = openMMapFiles incl. repairLastChunkFile, [recover] = the head's
     loadMmappedChunks / DeleteCorrupted / loadMmappedChunks sequence, [chunk_at] = the file part
     of ChunkDiskMapper.Chunk.
   Layer 2 (state machine): evtlPos (also alone: [alloc]), the job queue, chunkRefMap, the worker,
     chunkBuffer, the bufio writer and the files, with atomic steps Write (WriteChunk with the queue
     enabled), Cut (CutNewFile), Trunc (Truncate), Pop (jobs.pop), Micro (one atomic action of
     writeChunk: flushBuffer is two of them, chkWriter.Flush() and chunkBuffer.clear()), Site (run
     on to a flushBuffer pause point), Proc (writeChunk + callback run to the end), Done (delete
     from chunkRefMap) and Read (Chunk).
   The CRC function is a Section variable (oracle); the correspondence file instantiates it with
   a bitwise CRC-32C. *)
From Coq Require Import List NArith ZArith Bool.
From Verif Require Import lib.Int64 lib.Bytes lib.Varint.
Import ListNotations.
Open Scope N_scope.

(* ------------------------------------------------------------------ constants *)
Definition hc_header : list N := [1; 48; 188; 145; 1; 0; 0; 0].   (* MagicHeadChunks, headChunksFormatV1, padding *)
Definition hc_magic : N := 19971217.                                 (* 0x0130BC91 *)
Definition max_file_size : N := 134217728.                           (* MaxHeadChunkFileSize = 128 MiB *)
Definition meta_size : nat := 34.                                    (* MaxHeadChunkMetaSize = 8+16+1+5+4 *)

Definition ref := (N * N)%type.                                      (* ChunkDiskMapperRef.Unpack(): (seq, offset) *)
Definition ref_eqb (a b : ref) : bool := (fst a =? fst b) && (snd a =? snd b).

(* what WriteChunk is given: seriesRef, mint, maxt, chk.Encoding(), isOOO, chk.Bytes() *)
Record rec := mkRec { r_series : N; r_mint : Z; r_maxt : Z; r_enc : N; r_ooo : bool; r_data : list N }.

(* what IterateAllChunks hands to its callback (without the chunk ref) *)
Record cinfo := mkCI { ci_series : N; ci_mint : Z; ci_maxt : Z; ci_ns : N; ci_enc : N; ci_ooo : bool }.

Definition all_zero (l : list N) : bool := forallb (N.eqb 0) l.
Definition nlen {A} (l : list A) : N := N.of_nat (length l).

Fixpoint lookup {A} (k : N) (l : list (N * A)) : option A :=
  match l with [] => None | (k', v) :: t => if k =? k' then Some v else lookup k t end.
Fixpoint lookup_ref {A} (k : ref) (l : list (ref * A)) : option A :=
  match l with [] => None | (k', v) :: t => if ref_eqb k k' then Some v else lookup_ref k t end.
Definition remove_ref {A} (k : ref) (l : list (ref * A)) : list (ref * A) :=
  filter (fun e => negb (ref_eqb k (fst e))) l.

Section HC.
Variable crc32 : list N -> N.   (* crc32.Checksum(_, castagnoliTable); only its low 32 bits are stored *)

(* ------------------------------------------------------------------ writing one record *)
(* writeChunk: enc := chk.Encoding(); if isOOO { enc |= 0x80 } *)
Definition enc_byte (r : rec) : N := if r_ooo r then N.lor (r_enc r) 128 else r_enc r.

Definition encode_body (r : rec) : list N :=
  put_be64 (r_series r) ++ put_be64 (to_u64 (r_mint r)) ++ put_be64 (to_u64 (r_maxt r)) ++
  [enc_byte r] ++ put_uvarint (nlen (r_data r)) ++ r_data r.

(* cdm.crc32.Sum(buf[:0]) appends the checksum big endian *)
Definition encode_rec (r : rec) : list N := let b := encode_body r in b ++ put_be32 (crc32 b).

(* chunkPos.bytesToWriteForChunk *)
Definition rec_size (r : rec) : N := 8 + 16 + 1 + nlen (put_uvarint (nlen (r_data r))) + nlen (r_data r) + 4.

(* ------------------------------------------------------------------ IterateAllChunks, one step *)
Inductive pstep :=
| PStop                                   (* `break`: end of the file's data *)
| PCorrupt (why : N)                      (* CorruptionErr: 1 short non-zero tail, 2 data+crc beyond the end, 3 checksum *)
| PPanic                                  (* a slice expression out of range (shown unreachable) *)
| PChunk (ci : cinfo) (consumed : nat) (rest : list N).

(* [rest] = the bytes from idx to fileEnd.  checkCRC32 compares uint32s; comparing the four
   stored bytes with the big-endian bytes of the computed sum is the same test. *)
Definition parse_one (rest : list N) : pstep :=
  if (length rest <? meta_size)%nat then
    (if all_zero rest then PStop else PCorrupt 1)
  else
    match be_take 8 0 rest with None => PPanic | Some (sref, r1) =>
    match be_take 8 0 r1 with None => PPanic | Some (umint, r2) =>
    match be_take 8 0 r2 with None => PPanic | Some (umaxt, r3) =>
    if (sref =? 0) && (umint =? 0) && (umaxt =? 0) then PStop else
    match r3 with [] => PPanic | encb :: r4 =>
    let c := firstn 5 r4 in
    let '(dl, n) := match get_uvarint c with
                    | Some (x, rem) => (x, (length c - length rem)%nat)
                    | None => (0, 0%nat)                 (* binary.Uvarint: n <= 0, value 0 *)
                    end in
    let r5 := skipn n r4 in
    match be_take 2 0 r5 with None => PPanic | Some (ns, _) =>
    let dln := N.to_nat dl in
    if (length r5 <? dln + 4)%nat then PCorrupt 2 else
    let body := firstn (25 + n + dln) rest in
    let sum := firstn 4 (skipn dln r5) in
    if negb (bytes_eqb sum (put_be32 (crc32 body))) then PCorrupt 3 else
    PChunk (mkCI sref (to_i64 umint) (to_i64 umaxt) ns (N.land encb 127) (negb (N.land encb 128 =? 0)))
           (25 + n + dln + 4) (skipn (dln + 4) r5)
    end end end end end.

Inductive iend := EOk | ECorrupt (why : N) | EPanic | EFuel.

Fixpoint iter_file (fuel : nat) (seq idx : N) (rest : list N) : list (ref * cinfo) * iend :=
  match fuel with
  | O => ([], EFuel)
  | S f =>
      match parse_one rest with
      | PStop => ([], EOk)
      | PCorrupt w => ([], ECorrupt w)
      | PPanic => ([], EPanic)
      | PChunk ci n rest' =>
          let (l, e) := iter_file f seq (idx + N.of_nat n) rest' in (((seq, idx), ci) :: l, e)
      end
  end.

(* one file after a restart: idx starts after the header, fileEnd = len *)
Definition iterate_file (seq : N) (bs : list N) : list (ref * cinfo) * iend :=
  iter_file (S (length bs)) seq 8 (skipn 8 bs).

Inductive istatus := IOk | ICorrupt (file : N) (why : N) | IPanic | IFuel.

(* files in ascending order of their number; stops at the first error *)
Fixpoint iterate_all (files : list (N * list N)) : list (ref * cinfo) * istatus :=
  match files with
  | [] => ([], IOk)
  | (seq, bs) :: t =>
      match iterate_file seq bs with
      | (l, EOk) => let (l', s) := iterate_all t in (l ++ l', s)
      | (l, ECorrupt w) => (l, ICorrupt seq w)
      | (l, EPanic) => (l, IPanic)
      | (l, EFuel) => (l, IFuel)
      end
  end.

(* ------------------------------------------------------------------ openMMapFiles *)
Definition dmax {A} (files : list (N * A)) : N := fold_left (fun m e => N.max m (fst e)) files 0.

Definition be32_of (bs : list N) : option N := match be_take 4 0 bs with Some (x, _) => Some x | None => None end.

(* repairLastChunkFile: the file with the largest number is deleted when it has fewer than 4
   bytes or a zero magic number (nothing happens when that number is <= 0) *)
Definition repair_last (files : list (N * list N)) : list (N * list N) :=
  let last := dmax files in
  if last =? 0 then files else
  match lookup last files with
  | None => files
  | Some bs =>
      match be32_of bs with
      | Some m => if m =? 0 then filter (fun e => negb (fst e =? last)) files else files
      | None => filter (fun e => negb (fst e =? last)) files
      end
  end.

Fixpoint consecutive (seqs : list N) : bool :=
  match seqs with
  | a :: ((b :: _) as t) => (b =? a + 1) && consecutive t
  | _ => true
  end.

Definition header_ok (bs : list N) : bool :=
  (8 <=? length bs)%nat &&
  match be32_of bs with Some m => m =? hc_magic | None => false end &&
  (nth 4 bs 0 =? 1).

(* None = NewChunkDiskMapper returns an error (unsequential files, short header, wrong magic or
   version); Some (files, lastSeq) otherwise.  [files] ascending. *)
Definition open_dir (dir : list (N * list N)) : option (list (N * list N) * N) :=
  let fs := repair_last dir in
  if consecutive (map fst fs) && forallb (fun e => header_ok (snd e)) fs
  then Some (fs, dmax fs) else None.

(* DeleteCorrupted: every file with number >= the corrupt one goes *)
Definition delete_corrupted (files : list (N * list N)) (bad : N) : list (N * list N) :=
  filter (fun e => fst e <? bad) files.

(* the head's recovery: load; on CorruptionErr delete the corrupt file and everything after it
   and load again; if that fails too everything is dropped (Truncate(MaxUint32)). *)
Record recovered := mkRecov {
  rc_pass1 : list (ref * cinfo) * istatus;
  rc_files : list N;                       (* files left afterwards *)
  rc_final : list (ref * cinfo) }.

Definition recover (dir : list (N * list N)) : option recovered :=
  match open_dir dir with
  | None => None
  | Some (fs, _) =>
      let p1 := iterate_all fs in
      match snd p1 with
      | IOk => Some (mkRecov p1 (map fst fs) (fst p1))
      | ICorrupt bad _ =>
          let fs' := delete_corrupted fs bad in
          let p2 := iterate_all fs' in
          match snd p2 with
          | IOk => Some (mkRecov p1 (map fst fs') (fst p2))
          | _ => Some (mkRecov p1 [] [])
          end
      | _ => Some (mkRecov p1 (map fst fs) [])
      end
  end.

(* ------------------------------------------------------------------ Chunk(ref): the file part *)
Inductive rd_res :=
| RdOk (enc : N) (data : list N)
| RdErr (k : N)      (* CorruptionErr: 1 too short for the length field, 2 uvarint, 3 data beyond the end,
                        4 checksum, 5 pool.Get (unknown encoding), 6 file index above the current file,
                        7 file does not exist *)
| RdPanic            (* the CRC slice ends beyond the mapping *)
| RdBeyond.          (* touches bytes of the live mapping that were never written (not modelled) *)

Definition valid_enc (e : N) : bool := (1 <=? e) && (e <=? 6).   (* pool.Get knows EncXOR .. EncFloatHistogramST *)

(* [bs] = the written bytes of the file, [vlen] = byteSlice.Len() (the file size after a restart,
   MaxHeadChunkFileSize for the file being written), [off] = offset part of the ref *)
Definition chunk_at (bs : list N) (vlen : N) (off : N) : rd_res :=
  let chk_start := off + 24 in
  if vlen <? chk_start + 5 then RdErr 1 else
  match skipn (N.to_nat chk_start) bs with
  | [] => RdBeyond
  | encb :: r1 =>
      let c := firstn 5 r1 in
      if (length c <? 5)%nat then RdBeyond else
      match get_uvarint c with
      | None => RdErr 2
      | Some (dl, rem) =>
          let n := (5 - length rem)%nat in
          let data_end := chk_start + 1 + N.of_nat n + dl in
          if vlen <? data_end then RdErr 3 else
          if vlen <? data_end + 4 then RdPanic else
          let r2 := skipn n r1 in
          if (length r2 <? N.to_nat dl + 4)%nat then RdBeyond else
          let body := firstn (N.to_nat (data_end - off)) (skipn (N.to_nat off) bs) in
          let sum := firstn 4 (skipn (N.to_nat dl) r2) in
          if negb (bytes_eqb sum (put_be32 (crc32 body))) then RdErr 4 else
          let e := N.land encb 127 in
          if valid_enc e then RdOk e (firstn (N.to_nat dl) r2) else RdErr 5
      end
  end.

(* ------------------------------------------------------------------ the state machine *)
Record job := mkJob { j_cut : bool; j_ref : ref; j_rec : rec }.

(* The queue worker.  WStart j: job popped, writeChunk not begun.  WRun j p: inside writeChunk(j),
   p = the next action (each action is one atomic step of the model):
     PClr1  chunkBuffer.clear() of cut()'s finalizeCurFile (its Flush is done)
     PNew   cutSegmentFile + new mapping + cutAndExpectRef
     PPre   the flush-before-write decision (and that flush's chkWriter.Flush())
     PClr2  chunkBuffer.clear() of that flush
     PApp   header, data, CRC into chkWriter; chunkBuffer.put
     PPost  chkWriter.Flush() of the flush after a chunk >= the buffer
     PClr3  chunkBuffer.clear() of that flush
   WDone j: writeChunk and the callback done, ref still in chunkRefMap. *)
Inductive wpc := PClr1 | PNew | PPre | PClr2 | PApp | PPost | PClr3.
Inductive wstate := WIdle | WStart (j : job) | WRun (j : job) (p : wpc) | WDone (j : job).

Record st := mkSt {
  ev_seq : N; ev_off : N; ev_cut : bool;          (* evtlPos *)
  queue : list job;                                (* writeJobQueue: pushed, not yet popped *)
  pend : list (ref * rec);                         (* chunkRefMap *)
  wk : wstate;                                     (* the worker goroutine *)
  cbuf : list (ref * rec);                         (* chunkBuffer *)
  cur_open : bool;                                 (* curFile != nil *)
  cur_seq : N;                                     (* curFileSequence *)
  cur_off : N;                                     (* curFileOffset *)
  wbuf : list N;                                   (* bytes in chkWriter not yet written to the file *)
  files : list (N * list N);                       (* mmappedChunkFiles = directory: number -> bytes written *)
  born : list N                                    (* files cut by this mapper: mapped with MaxHeadChunkFileSize *)
}.

(* state right after NewChunkDiskMapper on a directory that opened as [fs] *)
Definition init_state (fs : list (N * list N)) : st :=
  mkSt (dmax fs) 0 false [] [] WIdle [] false 0 0 [] fs [].

Variable bufsize : N.     (* writeBufferSize *)
Variable qmax : nat.      (* write queue size *)

Inductive step :=
| SWrite (r : rec)        (* WriteChunk *)
| SCut                    (* CutNewFile *)
| STrunc (n : N)          (* Truncate(n) *)
| SPop | SProc | SDone    (* worker: jobs.pop / writeChunk + callback (run to its end) / delete from chunkRefMap *)
| SMicro                  (* worker: one atomic action of writeChunk *)
| SSite (b : bool)        (* worker: run on to the next flushBuffer pause point: false = just before
                             chkWriter.Flush(), true = between Flush() and chunkBuffer.clear() *)
| SRead (r : ref).        (* Chunk(r) *)

Inductive out :=
| ORef (r : ref)          (* WriteChunk's result *)
| ONone
| OTrunc (before after : list N)   (* numbers of the mapped files before and after Truncate *)
| OProc (ok : bool) (seq off : N) (nfl : N)  (* the error handed to the callback (true = nil); curFileSequence,
                                               curFileOffset; flushes begun during this step *)
| ORead (r : rd_res)
| OBlocked                (* the step is not enabled in this state (the call would block) *)
| OPanic.                 (* nil chkWriter *)

Fixpoint set_file (seq : N) (f : list N -> list N) (fs : list (N * list N)) : list (N * list N) :=
  match fs with
  | [] => []
  | (q, bs) :: t => if q =? seq then (q, f bs) :: t else (q, bs) :: set_file seq f t
  end.

(* flushBuffer = chkWriter.Flush() then chunkBuffer.clear(): two atomic steps (a reader holds only
   readPathMtx.RLock, which does not exclude the writer) *)
Definition flushout (s : st) : st :=
  mkSt (ev_seq s) (ev_off s) (ev_cut s) (queue s) (pend s) (wk s) (cbuf s) (cur_open s) (cur_seq s) (cur_off s) []
       (set_file (cur_seq s) (fun bs => bs ++ wbuf s) (files s)) (born s).
Definition clearbuf (s : st) : st :=
  mkSt (ev_seq s) (ev_off s) (ev_cut s) (queue s) (pend s) (wk s) [] (cur_open s) (cur_seq s) (cur_off s) (wbuf s)
       (files s) (born s).
Definition flush (s : st) : st := clearbuf (flushout s).

(* chunkPos.getNextChunkRef on its own: position (seq, off, cutFile), a chunk of btw bytes in all
   (bytesToWriteForChunk).  Result: the cut decision, the ref, the new position. *)
Definition size_of_len (dl : N) : N := 8 + 16 + 1 + nlen (put_uvarint dl) + dl + 4.

Definition alloc (seq off : N) (cutf : bool) (btw : N) : bool * ref * (N * N * bool) :=
  let cut := cutf || (off =? 0) || (max_file_size <? off + btw) in    (* shouldCutNewFile(bytesToWrite) *)
  let seq' := if cut then seq + 1 else seq in
  let off' := if cut then 8 else off in
  (cut, (seq', off'), (seq', off' + btw, if cut then false else cutf)).

(* a run of WriteChunk calls, each optionally preceded by CutNewFile *)
Fixpoint alloc_run (seq off : N) (cutf : bool) (steps : list (bool * N)) : list (bool * ref * N) * (N * N * bool) :=
  match steps with
  | [] => ([], (seq, off, cutf))
  | (creq, btw) :: t =>
      let '(cut, rf, (seq1, off1, cutf1)) := alloc seq off (cutf || creq) btw in
      let (l, e) := alloc_run seq1 off1 cutf1 t in ((cut, rf, btw) :: l, e)
  end.

(* WriteChunk: getNextChunkRef, then addJob.  Blocks while the job queue is full. *)
Definition do_write (s : st) (r : rec) : st * out :=
  if (qmax <=? length (queue s))%nat then (s, OBlocked) else
  let btw := rec_size r in
  let cut := ev_cut s || (ev_off s =? 0) || (max_file_size <? ev_off s + btw) in
  let seq := if cut then ev_seq s + 1 else ev_seq s in
  let off := if cut then 8 else ev_off s in
  let rf := (seq, off) in
  (mkSt seq (off + btw) (if cut then false else ev_cut s)
        (queue s ++ [mkJob cut rf r]) ((rf, r) :: pend s) (wk s) (cbuf s)
        (cur_open s) (cur_seq s) (cur_off s) (wbuf s) (files s) (born s), ORef rf).

Definition do_cut (s : st) : st :=
  mkSt (ev_seq s) (ev_off s) true (queue s) (pend s) (wk s) (cbuf s)
       (cur_open s) (cur_seq s) (cur_off s) (wbuf s) (files s) (born s).

Fixpoint take_while {A} (p : A -> bool) (l : list A) : list A :=
  match l with [] => [] | a :: t => if p a then a :: take_while p t else [] end.

(* Truncate(fileNo), taken as one atomic step *)
Definition do_trunc (s : st) (n : N) : st :=
  let idxs := map fst (files s) in
  let removed := take_while (fun q => negb (q =? cur_seq s) && ((q mod 4294967296) <? n)) idxs in
  let cutf := if 8 <? cur_off s then true else ev_cut s in
  let fs' := filter (fun e => negb (existsb (N.eqb (fst e)) removed)) (files s) in
  let evs := if (length idxs =? length removed)%nat
             then (match pend s with [] => 0 | _ => ev_seq s end) else ev_seq s in
  mkSt evs (ev_off s) cutf (queue s) (pend s) (wk s) (cbuf s)
       (cur_open s) (cur_seq s) (cur_off s) (wbuf s) fs'
       (filter (fun q => negb (existsb (N.eqb q) removed)) (born s)).

Definition do_pop (s : st) : st * out :=
  match wk s, queue s with
  | WIdle, j :: q =>
      (mkSt (ev_seq s) (ev_off s) (ev_cut s) q (pend s) (WStart j) (cbuf s)
            (cur_open s) (cur_seq s) (cur_off s) (wbuf s) (files s) (born s), ONone)
  | _, _ => (s, OBlocked)
  end.

Definition set_wk (s : st) (w : wstate) : st :=
  mkSt (ev_seq s) (ev_off s) (ev_cut s) (queue s) (pend s) w (cbuf s)
       (cur_open s) (cur_seq s) (cur_off s) (wbuf s) (files s) (born s).

(* cut() after finalizeCurFile: cutSegmentFile (next number = largest in the directory + 1, header
   written), new mapping, chkWriter.Reset *)
Definition newfile (s : st) : st :=
  mkSt (ev_seq s) (ev_off s) (ev_cut s) (queue s) (pend s) (wk s) (cbuf s)
       true (dmax (files s) + 1) 8 [] (files s ++ [(dmax (files s) + 1, hc_header)]) ((dmax (files s) + 1) :: born s).

(* the chunk's bytes go to the writer, the chunk into chunkBuffer *)
Definition append (s : st) (j : job) : st :=
  mkSt (ev_seq s) (ev_off s) (ev_cut s) (queue s) (pend s) (WDone j) ((j_ref j, j_rec j) :: cbuf s)
       (cur_open s) (cur_seq s) (cur_off s + nlen (encode_rec (j_rec j))) (wbuf s ++ encode_rec (j_rec j))
       (files s) (born s).

Definition pre_flush (s : st) (j : job) : bool :=
  let dl := nlen (r_data (j_rec j)) in (dl + 34 <? bufsize) && (bufsize - nlen (wbuf s) <? 34 + dl).

Inductive mres := MMore | MFin (ok : bool) | MPanic | MIdle.

(* one atomic action of writeChunk(job) (the callback runs with the last one) *)
Definition micro (s : st) : st * mres :=
  match wk s with
  | WStart j =>
      if j_cut j then
        (if cur_open s then (set_wk (flushout s) (WRun j PClr1), MMore)   (* finalizeCurFile: Flush() *)
         else (set_wk s (WRun j PNew), MMore))
      else (set_wk s (WRun j PPre), MMore)
  | WRun j PClr1 => (set_wk (clearbuf s) (WRun j PNew), MMore)
  | WRun j PNew =>
      let s1 := newfile s in
      if negb (ref_eqb (cur_seq s1, 8) (j_ref j)) then (set_wk s1 (WDone j), MFin false)   (* cutAndExpectRef fails *)
      else (set_wk s1 (WRun j PPre), MMore)
  | WRun j PPre =>
      if negb (cur_open s) then (s, MPanic)                                 (* cdm.chkWriter == nil *)
      else if pre_flush s j then (set_wk (flushout s) (WRun j PClr2), MMore)
      else (set_wk s (WRun j PApp), MMore)
  | WRun j PClr2 => (set_wk (clearbuf s) (WRun j PApp), MMore)
  | WRun j PApp =>
      if nlen (r_data (j_rec j)) + 34 <? bufsize then (append s j, MFin true)
      else (set_wk (append s j) (WRun j PPost), MMore)
  | WRun j PPost => (set_wk (flushout s) (WRun j PClr3), MMore)
  | WRun j PClr3 => (set_wk (clearbuf s) (WDone j), MFin true)
  | _ => (s, MIdle)
  end.

(* the worker stands at a pause point of flushBuffer: b = false just before chkWriter.Flush(),
   b = true between Flush() and chunkBuffer.clear() *)
Definition at_site (b : bool) (s : st) : bool :=
  match wk s with
  | WStart j => negb b && j_cut j && cur_open s
  | WRun j PPre => negb b && cur_open s && pre_flush s j
  | WRun _ PPost => negb b
  | WRun _ PClr1 | WRun _ PClr2 | WRun _ PClr3 => b
  | _ => false
  end.

Fixpoint to_site (fuel : nat) (b : bool) (s : st) : option st :=
  if at_site b s then Some s else
  match fuel with
  | O => None
  | S f => match micro s with (s', MMore) => to_site f b s' | _ => None end
  end.

(* writeChunk(job) run to its end, followed by the callback; nfl counts the flushes begun *)
Fixpoint run_micro (fuel : nat) (nfl : N) (s : st) : st * out :=
  match fuel with
  | O => (s, OBlocked)
  | S f =>
      let fl := if at_site false s then nfl + 1 else nfl in
      match micro s with
      | (s', MMore) => run_micro f fl s'
      | (s', MFin ok) => (s', OProc ok (cur_seq s') (cur_off s') fl)
      | (_, MPanic) => (s, OPanic)
      | (_, MIdle) => (s, OBlocked)
      end
  end.

Definition do_proc (s : st) : st * out := run_micro 10 0 s.

Definition do_done (s : st) : st * out :=
  match wk s with
  | WDone j =>
      (mkSt (ev_seq s) (ev_off s) (ev_cut s) (queue s) (remove_ref (j_ref j) (pend s)) WIdle (cbuf s)
            (cur_open s) (cur_seq s) (cur_off s) (wbuf s) (files s) (born s), ONone)
  | _ => (s, OBlocked)
  end.

(* Chunk(ref): chunkRefMap, then chunkBuffer (only for the current file), then the mapping *)
Definition do_read (s : st) (rf : ref) : rd_res :=
  match lookup_ref rf (pend s) with
  | Some r => RdOk (r_enc r) (r_data r)
  | None =>
      match (if fst rf =? cur_seq s then lookup_ref rf (cbuf s) else None) with
      | Some r => RdOk (r_enc r) (r_data r)
      | None =>
          match lookup (fst rf) (files s) with
          | None => if cur_seq s <? fst rf then RdErr 6 else RdErr 7
          | Some bs =>
              chunk_at bs (if existsb (N.eqb (fst rf)) (born s) then max_file_size else nlen bs) (snd rf)
          end
      end
  end.

Definition do_step (s : st) (x : step) : st * out :=
  match x with
  | SWrite r => do_write s r
  | SCut => (do_cut s, ONone)
  | STrunc n => let s' := do_trunc s n in (s', OTrunc (map fst (files s)) (map fst (files s')))
  | SPop => do_pop s
  | SProc => do_proc s
  | SDone => do_done s
  | SMicro => (fst (micro s), ONone)
  | SSite b => match to_site 10 b s with Some s' => (s', ONone) | None => (s, OBlocked) end
  | SRead rf => (s, ORead (do_read s rf))
  end.

Fixpoint run (s : st) (tr : list step) : st * list out :=
  match tr with
  | [] => (s, [])
  | x :: t => let (s1, o) := do_step s x in let (s2, os) := run s1 t in (s2, o :: os)
  end.

(* Close(): the queue is drained (stop waits for the worker), the current file flushed.  The
   directory afterwards: *)
Definition closed_files (s : st) : list (N * list N) := files (if cur_open s then flush s else s).

End HC.

(* model/Backfill.v — executable model of promtool's OpenMetrics backfill
   (cmd/promtool/backfill.go: getMinAndMaxTimestamps, getCompatibleBlockDuration, createBlocks,
   backfill) together with the part of tsdb.BlockWriter / Head appender that decides which of
   the appended samples end up in the flushed block (tsdb/blockwriter.go, tsdb/head_append.go:
   memSeries.appendable as used by headAppender.Commit).

   Definitions only; proofs are in proof/BackfillProofs.v.

   Conventions.
   * The OpenMetrics parser (model/textparse) is NOT modelled: the input of the model is the
     sequence of entries p.Next() yields (the harness obtains it by running the real parser).
     A series is identified by a number [sid] (the harness numbers the distinct label sets,
     after the custom --label overrides have been applied); a value is the bit pattern of the
     float64.
   * Timestamps are milliseconds (Z).  int64 wrap-around is not modelled: the theorems carry
     the hypothesis [in_range] (|ts| <= 2^62), under which no operation of the code overflows.
   * The appender batches are modelled: createBlocks commits every maxSamplesInAppender = 5000
     samples of a block; Append checks a sample against the committed samples only, Commit
     re-checks every pending sample and drops (without error) what is not appendable. *)
From Coq Require Import List ZArith Bool.
From Verif Require Import lib.Int64.
Import ListNotations.
Open Scope Z_scope.

(* ------------------------------------------------------------------ parser entries *)
Inductive entry :=
| ESample (sid : Z) (ts : option Z) (v : Z)  (* textparse.EntrySeries: series, optional timestamp, value bits *)
| EOther                                     (* HELP / TYPE / UNIT / comment: `continue` *)
| EParseErr.                                 (* p.Next() returned an error other than io.EOF *)

Definition sample := (Z * Z * Z)%type.       (* (sid, ts, value bits) *)
Definition s_sid (x : sample) : Z := fst (fst x).
Definition s_ts (x : sample) : Z := snd (fst x).
Definition s_val (x : sample) : Z := snd x.
Definition key (x : sample) : Z * Z := fst x.

(* ------------------------------------------------------------------ getMinAndMaxTimestamps *)
Inductive mm_res := MMOk (maxt mint : Z) | MMErrParse | MMErrNoTs.

Fixpoint mm_loop (l : list entry) (maxt mint : Z) : mm_res :=
  match l with
  | [] => MMOk (if maxt =? minInt64 then 0 else maxt) (if mint =? maxInt64 then 0 else mint)
  | EParseErr :: _ => MMErrParse                       (* return 0, 0, fmt.Errorf("next: %w", err) *)
  | EOther :: r => mm_loop r maxt mint
  | ESample _ None _ :: _ => MMErrNoTs                 (* "expected timestamp for series got none" *)
  | ESample _ (Some ts) _ :: r =>
      mm_loop r (if ts >? maxt then ts else maxt) (if ts <? mint then ts else mint)
  end.

Definition get_min_max (l : list entry) : mm_res := mm_loop l minInt64 maxInt64.

(* ------------------------------------------------------------------ getCompatibleBlockDuration *)
Definition default_block_duration : Z := 7200000.     (* tsdb.DefaultBlockDuration = 2h in ms *)

(* tsdb.ExponentialBlockRanges(minSize, steps, stepSize) *)
Fixpoint exp_ranges (cur : Z) (steps : nat) (step : Z) : list Z :=
  match steps with O => [] | S n => cur :: exp_ranges (cur * step) n step end.

Definition block_ranges : list Z := exp_ranges default_block_duration 10 3.

(* for i, v := range ranges { if v > max { idx = i - 1; break } } *)
Fixpoint pick_idx (rs : list Z) (i : Z) (mx : Z) (dflt : Z) : Z :=
  match rs with
  | [] => dflt
  | v :: r => if v >? mx then i - 1 else pick_idx r (i + 1) mx dflt
  end.

(* None = index out of range panic on ranges[idx] *)
Definition compatible_block_duration (mx : Z) : option Z :=
  if mx >? default_block_duration then
    let idx := pick_idx block_ranges 0 mx (Z.of_nat (length block_ranges) - 1) in
    if idx <? 0 then None else nth_error block_ranges (Z.to_nat idx)
  else Some default_block_duration.

(* ------------------------------------------------------------------ createBlocks *)
(* first block start: the tree's version (after "fix: promtool: backfill drops samples with
   negative timestamps"): Go's truncating division, rounded down for negative mint *)
Definition align_start (mint d : Z) : Z :=
  if mint >=? 0 then d * godiv mint d else d * godiv (mint - d + 1) d.

(* the version before the fix: mint = blockDuration * (mint / blockDuration) *)
Definition align_start_old (mint d : Z) : Z := d * godiv mint d.

(* One pass over the input for the block [t, up): the samples appended (in input order) and
   nextSampleTs.  None = the pass returned an error (parse error / missing timestamp). *)
Fixpoint scan (l : list entry) (t up next : Z) (pend_rev : list sample) : option (list sample * Z) :=
  match l with
  | [] => Some (rev pend_rev, next)
  | EParseErr :: _ => None
  | EOther :: r => scan r t up next pend_rev
  | ESample _ None _ :: _ => None
  | ESample s (Some ts) v :: r =>
      if ts <? t then scan r t up next pend_rev
      else if ts >=? up then scan r t up (if ts <? next then ts else next) pend_rev
      else scan r t up next ((s, ts, v) :: pend_rev)
  end.

(* memSeries.maxTime() of series sid, given the samples committed so far (most recent first) *)
Fixpoint last_ts (kept_rev : list sample) (sid : Z) : option Z :=
  match kept_rev with
  | [] => None
  | x :: r => if s_sid x =? sid then Some (s_ts x) else last_ts r sid
  end.

(* headAppender.Commit on a fresh head, out-of-order window 0: each pending sample is re-checked
   with memSeries.appendable against the samples committed before it.
     headChunks == nil or t > maxTime  -> appended
     t == maxTime                      -> same value: series.append reports a duplicate, dropped;
                                          other value: ErrDuplicateSampleForTimestamp, counted, dropped
     t < maxTime                       -> ErrOutOfOrderSample, counted, dropped
   None of the three is reported to the caller of Commit. *)
Fixpoint commit (pending : list sample) (kept_rev : list sample) : list sample :=
  match pending with
  | [] => kept_rev
  | x :: r =>
      match last_ts kept_rev (s_sid x) with
      | None => commit r (x :: kept_rev)
      | Some m => if s_ts x >? m then commit r (x :: kept_rev) else commit r kept_rev
      end
  end.

(* the committed sample of series sid with the largest timestamp (memSeries.maxTime(),
   memSeries.lastValue) *)
Fixpoint last_sample (kept_rev : list sample) (sid : Z) : option sample :=
  match kept_rev with
  | [] => None
  | x :: r => if s_sid x =? sid then Some x else last_sample r sid
  end.

(* headAppender.Append: memSeries.appendable against the samples COMMITTED so far (the pending
   samples of the current appender are not seen).  false = Append returns
   ErrOutOfOrderSample / ErrDuplicateSampleForTimestamp and createBlocks fails with "add sample".
   (The ErrOutOfBounds check cannot fire: minValidTime of every appender of the block's head is
   below the block start because the head is created with chunk range 2*blockDuration.) *)
Definition append_ok (kept_rev : list sample) (x : sample) : bool :=
  match last_sample kept_rev (s_sid x) with
  | None => true                                            (* headChunks == nil *)
  | Some z => if s_ts x >? s_ts z then true
              else if s_ts x =? s_ts z then s_val x =? s_val z   (* exact duplicate is accepted here *)
              else false
  end.

Definition max_samples_in_appender : Z := 5000.           (* backfill(5000, ...) in tsdb.go *)

(* the Append / Commit sequence of one block:
     app.Append(...) error -> return; samplesCount++; if samplesCount < max { continue };
     app.Commit(); app = w.Appender(ctx); samplesCount = 0
   and the final app.Commit().  None = "add sample" error. *)
Fixpoint append_all (l : list sample) (kept_rev pend_rev : list sample) (count : Z) : option (list sample) :=
  match l with
  | [] => Some (commit (rev pend_rev) kept_rev)
  | x :: r =>
      if append_ok kept_rev x then
        if count + 1 <? max_samples_in_appender then append_all r kept_rev (x :: pend_rev) (count + 1)
        else append_all r (commit (rev (x :: pend_rev)) kept_rev) [] 0
      else None
  end.

(* samples of the flushed block, in commit order *)
Definition block_samples (pending : list sample) : option (list sample) :=
  match append_all pending [] [] 0 with Some k => Some (rev k) | None => None end.

Record block := mkBlock { b_lo : Z;                   (* t of the loop iteration that wrote it *)
                          b_samples : list sample }.

(* BlockWriter.Flush: block meta MinTime = head.MinTime(), MaxTime = head.MaxTime() + 1 *)
Definition b_mint (b : block) : Z :=
  fold_left (fun m x => Z.min m (s_ts x)) (b_samples b) maxInt64.
Definition b_maxt (b : block) : Z :=
  fold_left (fun m x => Z.max m (s_ts x)) (b_samples b) minInt64 + 1.

(* compactor.Write produces no block when the head has no samples *)
Definition emit (acc : list block) (t : Z) (kept : list sample) : list block :=
  match kept with [] => acc | _ => acc ++ [mkBlock t kept] end.

Inductive cb_res := CBOk (bl : list block) | CBErr (written : list block).

(* for t := mint; t <= maxt; t += blockDuration — the values t takes *)
Definition starts (mint maxt d : Z) : list Z :=
  map (fun i => mint + d * Z.of_nat i) (seq 0 (Z.to_nat ((maxt - mint) / d + 1))).

Fixpoint loop (input : list entry) (d : Z) (ts : list Z) (next : Z) (acc : list block) : cb_res :=
  match ts with
  | [] => CBOk acc
  | t :: r =>
      let up := t + d in
      if negb (next =? maxInt64) && (next >=? up) then loop input d r next acc    (* continue *)
      else match scan input t up maxInt64 [] with
           | None => CBErr acc                                                    (* "process blocks" *)
           | Some (pending, next') =>
               match block_samples pending with
               | None => CBErr acc                                                (* "add sample" *)
               | Some kept => loop input d r next' (emit acc t kept)
               end
           end
  end.

Definition create_blocks_with (align : Z -> Z -> Z) (input : list entry) (mint maxt d : Z) : cb_res :=
  loop input d (starts (align mint d) maxt d) maxInt64 [].

(* ------------------------------------------------------------------ backfill *)
Inductive rej := RejParse | RejNoTs.
Inductive bf_res :=
| BFRejected (e : rej)                 (* "getting min and max timestamp": createBlocks never ran *)
| BFPanic                              (* ranges[idx] out of range *)
| BFCreateErr (written : list block)   (* "block creation": error after some blocks were written *)
| BFOk (bl : list block).

Definition backfill_with (align : Z -> Z -> Z) (max_block_duration : Z) (input : list entry) : bf_res :=
  match get_min_max input with
  | MMErrParse => BFRejected RejParse
  | MMErrNoTs => BFRejected RejNoTs
  | MMOk maxt mint =>
      match compatible_block_duration max_block_duration with
      | None => BFPanic
      | Some d =>
          match create_blocks_with align input mint maxt d with
          | CBOk bl => BFOk bl
          | CBErr w => BFCreateErr w
          end
      end
  end.

Definition backfill := backfill_with align_start.
Definition backfill_old := backfill_with align_start_old.

(* ------------------------------------------------------------------ specification vocabulary *)
Definition all_samples (bl : list block) : list sample := flat_map b_samples bl.

(* the samples of the input, in input order *)
Fixpoint samples_of (l : list entry) : list sample :=
  match l with
  | [] => []
  | ESample s (Some t) v :: r => (s, t, v) :: samples_of r
  | _ :: r => samples_of r
  end.

(* every series line carries a timestamp and the parser reported no error *)
Definition well_formed (l : list entry) : Prop :=
  forall e, In e l -> match e with ESample _ None _ => False | EParseErr => False | _ => True end.

Definition in_range (l : list entry) : Prop :=
  forall s t v, In (ESample s (Some t) v) l -> - 2 ^ 62 <= t <= 2 ^ 62.

(* Within one series and one block window (floor division by d), later lines carry later
   timestamps; an exact repetition of a line (same timestamp, same value) is allowed. *)
Fixpoint ordered (d : Z) (l : list sample) : Prop :=
  match l with
  | [] => True
  | x :: r =>
      (forall y, In y r -> s_sid y = s_sid x -> s_ts y / d = s_ts x / d ->
                 s_ts x < s_ts y \/ y = x) /\ ordered d r
  end.

(* boolean versions, used by the correspondence checker *)
(* nested ifs rather than &&: vm_compute evaluates the arguments of andb eagerly *)
Definition sample_eqb (x y : sample) : bool :=
  if s_ts x =? s_ts y then if s_sid x =? s_sid y then s_val x =? s_val y else false else false.

Fixpoint orderedb (d : Z) (l : list sample) : bool :=
  match l with
  | [] => true
  | x :: r =>
      forallb (fun y => if s_sid y =? s_sid x then
                          if s_ts x <? s_ts y then true
                          else if s_ts y / d =? s_ts x / d then sample_eqb y x else true
                        else true) r && orderedb d r
  end.

Definition well_formedb (l : list entry) : bool :=
  forallb (fun e => match e with ESample _ None _ => false | EParseErr => false | _ => true end) l.

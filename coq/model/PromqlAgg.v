(* model/PromqlAgg.v — executable model of the PromQL aggregation and binary-operator core of
   promql/engine.go (rangeEvalAgg grouping, aggregation, aggregationK, aggregationCountValues,
   VectorBinop, resultMetric, VectorscalarBinop, VectorAnd/Or/Unless, vectorElemBinop float
   path, the same-labelset check of rangeEval), promql/quantile.go (quantile) and
   util/kahansum (Inc), together with the documented reference semantics (the spec_ definitions) the
   theorems and the `holds` checker compare against.  Definitions only; proofs are in
   proof/PromqlAggProofs.v.

   Numbers.  A float64 is modelled by [fval]: NaN, +-Inf, or an exact rational.  Every float64
   operation of the Go code is the exact operation in Q followed by [rnd]: a finite result
   whose magnitude the oracle [ovf] declares out of range becomes +-Inf (float64 overflow).
   Rounding to 53 bits is NOT modelled (the correspondence compares within 1e-9); negative
   zero and subnormals are outside the model.  strconv.FormatFloat (count_values) is the
   oracle [fmt].  Label-set hashes (xxhash) are modelled by the hashed label set itself.

   Strings are byte lists (list N), label sets are association lists sorted by name with
   non-empty values, exactly what labels.Labels guarantees. *)
From Coq Require Import List ZArith NArith QArith Qabs Bool.
Import ListNotations.
Open Scope Z_scope.

(* ------------------------------------------------------------------ strings and labels *)
Definition str := list N.

Fixpoint str_eqb (a b : str) : bool :=
  match a, b with
  | [], [] => true
  | x :: a', y :: b' => N.eqb x y && str_eqb a' b'
  | _, _ => false
  end.

(* Go string order: bytewise lexicographic *)
Fixpoint str_ltb (a b : str) : bool :=
  match a, b with
  | _, [] => false
  | [], _ :: _ => true
  | x :: a', y :: b' => if N.ltb x y then true else if N.eqb x y then str_ltb a' b' else false
  end.

Definition label := (str * str)%type.
Definition labels := list label.

Definition label_eqb (a b : label) : bool := str_eqb (fst a) (fst b) && str_eqb (snd a) (snd b).
Fixpoint labels_eqb (a b : labels) : bool :=
  match a, b with
  | [], [] => true
  | x :: a', y :: b' => label_eqb x y && labels_eqb a' b'
  | _, _ => false
  end.

Definition mem_str (n : str) (ns : list str) : bool := existsb (str_eqb n) ns.

(* "__name__", "__type__", "__unit__" *)
Definition name_lbl : str := [95;95;110;97;109;101;95;95]%N.
Definition type_lbl : str := [95;95;116;121;112;101;95;95]%N.
Definition unit_lbl : str := [95;95;117;110;105;116;95;95]%N.
Definition metadata_lbls : list str := [name_lbl; type_lbl; unit_lbl].

(* labels.Labels.Get: "" when absent *)
Fixpoint lget (n : str) (ls : labels) : str :=
  match ls with
  | [] => []
  | (k, v) :: r => if str_eqb k n then v else lget n r
  end.

(* labels.Builder.Del / Keep followed by Labels() *)
Definition ldel (ns : list str) (ls : labels) : labels := filter (fun l => negb (mem_str (fst l) ns)) ls.
Definition lkeep (ns : list str) (ls : labels) : labels := filter (fun l => mem_str (fst l) ns) ls.

(* labels.Builder.Set followed by Labels(): the empty value deletes *)
Fixpoint linsert (n v : str) (ls : labels) : labels :=
  match ls with
  | [] => [(n, v)]
  | (k, w) :: r =>
      if str_eqb k n then (n, v) :: r
      else if str_ltb n k then (n, v) :: (k, w) :: r
      else (k, w) :: linsert n v r
  end.
Definition lset (n v : str) (ls : labels) : labels :=
  match v with [] => ldel [n] ls | _ => linsert n v ls end.

Definition mem_labels (l : labels) (ls : list labels) : bool := existsb (labels_eqb l) ls.
Fixpoint has_dup_labels (ls : list labels) : bool :=
  match ls with
  | [] => false
  | l :: r => mem_labels l r || has_dup_labels r
  end.

(* ------------------------------------------------------------------ float64 values *)
Inductive fval := FNaN | FInf (neg : bool) | FFin (q : Q).

Definition Qltb (x y : Q) : bool := negb (Qle_bool y x).
Definition is_nan (a : fval) : bool := match a with FNaN => true | _ => false end.
Definition is_inf (a : fval) : bool := match a with FInf _ => true | _ => false end.
Definition is_fin (a : fval) : bool := match a with FFin _ => true | _ => false end.
Definition fz (z : Z) : fval := FFin (inject_Z z).
Definition f0 : fval := FFin 0.
Definition f1 : fval := FFin 1.

(* IEEE comparison; None = unordered (a NaN is involved) *)
Definition fcmp (a b : fval) : option comparison :=
  match a, b with
  | FNaN, _ | _, FNaN => None
  | FInf true, FInf true => Some Eq
  | FInf false, FInf false => Some Eq
  | FInf true, _ => Some Lt
  | _, FInf true => Some Gt
  | FInf false, _ => Some Gt
  | _, FInf false => Some Lt
  | FFin x, FFin y => Some (x ?= y)%Q
  end.
Definition flt (a b : fval) : bool := match fcmp a b with Some Lt => true | _ => false end.
Definition fgt (a b : fval) : bool := match fcmp a b with Some Gt => true | _ => false end.
Definition feq (a b : fval) : bool := match fcmp a b with Some Eq => true | _ => false end.
Definition fle (a b : fval) : bool := match fcmp a b with Some Lt | Some Eq => true | _ => false end.
Definition fge (a b : fval) : bool := match fcmp a b with Some Gt | Some Eq => true | _ => false end.

Definition fneg (a : fval) : fval :=
  match a with FNaN => FNaN | FInf s => FInf (negb s) | FFin q => FFin (- q) end.
Definition fabs (a : fval) : fval :=
  match a with FNaN => FNaN | FInf _ => FInf false | FFin q => FFin (Qabs q) end.

(* math.Floor of a rational, and truncation toward zero (int64(f), math.Trunc) *)
Definition qfloor (q : Q) : Z := Qnum q / Z.pos (Qden q).
Definition qtrunc (q : Q) : Z := Z.quot (Qnum q) (Z.pos (Qden q)).

Section Model.
(* float64 overflow oracle: [ovf q] = the finite exact result q is beyond +-MaxFloat64 *)
Variable ovf : Q -> bool.
(* strconv.FormatFloat(f, 'f', -1, 64) *)
Variable fmt : fval -> str.

(* Qred only normalises the representation (Qred q == q): without it the denominators of the
   Welford recurrence double in size at every step *)
Definition rnd (q : Q) : fval := if ovf q then FInf (Qltb q 0) else FFin (Qred q).

Definition fadd (a b : fval) : fval :=
  match a, b with
  | FNaN, _ | _, FNaN => FNaN
  | FInf s, FInf t => if Bool.eqb s t then FInf s else FNaN
  | FInf s, FFin _ => FInf s
  | FFin _, FInf t => FInf t
  | FFin x, FFin y => rnd (x + y)
  end.
Definition fsub (a b : fval) : fval := fadd a (fneg b).
Definition fmul (a b : fval) : fval :=
  match a, b with
  | FNaN, _ | _, FNaN => FNaN
  | FInf s, FInf t => FInf (xorb s t)
  | FInf s, FFin y => if Qeq_bool y 0 then FNaN else FInf (xorb s (Qltb y 0))
  | FFin x, FInf t => if Qeq_bool x 0 then FNaN else FInf (xorb t (Qltb x 0))
  | FFin x, FFin y => rnd (x * y)
  end.
Definition fdiv (a b : fval) : fval :=
  match a, b with
  | FNaN, _ | _, FNaN => FNaN
  | FInf _, FInf _ => FNaN
  | FInf s, FFin y => FInf (xorb s (Qltb y 0))
  | FFin _, FInf _ => f0
  | FFin x, FFin y =>
      if Qeq_bool y 0 then (if Qeq_bool x 0 then FNaN else FInf (Qltb x 0))
      else rnd (x / y)
  end.
(* math.Mod *)
Definition fmod (a b : fval) : fval :=
  match a, b with
  | FNaN, _ | _, FNaN => FNaN
  | FInf _, _ => FNaN
  | FFin x, FInf _ => FFin x
  | FFin x, FFin y =>
      if Qeq_bool y 0 then FNaN else FFin (x - y * inject_Z (qtrunc (x / y)))
  end.

(* ------------------------------------------------------------------ kahansum.Inc *)
Definition kahan_inc (inc sum c : fval) : fval * fval :=
  let t := fadd sum inc in
  let c' :=
    if is_inf t then f0
    else if fge (fabs sum) (fabs inc) then fadd c (fadd (fsub sum t) inc)
    else fadd c (fadd (fsub inc t) sum) in
  (t, c').

(* ------------------------------------------------------------------ accumulators of
   evaluator.aggregation, one per operator, over the float values of one group in input
   order (first value initialises the group) *)

(* SUM: floatValue, floatKahanC; result floatValue + floatKahanC *)
Definition sum_step (st : fval * fval) (f : fval) : fval * fval := kahan_inc f (fst st) (snd st).
Definition agg_sum (f0' : fval) (rest : list fval) : fval :=
  let st := fold_left sum_step rest (f0', f0) in fadd (fst st) (snd st).

(* AVG: direct Kahan sum until it would overflow, then incremental mean *)
Record avgst := mkAvg { a_val : fval; a_mean : fval; a_c : fval; a_cnt : Z; a_incr : bool }.
Definition avg_init (f : fval) : avgst := mkAvg f f f0 1 false.
Definition avg_step (st : avgst) (f : fval) : avgst :=
  let cnt := a_cnt st + 1 in
  let direct :=
    if a_incr st then None
    else let nv := kahan_inc f (a_val st) (a_c st) in
         if is_inf (fst nv) then None else Some nv in
  match direct with
  | Some nv => mkAvg (fst nv) (a_mean st) (snd nv) cnt false
  | None =>
      let mean0 := if a_incr st then a_mean st else fdiv (a_val st) (fz (cnt - 1)) in
      let c0 := if a_incr st then a_c st else fdiv (a_c st) (fz (cnt - 1)) in
      let q := fdiv (fz (cnt - 1)) (fz cnt) in
      let r := kahan_inc (fdiv f (fz cnt)) (fmul q mean0) (fmul q c0) in
      mkAvg (a_val st) (fst r) (snd r) cnt true
  end.
Definition avg_final (st : avgst) : fval :=
  if a_incr st then fadd (a_mean st) (a_c st)
  else fadd (fdiv (a_val st) (fz (a_cnt st))) (fdiv (a_c st) (fz (a_cnt st))).
Definition agg_avg (f0' : fval) (rest : list fval) : fval :=
  avg_final (fold_left avg_step rest (avg_init f0')).

(* MAX / MIN: `if group.floatValue < f || math.IsNaN(group.floatValue)` *)
Definition max_step (cur f : fval) : fval := if flt cur f || is_nan cur then f else cur.
Definition min_step (cur f : fval) : fval := if fgt cur f || is_nan cur then f else cur.
Definition agg_max (f0' : fval) (rest : list fval) : fval := fold_left max_step rest f0'.
Definition agg_min (f0' : fval) (rest : list fval) : fval := fold_left min_step rest f0'.

(* STDVAR: Welford; (count, mean, M2) *)
Record varst := mkVar { v_cnt : Z; v_mean : fval; v_m2 : fval }.
Definition var_init (f : fval) : varst :=
  mkVar 1 f (if is_nan f || is_inf f then FNaN else f0).
Definition var_step (st : varst) (f : fval) : varst :=
  let cnt := v_cnt st + 1 in
  let delta := fsub f (v_mean st) in
  let mean := fadd (v_mean st) (fdiv delta (fz cnt)) in
  mkVar cnt mean (fadd (v_m2 st) (fmul delta (fsub f mean))).
Definition agg_stdvar (f0' : fval) (rest : list fval) : fval :=
  let st := fold_left var_step rest (var_init f0') in fdiv (v_m2 st) (fz (v_cnt st)).

(* vectorByValueHeap.Less: NaN first, then ascending; quantile() sorts with it *)
Definition heap_less (a b : fval) : bool := is_nan a || flt a b.
Fixpoint insert_by (less : fval -> fval -> bool) (x : fval) (l : list fval) : list fval :=
  match l with
  | [] => [x]
  | y :: r => if less y x || negb (less x y) then y :: insert_by less x r else x :: y :: r
  end.
Definition sort_by (less : fval -> fval -> bool) (l : list fval) : list fval :=
  fold_left (fun acc x => insert_by less x acc) l [].

(* promql/quantile.go quantile(q, values) BEFORE fix 023c7e876c: interpolates even when the
   weight is 0, so an infinite upper neighbour yields Inf*0 = NaN (kept for
   C29_quantile_rank_old_refuted) *)
Definition quantile_old (q : fval) (vals : list fval) : fval :=
  match vals, q with
  | [], _ => FNaN
  | _, FNaN => FNaN
  | _, FInf true => FInf true
  | _, FInf false => FInf false
  | _, FFin qq =>
      if Qltb qq 0 then FInf true
      else if Qltb 1 qq then FInf false
      else
        let s := sort_by heap_less vals in
        let n := Z.of_nat (length vals) in
        let rank := (qq * inject_Z (n - 1))%Q in
        let lower := Z.max 0 (qfloor rank) in
        let upper := Z.min (n - 1) (lower + 1) in
        let weight := (rank - inject_Z (qfloor rank))%Q in
        fadd (fmul (nth (Z.to_nat lower) s FNaN) (FFin (1 - weight)))
             (fmul (nth (Z.to_nat upper) s FNaN) (FFin weight))
  end.

(* promql/quantile.go quantile(q, values): `if weight == 0 { return values[lowerIndex].F }` *)
Definition quantile (q : fval) (vals : list fval) : fval :=
  match vals, q with
  | [], _ => FNaN
  | _, FNaN => FNaN
  | _, FInf true => FInf true
  | _, FInf false => FInf false
  | _, FFin qq =>
      if Qltb qq 0 then FInf true
      else if Qltb 1 qq then FInf false
      else
        let s := sort_by heap_less vals in
        let n := Z.of_nat (length vals) in
        let rank := (qq * inject_Z (n - 1))%Q in
        let lower := Z.max 0 (qfloor rank) in
        let upper := Z.min (n - 1) (lower + 1) in
        let weight := (rank - inject_Z (qfloor rank))%Q in
        if Qeq_bool weight 0 then nth (Z.to_nat lower) s FNaN
        else fadd (fmul (nth (Z.to_nat lower) s FNaN) (FFin (1 - weight)))
                  (fmul (nth (Z.to_nat upper) s FNaN) (FFin weight))
  end.

Inductive aggop :=
  ASum | AAvg | AMin | AMax | ACount | AGroup | AStdvar | AStddev | AQuantile
  | ATopk | ABottomk | ALimitk | ACountValues.

(* value of one group for the simple aggregations; STDDEV yields the variance (the square
   root is irrational: the correspondence squares the observed value instead) *)
Definition agg_value (op : aggop) (param : fval) (vals : list fval) : fval :=
  match vals with
  | [] => FNaN
  | v :: rest =>
      match op with
      | ASum => agg_sum v rest
      | AAvg => agg_avg v rest
      | AMin => agg_min v rest
      | AMax => agg_max v rest
      | ACount => fz (Z.of_nat (length vals))
      | AGroup => f1
      | AStdvar | AStddev => agg_stdvar v rest
      | AQuantile => quantile param vals
      | _ => FNaN
      end
  end.

(* ------------------------------------------------------------------ grouping *)
Definition sample := (labels * fval)%type.

(* generateGroupingKey (the label set that is hashed) and generateGroupingLabels: both are
   the projection of the metric: `without` removes the grouping labels and __name__, `by`
   keeps exactly the grouping labels *)
Definition group_key (without : bool) (grouping : list str) (m : labels) : labels :=
  if without then ldel (name_lbl :: grouping) m else lkeep grouping m.

(* rangeEvalAgg: groupToResultIndex / seriesToResult — groups in order of first occurrence *)
Fixpoint add_to_group {A} (acc : list (labels * list A)) (k : labels) (s : A) : list (labels * list A) :=
  match acc with
  | [] => [(k, [s])]
  | (k', m) :: r => if labels_eqb k k' then (k', m ++ [s]) :: r else (k', m) :: add_to_group r k s
  end.
Definition groups_of {A} (key : A -> labels) (v : list A) : list (labels * list A) :=
  fold_left (fun acc s => add_to_group acc (key s) s) v [].

(* ------------------------------------------------------------------ errors and results *)
Inductive err :=
  | ErrDupRight        (* found duplicate series ... on the right hand-side; many-to-many not allowed *)
  | ErrDupLeft         (* ... on the left hand-side *)
  | ErrManyToOne       (* multiple matches for labels: many-to-one matching must be explicit *)
  | ErrGroupUnique     (* multiple matches for labels: grouping labels must ensure unique matches *)
  | ErrSameLabelset    (* vector cannot contain metrics with the same labelset *)
  | ErrParamNaN        (* Parameter value is NaN *)
  | ErrParamOverflow   (* Scalar value ... overflows int64 *)
  | ErrOther.
Definition err_eqb (a b : err) : bool :=
  match a, b with
  | ErrDupRight, ErrDupRight | ErrDupLeft, ErrDupLeft | ErrManyToOne, ErrManyToOne
  | ErrGroupUnique, ErrGroupUnique | ErrSameLabelset, ErrSameLabelset
  | ErrParamNaN, ErrParamNaN | ErrParamOverflow, ErrParamOverflow | ErrOther, ErrOther => true
  | _, _ => false
  end.
Inductive result := RErr (e : err) | RVec (v : list sample).

(* rangeEval, instant query: `result.ContainsSameLabelset()` *)
Definition check_same (v : list sample) : result :=
  if has_dup_labels (map fst v) then RErr ErrSameLabelset else RVec v.

(* ------------------------------------------------------------------ topk / bottomk / limitk
   (aggregationK).  The binary heap is abstracted to a list from which heap[0] — a minimum
   under Less — is taken: the model takes the FIRST minimal element.  Which of several equal
   elements the real heap evicts is not determined by the model (ties: refinement). *)
Definition topk_less (a b : fval) : bool := is_nan a || flt a b.    (* vectorByValueHeap.Less *)
Definition botk_less (a b : fval) : bool := is_nan a || fgt a b.    (* vectorByReverseValueHeap.Less *)

(* index of the first element that no other element is strictly below *)
Fixpoint min_index (less : fval -> fval -> bool) (best : nat) (bv : fval) (i : nat) (l : list sample) : nat :=
  match l with
  | [] => best
  | s :: r => if less (snd s) bv && negb (less bv (snd s)) then min_index less i (snd s) (S i) r
              else min_index less best bv (S i) r
  end.
Fixpoint replace_nth {A} (n : nat) (x : A) (l : list A) : list A :=
  match l, n with
  | [], _ => []
  | _ :: r, O => x :: r
  | y :: r, S n' => y :: replace_nth n' x r
  end.

(* one step of the series loop for TOPK (top = true) or BOTTOMK *)
Definition k_step (top : bool) (k : Z) (heap : list sample) (s : sample) : list sample :=
  let less := if top then topk_less else botk_less in
  if Z.of_nat (length heap) <? k then heap ++ [s]
  else match heap with
       | [] => heap
       | h0 :: r =>
           let mi := min_index less O (snd h0) 1%nat r in
           let m := snd (nth mi heap h0) in
           let better := if top then flt m (snd s) else fgt m (snd s) in
           if better || (is_nan m && negb (is_nan (snd s))) then replace_nth mi s heap else heap
       end.

(* sort.Sort(sort.Reverse(heap)): descending for topk, ascending for bottomk, NaN last; the
   model sorts stably *)
Fixpoint insert_sample (before : fval -> fval -> bool) (x : sample) (l : list sample) : list sample :=
  match l with
  | [] => [x]
  | y :: r => if before (snd x) (snd y) && negb (before (snd y) (snd x)) then x :: y :: r
              else y :: insert_sample before x r
  end.
Definition sort_samples (before : fval -> fval -> bool) (l : list sample) : list sample :=
  fold_right (insert_sample before) [] l.
(* [before a b]: a must come before b in the output *)
Definition topk_before (a b : fval) : bool := negb (is_nan a) && (is_nan b || fgt a b).
Definition botk_before (a b : fval) : bool := negb (is_nan a) && (is_nan b || flt a b).

Definition k_group (op : aggop) (k : Z) (members : list sample) : list sample :=
  match op with
  | ATopk => sort_samples topk_before (fold_left (k_step true k) members [])
  | ABottomk => sort_samples botk_before (fold_left (k_step false k) members [])
  | _ => firstn (Z.to_nat k) members      (* LIMITK: the first k of the group *)
  end.

(* rangeEvalAgg + aggregationK parameter handling *)
Definition max_int64_q : Q := inject_Z 9223372036854775807.
Definition agg_k (op : aggop) (without : bool) (grouping : list str) (param : fval) (v : list sample) : result :=
  match param with
  | FNaN => RErr ErrParamNaN
  | FInf true => RVec []
  | FInf false => RErr ErrParamOverflow
  | FFin p =>
      if Qltb p 1 then RVec []
      else if Qle_bool max_int64_q p then RErr ErrParamOverflow
      else
        let k := Z.min (qtrunc p) (Z.of_nat (length v)) in
        if k <? 1 then RVec []
        else RVec (flat_map (fun g => k_group op k (snd g))
                            (groups_of (fun s : sample => group_key without grouping (fst s)) v))
  end.

(* aggregationCountValues; the result map is iterated in random order: the correspondence
   compares as a set.  For `by` the value label joins the grouping (eval). *)
Definition agg_count_values (without : bool) (grouping : list str) (vlabel : str) (v : list sample) : result :=
  let grouping' := if without then grouping else vlabel :: grouping in
  let withv := map (fun s : sample => lset vlabel (fmt (snd s)) (fst s)) v in
  let gs := groups_of (fun m : labels => group_key without grouping' m) withv in
  check_same (map (fun g => (fst g, fz (Z.of_nat (length (snd g))))) gs).

Definition agg_simple (op : aggop) (without : bool) (grouping : list str) (param : fval) (v : list sample) : result :=
  RVec (map (fun g => (fst g, agg_value op param (map snd (snd g))))
            (groups_of (fun s : sample => group_key without grouping (fst s)) v)).

Definition eval_agg (op : aggop) (without : bool) (grouping : list str) (param : fval) (vlabel : str)
           (v : list sample) : result :=
  match op with
  | ATopk | ABottomk | ALimitk => agg_k op without grouping param v
  | ACountValues => agg_count_values without grouping vlabel v
  | _ => agg_simple op without grouping param v
  end.

(* ------------------------------------------------------------------ binary operators *)
Inductive bop := OAdd | OSub | OMul | ODiv | OMod | OEq | ONe | OGt | OLt | OGe | OLe.
Definition is_cmp (op : bop) : bool :=
  match op with OEq | ONe | OGt | OLt | OGe | OLe => true | _ => false end.
(* changesMetricSchema *)
Definition changes_schema (op : bop) : bool := negb (is_cmp op).

(* vectorElemBinop, float/float: (value, keep) *)
Definition elem_binop (op : bop) (l r : fval) : fval * bool :=
  match op with
  | OAdd => (fadd l r, true)
  | OSub => (fsub l r, true)
  | OMul => (fmul l r, true)
  | ODiv => (fdiv l r, true)
  | OMod => (fmod l r, true)
  | OEq => (l, feq l r)
  | ONe => (l, negb (feq l r))
  | OGt => (l, fgt l r)
  | OLt => (l, flt l r)
  | OGe => (l, fge l r)
  | OLe => (l, fle l r)
  end.

Inductive card := OneToOne | ManyToOne | OneToMany.
Record matching := mkMatching {
  m_card : card; m_on : bool; m_labels : list str; m_include : list str;
  m_fill_l : option fval; m_fill_r : option fval }.

(* the join signature of rangeEval (sigf) and Labels.MatchLabels: same projection *)
Definition signature (on : bool) (names : list str) (m : labels) : labels :=
  if on then lkeep names m else ldel (name_lbl :: names) m.

(* resultMetric *)
Definition result_metric (lhs rhs : labels) (op : bop) (m : matching) (drop_name : bool) : labels :=
  let lb := if drop_name || changes_schema op then ldel metadata_lbls lhs else lhs in
  let lb := match m_card m with
            | OneToOne => if m_on m then lkeep (m_labels m) lb else ldel (m_labels m) lb
            | _ => lb
            end in
  fold_left (fun acc ln => lset ln (lget ln rhs) acc) (m_include m) lb.

(* state of the VectorBinop loops *)
Record bst := mkBst {
  b_out : list sample;                         (* enh.Out *)
  b_matched1 : list labels;                    (* matchedSigsPresent (one-to-one) *)
  b_matchedN : list (labels * list labels) }.  (* matchedSigs: signature -> result metrics *)

Fixpoint assoc_labels {A} (k : labels) (l : list (labels * A)) : option A :=
  match l with
  | [] => None
  | (k', a) :: r => if labels_eqb k k' then Some a else assoc_labels k r
  end.
Fixpoint assoc_add (k m : labels) (l : list (labels * list labels)) : list (labels * list labels) :=
  match l with
  | [] => [(k, [m])]
  | (k', ms) :: r => if labels_eqb k k' then (k', m :: ms) :: r else (k', ms) :: assoc_add k m r
  end.

(* doBinOp; [swapped] = matching.Card == CardOneToMany *)
Definition do_binop (op : bop) (ret_bool : bool) (m : matching) (st : bst) (ls rs : sample) (sig : labels)
  : err + bst :=
  let swapped := match m_card m with OneToMany => true | _ => false end in
  let fl := if swapped then snd rs else snd ls in
  let fr := if swapped then snd ls else snd rs in
  let vk := elem_binop op fl fr in
  let value := if ret_bool then (if snd vk then f1 else f0) else fst vk in
  let metric := result_metric (fst ls) (fst rs) op m ret_bool in
  let chk : err + bst :=
    match m_card m with
    | OneToOne =>
        if mem_labels sig (b_matched1 st) then inl ErrManyToOne
        else inr (mkBst (b_out st) (sig :: b_matched1 st) (b_matchedN st))
    | _ =>
        let seen := match assoc_labels sig (b_matchedN st) with Some ms => ms | None => [] end in
        if mem_labels metric seen then inl ErrGroupUnique
        else inr (mkBst (b_out st) (b_matched1 st) (assoc_add sig metric (b_matchedN st)))
    end in
  match chk with
  | inl e => inl e
  | inr st' =>
      if negb (snd vk) && negb ret_bool then inr st'
      else inr (mkBst (b_out st' ++ [(metric, value)]) (b_matched1 st') (b_matchedN st'))
  end.

(* the rightSigs map: error on a second series with the same signature *)
Fixpoint build_right (sigf : labels -> labels) (rhs : list sample) (acc : list (labels * sample))
  : option (list (labels * sample)) :=
  match rhs with
  | [] => Some acc
  | rs :: r =>
      let sg := sigf (fst rs) in
      match assoc_labels sg acc with
      | Some _ => None
      | None => build_right sigf r (acc ++ [(sg, rs)])
      end
  end.

Fixpoint lhs_loop (op : bop) (ret_bool : bool) (m : matching) (sigf : labels -> labels)
         (rmap : list (labels * sample)) (fill : option fval) (lhs : list sample) (st : bst) : err + bst :=
  match lhs with
  | [] => inr st
  | ls :: r =>
      let sg := sigf (fst ls) in
      let ors := match assoc_labels sg rmap with
                 | Some rs => Some rs
                 | None => match fill with
                           | Some fv => Some (sigf (fst ls), fv)
                           | None => None
                           end
                 end in
      match ors with
      | None => lhs_loop op ret_bool m sigf rmap fill r st
      | Some rs =>
          match do_binop op ret_bool m st ls rs sg with
          | inl e => inl e
          | inr st' => lhs_loop op ret_bool m sigf rmap fill r st'
          end
      end
  end.

Fixpoint rhs_fill_loop (op : bop) (ret_bool : bool) (m : matching) (sigf : labels -> labels)
         (fill : fval) (rhs : list sample) (st : bst) : err + bst :=
  match rhs with
  | [] => inr st
  | rs :: r =>
      let sg := sigf (fst rs) in
      let matched := match m_card m with
                     | OneToOne => mem_labels sg (b_matched1 st)
                     | _ => match assoc_labels sg (b_matchedN st) with
                            | Some (_ :: _) => true | _ => false end
                     end in
      if matched then rhs_fill_loop op ret_bool m sigf fill r st
      else match do_binop op ret_bool m st (sigf (fst rs), fill) rs sg with
           | inl e => inl e
           | inr st' => rhs_fill_loop op ret_bool m sigf fill r st'
           end
  end.

(* VectorBinop followed by rangeEval's same-labelset check.  After the swap for one-to-many
   the code keeps using matching.FillValues.RHS for an unmatched element of the (swapped)
   left list and FillValues.LHS for the second loop: with group_right the two fill values
   act on the opposite sides (see C29_fill_group_right_refuted). *)
Definition vector_binop (op : bop) (ret_bool : bool) (m : matching) (lhs rhs : list sample) : result :=
  let nofill := match m_fill_l m, m_fill_r m with None, None => true | _, _ => false end in
  let el := match lhs with [] => true | _ => false end in
  let er := match rhs with [] => true | _ => false end in
  if (el && er) || ((el || er) && nofill) then RVec []
  else
    let swapped := match m_card m with OneToMany => true | _ => false end in
    let lhs' := if swapped then rhs else lhs in
    let rhs' := if swapped then lhs else rhs in
    let sigf := signature (m_on m) (m_labels m) in
    match build_right sigf rhs' [] with
    | None => RErr (if swapped then ErrDupLeft else ErrDupRight)
    | Some rmap =>
        match lhs_loop op ret_bool m sigf rmap (m_fill_r m) lhs' (mkBst [] [] []) with
        | inl e => RErr e
        | inr st =>
            match m_fill_l m with
            | None => check_same (b_out st)
            | Some fv =>
                match rhs_fill_loop op ret_bool m sigf fv rhs' st with
                | inl e => RErr e
                | inr st' => check_same (b_out st')
                end
            end
        end
    end.

(* VectorscalarBinop; [swap] = the scalar is the left operand *)
Definition vector_scalar_binop (op : bop) (ret_bool swap : bool) (sc : fval) (v : list sample) : result :=
  check_same
    (flat_map (fun s : sample =>
       let lf := if swap then sc else snd s in
       let rf := if swap then snd s else sc in
       let vk := elem_binop op lf rf in
       let value := if is_cmp op && swap then rf else fst vk in
       let value := if ret_bool then (if snd vk then f1 else f0) else value in
       if snd vk || ret_bool then
         [((if changes_schema op || ret_bool then ldel metadata_lbls (fst s) else fst s), value)]
       else []) v).

(* VectorAnd / VectorOr / VectorUnless with their short-circuits *)
Inductive setop := SAnd | SOr | SUnless.
Definition vector_set (op : setop) (on : bool) (names : list str) (lhs rhs : list sample) : result :=
  let sigf := signature on names in
  let lsigs := map (fun s : sample => sigf (fst s)) lhs in
  let rsigs := map (fun s : sample => sigf (fst s)) rhs in
  check_same
    match op with
    | SAnd => match lhs, rhs with
              | [], _ | _, [] => []
              | _, _ => filter (fun s : sample => mem_labels (sigf (fst s)) rsigs) lhs
              end
    | SOr => match lhs, rhs with
             | [], _ => rhs
             | _, [] => lhs
             | _, _ => lhs ++ filter (fun s : sample => negb (mem_labels (sigf (fst s)) lsigs)) rhs
             end
    | SUnless => match lhs, rhs with
                 | [], _ | _, [] => lhs
                 | _, _ => filter (fun s : sample => negb (mem_labels (sigf (fst s)) rsigs)) lhs
                 end
    end.

(* ------------------------------------------------------------------ expressions *)
Inductive expr :=
  | EAgg (op : aggop) (without : bool) (grouping : list str) (param : fval) (vlabel : str)
  | EBin (op : bop) (ret_bool : bool) (m : matching)
  | ESet (op : setop) (on : bool) (names : list str)
  | EVS (op : bop) (ret_bool : bool) (swap : bool) (sc : fval).

Definition eval (e : expr) (lhs rhs : list sample) : result :=
  match e with
  | EAgg op without grouping param vlabel => eval_agg op without grouping param vlabel lhs
  | EBin op rb m => vector_binop op rb m lhs rhs
  | ESet op on names => vector_set op on names lhs rhs
  | EVS op rb swap sc => vector_scalar_binop op rb swap sc lhs
  end.

End Model.

(* ================================================================== documented semantics
   (docs/querying/operators.md), written independently of the engine's algorithms.  Used by
   the theorems (model = spec) and by `holds` (implementation output vs spec). *)

(* exact sum / mean / population variance of finite values *)
Definition qsum (l : list Q) : Q := fold_right Qplus 0%Q l.
Definition qlen (l : list Q) : Q := inject_Z (Z.of_nat (length l)).
Definition qmean (l : list Q) : Q := (qsum l / qlen l)%Q.
Definition qvar (l : list Q) : Q :=
  (qsum (map (fun x => (x - qmean l) * (x - qmean l))%Q l) / qlen l)%Q.

Definition fins (l : list fval) : list Q :=
  flat_map (fun v => match v with FFin q => [q] | _ => [] end) l.
Definition any_nan (l : list fval) : bool := existsb is_nan l.
Definition any_pinf (l : list fval) : bool := existsb (fun v => match v with FInf false => true | _ => false end) l.
Definition any_ninf (l : list fval) : bool := existsb (fun v => match v with FInf true => true | _ => false end) l.

(* documented sum / avg: IEEE semantics of adding the values: NaN if a NaN or both
   infinities occur, the infinity if one occurs, else the exact sum (mean) *)
Definition spec_sum_like (fin : list Q -> Q) (l : list fval) : fval :=
  if any_nan l || (any_pinf l && any_ninf l) then FNaN
  else if any_pinf l then FInf false
  else if any_ninf l then FInf true
  else FFin (fin (fins l)).

(* documented max (min): the largest (smallest) non-NaN value; NaN only if all are NaN *)
Definition spec_extreme (better : fval -> fval -> bool) (l : list fval) : fval :=
  fold_right (fun v acc => if is_nan acc then v else if is_nan v then acc
                           else if better v acc then v else acc) FNaN l.

Definition spec_stdvar (l : list fval) : fval :=
  if forallb is_fin l then FFin (qvar (fins l)) else FNaN.

(* documented order of topk (NaN lowest) and bottomk (NaN highest): [a] is at least as
   good as [b] *)
Definition topk_ge (a b : fval) : bool := is_nan b || (negb (is_nan a) && fge a b).
Definition botk_ge (a b : fval) : bool := is_nan b || (negb (is_nan a) && fle a b).

(* the distinct label sets of a list in order of first occurrence *)
Definition uniq_keys (ks : list labels) : list labels :=
  fold_left (fun acc k => if mem_labels k acc then acc else acc ++ [k]) ks [].

(* documented set operators *)
Definition spec_set (op : setop) (on : bool) (names : list str) (lhs rhs : list sample) : list sample :=
  let sigf := signature on names in
  let inl' (s : sample) := existsb (fun t : sample => labels_eqb (sigf (fst s)) (sigf (fst t))) lhs in
  let inr' (s : sample) := existsb (fun t : sample => labels_eqb (sigf (fst s)) (sigf (fst t))) rhs in
  match op with
  | SAnd => filter inr' lhs
  | SOr => lhs ++ filter (fun s => negb (inl' s)) rhs
  | SUnless => filter (fun s => negb (inr' s)) lhs
  end.

(* ---- binary operators: matched pairs as documented (fill_left fills a missing LEFT operand,
   fill_right a missing RIGHT operand, whatever the grouping modifier) *)
Definition has_sig (sigf : labels -> labels) (sg : labels) (v : list sample) : bool :=
  existsb (fun t : sample => labels_eqb (sigf (fst t)) sg) v.

Definition spec_pairs (m : matching) (lhs rhs : list sample) : list (sample * sample) :=
  let sigf := signature (m_on m) (m_labels m) in
  flat_map (fun l : sample =>
      map (fun r => (l, r)) (filter (fun r : sample => labels_eqb (sigf (fst l)) (sigf (fst r))) rhs)) lhs
  ++ match m_fill_r m with
     | Some fv => flat_map (fun l : sample => if has_sig sigf (sigf (fst l)) rhs then []
                                              else [(l, (sigf (fst l), fv))]) lhs
     | None => []
     end
  ++ match m_fill_l m with
     | Some fv => flat_map (fun r : sample => if has_sig sigf (sigf (fst r)) lhs then []
                                              else [((sigf (fst r), fv), r)]) rhs
     | None => []
     end.

(* documented result labels and value of one matched pair: (signature, labels, value, keep) *)
Definition spec_pair_out (ovf : Q -> bool) (op : bop) (rb : bool) (m : matching) (p : sample * sample)
  : labels * labels * fval * bool :=
  let sigf := signature (m_on m) (m_labels m) in
  let l := fst p in let r := snd p in
  let many := match m_card m with OneToMany => r | _ => l end in
  let one := match m_card m with OneToMany => l | _ => r end in
  let vk := elem_binop ovf op (snd l) (snd r) in
  (sigf (fst l), result_metric (fst many) (fst one) op m rb,
   (if rb then (if snd vk then f1 else f0) else fst vk), snd vk || rb).

(* the documented result vector of a vector/vector operator when no matching error occurs *)
Definition spec_binop_out (ovf : Q -> bool) (op : bop) (rb : bool) (m : matching) (lhs rhs : list sample)
  : list sample :=
  flat_map (fun x : labels * labels * fval * bool =>
              if snd x then [(snd (fst (fst x)), snd (fst x))] else [])
           (map (spec_pair_out ovf op rb m) (spec_pairs m lhs rhs)).

(* vector/scalar: every element on its own; comparison filters (keeping the vector's value),
   bool yields 0/1, arithmetic and bool drop the metric name *)
Definition spec_vs (ovf : Q -> bool) (op : bop) (rb swap : bool) (sc : fval) (v : list sample) : list sample :=
  flat_map (fun s : sample =>
    let a := if swap then sc else snd s in
    let b := if swap then snd s else sc in
    let vk := elem_binop ovf op a b in
    if is_cmp op then
      (if rb then [(ldel metadata_lbls (fst s), if snd vk then f1 else f0)]
       else if snd vk then [(fst s, snd s)] else [])
    else [(ldel metadata_lbls (fst s), fst vk)]) v.


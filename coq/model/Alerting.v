(* model/Alerting.v — executable model of the alert state machine of /repo/rules:
     AlertingRule.Eval            (rules/alerting.go)
     AlertingRule.sendAlerts      (rules/alerting.go; needsSending, LastSentAt, ValidUntil)
     Group.RestoreForState        (rules/group.go)
     Group.CopyState on a reload  (rules/group.go; only "the active map is carried over to the
                                   rule with the new hold / keep_firing_for durations")
   Definitions only; proofs are in proof/AlertingProofs.v.

   Conventions.
   * A time.Time is its Unix time in NANOSECONDS as a Z; the Go zero value time.Time{} (tested
     by IsZero) is [None] in the optional fields FiredAt/ResolvedAt/KeepFiringSince/LastSentAt/
     ValidUntil. Evaluation timestamps are assumed not to be the zero time and all time
     differences are assumed to fit a time.Duration (time.Sub saturates otherwise).
   * Durations are nanoseconds (time.Duration).
   * An alert instance is identified by a key (Z) standing for its label set (the map key
     Labels.Hash() in Go; hash collisions are not modelled). The Go map r.active is an
     association list sorted by key.
   * Values (float64) are opaque Z (the harness prints the bit pattern); Eval only copies them. *)
From Coq Require Import List ZArith Bool.
Import ListNotations.
Open Scope Z_scope.

Inductive astate := Inactive | Pending | Firing.

Definition astate_eqb (a b : astate) : bool :=
  match a, b with Inactive, Inactive | Pending, Pending | Firing, Firing => true | _, _ => false end.

Record alert := mkAlert {
  a_state : astate;
  a_value : Z;
  a_activeAt : Z;
  a_firedAt : option Z;
  a_resolvedAt : option Z;
  a_keepSince : option Z;
  a_lastSent : option Z;
  a_validUntil : option Z }.

(* the fields of the rule that matter *)
Record cfg := mkCfg { c_hold : Z; c_kff : Z; c_restored : bool }.

Definition amap := list (Z * alert).

(* const resolvedRetention = 15 * time.Minute *)
Definition resolvedRetention : Z := 900000000000.

(* ---------- sorted association lists ---------- *)
Fixpoint lookup {A} (k : Z) (m : list (Z * A)) : option A :=
  match m with
  | [] => None
  | (k', v) :: r => if k =? k' then Some v else lookup k r
  end.

Fixpoint upsert {A} (k : Z) (v : A) (m : list (Z * A)) : list (Z * A) :=
  match m with
  | [] => [(k, v)]
  | (k', v') :: r =>
      if k <? k' then (k, v) :: m
      else if k =? k' then (k, v) :: r
      else (k', v') :: upsert k v r
  end.

Fixpoint memZ (k : Z) (l : list Z) : bool :=
  match l with [] => false | x :: r => (k =? x) || memZ k r end.

Fixpoint has_dup (l : list Z) : bool :=
  match l with [] => false | x :: r => memZ x r || has_dup r end.

(* ---------- AlertingRule.Eval ---------- *)

(* alerts[h] = &Alert{Labels, Annotations, ActiveAt: ts, State: StatePending, Value: smpl.F} *)
Definition new_alert (ts v : Z) : alert := mkAlert Pending v ts None None None None None.

Definition set_value (a : alert) (v : Z) : alert :=
  mkAlert (a_state a) v (a_activeAt a) (a_firedAt a) (a_resolvedAt a) (a_keepSince a) (a_lastSent a) (a_validUntil a).
Definition set_keepSince (a : alert) (k : option Z) : alert :=
  mkAlert (a_state a) (a_value a) (a_activeAt a) (a_firedAt a) (a_resolvedAt a) k (a_lastSent a) (a_validUntil a).
Definition set_activeAt (a : alert) (t : Z) : alert :=
  mkAlert (a_state a) (a_value a) t (a_firedAt a) (a_resolvedAt a) (a_keepSince a) (a_lastSent a) (a_validUntil a).
(* a.State = StateInactive; a.ResolvedAt = ts *)
Definition resolve (a : alert) (ts : Z) : alert :=
  mkAlert Inactive (a_value a) (a_activeAt a) (a_firedAt a) (Some ts) (a_keepSince a) (a_lastSent a) (a_validUntil a).
(* a.State = StateFiring; a.FiredAt = ts *)
Definition fire (a : alert) (ts : Z) : alert :=
  mkAlert Firing (a_value a) (a_activeAt a) (Some ts) (a_resolvedAt a) (a_keepSince a) (a_lastSent a) (a_validUntil a).
(* a.State = StatePending; FiredAt, LastSentAt, KeepFiringSince = time.Time{} *)
Definition unfire (a : alert) : alert :=
  mkAlert Pending (a_value a) (a_activeAt a) None (a_resolvedAt a) None None (a_validUntil a).

(* "for h, a := range alerts": an existing, not inactive entry only takes the new value;
   otherwise the entry is (re)created as pending with ActiveAt = ts *)
Definition merge1 (ts : Z) (m : amap) (kv : Z * Z) : amap :=
  let '(k, v) := kv in
  match lookup k m with
  | Some a => if negb (astate_eqb (a_state a) Inactive) then upsert k (set_value a v) m
              else upsert k (new_alert ts v) m
  | None => upsert k (new_alert ts v) m
  end.
Definition merge (ts : Z) (m : amap) (res : list (Z * Z)) : amap := fold_left (merge1 ts) res m.

(* one iteration of "for fp, a := range r.active":
   s_keep  = the entry left in r.active (None = delete(r.active, fp));
   s_count = numActivePending++ reached;
   s_emit  = the alert whose ALERTS / ALERTS_FOR_STATE samples are appended (if restored) *)
Record stepres := mkStep { s_keep : option alert; s_count : bool; s_emit : option alert }.

(* the part after the present/absent branch *)
Definition step_tail (c : cfg) (ts : Z) (deleted : bool) (a : alert) : stepres :=
  let a1 := if astate_eqb (a_state a) Pending && (c_hold c <=? ts - a_activeAt a) then fire a ts else a in
  let a2 := if astate_eqb (a_state a1) Firing && (ts - a_activeAt a1 <? c_hold c) then unfire a1 else a1 in
  mkStep (if deleted then None else Some a2) true (Some a2).

Definition step_alert (c : cfg) (ts : Z) (present : bool) (a : alert) : stepres :=
  if present then
    (* a.KeepFiringSince = time.Time{} *)
    step_tail c ts false (set_keepSince a None)
  else
    let '(a1, keepFiring) :=
      if astate_eqb (a_state a) Firing && (0 <? c_kff c) then
        let ks := match a_keepSince a with None => ts | Some k => k end in
        (set_keepSince a (Some ks), ts - ks <? c_kff c)
      else (a, false) in
    let deleted :=
      astate_eqb (a_state a1) Pending
      || match a_resolvedAt a1 with Some r => resolvedRetention <? ts - r | None => false end in
    let a2 := if negb (astate_eqb (a_state a1) Inactive) && negb keepFiring then resolve a1 ts else a1 in
    if negb keepFiring then mkStep (if deleted then None else Some a2) false None
    else step_tail c ts deleted a2.

(* samples: ALERTS{alertstate} = 1 at T, ALERTS_FOR_STATE = ActiveAt.Unix() at T *)
Inductive sample :=
| SAlerts (key : Z) (st : astate) (tms : Z) (one : Z)
| SFor (key : Z) (tms : Z) (activeAtSec : Z).

(* timestamp.FromTime: floor milliseconds; time.Time.Unix: floor seconds *)
Definition ms_of (ns : Z) : Z := ns / 1000000.
Definition sec_of (ns : Z) : Z := ns / 1000000000.

Definition samples_of (k : Z) (a : alert) (t : Z) : list sample :=
  [SAlerts k (a_state a) (ms_of t) 1; SFor k (ms_of t) (sec_of (a_activeAt a))].

Inductive outcome :=
| EvOk (vec : list sample)
| EvQueryErr            (* the query function failed: nothing changes *)
| EvDup                 (* ErrDuplicateAlertLabelSet: nothing changes *)
| EvLimit.              (* limit exceeded: r.active is emptied *)

Definition steps (c : cfg) (ts : Z) (res : list (Z * Z)) (m : amap) : list (Z * stepres) :=
  map (fun ka => (fst ka, step_alert c ts (memZ (fst ka) (map fst res)) (snd ka))) m.

Definition kept (ss : list (Z * stepres)) : amap :=
  flat_map (fun ks => match s_keep (snd ks) with Some a => [(fst ks, a)] | None => [] end) ss.
Definition counted (ss : list (Z * stepres)) : Z :=
  Z.of_nat (length (filter (fun ks => s_count (snd ks)) ss)).
Definition emitted (t : Z) (ss : list (Z * stepres)) : list sample :=
  flat_map (fun ks => match s_emit (snd ks) with Some a => samples_of (fst ks) a t | None => [] end) ss.

Definition eval (c : cfg) (m : amap) (ts qo limit : Z) (qerr : bool) (res : list (Z * Z)) : amap * outcome :=
  if qerr then (m, EvQueryErr)
  else if has_dup (map fst res) then (m, EvDup)
  else
    let ss := steps c ts res (merge ts m res) in
    if (0 <? limit) && (limit <? counted ss) then ([], EvLimit)
    else (kept ss, EvOk (if c_restored c then emitted (ts - qo) ss else [])).

(* ---------- AlertingRule.sendAlerts ---------- *)
(* time.Time comparisons with the zero value: None is before every real time *)
Definition after (a b : option Z) : bool :=
  match a, b with
  | Some x, Some y => y <? x
  | Some _, None => true
  | None, _ => false
  end.

Definition needs_sending (a : alert) (ts resend : Z) : bool :=
  if astate_eqb (a_state a) Pending then false
  else if after (a_resolvedAt a) (a_lastSent a) then true
  else match a_lastSent a with
       | None => true                      (* year 1 + resendDelay is before ts *)
       | Some l => l + resend <? ts
       end.

Definition mark_sent (a : alert) (ts resend interval : Z) : alert :=
  mkAlert (a_state a) (a_value a) (a_activeAt a) (a_firedAt a) (a_resolvedAt a) (a_keepSince a)
          (Some ts) (Some (ts + 4 * Z.max interval resend)).

Definition send_alerts (m : amap) (ts resend interval : Z) : amap * amap :=
  let m' := map (fun ka => if needs_sending (snd ka) ts resend
                           then (fst ka, mark_sent (snd ka) ts resend interval) else ka) m in
  (m', flat_map (fun ka => if needs_sending (snd ka) ts resend
                           then [(fst ka, mark_sent (snd ka) ts resend interval)] else []) m).

(* ---------- Group.RestoreForState ---------- *)
(* the stored ALERTS_FOR_STATE series of the rule: per key its samples (t in ms, value in
   seconds; None = the stale marker), in time order *)
Definition store := list (Z * list (Z * option Z)).

(* Querier(mintMS, maxtMS): samples within [mint, maxt]; series without such samples are absent *)
Definition in_range (mint maxt : Z) (s : list (Z * option Z)) : list (Z * option Z) :=
  filter (fun tv => (mint <=? fst tv) && (fst tv <=? maxt)) s.
Definition query_store (mint maxt : Z) (st : store) : store :=
  flat_map (fun ks => match in_range mint maxt (snd ks) with [] => [] | s => [(fst ks, s)] end) st.

(* "for it.Next() == ValFloat { t, v = it.At() }" *)
Definition last_sample (s : list (Z * option Z)) : option (Z * option Z) :=
  match rev s with [] => None | x :: _ => Some x end.

Definition sec : Z := 1000000000.

(* the new ActiveAt for a stored last sample (t ms, v s) *)
Definition restored_activeAt (hold grace ts t v : Z) : Z :=
  let downAt := Z.quot t 1000 * sec in           (* time.Unix(t/1000, 0) *)
  let orig := v * sec in                          (* time.Unix(int64(v), 0) *)
  let remaining := hold - (downAt - orig) in
  if remaining <=? 0 then orig
  else if remaining <? grace then ts + grace - hold
  else orig + (ts - downAt).

Definition restore_alert (hold grace ts : Z) (q : store) (ka : Z * alert) : Z * alert :=
  match lookup (fst ka) q with
  | None => ka
  | Some s =>
      match last_sample s with
      | None => ka
      | Some (_, None) => ka                                   (* IsStaleNaN(v) *)
      | Some (t, Some v) => (fst ka, set_activeAt (snd ka) (restored_activeAt hold grace ts t v))
      end
  end.

(* model.TimeFromUnixNano: t / 1e6 with Go's truncating division *)
Definition tms_of_nano (ns : Z) : Z := Z.quot ns 1000000.

Definition restore (c : cfg) (m : amap) (ts tol grace : Z) (st : store) : cfg * amap :=
  let c' := mkCfg (c_hold c) (c_kff c) true in
  if c_hold c <? grace then (c', m)
  else
    let q := query_store (tms_of_nano (ts - tol)) (tms_of_nano ts) st in
    match q with
    | [] => (c', m)
    | _ => (c', map (restore_alert (c_hold c) grace ts q) m)
    end.

(* ---------- histories ---------- *)
Inductive op :=
| OpEval (ts qo limit : Z) (qerr : bool) (res : list (Z * Z))
| OpSend (ts resend interval : Z)
| OpReload (hold kff : Z) (restored : bool)      (* new rule object, CopyState from the old *)
| OpRestart (hold kff : Z)                       (* new process: empty rule, restored = false *)
| OpRestore (ts tol grace : Z) (st : store).

Inductive result :=
| REval (o : outcome)
| RSend (sent : amap)
| RNone.

Definition world := (cfg * amap)%type.

Definition apply (w : world) (o : op) : world * result :=
  let '(c, m) := w in
  match o with
  | OpEval ts qo limit qerr res =>
      let '(m', out) := eval c m ts qo limit qerr res in ((c, m'), REval out)
  | OpSend ts resend interval =>
      let '(m', sent) := send_alerts m ts resend interval in ((c, m'), RSend sent)
  | OpReload hold kff restored => ((mkCfg hold kff restored, m), RNone)
  | OpRestart hold kff => ((mkCfg hold kff false, []), RNone)
  | OpRestore ts tol grace st => (restore c m ts tol grace st, RNone)
  end.

(* the observable after every operation: the result, the whole r.active map and the
   restored flag *)
Fixpoint run (w : world) (ops : list op) : list (result * amap * bool) :=
  match ops with
  | [] => []
  | o :: r => let '(w', res) := apply w o in (res, snd w', c_restored (fst w')) :: run w' r
  end.

Definition run_world (w : world) (ops : list op) : world :=
  fold_left (fun w o => fst (apply w o)) ops w.

(* ====================================================================================
   The documented reference state machine (per alert instance), used by the theorems of
   props/C44.v (the model refines it) and by [holds] of corr/CorrC44.v (the implementation's
   observed transitions satisfy it).
   ==================================================================================== *)

Definition is_active (a : alert) : bool := negb (astate_eqb (a_state a) Inactive).

(* an alert that is (still) active at ts is firing iff it has been active for >= hold;
   becoming firing records FiredAt = ts, falling back to pending (only possible when the hold
   duration grew at a reload or ActiveAt was moved by a restore) clears FiredAt, LastSentAt and
   KeepFiringSince *)
Definition hold_state (c : cfg) (ts : Z) (a : alert) : alert :=
  if c_hold c <=? ts - a_activeAt a
  then match a_state a with Firing => a | _ => fire a ts end
  else match a_state a with Firing => unfire a | _ => a end.

(* next state of one instance: [pres] = its value in this evaluation's result (None = absent),
   [prev] = its entry before the evaluation (None = no entry) *)
Definition spec_next (c : cfg) (ts : Z) (pres : option Z) (prev : option alert) : option alert :=
  match pres, prev with
  | Some v, None => Some (hold_state c ts (new_alert ts v))               (* first activity: pending from ts *)
  | Some v, Some a =>
      if is_active a then Some (hold_state c ts (set_keepSince (set_value a v) None))  (* stays active *)
      else Some (hold_state c ts (new_alert ts v))                         (* resolved, reappears: new pending period *)
  | None, None => None
  | None, Some a =>
      match a_state a with
      | Pending => None                                                    (* pending alert is dropped *)
      | Firing =>
          let ks := match a_keepSince a with None => ts | Some k => k end in
          if (0 <? c_kff c) && (ts - ks <? c_kff c)
          then Some (hold_state c ts (set_keepSince a (Some ks)))          (* within keep_firing_for *)
          else Some (resolve (if 0 <? c_kff c then set_keepSince a (Some ks) else a) ts)  (* resolved at ts *)
      | Inactive =>                                                        (* retained for resolvedRetention *)
          match a_resolvedAt a with
          | Some r => if resolvedRetention <? ts - r then None else Some a
          | None => Some a
          end
      end
  end.

(* the series written by an evaluation at ts with query offset qo: one ALERTS and one
   ALERTS_FOR_STATE sample per active (pending or firing) instance, nothing before the
   for-state restore has run *)
Definition spec_vec (c : cfg) (ts qo : Z) (after_eval : amap) : list sample :=
  if c_restored c
  then flat_map (fun ka => if is_active (snd ka) then samples_of (fst ka) (snd ka) (ts - qo) else []) after_eval
  else [].

(* state invariant of an entry: it is inactive exactly when it carries a ResolvedAt, an
   inactive entry has been firing, a pending one has no FiredAt/KeepFiringSince *)
Definition wf_alert (a : alert) : bool :=
  match a_state a with
  | Inactive => match a_resolvedAt a with Some _ => true | None => false end
  | Pending => match a_resolvedAt a, a_firedAt a, a_keepSince a with None, None, None => true | _, _, _ => false end
  | Firing => match a_resolvedAt a, a_firedAt a with None, Some _ => true | _, _ => false end
  end.

(* ---------- evaluation histories under one configuration ---------- *)
Record evin := mkEv { e_ts : Z; e_qo : Z; e_limit : Z; e_res : list (Z * Z) }.

(* all evaluations succeed (no query error, no duplicate label set, limit not exceeded) *)
Fixpoint evals (c : cfg) (m : amap) (es : list evin) : option amap :=
  match es with
  | [] => Some m
  | e :: r =>
      match eval c m (e_ts e) (e_qo e) (e_limit e) false (e_res e) with
      | (m', EvOk _) => evals c m' r
      | _ => None
      end
  end.

(* the reference machine of instance k run over a history *)
Definition key_run (c : cfg) (k : Z) (es : list evin) (a : option alert) : option alert :=
  fold_left (fun a e => spec_next c (e_ts e) (lookup k (e_res e)) a) es a.

(* evaluation times never go back: tl <= t1 <= t2 <= ... *)
Fixpoint mono (tl : Z) (es : list evin) : Prop :=
  match es with [] => True | e :: r => tl <= e_ts e /\ mono (e_ts e) r end.

Definition present_in (k : Z) (e : evin) : Prop := exists v, lookup k (e_res e) = Some v.
Definition absent_in (k : Z) (e : evin) : Prop := lookup k (e_res e) = None.

(* the last stored sample of instance k that the restore can see *)
Definition visible_sample (ts tol : Z) (st : store) (k : Z) : option (Z * option Z) :=
  match lookup k st with
  | Some s => last_sample (in_range (tms_of_nano (ts - tol)) (tms_of_nano ts) s)
  | None => None
  end.

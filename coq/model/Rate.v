(* model/Rate.v — executable model (over exact rationals Q) of the float-sample paths of
   promql/functions.go: extrapolatedRate (rate / increase / delta), instantValue
   (irate / idelta), funcResets, funcChanges, isStartTimestampReset, checkStartTimeOverlap,
   and of the matrix-selector window (rangeStart, rangeEnd] of promql/engine.go.
   Definitions only; proofs are in proof/RateProofs.v.

   Numbers: sample values are rationals (the harness only feeds finite dyadic float64s, NaN/Inf
   are outside the model). Every float64 operation of the Go code is modelled by the exact
   operation in Q, with ONE exception: the comparison `duration >= averageDuration*1.1`
   depends on float64 rounding when the two sides are equal as rationals, so it is an oracle
   [fge] (Section variable) whose assumed behaviour away from ties is [fge_ok]. *)
From Coq Require Import List ZArith QArith Bool Sorted.
Import ListNotations.
Open Scope Z_scope.

(* one float sample: timestamp (ms), value, start timestamp (ms; 0 = unset) *)
Record sample := mkS { sT : Z; sV : Q; sST : Z }.

Definition Qltb (x y : Q) : bool := negb (Qle_bool y x).

(* float64(z)/1000 *)
Definition ms (z : Z) : Q := (inject_Z z / 1000)%Q.
(* float64(z) *)
Definition zq (z : Z) : Q := inject_Z z.

(* ---- isStartTimestampReset (functions.go) ---- *)
Definition st_reset (pst pt cst ct : Z) : bool :=
  if (cst =? 0) || (ct <=? cst) then false
  else if cst <? pt then false
  else if pt <? cst then true
  else if pt <? pst then false
  else negb (pst =? 0) && negb (pst =? pt).

(* ---- checkStartTimeOverlap ---- *)
Definition st_overlap (pst pt cst : Z) : bool :=
  negb (cst =? 0) && (cst <? pt) && negb (cst =? pst).

(* the reset test of extrapolatedRate / funcResets / instantValue on two adjacent samples *)
Definition is_reset (p c : sample) : bool :=
  Qltb (sV c) (sV p) || st_reset (sST p) (sT p) (sST c) (sT c).

(* the loop `for i, currPoint := range samples.Floats[1:]` : sum of prevPoint.F over resets *)
Fixpoint reset_corr (prev : sample) (rest : list sample) : Q :=
  match rest with
  | [] => 0%Q
  | cur :: tl => ((if is_reset prev cur then sV prev else 0) + reset_corr cur tl)%Q
  end.

(* the StartTimeOverlap warning of the same loop: raised iff some adjacent pair overlaps *)
Fixpoint any_overlap (prev : sample) (rest : list sample) : bool :=
  match rest with
  | [] => false
  | cur :: tl => st_overlap (sST prev) (sT prev) (sST cur) || any_overlap cur tl
  end.

(* enh.StartTimestamps == nil (engine without UseStartTimestamps, or a function that gets
   none): behaves exactly like all start timestamps being 0 (every use is guarded by
   `i < len(sts)` and a zero ST disables each test). *)
Definition strip_st (s : sample) : sample := mkS (sT s) (sV s) 0.
Definition eff (use_st : bool) (w : list sample) : list sample :=
  if use_st then w else map strip_st w.

(* ---- the matrix selector window: samples with rangeStart < t <= rangeEnd ---- *)
Definition in_window (rs re : Z) (s : sample) : bool := (rs <? sT s) && (sT s <=? re).
Definition window (ss : list sample) (rs re : Z) : list sample := filter (in_window rs re) ss.

Section WithOracle.
  (* fge d S n  models the float64 test
        float64(d)/1000 >= (float64(S)/1000/float64(n)) * 1.1        (n > 0)
        float64(d)/1000 >= 0 * 1.1                                   (n = 0)            *)
  Variable fge : Z -> Z -> Z -> bool.

  Definition avg_dur (S n : Z) : Q := if 0 <? n then (ms S / inject_Z n)%Q else 0%Q.
  Definition thr (S n : Z) : Q := (avg_dur S n * (11 # 10))%Q.

  (* tail of extrapolatedRate, from `if durationToEnd >= extrapolationThreshold` on *)
  Definition finish (is_rate : bool) (result SI dStart : Q) (dEnd_ms S n range_ms : Z) : Q :=
    let dEnd := if fge dEnd_ms S n then (avg_dur S n / 2)%Q else ms dEnd_ms in
    let factor := if Qeq_bool SI 0 then 1%Q else ((SI + dStart + dEnd) / SI)%Q in
    let factor := if is_rate then (factor / ms range_ms)%Q else factor in
    (result * factor)%Q.

  (* extrapolatedRate on the float samples [w] of one series (not anchored / smoothed) *)
  Definition extrapolated_rate (is_counter is_rate : bool) (w : list sample)
             (range_start range_end range_ms : Z) : option Q :=
    match w with
    | [] => None
    | first :: rest =>
        let lst := last rest first in
        let n := Z.of_nat (length rest) in            (* numSamplesMinusOne *)
        let firstT := sT first in
        let lastT := sT lst in
        let raw := (sV lst - sV first)%Q in
        let result := if is_counter then (raw + reset_corr first rest)%Q else raw in
        let S := lastT - firstT in
        let SI := ms S in
        let avg := avg_dur S n in
        let st0 := sST first in
        if is_counter && negb (st0 =? 0) && (range_start <? st0) && (st0 <? firstT) then
          (* the first sample's ST lies inside the range: assume a zero sample at ST *)
          Some (finish is_rate (result + sV first)%Q (ms (lastT - st0)) 0%Q
                       (range_end - lastT) S n range_ms)
        else if n =? 0 then None
        else
          let dStart := if fge (firstT - range_start) S n then (avg / 2)%Q
                        else ms (firstT - range_start) in
          let dStart :=
            if is_counter then
              let dZero := if Qltb 0 result && Qle_bool 0 (sV first)
                           then (SI * (sV first / result))%Q else dStart in
              if Qltb dZero dStart then dZero else dStart
            else dStart in
          Some (finish is_rate result SI dStart (range_end - lastT) S n range_ms)
    end.

  (* the StartTimeOverlap warning is only looked for on the counter path *)
  Definition overlap_warning (w : list sample) : bool :=
    match w with [] => false | first :: rest => any_overlap first rest end.

  (* ---- instantValue (irate / idelta) on float samples ---- *)
  Definition instant_value (is_rate : bool) (w : list sample) : option Q :=
    match rev w with
    | l :: p :: _ =>
        let dt := sT l - sT p in
        if dt =? 0 then None
        else
          let v := if negb is_rate || negb (is_reset p l) then (sV l - sV p)%Q else sV l in
          Some (if is_rate then (v / ms dt)%Q else v)
    | _ => None
    end.

  (* ---- funcResets / funcChanges on float samples ---- *)
  Fixpoint count_resets (prev : sample) (rest : list sample) : Z :=
    match rest with
    | [] => 0
    | cur :: tl => (if is_reset prev cur then 1 else 0) + count_resets cur tl
    end.
  Definition resets (w : list sample) : option Q :=
    match w with [] => None | first :: rest => Some (inject_Z (count_resets first rest)) end.

  Fixpoint count_changes (prev : sample) (rest : list sample) : Z :=
    match rest with
    | [] => 0
    | cur :: tl => (if Qeq_bool (sV cur) (sV prev) then 0 else 1) + count_changes cur tl
    end.
  Definition changes (w : list sample) : option Q :=
    match w with [] => None | first :: rest => Some (inject_Z (count_changes first rest)) end.

  (* ---- the instant queries f(m[range] offset off) evaluated at ts ---- *)
  Inductive fn := FRate | FIncrease | FDelta | FIrate | FIdelta | FResets | FChanges.

  (* engine.go hands start timestamps only to rate, irate, increase and resets *)
  Definition gets_st (f : fn) : bool :=
    match f with FRate | FIncrease | FIrate | FResets => true | _ => false end.

  Definition eval (f : fn) (use_st : bool) (ss : list sample) (ts range_ms off : Z) : option Q :=
    let re := ts - off in
    let rs := re - range_ms in
    let w := eff (use_st && gets_st f) (window ss rs re) in
    match f with
    | FRate => extrapolated_rate true true w rs re range_ms
    | FIncrease => extrapolated_rate true false w rs re range_ms
    | FDelta => extrapolated_rate false false w rs re range_ms
    | FIrate => instant_value true w
    | FIdelta => instant_value false w
    | FResets => resets w
    | FChanges => changes w
    end.

  Definition eval_overlap_warning (use_st : bool) (ss : list sample) (ts range_ms off : Z) : bool :=
    let re := ts - off in
    let rs := re - range_ms in
    overlap_warning (eff use_st (window ss rs re)).
End WithOracle.

(* assumed behaviour of the float comparison away from exact rational ties *)
Definition fge_ok (fge : Z -> Z -> Z -> bool) : Prop :=
  forall d S n, 0 <= d -> 0 <= S -> 0 <= n ->
    (thr S n < ms d -> fge d S n = true)%Q /\ (ms d < thr S n -> fge d S n = false)%Q.

(* the exact-arithmetic comparison: one admissible oracle *)
Definition fge_exact (d S n : Z) : bool := Qle_bool (thr S n) (ms d).

(* ======================= the documented algorithm, written separately =================== *)
(* counter semantics: between two adjacent samples the counter grew by cur - prev, or, after
   a reset (value drop or start-timestamp reset), by cur (it restarted from zero). *)
Fixpoint increments (prev : sample) (rest : list sample) : list Q :=
  match rest with
  | [] => []
  | cur :: tl => (if is_reset prev cur then sV cur else (sV cur - sV prev)%Q) :: increments cur tl
  end.
Definition Qsum (l : list Q) : Q := fold_right Qplus 0%Q l.
Definition Qminq (x y : Q) : Q := if Qle_bool x y then x else y.

Section Doc.
  Variable fge : Z -> Z -> Z -> bool.
  (* how far the measured interval [firstT,lastT] is extended towards a window boundary that
     is gap_ms away: all the way if the gap is below 1.1 average sample intervals, otherwise
     by half an average interval *)
  Definition extend (gap_ms S n : Z) : Q :=
    if fge gap_ms S n then (avg_dur S n / 2)%Q else ms gap_ms.

  (* increase/delta over the window: slope over the covered interval times the extended
     interval; for counters the extension to the left stops at the counter's zero point, or
     is replaced by the start timestamp of the first sample when that lies in the window *)
  Definition doc_change (is_counter : bool) (w : list sample) (rs re : Z) : option Q :=
    match w with
    | [] => None
    | first :: rest =>
        let lst := last rest first in
        let n := Z.of_nat (length rest) in
        let S := sT lst - sT first in
        let st0 := sST first in
        let right := extend (re - sT lst) S n in
        if is_counter && negb (st0 =? 0) && (rs <? st0) && (st0 <? sT first) then
          (* zero sample at st0: total increase sV first + increments, covered interval
             st0..lastT, extended to the right only *)
          let inc := (sV first + Qsum (increments first rest))%Q in
          let covered := ms (sT lst - st0) in
          Some (inc * ((covered + right) / covered))%Q
        else if n =? 0 then None
        else
          let inc := if is_counter then Qsum (increments first rest) else (sV lst - sV first)%Q in
          let covered := ms S in
          let left0 := extend (sT first - rs) S n in
          let left :=
            if is_counter && Qltb 0 inc && Qle_bool 0 (sV first)
            then Qminq left0 (covered * sV first / inc)%Q   (* distance to the zero point *)
            else left0 in
          Some (inc * ((left + covered + right) / covered))%Q
    end.
  Definition doc_rate (w : list sample) (rs re range_ms : Z) : option Q :=
    option_map (fun x => (x / ms range_ms)%Q) (doc_change true w rs re).
End Doc.

(* ---- vocabulary of the theorems ---- *)
(* adjacent pairs (prev, cur) of a non-empty window first :: rest *)
Fixpoint adjacent (prev : sample) (rest : list sample) : list (sample * sample) :=
  match rest with
  | [] => []
  | cur :: tl => (prev, cur) :: adjacent cur tl
  end.
Definition lt_T (a b : sample) : Prop := sT a < sT b.
(* the float samples of a range: strictly increasing timestamps inside (rs, re] *)
Definition valid_window (w : list sample) (rs re : Z) : Prop :=
  Sorted.StronglySorted lt_T w /\ Forall (fun s => rs < sT s <= re) w.
Definition nonneg (w : list sample) : Prop := Forall (fun s => (0 <= sV s)%Q) w.
(* equality of optional rationals up to Qeq *)
Definition oeq (a b : option Q) : Prop :=
  match a, b with
  | None, None => True
  | Some x, Some y => (x == y)%Q
  | _, _ => False
  end.

(* the pieces of [doc_change] on the path without a usable start timestamp, named so that
   the bounds on the extrapolation can be stated *)
Definition doc_inc (is_counter : bool) (first : sample) (rest : list sample) : Q :=
  if is_counter then Qsum (increments first rest) else (sV (last rest first) - sV first)%Q.
Definition doc_left (fge : Z -> Z -> Z -> bool) (is_counter : bool) (first : sample)
           (rest : list sample) (rs : Z) : Q :=
  let lst := last rest first in
  let n := Z.of_nat (length rest) in
  let S := sT lst - sT first in
  let inc := doc_inc is_counter first rest in
  let left0 := extend fge (sT first - rs) S n in
  if is_counter && Qltb 0 inc && Qle_bool 0 (sV first)
  then Qminq left0 (ms S * sV first / inc)%Q else left0.
Definition doc_right (fge : Z -> Z -> Z -> bool) (first : sample) (rest : list sample) (re : Z) : Q :=
  let lst := last rest first in
  extend fge (re - sT lst) (sT lst - sT first) (Z.of_nat (length rest)).
(* does the start timestamp of the first sample replace the extrapolation to the left? *)
Definition st_path (is_counter : bool) (first : sample) (rs : Z) : bool :=
  is_counter && negb (sST first =? 0) && (rs <? sST first) && (sST first <? sT first).

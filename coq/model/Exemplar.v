(* model/Exemplar.v — executable models for C21 (definitions only, no proofs).

   Part 1  (prefix none)  : the pointer-level model of tsdb/exemplar.go, transcribed line by
            line: CircularExemplarStorage = ring of slots with prev/next indices, nextIndex,
            per-series index entries (oldest, newest); validateExemplar, AddExemplar (with
            removeExemplar / removeIndex / findInsertionIndex), Resize (grow / shrink /
            copyExemplarRanges), Select, IterateExemplars, SetOutOfOrderTimeWindow.
            Every slice index that Go bounds-checks yields [Panic] when out of range; loops
            over the linked lists run on fuel and yield [Fuel] (an endless loop in Go).
   Part 2  (prefix r_)    : the ring-level model: the same ring arithmetic (nextIndex, eviction
            of the slot at nextIndex, grow/shrink ranges, modulo computations) but the
            per-series lists are *derived* (stable sort by timestamp of the live slots in
            ingestion order) instead of being stored as prev/next pointers.
   Part 3  (prefix sp_)   : the reference ("spec"): the list of retained (series, exemplar)
            pairs in acceptance order, capacity and window; nothing else.

   Oracles (tabulated by the harness, not under test): a label set of an exemplar is
   (id, rune lengths of every name/value, Labels.Hash()); equal ids <-> labels.Equal.
   A series is a number; the harness chooses series label sets whose labels.Compare order is
   the numeric order, and evaluates the matchers of a Select itself (list of matching ids).
   Values are integer-valued float64 (Some z) or NaN (None). *)
From Coq Require Import List ZArith Bool Lia.
From Verif Require Import lib.Int64.
Import ListNotations.
Open Scope Z_scope.

(* ------------------------------------------------------------------ data *)
Record exemplar := mkEx {
  e_lab : Z;                 (* label-set id *)
  e_lens : list (Z * Z);     (* utf8.RuneCountInString of each name, value *)
  e_hash : Z;                (* Labels.Hash(), uint64 *)
  e_val : option Z;          (* None = NaN *)
  e_ts : Z;
  e_hasts : bool }.

Definition zero_ex : exemplar := mkEx 0 [] 0 (Some 0) 0 false.

Definition veq (a b : option Z) : bool :=
  match a, b with Some x, Some y => x =? y | _, _ => false end.
Definition vlt (a b : option Z) : bool :=
  match a, b with Some x, Some y => x <? y | _, _ => false end.

(* exemplar.Exemplar.Equals *)
Definition ex_equals (e e2 : exemplar) : bool :=
  if negb (e_lab e =? e_lab e2) then false else
  if (e_hasts e || e_hasts e2) && negb (e_ts e =? e_ts e2) then false else
  veq (e_val e) (e_val e2).

(* identity of a stored exemplar as an observer sees it (bitwise, NaN = NaN) *)
Definition val_same (a b : option Z) : bool :=
  match a, b with Some x, Some y => x =? y | None, None => true | _, _ => false end.
Definition ex_same (a b : exemplar) : bool :=
  (e_lab a =? e_lab b) && val_same (e_val a) (e_val b) && (e_ts a =? e_ts b) && Bool.eqb (e_hasts a) (e_hasts b).

Inductive verr := VOk | VDisabled | VLabelLen | VDup | VOOO.
Definition verr_eqb (a b : verr) : bool :=
  match a, b with VOk, VOk | VDisabled, VDisabled | VLabelLen, VLabelLen | VDup, VDup | VOOO, VOOO => true | _, _ => false end.

(* e.Labels.Validate(func(l){ labelSetLen += runes(name)+runes(value); if labelSetLen > 128 {err} }) *)
Fixpoint lab_too_long (acc : Z) (l : list (Z * Z)) : bool :=
  match l with
  | [] => false
  | (a, b) :: t => let acc' := acc + a + b in if 128 <? acc' then true else lab_too_long acc' t
  end.

(* "older than the window relative to the newest exemplar", three readings:
   WIdeal : the documented rule over the integers, e.Ts <= newest.Ts - window;
   WFixed : the code (after "fix: tsdb: exemplar out-of-order window check overflows near
            MinInt64"): window <= 0 || uint64(newest.Ts - e.Ts) >= uint64(window), the int64
            subtraction wrapping and both sides converted to uint64;
   WOld   : the code before that fix: e.Ts <= newest.Ts - window with the int64 subtraction wrapping. *)
Inductive wrule := WIdeal | WFixed | WOld.
Definition too_old (k : wrule) (w : Z) (ne e : exemplar) : bool :=
  match k with
  | WIdeal => e_ts e <=? e_ts ne - w
  | WFixed => (w <=? 0) || (u64 w <=? u64 (sub64 (e_ts ne) (e_ts e)))
  | WOld => e_ts e <=? sub64 (e_ts ne) w
  end.

(* the out-of-order / equal-timestamp rule of validateExemplar *)
Definition ooo_rule (k : wrule) (w : Z) (ne e : exemplar) : bool :=
  ((e_ts e <? e_ts ne) && too_old k w ne e)
  || ((e_ts e =? e_ts ne) && vlt (e_val e) (e_val ne))
  || ((e_ts e =? e_ts ne) && veq (e_val e) (e_val ne) && (e_hash e <? e_hash ne)).

(* the checks of validateExemplar that follow the "disabled" test, against the newest exemplar *)
Definition validate_against (sub : wrule) (w : Z) (newest : option exemplar) (e : exemplar) : verr :=
  if lab_too_long 0 (e_lens e) then VLabelLen else
  match newest with
  | None => VOk
  | Some ne => if ex_equals ne e then VDup else if ooo_rule sub w ne e then VOOO else VOk
  end.

Inductive res (A : Type) := Ok (a : A) | Panic | Fuel | Stuck.
Arguments Ok {A} a.
Arguments Panic {A}.
Arguments Fuel {A}.
Arguments Stuck {A}.

Definition bind {A B} (r : res A) (f : A -> res B) : res B :=
  match r with Ok a => f a | Panic => Panic | Fuel => Fuel | Stuck => Stuck end.
Notation "x <- r ;; k" := (bind r (fun x => k)) (at level 61, r at next level, right associativity).
Notation "' p <- r ;; k" := (bind r (fun p => k)) (at level 61, p pattern, r at next level, right associativity).

(* ------------------------------------------------------------------ part 1: pointer level *)
Record slot := mkSlot { s_ex : exemplar; s_next : Z; s_prev : Z; s_ref : option Z }.
Definition zero_slot : slot := mkSlot zero_ex 0 0 None.

Record state := mkSt {
  ring : list slot;
  nexti : Z;
  window : Z;
  index : list (Z * (Z * Z)) }.   (* series -> (oldest, newest) *)

Definition noEx : Z := -1.
Definition zlen {A} (l : list A) : Z := Z.of_nat (length l).

Definition getz {A} (l : list A) (i : Z) : res A :=
  if i <? 0 then Panic else
  match nth_error l (Z.to_nat i) with Some x => Ok x | None => Panic end.

Fixpoint upd_nat {A} (l : list A) (n : nat) (f : A -> A) : list A :=
  match l, n with
  | [], _ => []
  | x :: t, O => f x :: t
  | x :: t, S n' => x :: upd_nat t n' f
  end.
Definition setz {A} (l : list A) (i : Z) (f : A -> A) : res (list A) :=
  if (i <? 0) || (zlen l <=? i) then Panic else Ok (upd_nat l (Z.to_nat i) f).

Definition set_next (v : Z) (s : slot) := mkSlot (s_ex s) v (s_prev s) (s_ref s).
Definition set_prev (v : Z) (s : slot) := mkSlot (s_ex s) (s_next s) v (s_ref s).
Definition set_ref (v : option Z) (s : slot) := mkSlot (s_ex s) (s_next s) (s_prev s) v.
Definition set_ex (v : exemplar) (s : slot) := mkSlot v (s_next s) (s_prev s) (s_ref s).

Fixpoint ix_get (ix : list (Z * (Z * Z))) (k : Z) : option (Z * Z) :=
  match ix with [] => None | (k', v) :: t => if k' =? k then Some v else ix_get t k end.
Fixpoint ix_set (ix : list (Z * (Z * Z))) (k : Z) (v : Z * Z) : list (Z * (Z * Z)) :=
  match ix with [] => [(k, v)] | (k', v') :: t => if k' =? k then (k, v) :: t else (k', v') :: ix_set t k v end.
Definition ix_del (ix : list (Z * (Z * Z))) (k : Z) := filter (fun p => negb (fst p =? k)) ix.
(* dereference of an *indexEntry held by a live slot: never nil in Go *)
Definition ix_deref (ix : list (Z * (Z * Z))) (k : Z) : res (Z * Z) :=
  match ix_get ix k with Some v => Ok v | None => Stuck end.

Definition with_ring (st : state) (r : list slot) := mkSt r (nexti st) (window st) (index st).
Definition with_index (st : state) (ix : list (Z * (Z * Z))) := mkSt (ring st) (nexti st) (window st) ix.
Definition with_nexti (st : state) (n : Z) := mkSt (ring st) n (window st) (index st).

(* NewCircularExemplarStorage *)
Definition new_state (len w : Z) : state :=
  mkSt (repeat zero_slot (Z.to_nat (Z.max len 0))) 0 (Z.max w 0) [].

(* validateExemplar(idx, e) *)
Definition validate (st : state) (idx : option (Z * Z)) (e : exemplar) : res verr :=
  if zlen (ring st) =? 0 then Ok VDisabled else
  match idx with
  | None => Ok (validate_against WFixed (window st) None e)
  | Some (_, n) =>
      (* the label-length check precedes the access to exemplars[idx.newest] *)
      if lab_too_long 0 (e_lens e) then Ok VLabelLen else
      sl <- getz (ring st) n ;;
      Ok (validate_against WFixed (window st) (Some (s_ex sl)) e)
  end.

(* findInsertionIndex: for i := newest; i != -1; { if ex[i].Ts <= e.Ts {return i}; i = ex[i].prev }; return oldest *)
Fixpoint find_ins (fuel : nat) (r : list slot) (ts : Z) (i oldest : Z) : res Z :=
  match fuel with
  | O => Fuel
  | S f =>
      if i =? noEx then Ok oldest else
      cur <- getz r i ;;
      if e_ts (s_ex cur) <=? ts then Ok i else find_ins f r ts (s_prev cur) oldest
  end.
Definition find_insertion (st : state) (ts : Z) (on : Z * Z) : res Z :=
  find_ins (S (length (ring st))) (ring st) ts (snd on) (fst on).

(* removeExemplar(&exemplars[p]) : (state, emptied) *)
Definition remove_exemplar (st : state) (p : Z) : res (state * bool) :=
  entry <- getz (ring st) p ;;
  match s_ref entry with
  | None => Ok (st, false)
  | Some r =>
      '(o, n) <- ix_deref (index st) r ;;
      '(rg, o) <- (if negb (s_prev entry =? noEx)
                   then rg <- setz (ring st) (s_prev entry) (set_next (s_next entry)) ;; Ok (rg, o)
                   else Ok (ring st, s_next entry)) ;;
      '(rg, n) <- (if negb (s_next entry =? noEx)
                   then rg <- setz rg (s_next entry) (set_prev (s_prev entry)) ;; Ok (rg, n)
                   else Ok (rg, s_prev entry)) ;;
      rg <- setz rg p (set_ref None) ;;
      Ok (mkSt rg (nexti st) (window st) (ix_set (index st) r (o, n)), (o =? noEx) && (n =? noEx))
  end.

Inductive add_res := AddStored | AddNoop | AddErr (v : verr).

(* AddExemplar(l, e) *)
Definition add (st : state) (sid : Z) (e : exemplar) : res (state * add_res) :=
  if zlen (ring st) =? 0 then Ok (st, AddErr VDisabled) else
  let idx0 := ix_get (index st) sid in
  v <- validate st idx0 e ;;
  match v with
  | VDup => Ok (st, AddNoop)
  | VDisabled | VLabelLen | VOOO => Ok (st, AddErr v)
  | VOk =>
    (* out-of-order pre-search *)
    pre <- match idx0 with
           | None => Ok (Some (0, false))
           | Some (o, n) =>
               eo <- getz (ring st) o ;;
               if negb (e_ts (s_ex eo) <=? e_ts e) then Ok (Some (0, false)) else   (* && short-circuits *)
               en <- getz (ring st) n ;;
               if e_ts e <? e_ts (s_ex en) then
                 ii <- find_insertion st (e_ts e) (o, n) ;;
                 eii <- getz (ring st) ii ;;
                 if e_ts (s_ex eii) =? e_ts e then Ok None else Ok (Some (ii, true))
               else Ok (Some (0, false))
           end ;;
    match pre with
    | None => Ok (st, AddNoop)          (* "assume duplicate exemplar, noop" *)
    | Some (ii, ooo) =>
      let exists0 := match idx0 with Some _ => true | None => false end in
      (* new series: idx = &indexEntry{} (oldest = newest = 0) put into the map *)
      let st := if exists0 then st else with_index st (ix_set (index st) sid (0, 0)) in
      let ni := nexti st in
      prev <- getz (ring st) ni ;;
      '(st, exists1, ii) <-
        match s_ref prev with
        | None => Ok (st, exists0, ii)
        | Some pref =>
            '(st', emptied) <- remove_exemplar st ni ;;
            if emptied then
              if pref =? sid then Ok (st', false, ii)
              else Ok (with_index st' (ix_del (index st') pref), exists0, ii)
            else if ooo && (ii =? ni) && (pref =? sid) then
              on <- ix_deref (index st') sid ;;
              ii' <- find_insertion st' (e_ts e) on ;;
              Ok (st', exists0, ii')
            else Ok (st', exists0, ii)
        end ;;
      rg <- setz (ring st) ni (fun s => set_ref (Some sid) (set_ex e s)) ;;
      '(o, n) <- ix_deref (index st) sid ;;
      '(rg, on) <-
        (if negb exists1 then
           rg <- setz rg ni (fun s => set_next noEx (set_prev noEx s)) ;;
           Ok (rg, (ni, ni))
         else
           en <- getz rg n ;;
           if e_ts (s_ex en) <=? e_ts e then
             rg <- setz rg n (set_next ni) ;;
             rg <- setz rg ni (fun s => set_next noEx (set_prev n s)) ;;
             Ok (rg, (o, ni))
           else
             eo <- getz rg o ;;
             if e_ts e <? e_ts (s_ex eo) then
               rg <- setz rg o (set_prev ni) ;;
               rg <- setz rg ni (fun s => set_next o (set_prev noEx s)) ;;
               Ok (rg, (ni, n))
             else
               eii <- getz rg ii ;;
               let nx := s_next eii in
               rg <- setz rg ni (fun s => set_next nx (set_prev ii s)) ;;
               rg <- setz rg ii (set_next ni) ;;
               rg <- (if negb (nx =? noEx) then setz rg nx (set_prev ni) else Ok rg) ;;
               Ok (rg, (o, n))) ;;
      Ok (mkSt rg (gorem (ni + 1) (zlen rg)) (window st) (ix_set (index st) sid on), AddStored)
    end
  end.

(* ValidateExemplar(l, e) *)
Definition validate_op (st : state) (sid : Z) (e : exemplar) : res verr :=
  validate st (ix_get (index st) sid) e.

(* --- Resize --- *)
Definition rng_contains (r : Z * Z) (i : Z) : bool := (fst r <=? i) && (i <? snd r).

(* src[from:to] *)
Definition slicez {A} (l : list A) (from to : Z) : res (list A) :=
  if (from <? 0) || (to <? from) || (zlen l <? to) then Panic
  else Ok (firstn (Z.to_nat (to - from)) (skipn (Z.to_nat from) l)).

(* first range containing i: i + offset, else i *)
Fixpoint remap (ranges : list (Z * Z)) (offs : list Z) (i : Z) : Z :=
  match ranges, offs with
  | r :: rs, o :: os => if rng_contains r i then i + o else remap rs os i
  | _, _ => i
  end.

(* the copy loop: returns (copied prefix of dest, offsets) *)
Fixpoint copy_loop {A} (src : list A) (room : Z) (n : Z) (ranges : list (Z * Z)) : res (list A * list Z) :=
  match ranges with
  | [] => Ok ([], [])
  | (f, t) :: rs =>
      seg <- slicez src f t ;;
      let seg := firstn (Z.to_nat (Z.max 0 (room - n))) seg in    (* copy copies min(len(dst), len(src)) *)
      '(rest, offs) <- copy_loop src room (n + zlen seg) rs ;;
      Ok (seg ++ rest, (n - f) :: offs)
  end.

(* copyExemplarRanges(index, dest, src, ranges) with dest = fresh slice of length l:
   returns (index', dest', totalCopied, migrated) *)
Definition copy_ranges (ix : list (Z * (Z * Z))) (l : Z) (src : list slot) (ranges : list (Z * Z))
  : res (list (Z * (Z * Z)) * list slot * Z * Z) :=
  '(copied, offs) <- copy_loop src l 0 ranges ;;
  let n := zlen copied in
  let fix1 (s : slot) := match s_ref s with
                         | None => s
                         | Some _ => mkSlot (s_ex s) (remap ranges offs (s_next s)) (remap ranges offs (s_prev s)) (s_ref s)
                         end in
  let copied' := map fix1 copied in
  let migrated := zlen (filter (fun s => match s_ref s with Some _ => true | None => false end) copied) in
  let ix' := map (fun p => (fst p, (remap ranges offs (fst (snd p)), remap ranges offs (snd (snd p))))) ix in
  Ok (ix', copied' ++ repeat zero_slot (Z.to_nat (l - n)), n, migrated).

Definition grow (st : state) (l : Z) : res (state * Z) :=
  let old := zlen (ring st) in
  '(ix, rg, total, migrated) <- copy_ranges (index st) l (ring st) [(nexti st, old); (0, nexti st)] ;;
  Ok (mkSt rg total (window st) ix, migrated).

Fixpoint shrink_del (st : state) (old ds : Z) (i : Z) (k : nat) : res state :=
  match k with
  | O => Ok st
  | S k' =>
      let p := gorem (ds + i) old in
      entry <- getz (ring st) p ;;
      '(st', emptied) <- remove_exemplar st p ;;
      let st' := if emptied then match s_ref entry with
                                 | Some r => with_index st' (ix_del (index st') r)
                                 | None => st' end
                 else st' in
      shrink_del st' old ds (i + 1) k'
  end.

Definition shrink (st : state) (l : Z) : res (state * Z) :=
  let old := zlen (ring st) in
  let diff := old - l in
  let ds := nexti st in
  if old =? 0 then Panic else      (* % oldSize *)
  let de := gorem (ds + diff) old in
  st <- shrink_del st old ds 0 (Z.to_nat diff) ;;
  if ds =? de then Ok (mkSt (repeat zero_slot (Z.to_nat l)) 0 (window st) (index st), 0)
  else
    '(ix, rg, total, migrated) <-
       (if ds <? de then copy_ranges (index st) l (ring st) [(de, old); (0, ds)]
        else copy_ranges (index st) l (ring st) [(de, ds)]) ;;
    if l =? 0 then Panic else      (* totalCopied % int(l) *)
    Ok (mkSt rg (gorem total l) (window st) ix, migrated).

Definition resize (st : state) (l : Z) : res (state * Z) :=
  let l := if l <=? 0 then 0 else l in
  let old := zlen (ring st) in
  if l =? old then Ok (st, 0)
  else if old <? l then grow st l
  else shrink st l.

(* --- Select --- *)
Fixpoint sel_walk (fuel : nat) (r : list slot) (lo hi : Z) (e : slot) (acc : list exemplar) : res (list exemplar) :=
  match fuel with
  | O => Fuel
  | S f =>
      if e_ts (s_ex e) <=? hi then
        let acc := if lo <=? e_ts (s_ex e) then acc ++ [s_ex e] else acc in
        if s_next e =? noEx then Ok acc
        else e' <- getz r (s_next e) ;; sel_walk f r lo hi e' acc
      else Ok acc
  end.

Fixpoint insert_by_key {A} (k : Z) (v : A) (l : list (Z * A)) : list (Z * A) :=
  match l with
  | [] => [(k, v)]
  | (k', v') :: t => if k <? k' then (k, v) :: l else (k', v') :: insert_by_key k v t
  end.
Definition sort_by_key {A} (l : list (Z * A)) : list (Z * A) :=
  fold_left (fun acc p => insert_by_key (fst p) (snd p) acc) l [].

Fixpoint sel_loop (st : state) (lo hi : Z) (matched : list Z) (ix : list (Z * (Z * Z)))
  : res (list (Z * list exemplar)) :=
  match ix with
  | [] => Ok []
  | (sid, (o, n)) :: t =>
      e <- getz (ring st) o ;;
      skip <- (if hi <? e_ts (s_ex e) then Ok true                                    (* || short-circuits *)
               else en <- getz (ring st) n ;; Ok (e_ts (s_ex en) <? lo)) ;;
      if (skip : bool) then sel_loop st lo hi matched t
      else if negb (existsb (Z.eqb sid) matched) then sel_loop st lo hi matched t
      else
        exs <- sel_walk (S (length (ring st))) (ring st) lo hi e [] ;;
        rest <- sel_loop st lo hi matched t ;;
        Ok (match exs with [] => rest | _ => (sid, exs) :: rest end)
  end.

Definition select (st : state) (lo hi : Z) (matched : list Z) : res (list (Z * list exemplar)) :=
  if zlen (ring st) =? 0 then Ok [] else
  r <- sel_loop st lo hi matched (index st) ;;
  Ok (sort_by_key r).

(* --- IterateExemplars --- *)
Fixpoint iter_loop (r : list slot) (ix : list (Z * (Z * Z))) (idx : Z) (k : nat) : res (list (Z * exemplar)) :=
  match k with
  | O => Ok []
  | S k' =>
      s <- getz r idx ;;
      rest <- iter_loop r ix (gorem (idx + 1) (zlen r)) k' ;;
      Ok (match s_ref s with None => rest | Some sid => (sid, s_ex s) :: rest end)
  end.
Definition iterate (st : state) : res (list (Z * exemplar)) :=
  iter_loop (ring st) (index st) (nexti st) (length (ring st)).

(* ------------------------------------------------------------------ operations / observations *)
Inductive op :=
| OAdd (sid : Z) (e : exemplar)
| OValidate (sid : Z) (e : exemplar)
| OResize (l : Z)
| OSetWin (d : Z)
| OSelect (lo hi : Z) (matched : list Z)
| OIter
| ODump.

Inductive obs :=
| BErr (v : verr)                 (* AddExemplar (VOk = nil) / ValidateExemplar *)
| BInt (n : Z)                    (* Resize *)
| BUnit
| BSel (r : list (Z * list exemplar))
| BIter (r : list (Z * exemplar))
| BDump (ni : Z) (slots : list slot) (ix : list (Z * (Z * Z)))
| BErrs (l : list verr)          (* head appender entry points: the errors reported, in order *)
| BPanic | BHang | BStuck.

Definition add_obs (a : add_res) : obs :=
  match a with AddStored | AddNoop => BErr VOk | AddErr v => BErr v end.

Definition step (st : state) (o : op) : res (state * obs) :=
  match o with
  | OAdd sid e => '(st', a) <- add st sid e ;; Ok (st', add_obs a)
  | OValidate sid e => v <- validate_op st sid e ;; Ok (st, BErr v)
  | OResize l => '(st', m) <- resize st l ;; Ok (st', BInt m)
  | OSetWin d => Ok (mkSt (ring st) (nexti st) d (index st), BUnit)
  | OSelect lo hi m => r <- select st lo hi m ;; Ok (st, BSel r)
  | OIter => r <- iterate st ;; Ok (st, BIter r)
  | ODump => Ok (st, BDump (nexti st) (ring st) (sort_by_key (index st)))
  end.

(* run a history; stops at the first panic / endless loop, like the harness *)
Fixpoint run (st : state) (ops : list op) : list obs :=
  match ops with
  | [] => []
  | o :: t =>
      match step st o with
      | Ok (st', b) => b :: run st' t
      | Panic => [BPanic]
      | Fuel => [BHang]
      | Stuck => [BStuck]
      end
  end.

(* ------------------------------------------------------------------ part 3: the reference *)
(* [sub] = the reading of the window rule: WIdeal is the documented rule, WFixed what the code computes *)
Record spec := mkSp { sp_cap : Z; sp_win : Z; sp_kept : list (Z * exemplar) }.

(* stable insertion by timestamp: y goes after the last element with ts <= ts y *)
Fixpoint ins_ts (y : exemplar) (l : list exemplar) : list exemplar :=
  match l with
  | [] => [y]
  | x :: t => if e_ts y <? e_ts x then y :: l else x :: ins_ts y t
  end.
Definition sort_ts (l : list exemplar) : list exemplar := fold_left (fun acc y => ins_ts y acc) l [].

Definition of_series (sid : Z) (kept : list (Z * exemplar)) : list exemplar :=
  map snd (filter (fun p => fst p =? sid) kept).
(* the retained exemplars of a series, by timestamp (ties: acceptance order) *)
Definition series_list (sid : Z) (kept : list (Z * exemplar)) : list exemplar := sort_ts (of_series sid kept).

Definition lastn {A} (n : nat) (l : list A) : list A := skipn (length l - n) l.

Definition sp_new (len w : Z) : spec := mkSp (Z.max len 0) (Z.max w 0) [].

Definition sp_validate (sub : wrule) (s : spec) (sid : Z) (e : exemplar) : verr :=
  if sp_cap s =? 0 then VDisabled else
  validate_against sub (sp_win s) (last (map Some (series_list sid (sp_kept s))) None) e.

(* silently dropped: strictly inside the series' time span and a retained exemplar has the same timestamp *)
Definition sp_mid_dup (l : list exemplar) (e : exemplar) : bool :=
  match l with
  | [] => false
  | o :: _ => (e_ts o <=? e_ts e) && (e_ts e <? e_ts (last l o)) && existsb (fun x => e_ts x =? e_ts e) l
  end.

Definition sp_add (sub : wrule) (s : spec) (sid : Z) (e : exemplar) : spec * add_res :=
  match sp_validate sub s sid e with
  | VDup => (s, AddNoop)
  | VOk =>
      if sp_mid_dup (series_list sid (sp_kept s)) e then (s, AddNoop)
      else (mkSp (sp_cap s) (sp_win s) (lastn (Z.to_nat (sp_cap s)) (sp_kept s ++ [(sid, e)])), AddStored)
  | v => (s, AddErr v)
  end.

Definition sp_resize (s : spec) (l : Z) : spec * Z :=
  let l := Z.max l 0 in
  if l =? sp_cap s then (s, 0)
  else let k := lastn (Z.to_nat l) (sp_kept s) in (mkSp l (sp_win s) k, zlen k).

Definition in_range (lo hi : Z) (e : exemplar) : bool := (lo <=? e_ts e) && (e_ts e <=? hi).

Fixpoint dedup_sorted (l : list Z) : list Z :=
  match l with
  | a :: ((b :: _) as t) => if a =? b then dedup_sorted t else a :: dedup_sorted t
  | _ => l
  end.
Fixpoint insert_z (k : Z) (l : list Z) : list Z :=
  match l with [] => [k] | x :: t => if k <? x then k :: l else x :: insert_z k t end.
Definition series_ids (kept : list (Z * exemplar)) : list Z :=
  dedup_sorted (fold_left (fun acc p => insert_z (fst p) acc) kept []).

Definition sp_select (s : spec) (lo hi : Z) (matched : list Z) : list (Z * list exemplar) :=
  flat_map (fun sid =>
              if existsb (Z.eqb sid) matched then
                match filter (in_range lo hi) (series_list sid (sp_kept s)) with
                | [] => []
                | l => [(sid, l)]
                end
              else [])
           (series_ids (sp_kept s)).

(* observations of the reference; a dump has no counterpart (BUnit) *)
Definition sp_step (sub : wrule) (s : spec) (o : op) : spec * obs :=
  match o with
  | OAdd sid e => let '(s', a) := sp_add sub s sid e in (s', add_obs a)
  | OValidate sid e => (s, BErr (sp_validate sub s sid e))
  | OResize l => let '(s', m) := sp_resize s l in (s', BInt m)
  | OSetWin d => (mkSp (sp_cap s) d (sp_kept s), BUnit)
  | OSelect lo hi m => (s, BSel (sp_select s lo hi m))
  | OIter => (s, BIter (sp_kept s))
  | ODump => (s, BUnit)
  end.

Fixpoint sp_run (sub : wrule) (s : spec) (ops : list op) : list obs :=
  match ops with
  | [] => []
  | o :: t => let '(s', b) := sp_step sub s o in b :: sp_run sub s' t
  end.

Definition sp_exec (sub : wrule) (s : spec) (ops : list op) : spec := fold_left (fun s o => fst (sp_step sub s o)) ops s.

(* ------------------------------------------------------------------ part 2: ring level *)
(* ring of option (series, exemplar) in slot order + nextIndex; per-series lists derived *)
Record rstate := mkR { r_ring : list (option (Z * exemplar)); r_next : Z; r_win : Z }.

Definition rotate {A} (k : nat) (l : list A) : list A := skipn k l ++ firstn k l.
Fixpoint somes {A} (l : list (option A)) : list A :=
  match l with [] => [] | Some x :: t => x :: somes t | None :: t => somes t end.
(* live entries in ingestion (age) order: from nextIndex around the ring *)
Definition r_kept (r : rstate) : list (Z * exemplar) := somes (rotate (Z.to_nat (r_next r)) (r_ring r)).

Definition r_new (len w : Z) : rstate := mkR (repeat None (Z.to_nat (Z.max len 0))) 0 (Z.max w 0).

Definition r_validate (r : rstate) (sid : Z) (e : exemplar) : verr :=
  if zlen (r_ring r) =? 0 then VDisabled else
  validate_against WFixed (r_win r) (last (map Some (series_list sid (r_kept r))) None) e.

Definition r_add (r : rstate) (sid : Z) (e : exemplar) : res (rstate * add_res) :=
  match r_validate r sid e with
  | VDup => Ok (r, AddNoop)
  | VOk =>
      if sp_mid_dup (series_list sid (r_kept r)) e then Ok (r, AddNoop)
      else
        (* overwrite the slot at nextIndex (evicting what is there), advance modulo len *)
        rg <- setz (r_ring r) (r_next r) (fun _ => Some (sid, e)) ;;
        Ok (mkR rg (gorem (r_next r + 1) (zlen rg)) (r_win r), AddStored)
  | v => Ok (r, AddErr v)
  end.

Fixpoint r_copy {A} (src : list A) (ranges : list (Z * Z)) : res (list A) :=
  match ranges with
  | [] => Ok []
  | (f, t) :: rs => seg <- slicez src f t ;; rest <- r_copy src rs ;; Ok (seg ++ rest)
  end.

Fixpoint r_clear {A} (rg : list (option A)) (old ds i : Z) (k : nat) : res (list (option A)) :=
  match k with
  | O => Ok rg
  | S k' => rg' <- setz rg (gorem (ds + i) old) (fun _ => None) ;; r_clear rg' old ds (i + 1) k'
  end.

Definition r_resize (r : rstate) (l : Z) : res (rstate * Z) :=
  let l := if l <=? 0 then 0 else l in
  let old := zlen (r_ring r) in
  if l =? old then Ok (r, 0)
  else if old <? l then
    c <- r_copy (r_ring r) [(r_next r, old); (0, r_next r)] ;;
    Ok (mkR (c ++ repeat None (Z.to_nat (l - zlen c))) (zlen c) (r_win r), zlen (somes c))
  else
    let diff := old - l in
    let ds := r_next r in
    if old =? 0 then Panic else
    let de := gorem (ds + diff) old in
    rg <- r_clear (r_ring r) old ds 0 (Z.to_nat diff) ;;
    if ds =? de then Ok (mkR (repeat None (Z.to_nat l)) 0 (r_win r), 0)
    else
      c <- (if ds <? de then r_copy rg [(de, old); (0, ds)] else r_copy rg [(de, ds)]) ;;
      if l =? 0 then Panic else
      Ok (mkR (c ++ repeat None (Z.to_nat (l - zlen c))) (gorem (zlen c) l) (r_win r), zlen (somes c)).

Definition r_spec (r : rstate) : spec := mkSp (zlen (r_ring r)) (r_win r) (r_kept r).

Definition r_step (r : rstate) (o : op) : res (rstate * obs) :=
  match o with
  | OAdd sid e => '(r', a) <- r_add r sid e ;; Ok (r', add_obs a)
  | OValidate sid e => Ok (r, BErr (r_validate r sid e))
  | OResize l => '(r', m) <- r_resize r l ;; Ok (r', BInt m)
  | OSetWin d => Ok (mkR (r_ring r) (r_next r) d, BUnit)
  | OSelect lo hi m => Ok (r, BSel (sp_select (r_spec r) lo hi m))
  | OIter => Ok (r, BIter (r_kept r))
  | ODump => Ok (r, BUnit)
  end.

Fixpoint r_run (r : rstate) (ops : list op) : list obs :=
  match ops with
  | [] => []
  | o :: t =>
      match r_step r o with
      | Ok (r', b) => b :: r_run r' t
      | Panic => [BPanic]
      | Fuel => [BHang]
      | Stuck => [BStuck]
      end
  end.

(* abstraction of the pointer-level state to the ring level (forgets prev/next/index) *)
Definition abs_ring (st : state) : rstate :=
  mkR (map (fun s => match s_ref s with Some sid => Some (sid, s_ex s) | None => None end) (ring st))
      (nexti st) (window st).

(* ------------------------------------------------------------------ well-formedness of a pointer-level state
   (executable): the ring-level abstraction keeps holes first, every index entry heads a finite
   in-range chain of live slots of its series, linked both ways, whose exemplars are exactly the
   derived list (stable sort by timestamp of the series' retained exemplars in ingestion order),
   and every live slot lies on the chain of its series. *)
Fixpoint list_eqb {A} (f : A -> A -> bool) (a b : list A) : bool :=
  match a, b with
  | [], [] => true
  | x :: a', y :: b' => f x y && list_eqb f a' b'
  | _, _ => false
  end.
Definition val_eqb (a b : option Z) : bool :=
  match a, b with Some x, Some y => x =? y | None, None => true | _, _ => false end.
Definition ex_eqb (a b : exemplar) : bool :=
  (e_lab a =? e_lab b) && list_eqb (fun p q => (fst p =? fst q) && (snd p =? snd q)) (e_lens a) (e_lens b)
  && (e_hash a =? e_hash b) && val_eqb (e_val a) (e_val b) && (e_ts a =? e_ts b) && Bool.eqb (e_hasts a) (e_hasts b).

Fixpoint chain_from (fuel : nat) (r : list slot) (i : Z) : option (list Z) :=
  match fuel with
  | O => None
  | S f =>
      if i =? noEx then Some [] else
      match getz r i with
      | Ok s => match chain_from f r (s_next s) with Some t => Some (i :: t) | None => None end
      | _ => None
      end
  end.

Definition slot_at (r : list slot) (i : Z) : slot := match getz r i with Ok s => s | _ => zero_slot end.

(* prev pointers mirror the chain: prev of the head is -1, prev of each later element is its predecessor *)
Fixpoint prevs_ok (r : list slot) (before : Z) (ps : list Z) : bool :=
  match ps with
  | [] => true
  | p :: t => (s_prev (slot_at r p) =? before) && prevs_ok r p t
  end.

Fixpoint holes_firstb {A} (l : list (option A)) : bool :=
  match l with
  | None :: t => holes_firstb t
  | _ => forallb (fun x => match x with Some _ => true | None => false end) l
  end.

Definition chain_ok (st : state) (kept : list (Z * exemplar)) (entry : Z * (Z * Z)) : bool :=
  let '(sid, (o, n)) := entry in
  match chain_from (S (length (ring st))) (ring st) o with
  | None => false
  | Some ps =>
      negb (Nat.eqb (length ps) 0) && (last ps noEx =? n) && prevs_ok (ring st) noEx ps
      && forallb (fun p => match s_ref (slot_at (ring st) p) with Some s => s =? sid | None => false end) ps
      && list_eqb ex_eqb (map (fun p => s_ex (slot_at (ring st) p)) ps) (series_list sid kept)
  end.

Fixpoint nodupb (l : list Z) : bool :=
  match l with [] => true | x :: t => negb (existsb (Z.eqb x) t) && nodupb t end.

Definition wfb (st : state) : bool :=
  let r := abs_ring st in
  let n := zlen (ring st) in
  let kept := r_kept r in
  (((n =? 0) && (nexti st =? 0)) || ((0 <=? nexti st) && (nexti st <? n)))
  && holes_firstb (rotate (Z.to_nat (nexti st)) (r_ring r))
  && nodupb (map fst (index st))
  && forallb (chain_ok st kept) (index st)
  && forallb (fun p => match ix_get (index st) (fst p) with Some _ => true | None => false end) kept
  && (Z.of_nat (length kept) =?
      fold_left (fun acc e => acc + match chain_from (S (length (ring st))) (ring st) (fst (snd e)) with
                                    | Some ps => zlen ps | None => 0 end) (index st) 0).

(* run the pointer-level model and check, after every operation, that the state is well-formed
   and abstracts to the state of the ring-level model run alongside *)
Definition rstate_eqb (a b : rstate) : bool :=
  list_eqb (fun x y => match x, y with
                       | Some (s, e), Some (s', e') => (s =? s') && ex_eqb e e'
                       | None, None => true
                       | _, _ => false end) (r_ring a) (r_ring b)
  && (r_next a =? r_next b) && (r_win a =? r_win b).

Fixpoint sim_run (st : state) (r : rstate) (ops : list op) : bool :=
  wfb st && rstate_eqb (abs_ring st) r &&
  match ops with
  | [] => true
  | o :: t =>
      match step st o, r_step r o with
      | Ok (st', _), Ok (r', _) => sim_run st' r' t
      | Ok _, _ | _, Ok _ => false
      | _, _ => true        (* both stop *)
      end
  end.

(* the pointer-level state reached by a history *)
Definition exec (st : state) (ops : list op) : res state :=
  fold_left (fun acc o => st <- acc ;; '(st', _) <- step st o ;; Ok st') ops (Ok st).

(* ------------------------------------------------------------------ head appender entry points
   tsdb/head_append.go headAppender.AppendExemplar + Commit, tsdb/head_append_v2.go
   headAppenderV2.Append(... AOptions{Exemplars}) -> appendExemplars + Commit (commitExemplars):
   every exemplar is first normalised with Labels.WithoutEmpty() ([without_empty]: labels whose
   value is empty are dropped BEFORE validation, so they neither count towards the 128-rune
   limit nor distinguish a duplicate, and are not stored), then validated against the store as it
   is before the commit (duplicates and "disabled" are swallowed silently, any other error is
   reported and the exemplar skipped), and at Commit the accepted ones are added in order with
   AddExemplar, whose errors are swallowed. Both entry points have the same semantics; [v2] only
   records which one the harness drove. The id and hash of the normalised label set are oracles
   (tabulated by the harness with labels.WithoutEmpty called directly). *)
Definition without_empty (e : exemplar) (o : Z * Z) : exemplar :=
  mkEx (fst o) (filter (fun p => negb (snd p =? 0)) (e_lens e)) (snd o) (e_val e) (e_ts e) (e_hasts e).

Inductive hop :=
| HPlain (o : op)
| HHead (v2 : bool) (sid : Z) (es : list (exemplar * (Z * Z))).

(* split by the outcome of validation: (to commit, errors reported) *)
Definition head_sort (v : verr) (e : exemplar) (r : list exemplar * list verr) : list exemplar * list verr :=
  match v with
  | VOk => (e :: fst r, snd r)
  | VDup | VDisabled => r
  | _ => (fst r, v :: snd r)
  end.

Fixpoint head_validate (st : state) (sid : Z) (es : list exemplar) : res (list exemplar * list verr) :=
  match es with
  | [] => Ok ([], [])
  | e :: t => v <- validate_op st sid e ;; r <- head_validate st sid t ;; Ok (head_sort v e r)
  end.
Fixpoint head_commit (st : state) (sid : Z) (es : list exemplar) : res state :=
  match es with
  | [] => Ok st
  | e :: t => '(st', _) <- add st sid e ;; head_commit st' sid t
  end.
Definition hstep (st : state) (h : hop) : res (state * obs) :=
  match h with
  | HPlain o => step st o
  | HHead _ sid es =>
      '(p, errs) <- head_validate st sid (map (fun x => without_empty (fst x) (snd x)) es) ;;
      st' <- head_commit st sid p ;; Ok (st', BErrs errs)
  end.
Fixpoint hrun (st : state) (ops : list hop) : list obs :=
  match ops with
  | [] => []
  | o :: t =>
      match hstep st o with
      | Ok (st', b) => b :: hrun st' t
      | Panic => [BPanic]
      | Fuel => [BHang]
      | Stuck => [BStuck]
      end
  end.

(* ring level *)
Definition r_head_validate (r : rstate) (sid : Z) (es : list exemplar) : list exemplar * list verr :=
  fold_right (fun e acc => head_sort (r_validate r sid e) e acc) ([], []) es.
Fixpoint r_head_commit (r : rstate) (sid : Z) (es : list exemplar) : res rstate :=
  match es with
  | [] => Ok r
  | e :: t => '(r', _) <- r_add r sid e ;; r_head_commit r' sid t
  end.
Definition r_hstep (r : rstate) (h : hop) : res (rstate * obs) :=
  match h with
  | HPlain o => r_step r o
  | HHead _ sid es =>
      let '(p, errs) := r_head_validate r sid (map (fun x => without_empty (fst x) (snd x)) es) in
      r' <- r_head_commit r sid p ;; Ok (r', BErrs errs)
  end.
Fixpoint r_hrun (r : rstate) (ops : list hop) : list obs :=
  match ops with
  | [] => []
  | o :: t =>
      match r_hstep r o with
      | Ok (r', b) => b :: r_hrun r' t
      | Panic => [BPanic]
      | Fuel => [BHang]
      | Stuck => [BStuck]
      end
  end.

(* reference *)
Definition sp_head_validate (k : wrule) (s : spec) (sid : Z) (es : list exemplar) : list exemplar * list verr :=
  fold_right (fun e acc => head_sort (sp_validate k s sid e) e acc) ([], []) es.
Definition sp_head_commit (k : wrule) (s : spec) (sid : Z) (es : list exemplar) : spec :=
  fold_left (fun s e => fst (sp_add k s sid e)) es s.
Definition sp_hstep (k : wrule) (s : spec) (h : hop) : spec * obs :=
  match h with
  | HPlain o => sp_step k s o
  | HHead _ sid es =>
      let '(p, errs) := sp_head_validate k s sid (map (fun x => without_empty (fst x) (snd x)) es) in
      (sp_head_commit k s sid p, BErrs errs)
  end.
Fixpoint sp_hrun (k : wrule) (s : spec) (ops : list hop) : list obs :=
  match ops with
  | [] => []
  | o :: t => let '(s', b) := sp_hstep k s o in b :: sp_hrun k s' t
  end.

Fixpoint sim_hrun (st : state) (r : rstate) (ops : list hop) : bool :=
  wfb st && rstate_eqb (abs_ring st) r &&
  match ops with
  | [] => true
  | o :: t =>
      match hstep st o, r_hstep r o with
      | Ok (st', _), Ok (r', _) => sim_hrun st' r' t
      | Ok _, _ | _, Ok _ => false
      | _, _ => true
      end
  end.

(* model/WriteReq.v — executable model for C41 (remote-write receiver).
   Transcribed from
     storage/remote/write_handler.go   (Store, write, appendV1Samples, appendV1Histograms,
                                        writeV2, appendV2, remoteWriteAppender)
     prompb/codec.go                   (labelProtosToLabels)
     prompb/io/prometheus/write/v2/symbols.go (Symbolize, SymbolizeLabels, desymbolizeLabels)
     prompb/io/prometheus/write/v2/codec.go   (ToLabels, ToMetadata ref checks, ToExemplar)
     model/labels (Has, IsValid(UTF8Validation), HasDuplicateLabelNames, ScratchBuilder.Sort)
   plus a small two-phase model of the TSDB head appender (tsdb/head_append.go: Append /
   AppendHistogram / AppendExemplar check against the COMMITTED series state, Commit re-checks
   sample by sample) used for the tie against a real Head.
   Definitions only; proofs are in proof/WriteReqProofs.v. *)
From Coq Require Import List ZArith Bool.
Import ListNotations.
Open Scope Z_scope.

(* ---------- strings, labels ---------- *)
Definition str := list Z.                    (* bytes *)
Definition label := (str * str)%type.
Definition labels := list label.

Fixpoint str_eqb (a b : str) : bool :=
  match a, b with
  | [], [] => true
  | x :: a', y :: b' => (x =? y) && str_eqb a' b'
  | _, _ => false
  end.

(* strings.Compare(a,b) < 0 : bytewise lexicographic *)
Fixpoint str_ltb (a b : str) : bool :=
  match a, b with
  | _, [] => false
  | [], _ :: _ => true
  | x :: a', y :: b' => if x <? y then true else if y <? x then false else str_ltb a' b'
  end.
Definition str_leb (a b : str) : bool := negb (str_ltb b a).

Definition label_eqb (a b : label) : bool := str_eqb (fst a) (fst b) && str_eqb (snd a) (snd b).
Fixpoint labels_eqb (a b : labels) : bool :=
  match a, b with
  | [], [] => true
  | x :: a', y :: b' => label_eqb x y && labels_eqb a' b'
  | _, _ => false
  end.

(* ScratchBuilder.Sort: slices.SortFunc by name (insertion sort for short inputs; stable) *)
Fixpoint insert_label (l : label) (ls : labels) : labels :=
  match ls with
  | [] => [l]
  | h :: t => if str_leb (fst l) (fst h) then l :: h :: t else h :: insert_label l t
  end.
Definition sort_labels (ls : labels) : labels := fold_right insert_label [] ls.

Fixpoint sorted_strict (ls : labels) : bool :=
  match ls with
  | [] => true
  | a :: t => match t with [] => true | b :: _ => str_ltb (fst a) (fst b) && sorted_strict t end
  end.

(* Labels.WithoutEmpty *)
Definition without_empty (ls : labels) : labels :=
  filter (fun l => match snd l with [] => false | _ => true end) ls.

(* utf8.ValidString *)
Definition cont (b : Z) : bool := (128 <=? b) && (b <=? 191).
Fixpoint utf8_valid (s : str) : bool :=
  match s with
  | [] => true
  | b0 :: r0 =>
    if b0 <? 128 then utf8_valid r0
    else if b0 <? 194 then false
    else if b0 <? 224 then
      match r0 with b1 :: r1 => cont b1 && utf8_valid r1 | _ => false end
    else if b0 <? 240 then
      match r0 with
      | b1 :: b2 :: r2 =>
        (if b0 =? 224 then (160 <=? b1) && (b1 <=? 191)
         else if b0 =? 237 then (128 <=? b1) && (b1 <=? 159)
         else cont b1) && cont b2 && utf8_valid r2
      | _ => false
      end
    else if b0 <? 245 then
      match r0 with
      | b1 :: b2 :: b3 :: r3 =>
        (if b0 =? 240 then (144 <=? b1) && (b1 <=? 191)
         else if b0 =? 244 then (128 <=? b1) && (b1 <=? 143)
         else cont b1) && cont b2 && cont b3 && utf8_valid r3
      | _ => false
      end
    else false
  end.

Definition nonempty (s : str) : bool := match s with [] => false | _ => true end.
Definition metric_name : str := [95; 95; 110; 97; 109; 101; 95; 95].   (* "__name__" *)

(* Labels.Has(MetricName) *)
Definition has_name (ls : labels) : bool := existsb (fun l => str_eqb (fst l) metric_name) ls.
(* Labels.IsValid(model.UTF8Validation) *)
Definition label_valid (l : label) : bool :=
  (if str_eqb (fst l) metric_name then nonempty (snd l) && utf8_valid (snd l) else true)
  && (nonempty (fst l) && utf8_valid (fst l)) && utf8_valid (snd l).
Definition is_valid (ls : labels) : bool := forallb label_valid ls.
(* Labels.HasDuplicateLabelNames: adjacent equal names; prevName starts as "" *)
Fixpoint has_dup_from (prev : str) (ls : labels) : bool :=
  match ls with
  | [] => false
  | l :: t => if str_eqb (fst l) prev then true else has_dup_from (fst l) t
  end.
Definition has_dup (ls : labels) : bool := has_dup_from [] ls.

(* the test both handlers apply to a decoded label set *)
Definition valid_series (ls : labels) : bool := has_name ls && is_valid ls && negb (has_dup ls).

(* ---------- v2 symbol table ---------- *)
Fixpoint find_idx (s : str) (tbl : list str) (i : nat) : option nat :=
  match tbl with
  | [] => None
  | x :: r => if str_eqb s x then Some i else find_idx s r (S i)
  end.
Definition new_table : list str := [[]].      (* the empty string is symbol 0 *)
(* SymbolsTable.Symbolize (the map lookup is a search of the slice; refs are unbounded nat,
   the uint32 conversion of len(strings) is not modelled) *)
Definition symbolize (tbl : list str) (s : str) : list str * nat :=
  match find_idx s tbl 0 with
  | Some i => (tbl, i)
  | None => (tbl ++ [s], length tbl)
  end.
Fixpoint symbolize_labels (tbl : list str) (ls : labels) : list str * list nat :=
  match ls with
  | [] => (tbl, [])
  | l :: r =>
    let '(t1, i) := symbolize tbl (fst l) in
    let '(t2, j) := symbolize t1 (snd l) in
    let '(t3, rest) := symbolize_labels t2 r in
    (t3, i :: j :: rest)
  end.
Fixpoint symbolize_all (tbl : list str) (lss : list labels) : list str * list (list nat) :=
  match lss with
  | [] => (tbl, [])
  | ls :: r =>
    let '(t1, refs) := symbolize_labels tbl ls in
    let '(t2, rest) := symbolize_all t1 r in
    (t2, refs :: rest)
  end.

Fixpoint desym_pairs (refs : list nat) (syms : list str) : option labels :=
  match refs with
  | [] => Some []
  | [_] => None                                  (* odd length *)
  | i :: j :: r =>
    match nth_error syms i, nth_error syms j with
    | Some n, Some v =>
      match desym_pairs r syms with Some rest => Some ((n, v) :: rest) | None => None end
    | _, _ => None                               (* reference outside the table *)
    end
  end.
(* desymbolizeLabels: None = error *)
Definition desymbolize (refs : list nat) (syms : list str) : option labels :=
  match desym_pairs refs syms with
  | Some ps => Some (sort_labels ps)
  | None => None
  end.

(* ---------- requests ---------- *)
(* A histogram is an opaque payload: kind (float or integer), identity, and the result of
   histogram.Validate on it (oracle, supplied by the harness per histogram). *)
(* h_schema is the schema field; h_valid is Validate() of the histogram as the storage receives it
   (after remoteWriteAppender's resolution reduction, if any); h_redok: ReduceResolution(8) returns
   nil (oracle, meaningful for schemas 9..52 only). *)
Record hist := mkH { h_float : bool; h_id : Z; h_valid : bool; h_schema : Z; h_redok : bool }.
Definition hist_eqb (a b : hist) : bool :=
  Bool.eqb (h_float a) (h_float b) && (h_id a =? h_id b) && (h_schema a =? h_schema b).
(* remoteWriteAppender.AppendHistogram: IsExponentialSchemaReserved(s) && s > ExponentialSchemaMax *)
Definition needs_reduce (h : hist) : bool := (-9 <=? h_schema h) && (h_schema h <=? 52) && (8 <? h_schema h).
(* the histogram the storage receives *)
Definition reduced (h : hist) : hist :=
  if needs_reduce h then mkH (h_float h) (h_id h) (h_valid h) 8 (h_redok h) else h.

Record exemplar := mkEx { ex_labels : labels; ex_t : Z; ex_v : Z }.
Definition ex_eqb (a b : exemplar) : bool :=
  labels_eqb (ex_labels a) (ex_labels b) && (ex_t a =? ex_t b) && (ex_v a =? ex_v b).

Record ex1 := mkE1 { e1_labels : labels; e1_t : Z; e1_v : Z }.
Record ts1 := mkTS1 { t1_labels : labels; t1_samples : list (Z * Z);
                      t1_hists : list (Z * hist); t1_exs : list ex1 }.
Record ex2 := mkE2 { e2_refs : list nat; e2_t : Z; e2_v : Z }.
Record ts2 := mkTS2 { t2_refs : list nat; t2_help : nat; t2_unit : nat;
                      t2_samples : list (Z * Z); t2_hists : list (Z * hist); t2_exs : list ex2 }.
Record req2 := mkR2 { r2_syms : list str; r2_series : list ts2 }.
Inductive req := R1 (r : list ts1) | R2 (r : req2) | RBad (v2 : bool).   (* RBad: undecodable body *)

(* ---------- appender interface ---------- *)
(* classes of errors an append can return, as the handler distinguishes them:
   OSoft = ErrOutOfOrderSample / ErrOutOfBounds / ErrDuplicateSampleForTimestamp / ErrTooOldSample,
   OHistInvalid = histogram.Error, OExOOO = ErrOutOfOrderExemplar, OOther = anything else *)
Inductive outcome := OOk | OSoft | OHistInvalid | OExOOO | OOther.

Inductive event :=
| EvF (l : labels) (t v : Z)
| EvH (l : labels) (t : Z) (h : hist)
| EvE (l : labels) (e : exemplar).

Record appender (St : Type) := mkApp {
  a_append : St -> labels -> Z -> Z -> St * outcome;
  a_hist : St -> labels -> Z -> hist -> St * outcome;
  a_ex : St -> labels -> exemplar -> St * outcome;
  a_commit : St -> St * bool;
  a_rollback : St -> St }.
Arguments a_append {St}. Arguments a_hist {St}. Arguments a_ex {St}.
Arguments a_commit {St}. Arguments a_rollback {St}.

Inductive fin := FCommitted | FCommitFailed | FRolledBack | FNone.
Record result (St : Type) := mkRes {
  r_status : Z;
  r_stats : option (Z * Z * Z);      (* samples, histograms, exemplars headers; None for v1 / undecodable *)
  r_trace : list event;              (* the append calls the appender acknowledged, in order *)
  r_fin : fin;
  r_state : St }.
Arguments r_status {St}. Arguments r_stats {St}. Arguments r_trace {St}.
Arguments r_fin {St}. Arguments r_state {St}.

Section Handler.
Variable St : Type.
Variable A : appender St.
Variable maxT : Z.                   (* now + 10 minutes *)

(* remoteWriteAppender *)
Definition rw_append (st : St) (l : labels) (t v : Z) : St * outcome :=
  if maxT <? t then (st, OSoft) else a_append A st l t v.
Definition rw_hist (st : St) (l : labels) (t : Z) (h : hist) : St * outcome :=
  if maxT <? t then (st, OSoft)
  else if needs_reduce h && negb (h_redok h) then (st, OHistInvalid)   (* ReduceResolution failed: a histogram.Error *)
  else a_hist A st l t (reduced h).
Definition rw_ex (st : St) (l : labels) (e : exemplar) : St * outcome :=
  if maxT <? ex_t e then (st, OOther) else a_ex A st l e.

(* ----- v2: appendV2 / writeV2 ----- *)
Record acc := mkAcc { ac_st : St; ac_s : Z; ac_h : Z; ac_e : Z; ac_bad : Z; ac_tr : list event }.
Definition bad (a : acc) (st : St) : acc :=
  mkAcc st (ac_s a) (ac_h a) (ac_e a) (ac_bad a + 1) (ac_tr a).

Fixpoint v2_samples (l : labels) (ss : list (Z * Z)) (a : acc) : acc + St :=
  match ss with
  | [] => inl a
  | (t, v) :: r =>
    let '(st, o) := rw_append (ac_st a) l t v in
    match o with
    | OOk => v2_samples l r (mkAcc st (ac_s a + 1) (ac_h a) (ac_e a) (ac_bad a) (EvF l t v :: ac_tr a))
    | OSoft => v2_samples l r (bad a st)
    | _ => inr st
    end
  end.

Fixpoint v2_hists (l : labels) (hs : list (Z * hist)) (a : acc) : acc + St :=
  match hs with
  | [] => inl a
  | (t, h) :: r =>
    let '(st, o) := rw_hist (ac_st a) l t h in
    match o with
    | OOk => v2_hists l r (mkAcc st (ac_s a) (ac_h a + 1) (ac_e a) (ac_bad a) (EvH l t (reduced h) :: ac_tr a))
    | OSoft | OHistInvalid => v2_hists l r (bad a st)
    | _ => inr st
    end
  end.

Fixpoint v2_exs (syms : list str) (l : labels) (es : list ex2) (a : acc) : acc :=
  match es with
  | [] => a
  | e :: r =>
    match desymbolize (e2_refs e) syms with
    | None => v2_exs syms l r (bad a (ac_st a))
    | Some el =>
      let ex := mkEx el (e2_t e) (e2_v e) in
      let '(st, o) := rw_ex (ac_st a) l ex in
      match o with
      | OOk => v2_exs syms l r (mkAcc st (ac_s a) (ac_h a) (ac_e a + 1) (ac_bad a) (EvE l ex :: ac_tr a))
      | OExOOO => v2_exs syms l r (bad a st)
      | _ => v2_exs syms l r (mkAcc st (ac_s a) (ac_h a) (ac_e a) (ac_bad a) (ac_tr a))
      end
    end
  end.

Definition meta_ok (ts : ts2) (syms : list str) : bool :=
  (Nat.ltb (t2_unit ts) (length syms)) && (Nat.ltb (t2_help ts) (length syms)).

Definition v2_series (syms : list str) (ts : ts2) (a : acc) : acc + St :=
  match desymbolize (t2_refs ts) syms with
  | None => inl (bad a (ac_st a))
  | Some ls =>
    if negb (meta_ok ts syms) then inl (bad a (ac_st a))
    else if negb (valid_series ls) then inl (bad a (ac_st a))
    else match t2_samples ts, t2_hists ts with
    | [], [] => inl (bad a (ac_st a))
    | _, _ =>
      match v2_samples ls (t2_samples ts) a with
      | inr st => inr st
      | inl a1 =>
        match v2_hists ls (t2_hists ts) a1 with
        | inr st => inr st
        | inl a2 => inl (v2_exs syms ls (t2_exs ts) a2)
        end
      end
    end
  end.

Fixpoint v2_all (syms : list str) (tss : list ts2) (a : acc) : acc + St :=
  match tss with
  | [] => inl a
  | ts :: r => match v2_series syms ts a with inr st => inr st | inl a' => v2_all syms r a' end
  end.

Definition handle_v2 (st0 : St) (r : req2) : result St :=
  match v2_all (r2_syms r) (r2_series r) (mkAcc st0 0 0 0 0 []) with
  | inr st => mkRes St 500 (Some (0, 0, 0)) [] FRolledBack (a_rollback A st)
  | inl a =>
    let '(st, ok) := a_commit A (ac_st a) in
    if ok then mkRes St (if ac_bad a =? 0 then 204 else 400) (Some (ac_s a, ac_h a, ac_e a))
                     (rev (ac_tr a)) FCommitted st
    else mkRes St 500 (Some (0, 0, 0)) [] FCommitFailed st
  end.

(* ----- v1: write / appendV1Samples / appendV1Histograms ----- *)
Fixpoint v1_samples (l : labels) (ss : list (Z * Z)) (st : St) (tr : list event)
  : (St * list event) + (St * outcome) :=
  match ss with
  | [] => inl (st, tr)
  | (t, v) :: r =>
    let '(st', o) := rw_append st l t v in
    match o with
    | OOk => v1_samples l r st' (EvF l t v :: tr)
    | _ => inr (st', o)
    end
  end.
Fixpoint v1_hists (l : labels) (hs : list (Z * hist)) (st : St) (tr : list event)
  : (St * list event) + (St * outcome) :=
  match hs with
  | [] => inl (st, tr)
  | (t, h) :: r =>
    let '(st', o) := rw_hist st l t h in
    match o with
    | OOk => v1_hists l r st' (EvH l t (reduced h) :: tr)
    | _ => inr (st', o)
    end
  end.
Fixpoint v1_exs (l : labels) (es : list ex1) (st : St) (tr : list event) : St * list event :=
  match es with
  | [] => (st, tr)
  | e :: r =>
    let ex := mkEx (sort_labels (e1_labels e)) (e1_t e) (e1_v e) in
    let '(st', o) := rw_ex st l ex in
    match o with
    | OOk => v1_exs l r st' (EvE l ex :: tr)
    | _ => v1_exs l r st' tr
    end
  end.

Fixpoint v1_all (tss : list ts1) (st : St) (tr : list event) : (St * list event) + (St * outcome) :=
  match tss with
  | [] => inl (st, tr)
  | ts :: r =>
    let ls := sort_labels (t1_labels ts) in
    if negb (valid_series ls) then v1_all r st tr
    else match v1_samples ls (t1_samples ts) st tr with
    | inr e => inr e
    | inl (st1, tr1) =>
      let '(st2, tr2) := v1_exs ls (t1_exs ts) st1 tr1 in
      match v1_hists ls (t1_hists ts) st2 tr2 with
      | inr e => inr e
      | inl (st3, tr3) => v1_all r st3 tr3
      end
    end
  end.

Definition handle_v1 (st0 : St) (r : list ts1) : result St :=
  match v1_all r st0 [] with
  | inr (st, o) =>
    mkRes St (match o with OSoft | OHistInvalid => 400 | _ => 500 end) None [] FRolledBack
          (a_rollback A st)
  | inl (st, tr) =>
    let '(st', ok) := a_commit A st in
    if ok then mkRes St 204 None (rev tr) FCommitted st'
    else mkRes St 500 None [] FCommitFailed st'
  end.

(* Store *)
Definition handle (st0 : St) (r : req) : result St :=
  match r with
  | R1 r1 => handle_v1 st0 r1
  | R2 r2 => handle_v2 st0 r2
  | RBad v2 =>     (* proto.Unmarshal failed: the appender is never opened; a 2.0 response still carries zero stats headers *)
    mkRes St 400 (if v2 then Some (0, 0, 0) else None) [] FNone st0
  end.
End Handler.

Arguments handle {St}. Arguments handle_v1 {St}. Arguments handle_v2 {St}.

Definition count_f (tr : list event) : Z :=
  Z.of_nat (length (filter (fun e => match e with EvF _ _ _ => true | _ => false end) tr)).
Definition count_h (tr : list event) : Z :=
  Z.of_nat (length (filter (fun e => match e with EvH _ _ _ => true | _ => false end) tr)).
Definition count_e (tr : list event) : Z :=
  Z.of_nat (length (filter (fun e => match e with EvE _ _ => true | _ => false end) tr)).

(* ---------- instance 1: scripted appender (the harness' recording appendable) ---------- *)
(* state = number of calls that reached the appender; the i-th call returns nth i script *)
Definition scripted (script : list outcome) (commit_ok : bool) : appender nat :=
  mkApp nat
    (fun n _ _ _ => (S n, nth n script OOk))
    (fun n _ _ _ => (S n, nth n script OOk))
    (fun n _ _ => (S n, nth n script OOk))
    (fun n => (n, commit_ok))
    (fun n => n).

(* ---------- instance 2: an atomic ("ideal") storage ---------- *)
(* every acknowledged append is stored at commit; the decision may depend on everything
   acknowledged so far *)
Record ideal := mkIdeal { id_stored : list event; id_pending : list event }.
Definition ideal_app (decide : list event -> event -> outcome) : appender ideal :=
  mkApp ideal
    (fun s l t v => let o := decide (id_pending s ++ id_stored s) (EvF l t v) in
        (match o with OOk => mkIdeal (id_stored s) (EvF l t v :: id_pending s) | _ => s end, o))
    (fun s l t h => let o := decide (id_pending s ++ id_stored s) (EvH l t h) in
        (match o with OOk => mkIdeal (id_stored s) (EvH l t h :: id_pending s) | _ => s end, o))
    (fun s l e => let o := decide (id_pending s ++ id_stored s) (EvE l e) in
        (match o with OOk => mkIdeal (id_stored s) (EvE l e :: id_pending s) | _ => s end, o))
    (fun s => (mkIdeal (id_pending s ++ id_stored s) [], true))
    (fun s => mkIdeal (id_stored s) []).

(* ---------- instance 3: two-phase model of the TSDB head (OOO window 0) ---------- *)
Inductive payload := PF (v : Z) | PH (h : hist).
Definition payload_eqb (a b : payload) : bool :=
  match a, b with
  | PF x, PF y => x =? y
  | PH x, PH y => hist_eqb x y
  | _, _ => false
  end.
Record mseries := mkMS { ms_labels : labels;
                         ms_samples : list (Z * payload);     (* newest first *)
                         ms_exs : list exemplar }.            (* newest first *)
Record head := mkHead { hd_maxt : option Z; hd_series : list mseries; hd_exon : bool; hd_cr : Z }.
Inductive pend := PS (l : labels) (t : Z) (p : payload) | PE (l : labels) (e : exemplar).
Record happ := mkHA { ha_head : head; ha_minvalid : option Z; ha_pending : list pend }.  (* pending: newest first *)

Definition head_new (exon : bool) (cr : Z) : head := mkHead None [] exon cr.

(* Head.Appender: initAppender (minvalid None) while the head has no time yet *)
Definition head_appender (h : head) : happ :=
  mkHA h (match hd_maxt h with Some m => Some (m - Z.quot (hd_cr h) 2) | None => None end) [].

(* initAppender.*: initTime(t) then head.appender() *)
Definition ensure_init (a : happ) (t : Z) : happ :=
  match ha_minvalid a with
  | Some _ => a
  | None =>
    let h := ha_head a in
    let h' := mkHead (Some t) (hd_series h) (hd_exon h) (hd_cr h) in
    mkHA h' (Some (t - Z.quot (hd_cr h) 2)) (ha_pending a)
  end.
Definition minvalid (a : happ) : Z := match ha_minvalid a with Some m => m | None => 0 end.

Fixpoint find_series (l : labels) (ss : list mseries) : option mseries :=
  match ss with
  | [] => None
  | s :: r => if labels_eqb (ms_labels s) l then Some s else find_series l r
  end.
Fixpoint put_series (s : mseries) (ss : list mseries) : list mseries :=
  match ss with
  | [] => [s]
  | x :: r => if labels_eqb (ms_labels x) (ms_labels s) then s :: r else x :: put_series s r
  end.
(* getOrCreate *)
Definition get_or_create (h : head) (l : labels) : head * mseries :=
  match find_series l (hd_series h) with
  | Some s => (h, s)
  | None => let s := mkMS l [] [] in
            (mkHead (hd_maxt h) (hd_series h ++ [s]) (hd_exon h) (hd_cr h), s)
  end.

(* memSeries.appendable / appendableHistogram / appendableFloatHistogram with oooTimeWindow = 0,
   given t >= minValidTime: true = no error *)
Definition appendable (s : mseries) (t : Z) (p : payload) : bool :=
  match ms_samples s with
  | [] => true
  | (mt, lp) :: _ =>
    if mt <? t then true
    else if t =? mt then payload_eqb lp p
    else false
  end.

Definition head_append_sample (a0 : happ) (l : labels) (t : Z) (p : payload) : happ * outcome :=
  let a := ensure_init a0 t in
  if t <? minvalid a then (a, OSoft)                                  (* ErrOutOfBounds, fail fast *)
  else match p with
  | PH (mkH _ _ false _ _) => (a, OHistInvalid)                           (* h.Validate() *)
  | _ =>
    let '(h, s) := get_or_create (ha_head a) (without_empty l) in
    let a' := mkHA h (ha_minvalid a) (ha_pending a) in
    if appendable s t p then (mkHA h (ha_minvalid a) (PS (without_empty l) t p :: ha_pending a), OOk)
    else (a', OSoft)
  end.

Definition sum_len (ls : labels) : Z :=
  fold_left (fun n l => n + Z.of_nat (length (fst l)) + Z.of_nat (length (snd l))) ls 0.

(* CircularExemplarStorage.validateExemplar against the newest stored exemplar of the series
   (rune count = byte count: the generator keeps exemplar labels ASCII).
   0 = ok, 1 = duplicate, 2 = out of order, 3 = label set too long *)
Definition validate_ex (s : mseries) (e : exemplar) : Z :=
  if 128 <? sum_len (ex_labels e) then 3
  else match ms_exs s with
  | [] => 0
  | n :: _ =>
    if ex_eqb n e then 1
    else if ex_t e <? ex_t n then 2
    else if (ex_t e =? ex_t n) && (ex_v e <? ex_v n) then 2
    else 0
  end.

Definition head_append_ex (a0 : happ) (l : labels) (e0 : exemplar) : happ * outcome :=
  if negb (hd_exon (ha_head a0)) then (a0, OOk)                        (* return 0, nil *)
  else
    let a := ensure_init a0 (ex_t e0) in
    match find_series l (hd_series (ha_head a)) with
    | None => (a, OOther)                                              (* unknown HeadSeriesRef *)
    | Some s =>
      let e := mkEx (without_empty (ex_labels e0)) (ex_t e0) (ex_v e0) in
      match validate_ex s e with
      | 0 => (mkHA (ha_head a) (ha_minvalid a) (PE l e :: ha_pending a), OOk)
      | 1 => (a, OOk)                                                  (* duplicate: return 0, nil *)
      | 2 => (a, OExOOO)
      | _ => (a, OOther)
      end
    end.

Definition opt_max (m : option Z) (t : Z) : option Z :=
  match m with Some x => Some (Z.max x t) | None => Some t end.

(* commitFloats / commitHistograms / commitFloatHistograms / commitExemplars, one entry *)
Definition commit_one (mv : Z) (h : head) (p : pend) : head :=
  match p with
  | PS l t pl =>
    match find_series l (hd_series h) with
    | None => h
    | Some s =>
      if t <? mv then h
      else match ms_samples s with
      | [] => mkHead (opt_max (hd_maxt h) t) (put_series (mkMS l [(t, pl)] (ms_exs s)) (hd_series h)) (hd_exon h) (hd_cr h)
      | (mt, _) :: _ =>
        if mt <? t then
          mkHead (opt_max (hd_maxt h) t) (put_series (mkMS l ((t, pl) :: ms_samples s) (ms_exs s)) (hd_series h)) (hd_exon h) (hd_cr h)
        else h                      (* out of order, duplicate timestamp, or exact duplicate: dropped *)
      end
    end
  | PE l e =>
    match find_series l (hd_series h) with
    | None => h
    | Some s =>
      match validate_ex s e with
      | 0 => mkHead (hd_maxt h) (put_series (mkMS (ms_labels s) (ms_samples s) (e :: ms_exs s)) (hd_series h)) (hd_exon h) (hd_cr h)
      | _ => h
      end
    end
  end.

Definition head_commit (a : happ) : happ * bool :=
  let h := fold_left (commit_one (minvalid a)) (rev (ha_pending a)) (ha_head a) in
  (mkHA h (ha_minvalid a) [], true).
Definition head_rollback (a : happ) : happ := mkHA (ha_head a) (ha_minvalid a) [].

Definition head_app : appender happ :=
  mkApp happ
    (fun a l t v => head_append_sample a l t (PF v))
    (fun a l t h => head_append_sample a l t (PH h))
    head_append_ex
    head_commit
    head_rollback.

(* one request against a head: Appender(), handle, resulting head *)
Definition head_request (maxT : Z) (h : head) (r : req) : result happ :=
  handle head_app maxT (head_appender h) r.

(* number of stored float samples / histograms / exemplars *)
Definition is_pf (x : Z * payload) : bool := match snd x with PF _ => true | PH _ => false end.
Definition head_floats (h : head) : Z :=
  fold_left (fun n s => n + Z.of_nat (length (filter is_pf (ms_samples s)))) (hd_series h) 0.
Definition head_hists (h : head) : Z :=
  fold_left (fun n s => n + Z.of_nat (length (filter (fun x => negb (is_pf x)) (ms_samples s)))) (hd_series h) 0.
Definition head_exs (h : head) : Z :=
  fold_left (fun n s => n + Z.of_nat (length (ms_exs s))) (hd_series h) 0.

(* ---------- native histogram codec (prompb/codec.go and prompb/io/prometheus/write/v2/codec.go:
   FromIntHistogram, FromFloatHistogram, IsFloatHistogram, ToIntHistogram, ToFloatHistogram,
   deltasToCounts; the two protocol versions differ only in the StartTimestamp field) ---------- *)
(* model histogram (histogram.Histogram / FloatHistogram): floats are IEEE bit patterns; for an
   integer histogram zero count / count are uint64 values and buckets are int64 deltas, for a
   float histogram they are bit patterns *)
Record ghist := mkGH { g_float : bool; g_hint : Z; g_schema : Z; g_zt : Z; g_zc : Z; g_count : Z;
                       g_sum : Z; g_pspans : list (Z * Z); g_pb : list Z;
                       g_nspans : list (Z * Z); g_nb : list Z; g_custom : list Z }.
(* the proto message: count and zero_count are oneofs *)
Inductive pcount := PCInt (n : Z) | PCFloat (bits : Z).
Record phist := mkPH { p_count : pcount; p_sum : Z; p_schema : Z; p_zt : Z; p_zc : pcount;
                       p_nspans : list (Z * Z); p_ndeltas : list Z; p_ncounts : list Z;
                       p_pspans : list (Z * Z); p_pdeltas : list Z; p_pcounts : list Z;
                       p_hint : Z; p_ts : Z; p_custom : list Z; p_st : Z }.

Definition from_int (st ts : Z) (h : ghist) : phist :=
  mkPH (PCInt (g_count h)) (g_sum h) (g_schema h) (g_zt h) (PCInt (g_zc h))
       (g_nspans h) (g_nb h) [] (g_pspans h) (g_pb h) [] (g_hint h) ts (g_custom h) st.
Definition from_float (st ts : Z) (h : ghist) : phist :=
  mkPH (PCFloat (g_count h)) (g_sum h) (g_schema h) (g_zt h) (PCFloat (g_zc h))
       (g_nspans h) [] (g_nb h) (g_pspans h) [] (g_pb h) (g_hint h) ts (g_custom h) st.

Definition is_float_hist (p : phist) : bool := match p_count p with PCFloat _ => true | PCInt _ => false end.
(* the generated oneof getters return the zero value for the other variant *)
Definition get_int (c : pcount) : Z := match c with PCInt n => n | PCFloat _ => 0 end.
Definition get_float (c : pcount) : Z := match c with PCFloat b => b | PCInt _ => 0 end.

(* float64(n) for an integer n: round to nearest, ties to even; result as the integer value *)
Definition rnd53 (n : Z) : Z :=
  let a := Z.abs n in
  if a <? 9007199254740992 then n
  else
    let sh := Z.log2 a - 52 in
    let q := a / 2 ^ sh in
    let r := a mod 2 ^ sh in
    let half := 2 ^ (sh - 1) in
    let q' := if (half <? r) || ((r =? half) && Z.odd q) then q + 1 else q in
    Z.sgn n * (q' * 2 ^ sh).
(* IEEE-754 binary64 bit pattern of an exactly representable integer *)
Definition bits_exact (n : Z) : Z :=
  if n =? 0 then 0
  else
    let a := Z.abs n in
    let e := Z.log2 a in
    let mant := if e <=? 52 then a * 2 ^ (52 - e) else a / 2 ^ (e - 52) in
    (if n <? 0 then 9223372036854775808 else 0) + (e + 1023) * 4503599627370496 + (mant - 4503599627370496).
Definition z2f (n : Z) : Z := bits_exact (rnd53 n).
(* deltasToCounts: cur += float64(d) in float64 arithmetic (operands are integers, so the
   rounded sum is the rounding of the exact integer sum) *)
Fixpoint deltas_to_counts (cur : Z) (ds : list Z) : list Z :=
  match ds with
  | [] => []
  | d :: r => let c := rnd53 (cur + rnd53 d) in bits_exact c :: deltas_to_counts c r
  end.

Definition to_int (p : phist) : option ghist :=
  if is_float_hist p then None
  else Some (mkGH false (p_hint p) (p_schema p) (p_zt p) (get_int (p_zc p)) (get_int (p_count p))
                  (p_sum p) (p_pspans p) (p_pdeltas p) (p_nspans p) (p_ndeltas p) (p_custom p)).
Definition to_float (p : phist) : ghist :=
  if is_float_hist p then
    mkGH true (p_hint p) (p_schema p) (p_zt p) (get_float (p_zc p)) (get_float (p_count p))
         (p_sum p) (p_pspans p) (p_pcounts p) (p_nspans p) (p_ncounts p) (p_custom p)
  else
    mkGH true (p_hint p) (p_schema p) (p_zt p) (z2f (get_int (p_zc p))) (z2f (get_int (p_count p)))
         (p_sum p) (p_pspans p) (deltas_to_counts 0 (p_pdeltas p)) (p_nspans p)
         (deltas_to_counts 0 (p_ndeltas p)) (p_custom p).

(* proto.Marshal + proto.Unmarshal of the generated (gogo, proto3) code: a scalar `double` field is
   written only `if m.X != 0`, which is false for -0.0 too, so negative zero arrives as +0.0.
   Applies to Histogram.sum, Histogram.zero_threshold, Sample.value, Exemplar.value (oneof members
   and packed repeated doubles are written bit for bit). *)
Definition negzero : Z := 9223372036854775808.
Definition wire_f (b : Z) : Z := if b =? negzero then 0 else b.
Definition transmit (p : phist) : phist :=
  mkPH (p_count p) (wire_f (p_sum p)) (p_schema p) (wire_f (p_zt p)) (p_zc p)
       (p_nspans p) (p_ndeltas p) (p_ncounts p) (p_pspans p) (p_pdeltas p) (p_pcounts p)
       (p_hint p) (p_ts p) (p_custom p) (p_st p).

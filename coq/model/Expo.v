(* model/Expo.v — exposition formats (C35): executable definitions only.

   1. abstract metric families (what an exporter hands to an encoder) and the entry stream a
      textparse.Parser yields (Next/Help/Type/Unit/Series/Labels/Exemplar/Histogram);
   2. SPEC: the entry stream each format is expected to yield for a family list
      ([entries_text], [entries_om], [entries_proto]) — exactly the encoded samples, labels,
      timestamps, exemplars and metadata, up to the documented naming rules of each format;
   3. printers transcribing the reference encoders (prometheus/common/expfmt text_create.go,
      openmetrics_create.go);
   4. the lexers (promlex.l / openmetricslex.l, with golex's "longest match, no backing up"
      behaviour as visible in the generated *.l.go) and the parsers (promparse.go,
      openmetricsparse.go) over characters;
   5. the protobuf parser at message level (protobufparse.go's state machine over decoded
      MetricFamily messages; the wire decoding is trusted gogo/protobuf).

   strconv and float conversions are oracles (record [oracles]), tabulated per case by the
   harness; bytes are [N], float64 values are their IEEE bit patterns as [Z]. *)
From Coq Require Import List NArith ZArith Bool.
Import ListNotations.
Open Scope N_scope.

Definition bstr := list N.

Fixpoint bstr_eqb (a b : bstr) : bool :=
  match a, b with
  | [], [] => true
  | x :: a', y :: b' => (x =? y) && bstr_eqb a' b'
  | _, _ => false
  end.

(* byte-wise lexicographic order (Go string comparison) *)
Fixpoint bstr_ltb (a b : bstr) : bool :=
  match a, b with
  | _, [] => false
  | [], _ :: _ => true
  | x :: a', y :: b' => (x <? y) || ((x =? y) && bstr_ltb a' b')
  end.

Definition is_nil {A} (l : list A) : bool := match l with [] => true | _ => false end.

Fixpoint take_while (p : N -> bool) (b : bstr) : bstr :=
  match b with
  | c :: r => if p c then c :: take_while p r else []
  | [] => []
  end.

Fixpoint has_suffix (s suf : bstr) : bool :=
  bstr_eqb s suf || match s with [] => false | _ :: r => has_suffix r suf end.

Definition drop_last (n : nat) (s : bstr) : bstr := firstn (length s - n) s.

(* ------------------------------------------------------------------ families *)
Definition lp := (bstr * bstr)%type.
Inductive mtype := MCounter | MGauge | MSummary | MUntyped | MHist | MGHist.
Record exm := mkEx { ex_labels : list lp; ex_val : Z; ex_ts : option Z }.
Record bucket := mkBk { bk_ub : Z; bk_cnt : Z; bk_ex : option exm }.
Record nhist := mkNH { nh_schema : Z; nh_zth : Z; nh_zcnt : Z;
                       nh_ps : list (Z * Z); nh_pd : list Z; nh_ns : list (Z * Z); nh_nd : list Z }.
Record metric := mkMet {
  m_labels : list lp; m_ts : option Z; m_val : Z; m_ex : option exm; m_created : option Z;
  m_count : Z; m_sum : Z; m_q : list (Z * Z); m_b : list bucket; m_nh : option nhist }.
Record family := mkFam { f_name : bstr; f_help : option bstr; f_unit : option bstr; f_type : mtype;
                         f_metrics : list metric }.

(* ------------------------------------------------------------------ entries *)
Record ohist := mkOHist { oh_schema : Z; oh_zth : Z; oh_zcnt : Z; oh_count : Z; oh_sum : Z;
                          oh_ps : list (Z * Z); oh_pd : list Z; oh_ns : list (Z * Z); oh_nd : list Z;
                          oh_hint : Z }.
(* metric type codes (model.MetricType): 0 unknown 1 counter 2 gauge 3 summary 4 histogram
   5 gaugehistogram 6 info 7 stateset *)
Inductive entry :=
| OH (name help : bstr)
| OT (name : bstr) (t : N)
| OU (name unit : bstr)
| OC
| OS (labels : list lp) (v : Z) (ts : option Z) (exs : list exm) (st : Z)
| OX (labels : list lp) (h : ohist) (ts : option Z) (exs : list exm) (st : Z).

Record opts := mkOpts { o_typeunit : bool; o_skipst : bool; o_created : bool; o_ignorenh : bool;
                        o_keepclassic : bool }.

(* ------------------------------------------------------------------ oracles (strconv etc.) *)
Record oracles := mkOr {
  o_ftext : Z -> bstr;            (* expfmt.writeFloat *)
  o_fom : Z -> bstr;              (* expfmt.writeOpenMetricsFloat = labels.FormatOpenMetricsFloat *)
  o_fint : Z -> bstr;             (* strconv.AppendInt / AppendUint, base 10 *)
  o_u2f : Z -> Z;                 (* float64(uint64) *)
  o_ts2f : Z -> Z;                (* float64(ms)/1000 *)
  o_cr2f : Z -> Z;                (* float64(Timestamp.AsTime().UnixNano())/1e9 of a ms timestamp *)
  o_pfloat : bstr -> option Z;    (* strconv.ParseFloat(s, 64), None on error *)
  o_norm : bstr -> option bstr;   (* FormatOpenMetricsFloat(ParseFloat(s)) *)
  o_omts : bstr -> option Z;      (* ParseFloat, reject NaN/Inf, int64(f*1000) *)
  o_pint : bstr -> option Z       (* strconv.ParseInt(s, 10, 64) *)
}.

(* ------------------------------------------------------------------ constants *)
Definition s_name : bstr := [95;95;110;97;109;101;95;95].          (* __name__ *)
Definition s_type : bstr := [95;95;116;121;112;101;95;95].         (* __type__ *)
Definition s_unit : bstr := [95;95;117;110;105;116;95;95].         (* __unit__ *)
Definition s_le : bstr := [108;101].
Definition s_quantile : bstr := [113;117;97;110;116;105;108;101].
Definition s_sum : bstr := [95;115;117;109].
Definition s_count : bstr := [95;99;111;117;110;116].
Definition s_bucket : bstr := [95;98;117;99;107;101;116].
Definition s_total : bstr := [95;116;111;116;97;108].
Definition s_created : bstr := [95;99;114;101;97;116;101;100].
Definition s_counter : bstr := [99;111;117;110;116;101;114].
Definition s_gauge : bstr := [103;97;117;103;101].
Definition s_summary : bstr := [115;117;109;109;97;114;121].
Definition s_untyped : bstr := [117;110;116;121;112;101;100].
Definition s_unknown : bstr := [117;110;107;110;111;119;110].
Definition s_histogram : bstr := [104;105;115;116;111;103;114;97;109].
Definition s_gaugehistogram : bstr := s_gauge ++ s_histogram.
Definition s_info : bstr := [105;110;102;111].
Definition s_stateset : bstr := [115;116;97;116;101;115;101;116].
Definition s_HELP : bstr := [72;69;76;80].
Definition s_TYPE : bstr := [84;89;80;69].
Definition s_UNIT : bstr := [85;78;73;84].
Definition s_EOF : bstr := [69;79;70].

Definition type_name (c : N) : bstr :=
  match c with
  | 1 => s_counter | 2 => s_gauge | 3 => s_summary | 4 => s_histogram | 5 => s_gaugehistogram
  | 6 => s_info | 7 => s_stateset | _ => s_unknown
  end.

(* float bit patterns *)
Definition posinf : Z := 9218868437227405312%Z.       (* 0x7FF0000000000000 *)
Definition negzero : Z := 9223372036854775808%Z.      (* 0x8000000000000000 *)
Definition normal_nan : Z := 9221120237041090561%Z.   (* value.NormalNaN 0x7FF8000000000001 *)
Definition is_nan (b : Z) : bool :=
  (Z.land b posinf =? posinf)%Z && negb (Z.land b 4503599627370495 =? 0)%Z.
Definition canon_nan (b : Z) : Z := if is_nan b then normal_nan else b.
(* what the text encoders can express: writeFloat prints -0 as 0 and every NaN as NaN *)
Definition canon_txt (b : Z) : Z := canon_nan (if (b =? negzero)%Z then 0%Z else b).
Definition is_posinf (b : Z) : bool := (b =? posinf)%Z.

(* ------------------------------------------------------------------ labels of a series *)
(* schema.Metadata.IsEmptyFor *)
Definition is_empty_for (name : bstr) (tcode : N) (unit : bstr) (l : bstr) : bool :=
  if bstr_eqb l s_name then is_nil name
  else if bstr_eqb l s_type then (tcode =? 0)
  else if bstr_eqb l s_unit then is_nil unit
  else true.

(* schema.Metadata.AddToLabels *)
Definition add_to_labels (name : bstr) (tcode : N) (unit : bstr) : list lp :=
  (if is_nil name then [] else [(s_name, name)]) ++
  (if tcode =? 0 then [] else [(s_type, type_name tcode)]) ++
  (if is_nil unit then [] else [(s_unit, unit)]).

Fixpoint insert_lp (x : lp) (l : list lp) : list lp :=
  match l with
  | [] => [x]
  | y :: r => if bstr_ltb (fst x) (fst y) then x :: l else y :: insert_lp x r
  end.
(* stable sort by label name (ScratchBuilder.Sort) *)
Definition sort_lps (l : list lp) : list lp := fold_right insert_lp [] l.

(* labels of a series: metric name, optional type/unit labels, user labels (those overridden by
   metadata dropped), sorted *)
Definition series_labels (tu : bool) (name : bstr) (tcode : N) (unit : bstr) (user : list lp) : list lp :=
  sort_lps ((if tu then add_to_labels name tcode unit else [(s_name, name)]) ++
            filter (fun l => negb tu || is_empty_for name tcode unit (fst l)) user).

Definition sort_ex (e : exm) : exm := mkEx (sort_lps (ex_labels e)) (ex_val e) (ex_ts e).

(* ================================================================== SPEC: expected entries *)
Definition text_tcode (t : mtype) : N :=
  match t with MCounter => 1 | MGauge => 2 | MSummary => 3 | MUntyped => 0 | MHist | MGHist => 4 end.

Definition opt_list {A} (o : option A) : list A := match o with Some x => [x] | None => [] end.
Definition opt_bstr (o : option bstr) : bstr := match o with Some x => x | None => [] end.

Section Spec.
Variable O : oracles.

(* the series of one metric in the order the text encoders write them; [cv] canonicalises
   values, [exf] says which exemplars the format carries, [st] is the start timestamp *)
Definition mk_series (tu : bool) (name : bstr) (tcode : N) (unit : bstr) (m : metric) (suffix : bstr)
           (extra : list lp) (v : Z) (exs : list exm) (st : Z) : entry :=
  OS (series_labels tu (name ++ suffix) tcode unit (m_labels m ++ extra)) v (m_ts m) exs st.

Definition has_inf_bucket (bs : list bucket) : bool := existsb (fun b => is_posinf (bk_ub b)) bs.

Definition text_metric (tu : bool) (name : bstr) (t : mtype) (m : metric) : list entry :=
  let tc := text_tcode t in
  let S := mk_series tu name tc [] m in
  match t with
  | MCounter | MGauge | MUntyped => [S [] [] (canon_txt (m_val m)) [] 0%Z]
  | MSummary =>
      map (fun q => S [] [(s_quantile, o_fom O (fst q))] (canon_txt (snd q)) [] 0%Z) (m_q m) ++
      [S s_sum [] (canon_txt (m_sum m)) [] 0%Z; S s_count [] (canon_txt (o_u2f O (m_count m))) [] 0%Z]
  | MHist | MGHist =>
      map (fun b => S s_bucket [(s_le, o_fom O (bk_ub b))] (canon_txt (o_u2f O (bk_cnt b))) [] 0%Z) (m_b m) ++
      (if has_inf_bucket (m_b m) then []
       else [S s_bucket [(s_le, o_fom O posinf)] (canon_txt (o_u2f O (m_count m))) [] 0%Z]) ++
      [S s_sum [] (canon_txt (m_sum m)) [] 0%Z; S s_count [] (canon_txt (o_u2f O (m_count m))) [] 0%Z]
  end.

Definition text_family (tu : bool) (f : family) : list entry :=
  map (OH (f_name f)) (opt_list (f_help f)) ++ [OT (f_name f) (text_tcode (f_type f))] ++
  flat_map (text_metric tu (f_name f) (f_type f)) (f_metrics f).

Definition entries_text (tu : bool) (fams : list family) : list entry := flat_map (text_family tu) fams.

(* ---- OpenMetrics *)
Definition om_is_total (f : family) : bool :=
  match f_type f with MCounter => has_suffix (f_name f) s_total | _ => false end.
Definition om_cname (f : family) : bstr := if om_is_total f then drop_last 6 (f_name f) else f_name f.
Definition om_tcode (f : family) : N :=
  match f_type f with
  | MCounter => if om_is_total f then 1 else 0
  | MGauge => 2 | MSummary => 3 | MUntyped => 0 | MHist => 4 | MGHist => 5
  end.
Definition type_requires_st (tc : N) : bool := (tc =? 1) || (tc =? 3) || (tc =? 4).

Definition om_ex (e : option exm) : list exm :=
  match e with
  | Some x => if is_nil (ex_labels x) then [] else [mkEx (sort_lps (ex_labels x)) (canon_txt (ex_val x)) (ex_ts x)]
  | None => []
  end.

Definition om_metric (o : opts) (f : family) (m : metric) : list entry :=
  let tc := om_tcode f in
  let unit := opt_bstr (f_unit f) in
  let tu := o_typeunit o in
  let st := if o_skipst o && type_requires_st tc && o_created o
            then match m_created m with Some c => c | None => 0%Z end else 0%Z in
  let S := fun suffix extra v exs => mk_series tu (f_name f) tc unit m suffix extra v exs st in
  let created :=
    match m_created m with
    | Some c =>
        if o_created o && negb (o_skipst o && type_requires_st tc)
        then [OS (series_labels tu (om_cname f ++ s_created) tc unit (m_labels m))
                 (canon_txt (o_cr2f O c)) None [] 0%Z]
        else []
    | None => []
    end in
  match f_type f with
  | MCounter => [S [] [] (canon_txt (m_val m)) (om_ex (m_ex m))] ++ created
  | MGauge | MUntyped => [S [] [] (canon_txt (m_val m)) []]
  | MSummary =>
      map (fun q => S [] [(s_quantile, o_fom O (fst q))] (canon_txt (snd q)) []) (m_q m) ++
      [S s_sum [] (canon_txt (m_sum m)) []; S s_count [] (canon_txt (o_u2f O (m_count m))) []] ++ created
  | MHist | MGHist =>
      map (fun b => S s_bucket [(s_le, o_fom O (bk_ub b))] (canon_txt (o_u2f O (bk_cnt b))) (om_ex (bk_ex b))) (m_b m) ++
      (if has_inf_bucket (m_b m) then []
       else [S s_bucket [(s_le, o_fom O posinf)] (canon_txt (o_u2f O (m_count m))) []]) ++
      [S s_sum [] (canon_txt (m_sum m)) []; S s_count [] (canon_txt (o_u2f O (m_count m))) []] ++ created
  end.

Definition om_family (o : opts) (f : family) : list entry :=
  map (OH (om_cname f)) (opt_list (f_help f)) ++ [OT (om_cname f) (om_tcode f)] ++
  map (OU (om_cname f)) (opt_list (f_unit f)) ++
  flat_map (om_metric o f) (f_metrics f).

Definition entries_om (o : opts) (fams : list family) : list entry := flat_map (om_family o) fams.

(* ---- protobuf: the state machine of protobufparse.go over decoded messages *)
Definition proto_tcode (t : mtype) : N :=
  match t with MCounter => 1 | MGauge => 2 | MSummary => 3 | MUntyped => 0 | MHist => 4 | MGHist => 5 end.

Definition proto_ts (m : metric) : option Z :=
  match m_ts m with Some t => if (t =? 0)%Z then None else Some t | None => None end.

Definition is_native (m : metric) : bool :=
  match m_nh m with
  | Some h => negb (is_nil (nh_ps h)) || negb (is_nil (nh_ns h)) || (0 <? nh_zcnt h)%Z ||
              (negb (nh_zth h =? 0)%Z && negb (nh_zth h =? negzero)%Z && (nh_zth h <? negzero)%Z && negb (is_nan (nh_zth h)))
  | None => false
  end.

(* classic buckets: up to and including the first +Inf bucket, else an extra +Inf bucket *)
Fixpoint proto_buckets (S : bstr -> list lp -> Z -> list exm -> entry) (count : Z) (bs : list bucket) : list entry :=
  match bs with
  | [] => [S s_bucket [(s_le, o_fom O posinf)] (o_u2f O count) []]
  | b :: r =>
      S s_bucket [(s_le, o_fom O (bk_ub b))] (o_u2f O (bk_cnt b)) (map sort_ex (opt_list (bk_ex b))) ::
      (if is_posinf (bk_ub b) then [] else proto_buckets S count r)
  end.

Definition has_ts (e : exm) : bool := match ex_ts e with Some _ => true | None => false end.

Definition proto_st (f : family) (m : metric) : Z :=
  match f_type f with
  | MGauge | MUntyped => 0%Z
  | _ => match m_created m with Some c => c | None => 0%Z end
  end.

Definition proto_S (o : opts) (f : family) (m : metric) (suffix : bstr) (extra : list lp) (v : Z) (exs : list exm) : entry :=
  OS (series_labels (o_typeunit o) (f_name f ++ suffix) (proto_tcode (f_type f)) (opt_bstr (f_unit f)) (m_labels m ++ extra))
     v (proto_ts m) exs (proto_st f m).

(* a histogram metric as classic series: _count, _sum, buckets *)
Definition proto_classic (o : opts) (f : family) (m : metric) : list entry :=
  [proto_S o f m s_count [] (o_u2f O (m_count m)) []; proto_S o f m s_sum [] (m_sum m) []] ++
  proto_buckets (proto_S o f m) (m_count m) (m_b m).

(* a histogram metric as a native histogram entry; exemplars: those of the classic buckets that
   carry a timestamp *)
Definition proto_ox (o : opts) (f : family) (m : metric) (h : ohist) : entry :=
  OX (series_labels (o_typeunit o) (f_name f) (proto_tcode (f_type f)) (opt_bstr (f_unit f)) (m_labels m))
     h (proto_ts m) (map sort_ex (filter has_ts (flat_map (fun b => opt_list (bk_ex b)) (m_b m)))) (proto_st f m).

Definition real_hist (f : family) (m : metric) (h : nhist) : ohist :=
  mkOHist (nh_schema h) (nh_zth h) (nh_zcnt h) (m_count m) (m_sum m) (nh_ps h) (nh_pd h) (nh_ns h) (nh_nd h)
          (match f_type f with MGHist => 3%Z | _ => 0%Z end).
(* what the harness records when Histogram() returns neither an integer nor a float histogram *)
Definition nil_hist : ohist := mkOHist 0 0 0 0 0 [] [] [] [] 99.

Definition native_on (o : opts) (m : metric) : bool := negb (o_ignorenh o) && is_native m.

(* SPEC: every metric is judged on its own *)
Definition proto_metric (o : opts) (f : family) (m : metric) : list entry :=
  match f_type f with
  | MCounter => [proto_S o f m [] [] (m_val m) (map sort_ex (opt_list (m_ex m)))]
  | MGauge | MUntyped => [proto_S o f m [] [] (m_val m) []]
  | MSummary =>
      [proto_S o f m s_count [] (o_u2f O (m_count m)) []; proto_S o f m s_sum [] (m_sum m) []] ++
      map (fun q => proto_S o f m [] [(s_quantile, o_fom O (fst q))] (snd q) []) (m_q m)
  | MHist | MGHist =>
      match m_nh m with
      | Some h =>
          if native_on o m
          then proto_ox o f m (real_hist f m h) ::
               (if o_keepclassic o && negb (is_nil (m_b m)) then proto_classic o f m else [])
          else proto_classic o f m
      | None => proto_classic o f m
      end
  end.

Definition proto_family (o : opts) (f : family) : list entry :=
  if is_nil (f_metrics f) then []
  else
    [OH (f_name f) (opt_bstr (f_help f))] ++
    (if is_nil (opt_bstr (f_unit f)) then [] else [OU (f_name f) (opt_bstr (f_unit f))]) ++
    [OT (f_name f) (proto_tcode (f_type f))] ++
    flat_map (proto_metric o f) (f_metrics f).

Definition entries_proto (o : opts) (fams : list family) : list entry := flat_map (proto_family o) fams.

(* MODEL of protobufparse.go's Next for the metrics of one histogram family: whether a metric is
   looked at as native is decided by the parser state left by the previous metric.
     PChecked    the state machine tests isNativeHistogram on this metric (first metric; after a
                 native histogram entry without classic re-run),
     PClassic    the previous metric was classic: this one is emitted as classic series unseen,
     PUnchecked  the previous metric was native but ended in the classic-series state: this one
                 is emitted as a histogram entry unseen. *)
Inductive phow := PChecked | PClassic | PUnchecked.

Definition proto_hist_step (o : opts) (f : family) (how : phow) (m : metric) : list entry * phow :=
  let native := native_on o m in
  let real := match m_nh m with Some h => real_hist f m h | None => nil_hist end in
  match how with
  | PClassic => (proto_classic o f m, if native then PUnchecked else PClassic)
  | _ =>
      if native then
        if o_keepclassic o && negb (is_nil (m_b m))
        then (proto_ox o f m real :: proto_classic o f m, PUnchecked)
        else ([proto_ox o f m real], PChecked)
      else match how with
           | PUnchecked => ([proto_ox o f m nil_hist], PChecked)
           | _ => (proto_classic o f m, PClassic)
           end
  end.

Fixpoint proto_hist_run (o : opts) (f : family) (how : phow) (ms : list metric) : list entry :=
  match ms with
  | [] => []
  | m :: r => let '(es, how') := proto_hist_step o f how m in es ++ proto_hist_run o f how' r
  end.

Definition model_proto_family (o : opts) (f : family) : list entry :=
  if is_nil (f_metrics f) then []
  else
    [OH (f_name f) (opt_bstr (f_help f))] ++
    (if is_nil (opt_bstr (f_unit f)) then [] else [OU (f_name f) (opt_bstr (f_unit f))]) ++
    [OT (f_name f) (proto_tcode (f_type f))] ++
    match f_type f with
    | MHist | MGHist => proto_hist_run o f PChecked (f_metrics f)
    | _ => flat_map (proto_metric o f) (f_metrics f)
    end.

Definition model_proto (o : opts) (fams : list family) : list entry := flat_map (model_proto_family o) fams.

(* ================================================================== printers (expfmt) *)
Definition is_alpha (c : N) : bool := ((65 <=? c) && (c <=? 90)) || ((97 <=? c) && (c <=? 122)) || (c =? 95).
Definition is_digit (c : N) : bool := (48 <=? c) && (c <=? 57).
Definition is_mstart (c : N) : bool := is_alpha c || (c =? 58).          (* {M} *)
Definition is_mchar (c : N) : bool := is_mstart c || is_digit c.          (* {M}|{D} *)
Definition is_lchar (c : N) : bool := is_alpha c || is_digit c.           (* {L}|{D} *)
Definition is_ws (c : N) : bool := (c =? 32) || (c =? 9).

(* model.LegacyValidation.IsValidMetricName *)
Definition is_legacy_name (s : bstr) : bool :=
  match s with c :: r => is_mstart c && forallb is_mchar r | [] => false end.

(* writeEscapedString *)
Definition esc_char (quote : bool) (c : N) : bstr :=
  if c =? 92 then [92; 92] else if c =? 10 then [92; 110] else if quote && (c =? 34) then [92; 34] else [c].
Definition escape (quote : bool) (s : bstr) : bstr := flat_map (esc_char quote) s.

Definition write_name (s : bstr) : bstr := if is_legacy_name s then s else 34 :: escape true s ++ [34].

Fixpoint join_items (sep : N) (items : list bstr) : bstr :=
  match items with
  | [] => []
  | i :: r => sep :: i ++ join_items 44 r
  end.

Definition pair_item (l : lp) : bstr := write_name (fst l) ++ [61; 34] ++ escape true (snd l) ++ [34].
Definition extra_item (n v : bstr) : bstr := n ++ [61; 34] ++ v ++ [34].

(* writeNameAndLabelPairs / writeOpenMetricsNameAndLabelPairs; [extra] is the rendered additional
   label (le / quantile) *)
Definition name_and_labels (name : bstr) (ls : list lp) (extra : list bstr) : bstr :=
  let inside := negb (is_nil name) && negb (is_legacy_name name) in
  let head := if is_nil name then [] else if inside then 123 :: write_name name else write_name name in
  let items := map pair_item ls ++ extra in
  if is_nil items then head ++ (if inside then [125] else [])
  else head ++ join_items (if inside then 44 else 123) items ++ [125].

Definition text_sample (name suffix : bstr) (m : metric) (extra : list bstr) (v : Z) : bstr :=
  name_and_labels (name ++ suffix) (m_labels m) extra ++ [32] ++ o_ftext O v ++
  match m_ts m with Some t => 32 :: o_fint O t | None => [] end ++ [10].

Definition text_type_word (t : mtype) : bstr :=
  match t with
  | MCounter => s_counter | MGauge => s_gauge | MSummary => s_summary | MUntyped => s_untyped
  | MHist | MGHist => s_histogram
  end.

Definition hash_sp : bstr := [35; 32].

Definition print_text_metric (name : bstr) (t : mtype) (m : metric) : bstr :=
  match t with
  | MCounter | MGauge | MUntyped => text_sample name [] m [] (m_val m)
  | MSummary =>
      flat_map (fun q => text_sample name [] m [extra_item s_quantile (o_ftext O (fst q))] (snd q)) (m_q m) ++
      text_sample name s_sum m [] (m_sum m) ++ text_sample name s_count m [] (o_u2f O (m_count m))
  | MHist | MGHist =>
      flat_map (fun b => text_sample name s_bucket m [extra_item s_le (o_ftext O (bk_ub b))] (o_u2f O (bk_cnt b))) (m_b m) ++
      (if has_inf_bucket (m_b m) then []
       else text_sample name s_bucket m [extra_item s_le (o_ftext O posinf)] (o_u2f O (m_count m))) ++
      text_sample name s_sum m [] (m_sum m) ++ text_sample name s_count m [] (o_u2f O (m_count m))
  end.

Definition print_text_family (f : family) : bstr :=
  match f_help f with
  | Some h => hash_sp ++ s_HELP ++ [32] ++ write_name (f_name f) ++ [32] ++ escape false h ++ [10]
  | None => []
  end ++
  hash_sp ++ s_TYPE ++ [32] ++ write_name (f_name f) ++ [32] ++ text_type_word (f_type f) ++ [10] ++
  flat_map (print_text_metric (f_name f) (f_type f)) (f_metrics f).

Definition print_text (fams : list family) : bstr := flat_map print_text_family fams.

(* ---- OpenMetrics *)
Definition om_exemplar (e : option exm) : bstr :=
  match e with
  | Some x =>
      if is_nil (ex_labels x) then []
      else [32; 35; 32] ++ name_and_labels [] (ex_labels x) [] ++ [32] ++ o_fom O (ex_val x) ++
           match ex_ts x with Some t => 32 :: o_fom O (o_cr2f O t) | None => [] end
  | None => []
  end.

Definition om_sample (name suffix : bstr) (m : metric) (extra : list bstr) (v : bstr) (e : option exm) : bstr :=
  name_and_labels (name ++ suffix) (m_labels m) extra ++ [32] ++ v ++
  match m_ts m with Some t => 32 :: o_fom O (o_ts2f O t) | None => [] end ++
  om_exemplar e ++ [10].

Definition om_created_line (o : opts) (f : family) (m : metric) : bstr :=
  match m_created m with
  | Some c => if o_created o
              then name_and_labels (om_cname f ++ s_created) (m_labels m) [] ++ [32] ++ o_fom O (o_cr2f O c) ++ [10]
              else []
  | None => []
  end.

Definition om_type_word (f : family) : bstr :=
  match f_type f with
  | MCounter => if om_is_total f then s_counter else s_unknown
  | MGauge => s_gauge | MSummary => s_summary | MUntyped => s_unknown | MHist => s_histogram
  | MGHist => s_gaugehistogram
  end.

Definition print_om_metric (o : opts) (f : family) (m : metric) : bstr :=
  let name := f_name f in
  match f_type f with
  | MCounter => om_sample name [] m [] (o_fom O (m_val m)) (m_ex m) ++ om_created_line o f m
  | MGauge | MUntyped => om_sample name [] m [] (o_fom O (m_val m)) None
  | MSummary =>
      flat_map (fun q => om_sample name [] m [extra_item s_quantile (o_fom O (fst q))] (o_fom O (snd q)) None) (m_q m) ++
      om_sample name s_sum m [] (o_fom O (m_sum m)) None ++
      om_sample name s_count m [] (o_fint O (m_count m)) None ++ om_created_line o f m
  | MHist | MGHist =>
      flat_map (fun b => om_sample name s_bucket m [extra_item s_le (o_fom O (bk_ub b))] (o_fint O (bk_cnt b)) (bk_ex b)) (m_b m) ++
      (if has_inf_bucket (m_b m) then []
       else om_sample name s_bucket m [extra_item s_le (o_fom O posinf)] (o_fint O (m_count m)) None) ++
      om_sample name s_sum m [] (o_fom O (m_sum m)) None ++
      om_sample name s_count m [] (o_fint O (m_count m)) None ++ om_created_line o f m
  end.

Definition print_om_family (o : opts) (f : family) : bstr :=
  match f_help f with
  | Some h => hash_sp ++ s_HELP ++ [32] ++ write_name (om_cname f) ++ [32] ++ escape true h ++ [10]
  | None => []
  end ++
  hash_sp ++ s_TYPE ++ [32] ++ write_name (om_cname f) ++ [32] ++ om_type_word f ++ [10] ++
  match f_unit f with
  | Some u => hash_sp ++ s_UNIT ++ [32] ++ write_name (om_cname f) ++ [32] ++ escape true u ++ [10]
  | None => []
  end ++
  flat_map (print_om_metric o f) (f_metrics f).

Definition print_om (o : opts) (fams : list family) : bstr :=
  flat_map (print_om_family o) fams ++ hash_sp ++ s_EOF ++ [10].

(* ================================================================== lexers *)
Inductive token :=
| tInvalid | tEOF | tLinebreak | tWhitespace | tHelp | tType | tUnit | tEOFWord | tText | tComment
| tMName | tQString | tBraceOpen | tBraceClose | tLName | tLValue | tComma | tEqual | tTimestamp
| tValue | tModelErr.
Inductive lstate :=
| sInit | sComment | sMeta1 | sMeta2 | sLabels | sLValue | sValue | sTimestamp | sExemplar | sEValue
| sETimestamp.
Definition tok := (token * bstr)%type.

(* the quoted-string rule (backslash-any | not backslash/quote)* after the opening quote: the
   rest of the token including the closing quote; None = the automaton aborts (NUL, end of input, backslash before newline, and a raw
   newline where [nl_ok] is false) *)
Fixpoint qscan (nl_ok : bool) (b : bstr) : option bstr :=
  match b with
  | [] => None
  | c :: r =>
      if c =? 34 then Some [34]
      else if c =? 92 then
        match r with
        | d :: r' => if (d =? 10) || (d =? 0) then None
                     else match qscan nl_ok r' with Some s => Some (c :: d :: s) | None => None end
        | [] => None
        end
      else if (c =? 0) || (negb nl_ok && (c =? 10)) then None
      else match qscan nl_ok r with Some s => Some (c :: s) | None => None end
  end.

Definition not_nl (c : N) : bool := negb (c =? 10) && negb (c =? 0).
Definition is_valchar (c : N) : bool := negb (c =? 123) && negb (is_ws c) && not_nl c.    (* [^{ \t\n] *)
Definition is_omval (c : N) : bool := negb (c =? 32) && not_nl c.                          (* [^ \n] *)

Definition starts_with (p b : bstr) : bool := bstr_eqb (firstn (length p) b) p.

(* promlex.l: one call of Lex() in start condition [st] at a non-empty remaining input;
   returns the token, its text, and the new start condition *)
Definition lex_prom (st : lstate) (b : bstr) : token * bstr * lstate :=
  match b with
  | [] => (tEOF, [], st)
  | c :: r =>
    if is_ws c then (tWhitespace, take_while is_ws b, st)
    else match st with
    | sInit =>
        if c =? 0 then (tEOF, [c], st)
        else if c =? 10 then (tLinebreak, [c], sInit)
        else if c =? 35 then
          let w := take_while is_ws r in
          let r1 := skipn (length w) r in
          let comment := (tComment, take_while not_nl b, sInit) in
          if is_nil w then comment
          else if starts_with s_HELP r1 || starts_with s_TYPE r1 then
            let r2 := skipn 4 r1 in
            let w2 := take_while is_ws r2 in
            if is_nil w2 then comment
            else (if starts_with s_HELP r1 then tHelp else tType, (c :: w) ++ firstn 4 r1 ++ w2, sMeta1)
          else comment
        else if is_mstart c then (tMName, c :: take_while is_mchar r, sValue)
        else if c =? 123 then (tBraceOpen, [c], sLabels)
        else (tInvalid, [], st)
    | sMeta1 =>
        if c =? 34 then match qscan true r with Some s => (tMName, c :: s, sMeta2) | None => (tInvalid, [], st) end
        else if is_mstart c then (tMName, c :: take_while is_mchar r, sMeta2)
        else (tInvalid, [], st)
    | sMeta2 => (tText, take_while not_nl b, sInit)
    | sLabels =>
        if c =? 34 then match qscan true r with Some s => (tQString, c :: s, sLabels) | None => (tInvalid, [], st) end
        else if c =? 44 then (tComma, [c], st)
        else if c =? 61 then (tEqual, [c], sLValue)
        else if c =? 125 then (tBraceClose, [c], sValue)
        else if is_alpha c then (tLName, c :: take_while is_lchar r, st)
        else (tInvalid, [], st)
    | sLValue =>
        if c =? 34 then match qscan true r with Some s => (tLValue, c :: s, sLabels) | None => (tInvalid, [], st) end
        else (tInvalid, [], st)
    | sValue =>
        if c =? 123 then (tBraceOpen, [c], sLabels)
        else if is_valchar c then (tValue, take_while is_valchar b, sTimestamp)
        else (tInvalid, [], st)
    | sTimestamp =>
        if c =? 10 then (tLinebreak, [c], sInit)
        else if is_digit c then (tTimestamp, take_while is_digit b, st)
        else (tInvalid, [], st)
    | _ => (tInvalid, [], st)
    end
  end.

(* in sMeta2 leading blanks are a separate whitespace token unless text follows on the line *)
Definition lex_prom' (st : lstate) (b : bstr) : token * bstr * lstate :=
  match st, b with
  | sMeta2, c :: _ =>
      if is_ws c then
        let w := take_while is_ws b in
        match skipn (length w) b with
        | d :: _ => if not_nl d then (tText, take_while not_nl b, sInit) else (tWhitespace, w, st)
        | [] => (tWhitespace, w, st)
        end
      else (tText, take_while not_nl b, sInit)
  | _, _ => lex_prom st b
  end.

Definition is_stop (t : token) : bool :=
  match t with tInvalid | tEOF | tModelErr => true | _ => false end.

(* the token stream of an input: [skip] bytes of the current token are still to be passed.
   A token of length zero (the empty text of a HELP line that ends after the name) is followed
   immediately by the next one, which is never empty. *)
Section Toks.
Variable lex : lstate -> bstr -> token * bstr * lstate.
Fixpoint toks (skip : nat) (st : lstate) (b : bstr) : list tok :=
  match skip with
  | S k => match b with [] => [(tModelErr, [])] | _ :: r => toks k st r end
  | O =>
    match b with
    | [] => [(tEOF, [])]
    | _ :: r =>
        let '(t, txt, st1) := lex st b in
        if is_stop t then [(t, txt)]
        else match length txt with
             | S k => (t, txt) :: toks k st1 r
             | O =>
                 let '(t2, txt2, st2) := lex st1 b in
                 if is_stop t2 then [(t, txt); (t2, txt2)]
                 else match length txt2 with
                      | S k2 => (t, txt) :: (t2, txt2) :: toks k2 st2 r
                      | O => [(t, txt); (tModelErr, [])]
                      end
             end
    end
  end.
End Toks.

(* ================================================================== text parser (promparse.go) *)
Definition tok_is (k : token) (t : tok) : bool :=
  match k, fst t with
  | tInvalid, tInvalid | tEOF, tEOF | tLinebreak, tLinebreak | tWhitespace, tWhitespace | tHelp, tHelp
  | tType, tType | tUnit, tUnit | tEOFWord, tEOFWord | tText, tText | tComment, tComment
  | tMName, tMName | tQString, tQString | tBraceOpen, tBraceOpen | tBraceClose, tBraceClose
  | tLName, tLName | tLValue, tLValue | tComma, tComma | tEqual, tEqual | tTimestamp, tTimestamp
  | tValue, tValue | tModelErr, tModelErr => true
  | _, _ => false
  end.

(* lines: each ends with (and includes) its tLinebreak / tText-terminated metadata is handled by
   the caller's [ends] predicate *)
Fixpoint split_after (ends : tok -> bool) (cur : list tok) (ts : list tok) : list (list tok) :=
  match ts with
  | [] => match cur with [] => [] | _ => [rev cur] end
  | t :: r => if ends t then rev (t :: cur) :: split_after ends [] r else split_after ends (t :: cur) r
  end.

(* lvalReplacer (backslash-quote, backslash-backslash, backslash-n) / helpReplacer (without the
   first pair, [quote] = false) *)
Fixpoint unreplace (quote : bool) (s : bstr) : bstr :=
  match s with
  | [] => []
  | c :: r =>
      if c =? 92 then
        match r with
        | d :: r' => if d =? 92 then 92 :: unreplace quote r'
                     else if d =? 110 then 10 :: unreplace quote r'
                     else if quote && (d =? 34) then 34 :: unreplace quote r'
                     else c :: unreplace quote r
        | [] => [c]
        end
      else c :: unreplace quote r
  end.

Definition strip_ends (s : bstr) : bstr := drop_last 1 (tl s).
(* the metric name of a HELP/TYPE/UNIT line: quotes stripped, NOT unescaped *)
Definition meta_name (s : bstr) : bstr :=
  match s with
  | c :: _ => if (c =? 34) && (last s 0 =? 34) then strip_ends s else s
  | [] => s
  end.

(* unicode/utf8.Valid *)
Definition in_rng (lo hi c : N) : bool := (lo <=? c) && (c <=? hi).
Definition cont (c : N) : bool := in_rng 128 191 c.
Fixpoint utf8_valid (s : bstr) : bool :=
  match s with
  | [] => true
  | c :: r =>
      if c <? 128 then utf8_valid r
      else match r with
      | c1 :: r1 =>
          if in_rng 194 223 c then cont c1 && utf8_valid r1
          else match r1 with
          | c2 :: r2 =>
              if c =? 224 then in_rng 160 191 c1 && cont c2 && utf8_valid r2
              else if in_rng 225 236 c || in_rng 238 239 c then cont c1 && cont c2 && utf8_valid r2
              else if c =? 237 then in_rng 128 159 c1 && cont c2 && utf8_valid r2
              else match r2 with
              | c3 :: r3 =>
                  if c =? 240 then in_rng 144 191 c1 && cont c2 && cont c3 && utf8_valid r3
                  else if in_rng 241 243 c then cont c1 && cont c2 && cont c3 && utf8_valid r3
                  else if c =? 244 then in_rng 128 143 c1 && cont c2 && cont c3 && utf8_valid r3
                  else false
              | [] => false
              end
          | [] => false
          end
      | [] => false
      end
  end.

(* parseFloat of promparse.go: strconv.ParseFloat unless the text contains p, P or _ *)
Definition parse_float (s : bstr) : option Z :=
  if existsb (fun c => (c =? 112) || (c =? 80) || (c =? 95)) s then None else o_pfloat O s.

(* normalizeFloatsInLabelValues *)
Definition normalize_lv (tcode : N) (l v : bstr) : bstr :=
  if ((tcode =? 3) && bstr_eqb l s_quantile) || ((tcode =? 4) && bstr_eqb l s_le)
  then match o_norm O v with Some v' => v' | None => v end
  else v.

(* Labels(): from the raw (still escaped) name and label texts *)
Definition parsed_labels (tu : bool) (tcode : N) (unit : bstr) (rawname : bstr) (raw : list lp) : list lp :=
  let name := unreplace true rawname in
  sort_lps ((if tu then add_to_labels name tcode unit else [(s_name, name)]) ++
            flat_map (fun l => let ln := unreplace true (fst l) in
                               if tu && negb (is_empty_for name tcode unit ln) then []
                               else [(ln, normalize_lv tcode ln (unreplace true (snd l)))]) raw).

Inductive lvres := LVErr | LVOk (name : option bstr) (labels : list lp) (rest : list tok).

(* parseLVals of promparse.go (after the opening brace); [om] selects the stricter
   comma-or-brace-close rule of openmetricsparse.go, [isex] its exemplar variant *)
Fixpoint parse_lvals (om isex : bool) (name : option bstr) (acc : list lp) (ts : list tok) : lvres :=
  match ts with
  | [] => LVErr
  | (k, txt) :: r =>
      match k with
      | tBraceClose => LVOk name (rev acc) r
      | tLName | tQString =>
          let isq := tok_is tQString (k, txt) in
          match r with
          | [] => LVErr
          | (k2, txt2) :: r2 =>
              if isq && (tok_is tComma (k2, txt2) || tok_is tBraceClose (k2, txt2)) then
                if isex then LVErr
                else match name with
                     | Some _ => LVErr
                     | None =>
                         if tok_is tBraceClose (k2, txt2) then LVOk (Some (strip_ends txt)) (rev acc) r2
                         else parse_lvals om isex (Some (strip_ends txt)) acc r2
                     end
              else
                let ln := if isq then strip_ends txt else txt in
                if tok_is tEqual (k2, txt2) then
                  match r2 with
                  | (tLValue, v) :: r3 =>
                      if utf8_valid v then
                        let acc' := (ln, strip_ends v) :: acc in
                        match r3 with
                        | (tComma, _) :: r4 => parse_lvals om isex name acc' r4
                        | (tBraceClose, _) :: r4 => LVOk name (rev acc') r4
                        | _ => if om then LVErr else parse_lvals om isex name acc' r3
                        end
                      else LVErr
                  | _ => LVErr
                  end
                else LVErr
          end
      | _ => LVErr
      end
  end.

Inductive lres := LEnd | LSkip | LErr | LEntry (e : entry) (tcode : N) (unit : bstr) | LEntryErr (e : entry).

Definition prom_type_of (s : bstr) : option N :=
  if bstr_eqb s s_counter then Some 1 else if bstr_eqb s s_gauge then Some 2
  else if bstr_eqb s s_histogram then Some 4 else if bstr_eqb s s_summary then Some 3
  else if bstr_eqb s s_untyped then Some 0 else None.

Definition ends_lb (r : list tok) : bool := match r with t :: _ => tok_is tLinebreak t | [] => false end.

Definition prom_series (tu : bool) (tcode : N) (name : option bstr) (labels : list lp) (r : list tok) : lres :=
  match name with
  | None => LErr
  | Some n =>
      match r with
      | (tValue, v) :: r2 =>
          match parse_float v with
          | None => LErr
          | Some bits =>
              let E := fun ts => LEntry (OS (parsed_labels tu tcode [] n labels) (canon_nan bits) ts [] 0%Z) tcode [] in
              match r2 with
              | (tLinebreak, _) :: _ => E None
              | (tTimestamp, tsx) :: r3 =>
                  match o_pint O tsx with
                  | Some z => if ends_lb r3 then E (Some z) else LErr
                  | None => LErr
                  end
              | _ => LErr
              end
          end
      | _ => LErr
      end
  end.

(* one call of PromParser.Next on the (whitespace-free) tokens of the next line *)
Definition prom_line (tu : bool) (tcode : N) (line : list tok) : lres :=
  match line with
  | [] => LErr
  | (k, txt) :: r =>
      match k with
      | tEOF => LEnd
      | tLinebreak => LSkip
      | tHelp | tType =>
          match r with
          | (tMName, n) :: (tText, x) :: r3 =>
              let text := tl x in
              if tok_is tType (k, txt) then
                match prom_type_of text with
                | Some ty => if ends_lb r3 then LEntry (OT (meta_name n) ty) ty [] else LErr
                | None => LErr
                end
              else if utf8_valid text then
                (if ends_lb r3 then LEntry (OH (meta_name n) (unreplace false text)) tcode [] else LErr)
              else LErr
          | _ => LErr
          end
      | tComment => if ends_lb r then LEntry OC tcode [] else LErr
      | tBraceOpen =>
          match parse_lvals false false None [] r with
          | LVOk name labels r2 => prom_series tu tcode name labels r2
          | LVErr => LErr
          end
      | tMName =>
          match r with
          | (tBraceOpen, _) :: r1 =>
              match parse_lvals false false (Some txt) [] r1 with
              | LVOk name labels r2 => prom_series tu tcode name labels r2
              | LVErr => LErr
              end
          | _ => prom_series tu tcode (Some txt) [] r
          end
      | _ => LErr
      end
  end.

(* the entry stream: entries until io.EOF (true) or the first error (false) *)
Fixpoint run_lines (line : N -> bstr -> list tok -> lres) (tcode : N) (unit : bstr) (ls : list (list tok))
  : list entry * bool :=
  match ls with
  | [] => ([], false)
  | l :: r =>
      match line tcode unit l with
      | LEnd => ([], true)
      | LSkip => run_lines line tcode unit r
      | LErr => ([], false)
      | LEntry e tc u => let '(es, ok) := run_lines line tc u r in (e :: es, ok)
      | LEntryErr e => ([e], false)
      end
  end.

Definition not_ws_tok (t : tok) : bool := negb (tok_is tWhitespace t).

(* NewPromParser appends a newline; NUL bytes (which the lexer treats specially) are outside
   the model: reported as a distinct result *)
Definition has_nul (b : bstr) : bool := existsb (fun c => c =? 0) b.

Definition parse_text (tu : bool) (b : bstr) : list entry * bool :=
  run_lines (fun tc _ l => prom_line tu tc l) 0 []
            (split_after (tok_is tLinebreak) [] (filter not_ws_tok (toks lex_prom' 0 sInit (b ++ [10])))).

(* ================================================================== OpenMetrics lexer / parser *)
(* openmetricslex.l: one call of Lex() in start condition [st] *)
Definition lex_om (st : lstate) (b : bstr) : token * bstr * lstate :=
  let inv := (tInvalid, @nil N, st) in
  match b with
  | [] => (tEOF, [], st)
  | c :: r =>
    match st with
    | sInit =>
        if c =? 35 then
          match r with
          | d :: r1 =>
              if d =? 32 then
                let kw := fun (w : bstr) (t : token) =>
                  if starts_with w r1 && (nth 4 r1 0 =? 32) then Some (t, [c; d] ++ w ++ [32], sMeta1) else None in
                match kw s_HELP tHelp, kw s_TYPE tType, kw s_UNIT tUnit with
                | Some x, _, _ => x
                | _, Some x, _ => x
                | _, _, Some x => x
                | _, _, _ =>
                    if starts_with s_EOF r1
                    then (tEOFWord, [c; d] ++ s_EOF ++ (if nth 3 r1 0 =? 10 then [10] else []), sInit)
                    else inv
                end
              else inv
          | [] => inv
          end
        else if is_mstart c then (tMName, c :: take_while is_mchar r, sValue)
        else if c =? 123 then (tBraceOpen, [c], sLabels)
        else inv
    | sMeta1 =>
        if c =? 34 then match qscan true r with Some s => (tMName, c :: s, sMeta2) | None => inv end
        else if is_mstart c then (tMName, c :: take_while is_mchar r, sMeta2)
        else inv
    | sMeta2 =>
        if c =? 32 then
          let t := take_while not_nl r in
          match skipn (length t) r with
          | d :: _ => if d =? 10 then (tText, c :: t ++ [10], sInit) else inv
          | [] => inv
          end
        else inv
    | sLabels | sExemplar =>
        let ex := match st with sExemplar => true | _ => false end in
        if c =? 34 then match qscan (negb ex) r with Some s => (tQString, c :: s, st) | None => inv end
        else if c =? 44 then (tComma, [c], st)
        else if c =? 61 then (tEqual, [c], if ex then sEValue else sLValue)
        else if c =? 125 then (tBraceClose, [c], if ex then sEValue else sValue)
        else if is_alpha c then (tLName, c :: take_while is_lchar r, st)
        else inv
    | sLValue =>
        if c =? 34 then match qscan false r with Some s => (tLValue, c :: s, sLabels) | None => inv end
        else inv
    | sValue =>
        if c =? 123 then (tBraceOpen, [c], sLabels)
        else if (c =? 32) && negb (is_nil (take_while is_omval r)) then (tValue, c :: take_while is_omval r, sTimestamp)
        else inv
    | sTimestamp =>
        if c =? 10 then (tLinebreak, [c], sInit)
        else if c =? 32 then
          match r with
          | d :: r1 =>
              if d =? 35 then
                match r1 with
                | e :: r2 =>
                    if e =? 32 then match r2 with
                                    | g :: _ => if g =? 123 then (tComment, [c; d; e; g], sExemplar) else inv
                                    | [] => inv
                                    end
                    else (tTimestamp, c :: take_while is_omval r, st)
                | [] => (tTimestamp, [c; d], st)
                end
              else if is_omval d then (tTimestamp, c :: take_while is_omval r, st)
              else inv
          | [] => inv
          end
        else inv
    | sEValue =>
        if c =? 34 then match qscan false r with Some s => (tLValue, c :: s, sExemplar) | None => inv end
        else if (c =? 32) && negb (is_nil (take_while is_omval r)) then (tValue, c :: take_while is_omval r, sETimestamp)
        else inv
    | sETimestamp =>
        if c =? 10 then (tLinebreak, [c], sInit)
        else if (c =? 32) && negb (is_nil (take_while is_omval r)) then (tTimestamp, c :: take_while is_omval r, st)
        else inv
    | sComment => inv
    end
  end.

Definition om_type_of (s : bstr) : option N :=
  if bstr_eqb s s_counter then Some 1 else if bstr_eqb s s_gauge then Some 2
  else if bstr_eqb s s_histogram then Some 4 else if bstr_eqb s s_gaugehistogram then Some 5
  else if bstr_eqb s s_summary then Some 3 else if bstr_eqb s s_info then Some 6
  else if bstr_eqb s s_stateset then Some 7 else if bstr_eqb s s_unknown then Some 0 else None.

(* the timestamp conversion of openmetricsparse.go: parseFloat, reject NaN/Inf, int64(ts*1000) *)
Definition om_ts (s : bstr) : option Z :=
  if existsb (fun c => (c =? 112) || (c =? 80) || (c =? 95)) s then None else o_omts O s.

(* parseComment: the exemplar after the comment token *)
Definition om_parse_exemplar (r : list tok) : option exm :=
  match parse_lvals true true None [] r with
  | LVOk _ labels r4 =>
      match r4 with
      | (tValue, v) :: r5 =>
          match parse_float (tl v) with
          | Some bits =>
              match r5 with
              | (tLinebreak, _) :: _ => Some (mkEx (sort_lps labels) (canon_nan bits) None)
              | (tTimestamp, tx) :: r6 =>
                  match om_ts (tl tx) with
                  | Some z => if ends_lb r6 then Some (mkEx (sort_lps labels) (canon_nan bits) (Some z)) else None
                  | None => None
                  end
              | _ => None
              end
          | None => None
          end
      | _ => None
      end
  | LVErr => None
  end.

(* parseSeriesEndOfLine + the skipSTSeries test of Next *)
Definition om_series (o : opts) (tcode : N) (unit : bstr) (name : option bstr) (labels : list lp) (r : list tok) : lres :=
  match name with
  | None => LErr
  | Some n =>
      let skip := o_skipst o && type_requires_st tcode && has_suffix n s_created in
      match r with
      | (tValue, v) :: r2 =>
          match parse_float (tl v) with
          | None => LErr
          | Some bits =>
              let E := fun ts exs => if skip then LSkip
                         else LEntry (OS (parsed_labels (o_typeunit o) tcode unit n labels) (canon_nan bits) ts exs 0%Z) tcode unit in
              let X := fun ts r3 => match om_parse_exemplar r3 with Some ex => E ts [ex] | None => LErr end in
              match r2 with
              | [] => LErr
              | (k2, tx) :: r3 =>
                  match k2 with
                  | tEOF => LErr
                  | tLinebreak => E None []
                  | tComment => X None r3
                  | tTimestamp =>
                      match om_ts (tl tx) with
                      | Some z =>
                          match r3 with
                          | (tLinebreak, _) :: _ => E (Some z) []
                          | (tComment, _) :: r4 => X (Some z) r4
                          | _ => LErr
                          end
                      | None => LErr
                      end
                  | _ => (* the Go switch has no default: the series is returned, the next call fails *)
                      if skip then LErr
                      else LEntryErr (OS (parsed_labels (o_typeunit o) tcode unit n labels) (canon_nan bits) None [] 0%Z)
                  end
              end
          end
      | _ => LErr
      end
  end.

(* one call of OpenMetricsParser.Next on the tokens of the next line *)
Definition om_line (o : opts) (tcode : N) (unit : bstr) (line : list tok) : lres :=
  match line with
  | [] => LErr
  | (k, txt) :: r =>
      match k with
      | tEOFWord => match r with t :: _ => if tok_is tEOF t then LEnd else LErr | [] => LErr end
      | tHelp | tType | tUnit =>
          match r with
          | (tMName, n) :: (tText, x) :: _ =>
              let text := strip_ends x in
              let name := meta_name n in
              if tok_is tType (k, txt) then
                match om_type_of text with Some ty => LEntry (OT name ty) ty unit | None => LErr end
              else if tok_is tHelp (k, txt) then
                (if utf8_valid text then LEntry (OH name (unreplace true text)) tcode unit else LErr)
              else if is_nil text || has_suffix name (95 :: text) then LEntry (OU name text) tcode text
              else LErr
          | _ => LErr
          end
      | tBraceOpen =>
          match parse_lvals true false None [] r with
          | LVOk name labels r2 => om_series o tcode unit name labels r2
          | LVErr => LErr
          end
      | tMName =>
          match r with
          | (tBraceOpen, _) :: r1 =>
              match parse_lvals true false (Some txt) [] r1 with
              | LVOk name labels r2 => om_series o tcode unit name labels r2
              | LVErr => LErr
              end
          | _ => om_series o tcode unit (Some txt) [] r
          end
      | _ => LErr
      end
  end.

Definition parse_om (o : opts) (b : bstr) : list entry * bool :=
  run_lines (om_line o) 0 []
            (split_after (fun t => tok_is tLinebreak t || tok_is tText t) [] (toks lex_om 0 sInit b)).

End Spec.

(* model/Intervals.v — executable model of tsdb/tombstones.Intervals.Add (definitions only).
   Transcribed line by line from tsdb/tombstones/tombstones.go; sort.Search is the real
   binary search (so the model also agrees with the code on non-sorted inputs); every slice
   index / slice expression that Go bounds-checks yields [Panic] when out of range. *)
From Coq Require Import List ZArith Bool Lia.
From Verif Require Import lib.Int64.
Import ListNotations.
Open Scope Z_scope.

Record interval := mkI { imin : Z; imax : Z }.

Inductive res (A : Type) := Ok (a : A) | Panic.
Arguments Ok {A} a.
Arguments Panic {A}.

(* sort.Search(n, f): i, j := 0, n; for i < j { h := (i+j)/2; if !f(h) { i = h+1 } else { j = h } }; return i *)
Fixpoint bsearch (fuel : nat) (i j : nat) (f : nat -> bool) : nat :=
  match fuel with
  | O => i
  | S fuel' =>
      if Nat.ltb i j then
        let h := Nat.div2 (i + j) in
        if f h then bsearch fuel' i h f else bsearch fuel' (h + 1) j f
      else i
  end.
Definition search (n : nat) (f : nat -> bool) : nat := bsearch (S n) 0 n f.

Definition dummy : interval := mkI 0 0.
Definition at_ (l : list interval) (i : nat) : interval := nth i l dummy.  (* only used under a bound *)

(* [fixed] = true: the tree after "fix: tombstones: Intervals.Add with Maxt == MaxInt64"
   (maxi := len(in) - mini); false: the code as it was (maxi := len(in)). *)
Definition add_gen (fixed : bool) (ivs : list interval) (n : interval) : res (list interval) :=
  let len := length ivs in
  if Nat.eqb len 0 then Ok [n] else
  let mini := if imin n =? minInt64 then 0%nat
              else search len (fun i => imax (at_ ivs i) >=? imin n - 1) in
  if negb (imin n =? minInt64) && Nat.eqb mini len then Ok (ivs ++ [n]) else
  let maxi := if imax n =? maxInt64 then (if fixed then len - mini else len)%nat
              else search (len - mini) (fun i => imin (at_ ivs (mini + i)) >? imax n + 1) in
  if negb (imax n =? maxInt64) && Nat.eqb maxi 0 then
    Ok (firstn mini ivs ++ [n] ++ skipn mini ivs)
  else
    match nth_error ivs mini, nth_error ivs (maxi + mini - 1) with
    | Some a, Some z =>
        if Nat.ltb len (maxi + mini) then Panic else   (* in[maxi+mini:] *)
        let a' := mkI (if imin n <? imin a then imin n else imin a) (Z.max (imax n) (imax z)) in
        Ok (firstn mini ivs ++ [a'] ++ skipn (maxi + mini) ivs)
    | _, _ => Panic
    end.

Definition add := add_gen true.
Definition add_old := add_gen false.

Fixpoint fold_add (acc : list interval) (ns : list interval) : res (list interval) :=
  match ns with
  | [] => Ok acc
  | n :: ns' => match add acc n with Ok r => fold_add r ns' | Panic => Panic end
  end.

(* ---------- specification vocabulary ---------- *)
Definition wf_iv (i : interval) : Prop := int64 (imin i) /\ int64 (imax i) /\ imin i <= imax i.

(* sorted, disjoint and non-adjacent *)
Fixpoint canonical (l : list interval) : Prop :=
  match l with
  | [] => True
  | a :: t => wf_iv a /\ match t with [] => True | b :: _ => imax a + 1 < imin b end /\ canonical t
  end.

Definition covered (l : list interval) (t : Z) : Prop := Exists (fun i => imin i <= t <= imax i) l.

(* boolean versions used by the correspondence check *)
Definition wf_ivb (i : interval) : bool := int64b (imin i) && int64b (imax i) && (imin i <=? imax i).
Fixpoint canonicalb (l : list interval) : bool :=
  match l with
  | [] => true
  | a :: t => wf_ivb a && match t with [] => true | b :: _ => imax a + 1 <? imin b end && canonicalb t
  end.
Definition coveredb (l : list interval) (t : Z) : bool := existsb (fun i => (imin i <=? t) && (t <=? imax i)) l.
Definition interval_eqb (a b : interval) : bool := (imin a =? imin b) && (imax a =? imax b).
Fixpoint ivs_eqb (a b : list interval) : bool :=
  match a, b with
  | [], [] => true
  | x :: a', y :: b' => interval_eqb x y && ivs_eqb a' b'
  | _, _ => false
  end.

(* model/HeadStats.v — executable model of the hand-maintained counters of tsdb.Head
   (definitions only; proofs are in proof/HeadStatsProofs.v).

   What is modelled: the *bookkeeping* — every place where tsdb/head.go, head_append.go and
   head_wal.go increment or decrement
       Head.numSeries, Head.numStaleSeries, Head.numNativeHistogramSeries,
       Head.numNativeHistogramBuckets, headMetrics.chunks, headMetrics.activeAppenders
   together with the part of the per-series state these numbers are supposed to summarise:
       memSeries.mmappedChunks (max times), the headChunks list (max times), the out-of-order
       m-mapped chunks / head chunk, s.ooo != nil, pendingCommit and the last-value fields that
       memSeries.sampleState reads (float / histogram, stale, number of bucket entries).

   What is NOT decided by the model (oracles, read from the implementation by the harness and
   carried inside the operations): whether a sample of a transaction landed in the head and
   whether in order or out of order (admission = C02), whether the in-order append cut a new
   chunk (appendPreprocessor / histogram appenders), how many encoded chunks an out-of-order
   head chunk was flushed into (OOOChunk.ToEncodedChunks), the number of bucket entries of
   lastHistogramValue after the append, how many out-of-order m-mapped chunks a GC removed
   (minOOOMmapRef comparison), and the per-series structure after a restart.  The theorems
   quantify over all values of these oracles.

   Go sources: Head.getOrCreateWithOptionalID, Head.Appender / initAppender.Commit/Rollback /
   headAppenderBase.Commit/Rollback, commitFloats / commitHistograms / commitFloatHistograms,
   updateStaleSeriesMetricOnAppend, updateNativeHistogramMetricsOnAppend, onChunkCreated,
   memSeries.insert / cutNewOOOHeadChunk / mmapCurrentOOOHeadChunk, memSeries.mmapChunks,
   Head.gc / stripeSeries.gc / memSeries.truncateChunksBefore, Head.gcSeries /
   stripeSeries.gcSeries / truncateStaleSeries / truncateSelectedSeries, Head.Init
   (loadChunkSnapshot, loadMmappedChunks, resetSeriesWithMMappedChunks, appendChunkAndMmap). *)
From Coq Require Import List ZArith Bool.
Import ListNotations.
Open Scope Z_scope.

(* memSeries.sampleState(): (isStale, isHistogram, buckets) of the last in-order sample *)
Inductive lastv := LF (stale : bool) | LH (stale : bool) (nb : Z).
Definition lv_stale (l : lastv) : bool := match l with LF s => s | LH s _ => s end.
Definition lv_hist (l : lastv) : bool := match l with LF _ => false | LH _ _ => true end.
Definition lv_nb (l : lastv) : Z := match l with LF _ => 0 | LH _ n => n end.

Record mser := mkS {
  s_ref : Z;
  s_mm : list Z;          (* mmappedChunks: maxTime of each, oldest first *)
  s_hc : list Z;          (* headChunks list: maxTime of each, newest first (as the linked list) *)
  s_omm : Z;              (* len(ooo.oooMmappedChunks) *)
  s_ohead : option Z;     (* ooo.oooHeadChunk: number of samples *)
  s_ostruct : bool;       (* s.ooo != nil *)
  s_last : lastv;
  s_pend : bool;          (* pendingCommit *)
  s_snap : Z              (* head chunks restored from a chunk snapshot (never counted in the gauge) *)
}.

Record ctrs := mkC { c_series : Z; c_stale : Z; c_hist : Z; c_buckets : Z; c_chunks : Z; c_active : Z }.

(* st_orph: memSeries that were removed from the head's maps (gc / eviction).  An appender that
   appended to such a series before it was removed still holds the pointer and commits into it. *)
Record state := mkSt { st_series : list mser; st_orph : list mser; st_open : list Z; st_c : ctrs }.

Definition ctrs0 : ctrs := mkC 0 0 0 0 0 0.
Definition state0 : state := mkSt [] [] [] ctrs0.

Definition b2z (b : bool) : Z := if b then 1 else 0.
Definition zlen {A} (l : list A) : Z := Z.of_nat (length l).
Definition is_some {A} (o : option A) : bool := match o with Some _ => true | None => false end.

(* ------------------------------------------------------------------ recount *)
Definition ser_chunks (s : mser) : Z := zlen (s_mm s) + zlen (s_hc s) + s_omm s + b2z (is_some (s_ohead s)).

Fixpoint sumf (f : mser -> Z) (l : list mser) : Z :=
  match l with [] => 0 | s :: r => f s + sumf f r end.

Definition recount (st : state) : ctrs :=
  let l := st_series st in
  mkC (zlen l)
      (sumf (fun s => b2z (lv_stale (s_last s))) l)
      (sumf (fun s => b2z (lv_hist (s_last s))) l)
      (sumf (fun s => lv_nb (s_last s)) l)
      (sumf ser_chunks l)
      (zlen (st_open st)).

(* ------------------------------------------------------------------ counter updates *)
Definition add_series (d : Z) (c : ctrs) := mkC (c_series c + d) (c_stale c) (c_hist c) (c_buckets c) (c_chunks c) (c_active c).
Definition add_stale (d : Z) (c : ctrs) := mkC (c_series c) (c_stale c + d) (c_hist c) (c_buckets c) (c_chunks c) (c_active c).
Definition add_hist (d : Z) (c : ctrs) := mkC (c_series c) (c_stale c) (c_hist c + d) (c_buckets c) (c_chunks c) (c_active c).
Definition add_buckets (d : Z) (c : ctrs) := mkC (c_series c) (c_stale c) (c_hist c) (c_buckets c + d) (c_chunks c) (c_active c).
Definition add_chunks (d : Z) (c : ctrs) := mkC (c_series c) (c_stale c) (c_hist c) (c_buckets c) (c_chunks c + d) (c_active c).
Definition add_active (d : Z) (c : ctrs) := mkC (c_series c) (c_stale c) (c_hist c) (c_buckets c) (c_chunks c) (c_active c + d).

(* updateStaleSeriesMetricOnAppend *)
Definition upd_stale (was is_ : bool) (c : ctrs) : ctrs :=
  if negb was && is_ then add_stale 1 c else if was && negb is_ then add_stale (-1) c else c.

(* updateNativeHistogramMetricsOnAppend *)
Definition upd_hist (was is_ : bool) (oldb newb : Z) (c : ctrs) : ctrs :=
  let c1 := if negb was && is_ then add_hist 1 c else if was && negb is_ then add_hist (-1) c else c in
  if newb =? oldb then c1 else add_buckets (newb - oldb) c1.

(* ------------------------------------------------------------------ series lookup / update *)
Fixpoint find_ser (r : Z) (l : list mser) : option mser :=
  match l with [] => None | s :: t => if s_ref s =? r then Some s else find_ser r t end.

Fixpoint upd_ser (r : Z) (f : mser -> mser) (l : list mser) : list mser :=
  match l with [] => [] | s :: t => if s_ref s =? r then f s :: t else s :: upd_ser r f t end.

Definition set_last (v : lastv) (s : mser) := mkS (s_ref s) (s_mm s) (s_hc s) (s_omm s) (s_ohead s) (s_ostruct s) v (s_pend s) (s_snap s).
Definition set_hc (hc : list Z) (s : mser) := mkS (s_ref s) (s_mm s) hc (s_omm s) (s_ohead s) (s_ostruct s) (s_last s) (s_pend s) (s_snap s).
Definition set_pend (p : bool) (s : mser) := mkS (s_ref s) (s_mm s) (s_hc s) (s_omm s) (s_ohead s) (s_ostruct s) (s_last s) p (s_snap s).
Definition set_ooo (omm : Z) (oh : option Z) (os : bool) (s : mser) := mkS (s_ref s) (s_mm s) (s_hc s) omm oh os (s_last s) (s_pend s) (s_snap s).
Definition set_inorder (mm hc : list Z) (s : mser) := mkS (s_ref s) mm hc (s_omm s) (s_ohead s) (s_ostruct s) (s_last s) (s_pend s) (s_snap s).

(* newMemSeries(..., pendingCommit = true) through an appender *)
Definition new_ser (r : Z) : mser := mkS r [] [] 0 None false (LF false) true 0.

(* ------------------------------------------------------------------ what landed (oracle) *)
Inductive landed :=
| LIn (r t : Z) (hist stale : bool) (nb_in nb_after : Z) (cut : bool)
    (* an in-order sample that memSeries.append* accepted: hist = it went through
       commitHistograms/commitFloatHistograms (incl. converted staleness markers);
       nb_in = len(PositiveBuckets)+len(NegativeBuckets) read *before* the append,
       nb_after = the same lengths of lastHistogramValue after it; cut = chunkCreated *)
| LOoo (r : Z) (k : Z) (dup : bool).
    (* an out-of-order sample handed to memSeries.insert: k = number of m-mapped chunks the
       previous OOO head chunk was encoded into if it had to be flushed; dup = Insert said no *)

Definition push_or_bump (cut : bool) (t : Z) (hc : list Z) : list Z :=
  if cut then t :: hc else match hc with [] => [t] | _ :: r => t :: r end.

(* one iteration of the commit loops (default branch) / of insert, on one memSeries:
   the new series and the new counters *)
Definition commit_ser (oooCap : Z) (c0 : ctrs) (s : mser) (x : landed) : mser * ctrs :=
  match x with
  | LIn _ t hist stale nb_in nb_after cut =>
      let was := s_last s in
      let c1 := upd_stale (lv_stale was) stale c0 in
      let c2 := if hist then upd_hist (lv_hist was) true (lv_nb was) nb_in c1
                else if lv_hist was then upd_hist true false (lv_nb was) 0 c1 else c1 in
      (* appendPreprocessor: `if c == nil { c = s.cutNewHeadChunk(...); chunkCreated = true }`;
         with a head chunk present the decision is the oracle's *)
      let cut' := match s_hc s with [] => true | _ => cut end in
      let c3 := if cut' then add_chunks 1 c2 else c2 in          (* onChunkCreated *)
      let v := if hist then LH stale nb_after else LF stale in
      (set_pend false (set_last v (set_hc (push_or_bump cut' t (s_hc s)) s)), c3)
  | LOoo _ k dup =>
      let need := match s_ohead s with None => true | Some n => n =? oooCap end in
      if need then
        (* cutNewOOOHeadChunk: mmapCurrentOOOHeadChunk appends k chunks, then a fresh head chunk;
           chunkCreated = true -> onChunkCreated *)
        let omm := match s_ohead s with None => s_omm s | Some _ => s_omm s + k end in
        (set_pend false (set_ooo omm (Some 1) true s), add_chunks 1 c0)
      else
        let oh := match s_ohead s with Some n => Some (if dup then n else n + 1) | None => None end in
        (set_pend false (set_ooo (s_omm s) oh true s), c0)
  end.

Definition landed_ref (x : landed) : Z := match x with LIn r _ _ _ _ _ _ => r | LOoo r _ _ => r end.

(* the appender holds *memSeries pointers: the series is updated wherever it lives *)
Definition commit1 (oooCap : Z) (st : state) (x : landed) : state :=
  let r := landed_ref x in
  match find_ser r (st_series st) with
  | Some s =>
      let '(s', c) := commit_ser oooCap (st_c st) s x in
      mkSt (upd_ser r (fun _ => s') (st_series st)) (st_orph st) (st_open st) c
  | None =>
      match find_ser r (st_orph st) with
      | Some s =>
          let '(s', c) := commit_ser oooCap (st_c st) s x in
          mkSt (st_series st) (upd_ser r (fun _ => s') (st_orph st)) (st_open st) c
      | None => st
      end
  end.

Fixpoint clear_pend (rs : list Z) (l : list mser) : list mser :=
  match rs with [] => l | r :: t => clear_pend t (upd_ser r (set_pend false) l) end.

Fixpoint remove1 (a : Z) (l : list Z) : list Z :=
  match l with [] => [] | x :: t => if x =? a then t else x :: remove1 a t end.
Definition mem (a : Z) (l : list Z) : bool := existsb (Z.eqb a) l.

(* ------------------------------------------------------------------ mmapChunks *)
Definition mmap1 (s : mser) : mser :=
  match s_hc s with
  | newest :: ((_ :: _) as older) => set_inorder (s_mm s ++ rev older) [newest] s
  | _ => s
  end.

(* ------------------------------------------------------------------ truncateChunksBefore *)
Fixpoint first_below (mint : Z) (hc : list Z) (i : nat) : option nat :=
  match hc with [] => None | c :: r => if c <? mint then Some i else first_below mint r (S i) end.

Fixpoint count_prefix_below (mint : Z) (mm : list Z) : nat :=
  match mm with [] => O | c :: r => if c <? mint then S (count_prefix_below mint r) else O end.

(* returns the series after truncation and the number of chunks removed *)
Definition truncate_chunks (mint : Z) (ooorm : Z) (s : mser) : mser * Z :=
  let '(mm, hc, rin) :=
    match first_below mint (s_hc s) O with
    | Some i => ([], firstn i (s_hc s), Z.of_nat (length (s_hc s) - i) + zlen (s_mm s))
    | None => let n := count_prefix_below mint (s_mm s) in (skipn n (s_mm s), s_hc s, Z.of_nat n)
    end in
  let rooo := if s_ostruct s && (0 <? s_omm s) then Z.max 0 (Z.min ooorm (s_omm s)) else 0 in
  let omm := s_omm s - rooo in
  let os := if s_ostruct s && (0 <? s_omm s) && (omm =? 0) && negb (is_some (s_ohead s)) then false else s_ostruct s in
  (mkS (s_ref s) mm hc omm (s_ohead s) os (s_last s) (s_pend s) (s_snap s), rin + rooo).

Fixpoint lookupz (r : Z) (l : list (Z * Z)) : Z :=
  match l with [] => 0 | (k, v) :: t => if k =? r then v else lookupz r t end.

Definition keeps (s : mser) : bool :=
  negb (match s_mm s with [] => true | _ => false end) || negb (match s_hc s with [] => true | _ => false end)
  || s_pend s || (s_ostruct s && ((0 <? s_omm s) || is_some (s_ohead s))).

(* stripeSeries.gc: (kept series, removed series, (rmChunks, deleted, staleDeleted, histDeleted, bucketsDeleted)) *)
Fixpoint gc_list (mint : Z) (ooorm : list (Z * Z)) (l : list mser) : list mser * list mser * (Z * Z * Z * Z * Z) :=
  match l with
  | [] => ([], [], (0, 0, 0, 0, 0))
  | s :: t =>
      let '(t', d, (rm, del, st, hi, bu)) := gc_list mint ooorm t in
      let '(s', r) := truncate_chunks mint (lookupz (s_ref s) ooorm) s in
      if keeps s' then (s' :: t', d, (rm + r, del, st, hi, bu))
      else (t', s' :: d, (rm + r, del + 1, st + b2z (lv_stale (s_last s')), hi + b2z (lv_hist (s_last s')), bu + lv_nb (s_last s')))
  end.

Definition sub_removed (c : ctrs) (x : Z * Z * Z * Z * Z) : ctrs :=
  let '(rm, del, st, hi, bu) := x in
  mkC (c_series c - del) (c_stale c - st) (c_hist c - hi) (c_buckets c - bu) (c_chunks c - rm) (c_active c).

(* NewOOOCompactionHead: mmapCurrentOOOHeadChunk on every series of the flush list (k chunks each) *)
Definition flush1 (k : Z) (s : mser) : mser :=
  match s_ohead s with
  | Some _ => if s_ostruct s then set_ooo (s_omm s + k) None true s else s
  | None => s
  end.
Fixpoint flush_list (fl : list (Z * Z)) (l : list mser) : list mser :=
  match fl with [] => l | (r, k) :: t => flush_list t (upd_ser r (flush1 k) l) end.

(* ------------------------------------------------------------------ gcSeries (eviction) *)
Definition max_time (s : mser) : option Z :=
  match s_hc s with
  | c :: _ => Some c
  | [] => match rev (s_mm s) with c :: _ => Some c | [] => None end     (* math.MinInt64 *)
  end.

Definition evictable (stale_only : bool) (refs : list Z) (maxt : Z) (s : mser) : bool :=
  mem (s_ref s) refs
  && (match max_time s with Some m => m <=? maxt | None => true end)
  && negb (s_ostruct s)                                               (* isSeriesWithoutOOO *)
  && (if stale_only then lv_stale (s_last s) else true).              (* isStaleSeries *)

(* rmChunks counts headChunkCount + len(mmappedChunks) only *)
Fixpoint evict_list (stale_only : bool) (refs : list Z) (maxt : Z) (l : list mser) : list mser * list mser * (Z * Z * Z * Z * Z) :=
  match l with
  | [] => ([], [], (0, 0, 0, 0, 0))
  | s :: t =>
      let '(t', d, (rm, del, st, hi, bu)) := evict_list stale_only refs maxt t in
      if evictable stale_only refs maxt s then
        (t', s :: d, (rm + zlen (s_hc s) + zlen (s_mm s), del + 1, st + b2z (lv_stale (s_last s)),
              hi + b2z (lv_hist (s_last s)), bu + lv_nb (s_last s)))
      else (s :: t', d, (rm, del, st, hi, bu))
  end.

(* ------------------------------------------------------------------ restart (Head.Init) *)
(* The per-series structure after the restart is an oracle.  The bookkeeping replayed over it:
   getOrCreateWithOptionalID -> numSeries++ ; loadMmappedChunks / resetSeriesWithMMappedChunks ->
   chunks += len(mmapped) + len(oooMmapped) ; appendChunkAndMmap / WBL insert -> chunks++ for every
   chunk cut by the replay ; sampleState of the replayed / snapshotted last value.  Head chunks
   restored by loadChunkSnapshot (s_snap of them) get no chunks.Inc().  [extra] = head chunks that
   the replay created (chunks.Inc()) and resetSeriesWithMMappedChunks then dropped
   (setHeadChunks(nil, 0)) without touching the gauge, when a second series record with the same
   labels was met.  [bextra] = bucket entries that a replayed append (appendWALHistogram reads
   newBuckets before the append, like commitHistograms) added in place to the histogram that
   became lastHistogramValue. *)
Definition replay_ser (c : ctrs) (s : mser) : ctrs :=
  let c1 := add_series 1 c in
  let c2 := add_chunks (ser_chunks s - s_snap s) c1 in
  let c3 := upd_stale false (lv_stale (s_last s)) c2 in
  if lv_hist (s_last s) then upd_hist false true 0 (lv_nb (s_last s)) c3 else c3.

(* ------------------------------------------------------------------ operations *)
Inductive op :=
| OOpen (a : Z)                                         (* Head.Appender *)
| OAppend (a : Z) (created : option Z) (ok : option Z)
      (* Append* / AppendHistogram: getOrCreate made a new memSeries with this ref; the call returned
         nil for the series [ok] (s.pendingCommit = true) *)
| OCommit (a : Z) (touched : list Z) (l : list landed)  (* Commit *)
| ORollback (a : Z) (touched : list Z)                  (* Rollback *)
| OMmap                                                 (* Head.mmapHeadChunks *)
| OTrunc (ran : bool) (mint : Z) (flush : list (Z * Z)) (ooorm : list (Z * Z))
      (* Head.Truncate / DB.CompactOOOHead: [flush the OOO head chunks;] Head.gc() if it ran *)
| OEvict (stale_only : bool) (refs : list Z) (maxt : Z) (* DB.CompactStaleHead / CompactSelectedSeries -> gcSeries *)
| ONop                                                  (* Delete, queries: no counter is touched *)
| ORestart (post : list mser) (extra bextra : Z).       (* Close + Open *)

Definition step (oooCap : Z) (st : state) (o : op) : state :=
  match o with
  | OOpen a => mkSt (st_series st) (st_orph st) (a :: st_open st) (add_active 1 (st_c st))
  | OAppend a created ok =>
      let st1 :=
        match created with
        | None => st
        | Some r =>
            match find_ser r (st_series st) with
            | Some _ => st                               (* refs are never reused; not reachable *)
            | None => mkSt (st_series st ++ [new_ser r]) (st_orph st) (st_open st) (add_series 1 (st_c st))
            end
        end in
      match ok with
      | None => st1
      | Some r => mkSt (upd_ser r (set_pend true) (st_series st1)) (upd_ser r (set_pend true) (st_orph st1)) (st_open st1) (st_c st1)
      end
  | OCommit a touched l =>
      if mem a (st_open st) then
        let st1 := fold_left (commit1 oooCap) l st in
        mkSt (clear_pend touched (st_series st1)) (clear_pend touched (st_orph st1)) (remove1 a (st_open st1)) (add_active (-1) (st_c st1))
      else st                                            (* ErrAppenderClosed *)
  | ORollback a touched =>
      if mem a (st_open st) then
        mkSt (clear_pend touched (st_series st)) (clear_pend touched (st_orph st)) (remove1 a (st_open st)) (add_active (-1) (st_c st))
      else st
  | OMmap => mkSt (map mmap1 (st_series st)) (st_orph st) (st_open st) (st_c st)
  | OTrunc ran mint flush ooorm =>
      let l1 := flush_list flush (st_series st) in
      if ran then
        let '(l2, d, x) := gc_list mint ooorm l1 in
        mkSt l2 (st_orph st ++ d) (st_open st) (sub_removed (st_c st) x)
      else mkSt l1 (st_orph st) (st_open st) (st_c st)
  | OEvict so refs maxt =>
      let '(l2, d, x) := evict_list so refs maxt (st_series st) in
      mkSt l2 (st_orph st ++ d) (st_open st) (sub_removed (st_c st) x)
  | ONop => st
  | ORestart post extra bextra => mkSt post [] [] (add_buckets (- bextra) (add_chunks extra (fold_left replay_ser post ctrs0)))
  end.

Definition run (oooCap : Z) (ops : list op) : state := fold_left (step oooCap) ops state0.

(* all states along the history (after every step) *)
Fixpoint trace (oooCap : Z) (st : state) (ops : list op) : list state :=
  match ops with [] => [] | o :: r => let st' := step oooCap st o in st' :: trace oooCap st' r end.

(* ------------------------------------------------------------------ well-formed oracles *)
(* The statement "counters = recount" needs facts about what the implementation did that the
   model takes as oracles; each of them is evaluated by the harness on the implementation:
   - the append did not change the number of bucket entries of the histogram it was given,
   - an out-of-order head chunk was flushed into exactly one m-mapped chunk,
   - a sample landed in a series that is still in the head,
   - no head chunk came out of a chunk snapshot, none was dropped by the WAL replay,
   - in the per-series structure read back after a restart, s.ooo == nil implies no OOO chunks
     (and the number of OOO m-mapped chunks is not negative). *)
Definition wf_landed (l : list mser) (x : landed) : bool :=
  is_some (find_ser (landed_ref x) l) &&
  match x with
  | LIn _ _ hist _ nb_in nb_after _ => if hist then nb_in =? nb_after else true
  | LOoo _ k _ => k =? 1
  end.
Definition ooo_ok (s : mser) : bool :=
  (0 <=? s_omm s) && (s_ostruct s || ((s_omm s =? 0) && negb (is_some (s_ohead s)))).
Definition wf_ser (s : mser) : bool := (s_snap s =? 0) && ooo_ok s.
Definition wf_op (st : state) (o : op) : bool :=
  match o with
  | OCommit _ _ l => forallb (wf_landed (st_series st)) l
  | OTrunc _ _ flush _ => forallb (fun p => snd p =? 1) flush
  | ORestart post extra bextra => forallb wf_ser post && (extra =? 0) && (bextra =? 0)
  | _ => true
  end.

Fixpoint wf_run (oooCap : Z) (st : state) (ops : list op) : bool :=
  match ops with
  | [] => true
  | o :: r => wf_op st o && wf_run oooCap (step oooCap st o) r
  end.

(* props/C41.v — property theorems for C41 (remote-write receivers store exactly what they
   report as written). Statements only; proofs are in proof/WriteReqProofs.v. *)
From Coq Require Import List ZArith Bool.
From Verif Require Import model.WriteReq proof.WriteReqProofs.
Import ListNotations.
Open Scope Z_scope.

(* The 2.0 symbol table round-trips: references produced by SymbolizeLabels, decoded against the
   table (grown by any later additions), give the label set back, in name order — identically
   when the input was already strictly sorted by name (as every labels.Labels value is). *)
Theorem C41_symbols_roundtrip : forall tbl ls tbl' refs,
  symbolize_labels tbl ls = (tbl', refs) -> desymbolize refs tbl' = Some (sort_labels ls).
Proof. exact symbols_roundtrip. Qed.

Theorem C41_symbols_roundtrip_sorted : forall tbl ls tbl' refs, sorted_strict ls = true ->
  symbolize_labels tbl ls = (tbl', refs) -> desymbolize refs tbl' = Some ls.
Proof. exact symbols_roundtrip_sorted. Qed.

(* ... for all series of a request sharing one table: later symbols do not disturb earlier
   references. *)
Theorem C41_symbols_roundtrip_request : forall lss tbl tbl' refss,
  symbolize_all tbl lss = (tbl', refss) ->
  map (fun r => desymbolize r tbl') refss = map (fun ls => Some (sort_labels ls)) lss.
Proof. exact symbols_roundtrip_request. Qed.

(* Protocol 2.0, ANY appender (any per-append outcome, any commit result), any request: after a
   commit the three written-count headers equal the numbers of float, histogram and exemplar
   appends the appender acknowledged; the status is 204 or 400, and 204 only if every series was
   acceptable (decodable references, valid label set, not empty); nothing is acknowledged under
   an invalid label set; otherwise (hard error or failed commit) the counts are zero, nothing is
   kept and the status is 500. *)
Theorem C41_counts_equal_acknowledged : forall St (A : appender St) maxT st0 r,
  let res := handle_v2 A maxT st0 r in
  match r_fin res with
  | FCommitted =>
      r_stats res = Some (count_f (r_trace res), count_h (r_trace res), count_e (r_trace res))
      /\ (r_status res = 204 \/ r_status res = 400)
      /\ (r_status res = 204 -> forallb (series_ok (r2_syms r)) (r2_series r) = true)
      /\ Forall (fun e => valid_series (ev_labels e) = true) (r_trace res)
  | _ => r_stats res = Some (0, 0, 0) /\ r_trace res = [] /\ r_status res = 500
  end.
Proof. exact v2_counts_acknowledged. Qed.

(* Full statement: for every storage, the reported counts equal what the request added to the
   storage. Proved (_partial) for every ATOMIC storage — one whose decision on an append may
   depend on everything stored and everything acknowledged so far in the request, and which
   stores at commit exactly what it acknowledged: the storage grows by `new`, the headers are
   the counts of `new`, every stored item has a valid label set, a 500 stores nothing, a 204
   means every series was acceptable. Missing: the TSDB head is not atomic in this sense
   (C41_counts_equal_stored_refuted). *)
Theorem C41_counts_equal_stored_partial : forall decide maxT s0 r, id_pending s0 = [] ->
  let res := handle_v2 (ideal_app decide) maxT s0 r in
  exists new,
    id_stored (r_state res) = new ++ id_stored s0 /\ id_pending (r_state res) = []
    /\ r_stats res = Some (count_f new, count_h new, count_e new)
    /\ Forall (fun e => valid_series (ev_labels e) = true) new
    /\ (r_status res = 500 -> new = [])
    /\ (r_status res = 204 -> forallb (series_ok (r2_syms r)) (r2_series r) = true).
Proof. exact v2_counts_equal_stored. Qed.

(* The faithful two-phase model of the TSDB head (Append checks against the committed series,
   Commit re-checks and silently drops) violates it: a 2.0 request with two samples of one
   series, the second older, is answered 204 with Samples-Written: 2 while one sample is
   stored. Reproduced on the real handler + real Head by the harness corpus. *)
Theorem C41_counts_equal_stored_refuted : exists h r maxT,
  let res := head_request maxT h (R2 r) in
  r_status res = 204 /\ r_stats res = Some (2, 0, 0) /\ r_fin res = FCommitted
  /\ head_floats (ha_head (r_state res)) - head_floats h = 1.
Proof. exists (head_new true 1000), w_req_ooo, w_big. exact head_counts_refuted. Qed.

(* With exemplar storage disabled the head acknowledges every exemplar and stores none. *)
Theorem C41_exemplars_disabled_refuted : exists h r maxT,
  let res := head_request maxT h (R2 r) in
  r_status res = 204 /\ r_stats res = Some (1, 0, 1) /\ head_exs (ha_head (r_state res)) = 0.
Proof. exists (head_new false 1000), w_req_ex, w_big. exact head_exemplars_disabled_refuted. Qed.

(* Two exemplars of one series in one request, the second older: both counted, one stored. *)
Theorem C41_exemplars_ooo_refuted : exists h r maxT,
  let res := head_request maxT h (R2 r) in
  r_status res = 204 /\ r_stats res = Some (1, 0, 2) /\ head_exs (ha_head (r_state res)) = 1.
Proof. exists (head_new true 1000), w_req_ex2, w_big. exact head_exemplars_ooo_refuted. Qed.

(* Protocol 1.0 over an atomic storage is all-or-nothing: on 204 the storage grew by exactly
   the acknowledged appends (all under valid label sets), on any other status it is unchanged. *)
Theorem C41_v1_all_or_nothing : forall decide maxT s0 r, id_pending s0 = [] ->
  let res := handle_v1 (ideal_app decide) maxT s0 r in
  id_pending (r_state res) = [] /\
  (r_status res = 204 ->
     id_stored (r_state res) = rev (r_trace res) ++ id_stored s0
     /\ Forall (fun e => valid_series (ev_labels e) = true) (r_trace res))
  /\ (r_status res <> 204 -> id_stored (r_state res) = id_stored s0 /\ r_trace res = []).
Proof. exact v1_stored_iff_success. Qed.

(* Protocol 1.0, any appender: a 204 means every float sample and histogram of every valid
   series was acknowledged, in request order (exemplar failures are ignored by design). *)
Theorem C41_v1_success_all_acknowledged : forall St (A : appender St) maxT st0 r,
  let res := handle_v1 A maxT st0 r in
  r_status res = 204 -> nonex (r_trace res) = v1_wanted r.
Proof. exact v1_success_all_acknowledged. Qed.

(* ... which the two-phase head breaks: 204 although a sample of a valid series was dropped. *)
Theorem C41_v1_success_refuted : exists h r maxT,
  let res := head_request maxT h (R1 r) in
  r_status res = 204 /\ length (v1_wanted r) = 2%nat /\ head_floats (ha_head (r_state res)) = 1.
Proof. exists (head_new true 1000), w_req_v1, w_big. exact head_v1_success_refuted. Qed.

(* Invalid series: protocol 1.0 never appends under an invalid label set (the series is skipped;
   the status stays 204 — the code's own TODO notes the 1.0 specification asks for 400). The 2.0
   part is in C41_counts_equal_acknowledged. *)
Theorem C41_invalid_rejected : forall St (A : appender St) maxT st0 r,
  Forall (fun e => valid_series (ev_labels e) = true) (r_trace (handle_v1 A maxT st0 r)).
Proof. exact v1_invalid_skipped. Qed.

(* Codec. Full statement: a native histogram (integer or float, any schema incl. custom buckets,
   any spans / buckets / custom values / reset hint, floats as bit patterns), its timestamp and
   start timestamp survive From*Histogram -> Marshal -> Unmarshal -> To*Histogram of either
   protocol unchanged, bit for bit. Proved (_partial) for histograms whose sum and zero threshold
   are not negative zero; missing: -0.0 in a scalar double field (refuted below). *)
Theorem C41_codec_roundtrip_partial : forall st ts h, wire_safe h ->
  (g_float h = false ->
     let p := transmit (from_int st ts h) in
     to_int p = Some h /\ is_float_hist p = false /\ p_ts p = ts /\ p_st p = st) /\
  (g_float h = true ->
     let p := transmit (from_float st ts h) in
     to_float p = h /\ to_int p = None /\ is_float_hist p = true /\ p_ts p = ts /\ p_st p = st).
Proof. exact codec_roundtrip. Qed.

(* Every other double value of a sample / exemplar / histogram scalar survives the wire ... *)
Theorem C41_value_roundtrip_partial : forall v, v <> negzero -> wire_f v = v.
Proof. exact wire_f_id. Qed.

(* ... but negative zero arrives as +0.0 (the generated proto3 marshaller writes a double only
   `if m.X != 0`): Sample.value, Exemplar.value, Histogram.sum, Histogram.zero_threshold. *)
Theorem C41_codec_negative_zero_refuted :
  wire_f negzero <> negzero /\
  g_float w_negz_hist = true /\ to_float (transmit (from_float 0 0 w_negz_hist)) <> w_negz_hist.
Proof. exact codec_negzero_refuted. Qed.

(* The float view of an integer histogram (ToFloatHistogram on an integer message): all fields
   kept, counts converted with float64(), bucket counts = partial sums of the deltas (exact while
   below 2^53). *)
Theorem C41_codec_int_to_float : forall st ts h, g_float h = false ->
  Forall small (g_pb h) -> Forall small (psums 0 (g_pb h)) ->
  Forall small (g_nb h) -> Forall small (psums 0 (g_nb h)) ->
  let f := to_float (transmit (from_int st ts h)) in
  g_float f = true /\ g_hint f = g_hint h /\ g_schema f = g_schema h /\ g_zt f = wire_f (g_zt h)
  /\ g_sum f = wire_f (g_sum h) /\ g_zc f = z2f (g_zc h) /\ g_count f = z2f (g_count h)
  /\ g_pspans f = g_pspans h /\ g_nspans f = g_nspans h /\ g_custom f = g_custom h
  /\ g_pb f = map bits_exact (psums 0 (g_pb h)) /\ g_nb f = map bits_exact (psums 0 (g_nb h)).
Proof. exact int_to_float_view. Qed.

Example C41_nonvacuous_codec :
  let h := mkGH false 2 3 4562254508917369340 1 6 4617315517961601024 [(0, 2)] [2; 1] [(-1, 1)] [3] [] in
  wire_safe h /\ g_pb (to_float (transmit (from_int 7 1000 h))) = [4611686018427387904; 4613937818241073152]
  /\ z2f 9007199254740993 = 4845873199050653696 /\ z2f 18446744073709551615 = 4895412794951729152.
Proof. exact nonvacuous_codec. Qed.

(* non-vacuity *)
Example C41_nonvacuous_partial_write :
  let res := handle_v2 (ideal_app dedup) w_big (mkIdeal [] []) w_req_mixed in
  r_status res = 400 /\ r_stats res = Some (2, 1, 1) /\ length (id_stored (r_state res)) = 4%nat.
Proof. exact nonvacuous_partial_write. Qed.

Example C41_nonvacuous_symbols :
  symbolize_labels new_table [(metric_name, [109; 49]); ([97], [109; 49])]
  = ([[]; metric_name; [109; 49]; [97]], [1; 2; 3; 2]%nat)
  /\ sorted_strict [([97], [109; 49]); (metric_name, [109; 49])] = false
  /\ sorted_strict [(metric_name, [109; 49]); ([97], [109; 49])] = true.
Proof. exact nonvacuous_symbols. Qed.

Example C41_same_samples_in_two_requests_are_rejected :
  let h := head_new true 1000 in
  let r1 := head_request w_big h (R2 (mkR2 w_syms [mkTS2 [1; 2]%nat 0 0 [(2000, 1)] [] []])) in
  let r2 := head_request w_big (ha_head (r_state r1)) (R2 (mkR2 w_syms [mkTS2 [1; 2]%nat 0 0 [(1990, 2)] [] []])) in
  r_status r1 = 204 /\ r_stats r1 = Some (1, 0, 0) /\ r_status r2 = 400 /\ r_stats r2 = Some (0, 0, 0)
  /\ head_floats (ha_head (r_state r2)) = 1.
Proof. exact head_two_requests_rejected. Qed.

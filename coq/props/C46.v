(* props/C46.v — property theorems for C46 (the notifier drops only the oldest alerts and
   preserves order).  Statements only; proofs are in proof/SendLoopProofs.v.

   `run c ops` is the state of one send loop after ANY sequence `ops` of atomic steps of the
   goroutines involved (Add by senders; Take / Arrive / Respond by the loop goroutine and by the
   goroutine draining inside stop(); Stop; DrainCheck) -- steps that are not enabled are no-ops,
   so every theorem below is a statement about all interleavings, of any length, for any
   QueueCapacity / MaxBatchSize / DrainOnShutdown.  `log` is what the Alertmanager received, in
   order of reception; `added ops` is every alert handed to the loop, in order. *)
From Coq Require Import List ZArith Bool.
From Verif Require Import model.SendLoop.
From Verif Require Import proof.SendLoopProofs.
Import ListNotations.
Open Scope Z_scope.

(* Order.  Full statement wanted by the property: for ALL ops,
     subseqb (log_alerts (log (run c ops))) (added ops) = true.
   That statement is false of the faithful model when DrainOnShutdown is set (see
   C46_order_under_drain_refuted).  What holds for all interleavings: the alerts received are a
   subsequence, in the same order, of the alerts added, provided no request reached the
   Alertmanager before an older request still in transit ([reordered] is set by exactly that
   event) ... *)
Theorem C46_subsequence : forall c ops, reordered (run c ops) = false ->
  subseqb (log_alerts (log (run c ops))) (added ops) = true.
Proof. exact subsequence. Qed.

(* ... and without DrainOnShutdown that event cannot happen (one request in flight at a time),
   so the order is preserved unconditionally. *)
Theorem C46_subsequence_nodrain : forall c ops, drain c = false ->
  subseqb (log_alerts (log (run c ops))) (added ops) = true.
Proof. exact subsequence_nodrain. Qed.

(* With DrainOnShutdown the loop goroutine's request and the requests sent by stop() are in
   flight concurrently; the Alertmanager can receive the newer batch first.  Reproduced on the
   real Manager by the harness (shape key drain-overlap-reorder). *)
Theorem C46_order_under_drain_refuted :
  exists c ops, finished (run c ops) = true
    /\ log_alerts (log (run c ops)) = [3;4;1;2]
    /\ subseqb (log_alerts (log (run c ops))) (added ops) = false.
Proof. exact order_under_drain_refuted. Qed.

(* Overflow drops the oldest alerts first: whatever the state, an add() on a running loop leaves
   exactly the last min(capacity, ..) elements of old queue ++ new alerts, counts what it cut
   off in `dropped`, and touches nothing else. *)
Theorem C46_oldest_first : forall c s al, stopped s = false ->
  let s' := step c s (Add al) in
  exists d : nat,
    queue s' = skipn d (queue s ++ al)
    /\ length (queue s') = Nat.min (cap c) (length (queue s) + length al)
    /\ dropped s' = dropped s + Z.of_nat d
    /\ log s' = log s /\ flights s' = flights s /\ sent s' = sent s /\ errors s' = errors s.
Proof. exact add_oldest_first. Qed.

(* A delivery counts as successful exactly for a final 2xx response (the model's transcription of
   `resp.StatusCode/100 != 2`); with C46_accounting this says `sent` grows only for 2xx and every
   other outcome is counted in `errors` and `dropped`. *)
Theorem C46_status_2xx : forall st, status_ok st = true <-> 200 <= st < 300.
Proof. exact status_ok_spec. Qed.

(* Every request received carries between 1 and MaxBatchSize alerts. *)
Theorem C46_batch_bound : forall c ops, batches_ok c (log (run c ops)) = true.
Proof. exact batch_bound. Qed.

(* Conservation: every alert accepted by add() is, at any moment, exactly one of: delivered
   (sent), failed (errors), dropped by add() on overflow (ovf), still queued, or in a request in
   flight; the dropped counter is overflow drops + failed deliveries + what stop() wrote off;
   the sent counter equals what the Alertmanager acknowledged. *)
Theorem C46_accounting : forall c ops, let s := run c ops in
  accepted s = sent s + errors s + ovf s + len (queue s) + flight_count (flights s)
  /\ dropped s = ovf s + errors s + stopdrop s
  /\ sent s + arrived_count true (flights s) = log_count true (log s)
  /\ log_count false (log s) <= errors s + arrived_count false (flights s)
  /\ (stopped s = false -> accepted s = sent s + dropped s + len (queue s) + flight_count (flights s)).
Proof. exact accounting. Qed.

(* Every loss is counted: once stop() has returned and nothing is in flight, the alerts that
   were accepted and not delivered are covered by the dropped counter; with DrainOnShutdown the
   count is exact and the queue is empty. *)
Theorem C46_every_loss_counted : forall c ops, let s := run c ops in finished s = true ->
  accepted s <= sent s + dropped s
  /\ (drain c = true -> accepted s = sent s + dropped s /\ queue s = [])
  /\ sent s = log_count true (log s).
Proof. exact every_loss_counted. Qed.

(* Without DrainOnShutdown the count is not exact: the loop goroutine can win one more
   `<-hasWork` after stop() has written the queue off, and deliver alerts already counted as
   dropped (over-count; not a loss, so not a violation of the property). *)
Theorem C46_exact_accounting_nodrain_refuted :
  exists c ops, drain c = false /\ finished (run c ops) = true
    /\ accepted (run c ops) < sent (run c ops) + dropped (run c ops).
Proof. exact exact_accounting_nodrain_refuted. Qed.

(* Drain: when stop() returns (DDone) with DrainOnShutdown, the queue is empty, no request of the
   draining goroutine is pending, and every accepted alert is delivered, counted as dropped, or
   in the one request the loop goroutine may still have in flight (already issued). *)
Theorem C46_drain : forall c ops, let s := run c ops in drain c = true -> dp s = DDone ->
  queue s = [] /\ nfl Drainer (flights s) = 0%nat
  /\ accepted s = sent s + dropped s + loop_flight_count (flights s).
Proof. exact drain_complete. Qed.

(* Non-vacuity: a concrete run that overflows the queue, fails a delivery, drains on stop and
   finishes without reordering. *)
Example C46_nonvacuous :
  let s := run cfg_w ops_nv in
  finished s = true /\ reordered s = false /\ dp s = DDone
  /\ log s = [([3;4], true); ([7;8], false); ([9], true)]
  /\ accepted s = 9 /\ sent s = 3 /\ dropped s = 6 /\ errors s = 4 /\ ovf s = 2.
Proof. exact nonvacuous. Qed.

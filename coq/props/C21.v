From Coq Require Import List ZArith.
From Verif Require Import lib.Int64 model.Exemplar proof.ExemplarProofs.
Import ListNotations.
Open Scope Z_scope.

(* props/C21.v — property theorems for C21 (exemplar storage keeps the newest accepted
   exemplars in order). Nothing but statements; proofs are in proof/ExemplarProofs.v.

   Three models (model/Exemplar.v): the pointer-level model of tsdb/exemplar.go ([run], tied
   to the code by the correspondence check incl. dumps of prev/next/index), the ring-level
   model ([r_run]: same nextIndex / eviction / grow / shrink arithmetic, per-series lists
   derived by a stable sort instead of stored as pointers) and the reference ([sp_run]: the
   list of retained (series, exemplar) pairs in acceptance order, capacity, window).

   FULL STATEMENT (design):  forall l w ops, run (new_state l w) ops = sp_run WIdeal (sp_new l w) ops
   on int64 inputs, modulo dumps.  PROVED here: that statement for the ring-level model
   (C21_refines_partial), and every clause of the property for the reference.  MISSING: the
   simulation between the pointer-level model and the ring-level model (that the doubly linked
   lists threaded through the ring are exactly the derived sorted lists); it is checked per
   generated history by vm_compute (corr/CorrC21.v: agree runs both models), not proved. *)
From Coq Require Import List ZArith Permutation.
From Verif Require Import lib.Int64 model.Exemplar proof.ExemplarProofs.
Import ListNotations.
Open Scope Z_scope.

(* Any history of add / validate / resize / set-window / select / iterate on the ring (slots,
   nextIndex, eviction of the slot at nextIndex, grow, the three shrink cases, the window rule
   as the code computes it with wrapping int64 and uint64 conversions) never panics and
   returns exactly what the reference returns, for all int64 timestamps and windows. *)
Theorem C21_refines_partial : forall l w ops,
  int64 w -> Forall op_int64 ops ->
  r_run (r_new l w) ops = sp_run WIdeal (sp_new l w) ops.
Proof. exact thm_refines_partial. Qed.

(* Every reachable ring keeps its holes before its live slots in ingestion order (so eviction at
   nextIndex is eviction of the oldest accepted exemplar) and nextIndex stays in range. *)
Theorem C21_ring_invariant : forall l w ops, exists r, r_exec (r_new l w) ops = Ok r /\ RInv r.
Proof. exact thm_ring_invariant. Qed.

(* Accepting an exemplar overwrites the slot at nextIndex: retained = newest [capacity] of (retained ++ new). *)
Theorem C21_add_evicts_oldest : forall r sid e r',
  RInv r -> r_add r sid e = Ok (r', AddStored) ->
  r_kept r' = lastn (Z.to_nat (zlen (r_ring r))) (r_kept r ++ [(sid, e)]) /\ zlen (r_ring r') = zlen (r_ring r).
Proof. exact thm_add_evicts_oldest. Qed.

(* Resizing (grow, shrink, to zero, negative) keeps exactly the most recently accepted exemplars that fit. *)
Theorem C21_resize_keeps_newest : forall r l, RInv r ->
  exists r' m, r_resize r l = Ok (r', m) /\ RInv r' /\
    zlen (r_ring r') = Z.max l 0 /\
    r_kept r' = lastn (Z.to_nat (Z.max l 0)) (r_kept r) /\ r_win r' = r_win r.
Proof. exact thm_resize_keeps_newest. Qed.

(* Without resizes the store holds exactly the newest [capacity] exemplars it ever stored, in acceptance order. *)
Theorem C21_retains_newest : forall l w ops, Forall no_resize ops ->
  sp_kept (sp_exec WIdeal (sp_new l w) ops) = lastn (Z.to_nat (Z.max l 0)) (sp_log WIdeal (sp_new l w) ops).
Proof. exact thm_retains_newest. Qed.

(* The store never holds more than its capacity, whatever the history. *)
Theorem C21_capacity : forall l w ops,
  zlen (sp_kept (sp_exec WIdeal (sp_new l w) ops)) <= sp_cap (sp_exec WIdeal (sp_new l w) ops).
Proof. exact thm_capacity. Qed.

(* Select returns, per matching series, a non-empty group sorted by non-decreasing timestamp that
   is exactly (with multiplicity) the retained exemplars of that series within the range ... *)
Theorem C21_select_sound : forall s lo hi m sid l,
  In (sid, l) (sp_select s lo hi m) ->
  In sid m /\ l <> [] /\ sorted l /\ Permutation l (filter (in_range lo hi) (of_series sid (sp_kept s))).
Proof. exact sp_select_sound. Qed.

(* ... and misses nothing. *)
Theorem C21_select_complete : forall s lo hi m sid e,
  In (sid, e) (sp_kept s) -> In sid m -> in_range lo hi e = true ->
  exists l, In (sid, l) (sp_select s lo hi m) /\ In e l.
Proof. exact sp_select_complete. Qed.

(* The out-of-order window as the code computes it (uint64 of the wrapped int64 difference) is the
   documented rule e.Ts <= newest.Ts - window on all int64 inputs ... *)
Theorem C21_window_rule : forall w ne e, int64 w -> int64 (e_ts ne) -> int64 (e_ts e) ->
  validate_against WFixed w (Some ne) e = validate_against WIdeal w (Some ne) e.
Proof. exact thm_window_rule. Qed.

(* ... which the code before "fix: tsdb: exemplar out-of-order window check overflows near MinInt64" violated. *)
Theorem C21_window_wrap_old_refuted : exists w ne e,
  int64 w /\ int64 (e_ts ne) /\ int64 (e_ts e) /\
  validate_against WOld w (Some ne) e = VOOO /\ validate_against WIdeal w (Some ne) e = VOk.
Proof. exact window_wrap_old_refuted. Qed.

(* Pointer level (the model with prev/next/index, as dumped from the implementation): in every state
   that satisfies the executable well-formedness predicate [wfb] (holes first, every index entry
   heads a doubly linked in-range chain of its series' live slots whose exemplars are the stable
   sort by timestamp of the retained ones, every live slot on its chain) ValidateExemplar, Select
   (the walk along next pointers with its early exits, the final sort) and IterateExemplars never
   panic or loop and return what the ring-level model returns, hence (C21_refines_partial) what the
   reference returns. [wfb] is evaluated after every operation of every generated history by the
   correspondence check; that the two writers (AddExemplar, Resize) preserve it is NOT proved. *)
Theorem C21_pointer_reads_partial : forall st o, wfb st = true ->
  match o with
  | OValidate _ _ | OSelect _ _ _ | OIter =>
      exists b, step st o = Ok (st, b) /\ r_step (abs_ring st) o = Ok (abs_ring st, b)
  | _ => True
  end.
Proof. exact reads_correct. Qed.

Example C21_pointer_nonvacuous : exists st, exec (new_state 3 50) (firstn 6 demo_ops) = Ok st /\ wfb st = true /\
  index st = [(0, (0, 2)); (1, (1, 1))] /\ nexti st = 2.
Proof. exact demo_wf. Qed.

(* Head appender entry points (tsdb/head_append.go AppendExemplar + Commit, tsdb/head_append_v2.go
   Append with AOptions.Exemplars + Commit): exemplars are normalised with [without_empty] (labels with
   an empty value are dropped before validation: they do not count towards the 128-rune limit, do not
   distinguish a duplicate and are not stored), validated against the store before the commit
   (duplicates swallowed, other errors reported), then added in order. Histories mixing these entry
   points with all direct operations on the ring return exactly what the reference returns. *)
Theorem C21_head_entry_refines_partial : forall l w ops,
  int64 w -> Forall hop_int64 ops ->
  r_hrun (r_new l w) ops = sp_hrun WIdeal (sp_new l w) ops.
Proof. exact thm_head_entry_refines. Qed.

(* non-vacuity: a history with out-of-order insertion, eviction, duplicates, shrink and grow (demo_ops in the proof file) *)
Example C21_nonvacuous :
  Forall op_int64 demo_ops /\
  r_run (r_new 3 50) demo_ops =
    [BErr VOk; BErr VOk; BErr VOk; BErr VOk; BErr VOk; BErr VOk; BErr VOOO; BInt 2; BErr VOk; BInt 2;
     BIter [(1, ex1 90 1); (1, ex1 95 1)]; BSel [(1, [ex1 90 1; ex1 95 1])]] /\
  run (new_state 3 50) demo_ops = r_run (r_new 3 50) demo_ops.
Proof. exact demo_nonvacuous. Qed.

(* props/C10.v — property theorems for C10 (float chunks return exactly what was appended).
   Statements only; proofs are in proof/XorProofs.v.  The model is model/Xor.v.
   Samples are (start timestamp, timestamp, value bit pattern); [wf_sample] only says that the
   timestamp is an int64 and the value a 64-bit pattern — no ordering, no range restriction:
   all timestamp arithmetic in the model wraps like the Go code, so the property's
   "strictly increasing timestamps within +-2^62" is a special case. *)
From Coq Require Import List ZArith Lia.
From Verif Require Import lib.Int64 lib.Bits model.Xor proof.XorProofs proof.Xor2Proofs.
Import ListNotations.
Open Scope Z_scope.

(* Classic XOR chunk: any sample sequence up to the chunk's capacity, appended to a fresh chunk,
   is returned by iterating the chunk's bytes exactly: same length, same timestamps, same value
   bits, no iterator error (AtST is 0 for this encoding: [st0]). *)
Theorem C10_xor_roundtrip : forall k ss,
  Forall wf_sample ss -> Z.of_nat (length ss) <= 65535 ->
  exists num bs, xor_encode [(k, ss)] = EOk num [] bs /\
                 xor_decode (chunk_bytes num [] bs) = DOk (map st0 ss) false.
Proof. exact xor_roundtrip. Qed.

(* ... also when appending is interrupted any number of times and resumed through
   XORChunk.Appender(), on the same chunk object or on a chunk rebuilt from its bytes (the
   segments carry either kind).  The appender state is rebuilt by iterating the existing bytes
   (a rebuilt appender has window 0/0 where a fresh one has 0xff) and - since
   "fix: chunkenc: XORChunk.Appender does not restore the write position ..." - the write
   position is restored from the iterator's reader. *)
Theorem C10_xor_resume : forall segs,
  Forall wf_sample (flat_map snd segs) ->
  Z.of_nat (length (flat_map snd segs)) <= 65535 ->
  exists num bs, xor_encode segs = EOk num [] bs /\
                 xor_decode (chunk_bytes num [] bs) = DOk (map st0 (flat_map snd segs)) false.
Proof. exact xor_history_roundtrip. Qed.

(* The code before that fix (model: xor_encode_old = xor_run_gen false) violated the statement:
   Appender() did not restore bstream.count of a chunk rebuilt by FromData, so unless the bit
   stream happened to end on a byte boundary the next sample was written after zero padding,
   which the iterator decodes as sample data.  (1000,1.5) (2000,1.5), reload, (3007,2.5) read
   back as ... (3000,1.5). *)
Theorem C10_xor_resume_from_bytes_old_refuted :
  exists segs num bs,
    Forall wf_sample (flat_map snd segs) /\ Z.of_nat (length (flat_map snd segs)) <= 65535 /\
    xor_encode_old segs = EOk num [] bs /\
    xor_decode (chunk_bytes num [] bs) =
      DOk [mkS 0 1000 4609434218613702656; mkS 0 2000 4609434218613702656; mkS 0 3000 4609434218613702656] false /\
    xor_decode (chunk_bytes num [] bs) <> DOk (map st0 (flat_map snd segs)) false.
Proof. exact xor_reload_old_refuted. Qed.

(* the same history on the fixed code *)
Example C10_xor_resume_from_bytes_fixed :
  match xor_encode refute_segs with
  | EOk num _ bs => xor_decode (chunk_bytes num [] bs) = DOk (map st0 (flat_map snd refute_segs)) false
  | _ => False
  end.
Proof. vm_compute. reflexivity. Qed.

(* One Append against one Next, from any related appender/iterator pair (the simulation step):
   the iterator consumes exactly the emitted bits, whatever follows them, and returns the
   appended timestamp and value. *)
Theorem C10_xor_step : forall num a it t v b a',
  Inv num a it -> int64 t -> is_u64 v -> xor_append num a t v = Some (b, a') ->
  exists it', (forall r, xor_next it (b ++ r) = Some (it', r)) /\ Inv (num + 1) a' it' /\
              i_t it' = t /\ i_v it' = v /\ b <> [].
Proof. exact xor_step. Qed.

(* Every int64 delta-of-delta falls in exactly one bucket (first match) and decodes to itself,
   including the asymmetric bucket bounds -(2^(n-1)-1) .. 2^(n-1). *)
Theorem C10_xor_dod_buckets : forall d r, int64 d -> xor_read_dod (xor_dod_bits d ++ r) = Some (d, r).
Proof. exact xor_dod_rt. Qed.

(* Every 64-bit value pattern (NaN payloads, stale marker, signed zeros, infinities) survives
   xorWrite/xorRead against any previous value and any related leading/trailing window. *)
Theorem C10_xor_value_bits : forall prev v al at_ il it_,
  is_u64 prev -> is_u64 v -> win_rel al at_ il it_ -> wf_window il it_ ->
  exists il' it',
    (forall r, xor_read prev il it_ (fst (fst (xor_write prev v al at_)) ++ r) = Some (v, il', it', r)) /\
    win_rel (snd (fst (xor_write prev v al at_))) (snd (xor_write prev v al at_)) il' it' /\
    wf_window il' it'.
Proof. exact xor_value_rt. Qed.

(* Capacity: a chunk takes 65535 samples (covered above); the next Append panics. *)
Theorem C10_xor_capacity : forall a t v, xor_append 65535 a t v = None.
Proof. exact xor_capacity. Qed.

(* Non-vacuity: a history with two segments (the second after a reload from bytes), negative / extreme timestamps (deltas that wrap
   int64), a stale-NaN and an all-ones value meets the hypotheses, and its encoding is what
   the theorem says. *)
Example C10_xor_nonvacuous :
  Forall wf_sample (flat_map snd example_segs) /\
  Z.of_nat (length (flat_map snd example_segs)) <= 65535 /\
  match xor_encode example_segs with
  | EOk num _ bs => num = 5 /\ (length bs = 573)%nat /\
                    xor_decode (chunk_bytes num [] bs) = DOk (map st0 (flat_map snd example_segs)) false
  | _ => False
  end.
Proof. exact example_segs_ok. Qed.

Example C10_inv_nonvacuous : Inv 0 xapp_init xit_init.
Proof. exact Inv_init. Qed.

(* ============================ XOR2 (start-timestamp capable) ============================== *)
(* [wf_sample2]: start timestamp and timestamp are int64 values, the value a 64-bit pattern;
   nothing else (any start timestamps, any order, stale NaNs anywhere). *)

(* Any sample sequence up to the capacity, appended to a fresh XOR2 chunk, is returned exactly
   - (start timestamp, timestamp, value bits) - by iterating the chunk's bytes. *)
Theorem C10_xor2_roundtrip : forall k ss,
  Forall wf_sample2 ss -> Z.of_nat (length ss) <= 65535 ->
  exists num hdr bs, xor2_encode [(k, ss)] = EOk num [hdr] bs /\
                     xor2_decode (chunk_bytes num [hdr] bs) = DOk ss false.
Proof. exact xor2_roundtrip. Qed.

(* ... also when appending is interrupted any number of times and resumed through
   XOR2Chunk.Appender(), on the same object or on a chunk rebuilt from its bytes (the segments
   carry either kind): the appender state is rebuilt by iterating the existing bytes with the
   header as it is at that moment, and the final iterator reads with the final header. *)
Theorem C10_xor2_resume : forall segs,
  Forall wf_sample2 (flat_map snd segs) -> Z.of_nat (length (flat_map snd segs)) <= 65535 ->
  exists num hdr bs, xor2_encode segs = EOk num [hdr] bs /\
                     xor2_decode (chunk_bytes num [hdr] bs) = DOk (flat_map snd segs) false.
Proof. exact xor2_history_roundtrip. Qed.

(* One Append against one Next for XOR2 (simulation step), with the iterator knowing the final
   header [hdr_of aF] while the appender is still at an intermediate state. *)
Theorem C10_xor2_step : forall aF a hdr it st t v b a' hdr',
  Inv2 aF a it -> HdrInv a hdr -> int64 st -> int64 t -> is_u64 v ->
  x2_append a hdr st t v = Some (b, a', hdr') -> Fut a' aF ->
  exists it', (forall r, x2_next it (b ++ r) = Some (it', r)) /\ Inv2 aF a' it' /\
              j_st it' = st /\ j_t it' = t /\ j_v it' = v /\ b <> [].
Proof. exact x2_step. Qed.

(* varbit integers (start-timestamp deltas): every int64 falls in one bucket and decodes to itself *)
Theorem C10_varbit_roundtrip : forall x r, int64 x -> get_varbit (put_varbit x ++ r) = Some (x, r).
Proof. exact varbit_rt. Qed.

(* the ST header byte is always firstSTKnown*128 + firstSTChangeOn with firstSTChangeOn <= 127,
   and firstSTChangeOn is set by sample 127 at the latest *)
Theorem C10_xor2_header : forall ss a hdr bs aF hdrF,
  HdrInv a hdr -> x2_append_all a hdr ss = Some (bs, aF, hdrF) ->
  HdrInv aF hdrF /\ Fut a aF /\ b_num aF = b_num a + Z.of_nat (length ss).
Proof. exact x2_append_all_hdr. Qed.

Theorem C10_xor2_capacity : forall a hdr st t v, b_num a = 65535 -> x2_append a hdr st t v = None.
Proof. exact x2_capacity. Qed.

Example C10_xor2_nonvacuous :
  Forall wf_sample2 (flat_map snd example2_segs) /\
  Z.of_nat (length (flat_map snd example2_segs)) <= 65535 /\
  match xor2_encode example2_segs with
  | EOk num [hdr] bs => num = 6 /\ hdr = 2 /\
                        xor2_decode (chunk_bytes num [hdr] bs) = DOk (flat_map snd example2_segs) false
  | _ => False
  end.
Proof. exact example2_ok. Qed.

Example C10_inv2_nonvacuous : HdrInv x2app_init 0 /\ Inv2 x2app_init x2app_init (x2it_init 0).
Proof. split; [exact HdrInv_init|]. apply (Inv2_init x2app_init). cbn. lia. Qed.

(* ============================ Next / Seek ================================================== *)
(* [spec_script] (model/Xor.v) is the abstract cursor over the appended samples: Next moves to the
   next sample; Seek t stays on the current sample if its timestamp is >= t (idempotent), else
   moves to the first sample ahead with timestamp >= t, else reports ValNone standing on the
   last sample.  The iterator over the encoded bytes follows it for every script. *)
Theorem C10_xor_seek : forall segs acts,
  Forall wf_sample (flat_map snd segs) ->
  Z.of_nat (length (flat_map snd segs)) <= 65535 ->
  exists num bs, xor_encode segs = EOk num [] bs /\
    xor_run_script (chunk_bytes num [] bs) acts = Some (spec_script None (map st0 (flat_map snd segs)) acts).
Proof. exact xor_seek_script. Qed.

Theorem C10_xor2_seek : forall segs acts,
  Forall wf_sample2 (flat_map snd segs) -> Z.of_nat (length (flat_map snd segs)) <= 65535 ->
  exists num hdr bs, xor2_encode segs = EOk num [hdr] bs /\
    xor2_run_script (chunk_bytes num [hdr] bs) acts = Some (spec_script None (flat_map snd segs) acts).
Proof. exact xor2_seek_script. Qed.

(* what a successful / failing forward Seek of the cursor means: it lands on the FIRST sample ahead
   whose timestamp is >= t (everything skipped is < t); it fails only if every sample ahead is < t *)
Theorem C10_seek_first_at_or_after : forall t rest cur c' rest',
  (seek_rest t cur rest = (c', rest', true) ->
     exists pre x, c' = Some x /\ rest = pre ++ x :: rest' /\ Forall (fun y => s_t y < t) pre /\ t <= s_t x) /\
  (seek_rest t cur rest = (c', rest', false) -> rest' = [] /\ Forall (fun y => s_t y < t) rest).
Proof. intros. split; [apply seek_rest_found|apply seek_rest_none]. Qed.

Example C10_seek_nonvacuous :
  spec_script None [mkS 0 10 1; mkS 0 20 2; mkS 0 30 3] [ASeek 15; ASeek 5; ANext; ASeek 31; ASeek 30]
  = [Some (mkS 0 20 2); Some (mkS 0 20 2); Some (mkS 0 30 3); None; Some (mkS 0 30 3)].
Proof. reflexivity. Qed.

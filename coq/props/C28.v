(* props/C28.v — C28: selectors implement lookback, staleness and range windows.

   Statement (properties.jsonl): an instant selector evaluated at t returns, per series, its latest
   sample in (t - lookback, t] unless that sample is a staleness marker (then the series is
   absent); a range selector [r] at t returns exactly the non-stale samples in (t - r, t]; offset
   and @ move these windows to the shifted / fixed time; a subquery evaluates its inner expression
   at the multiples of its step inside its window.

   [engine_eval] (model/PromqlSelect.v) mirrors the engine's algorithms (memoized / buffered
   iterators, vectorSelectorSingle, matrixIterSlice, setOffsetForAtModifier, subqueryTimeRange,
   runSubquery, evalSubquery, getTimeRangesForSelector); [spec_eval] is the statement, written with
   [filter] over the series.  All theorems hold for every strictly sorted series with arbitrary
   integer timestamps above math.MinInt64 (so every edge coincidence is covered), every offset
   (negative included), every @ time, every range / step / lookback > 0.

   Two defects found by this pipeline were fixed in /repo (f396586f2e: timestamp(m offset o @ a)
   dropped the offset; 39ad807544: inner @ selectors of a subquery were not re-based when its first
   aligned step equals the query time).  The model follows the fixed code; [engine_eval_old] keeps
   the former behaviour and the [_old_refuted] theorems show that it violated the statement. *)
From Coq Require Import List ZArith Bool Lia.
From Verif Require Import lib.Int64 model.PromqlSelect proof.PromqlSelectProofs.
Import ListNotations.
Open Scope Z_scope.

Definition above_min (series : list sample) : Prop := Forall (fun s => minInt64 < s_t s) series.

(* --- instant selector: vectorSelectorSingle on a fresh MemoizedSeriesIterator (delta = lookback
   in evalSeries, lookback - 1 under timestamp()) returns the latest sample in
   (t - lookback, t], t = ts - offset, unless it is stale *)
Theorem C28_instant : forall lookback delta series offset ts,
  sortedb series = true -> above_min series ->
  0 < lookback -> lookback - 1 <= delta -> minInt64 < ts - offset - delta ->
  snd (vector_selector_single lookback (memo_new delta series) offset ts) =
  spec_instant lookback series (ts - offset).
Proof.
  intros. apply vss_fresh; auto. now apply sortedb_ssorted.
Qed.

(* ... and the same iterator re-used over ascending evaluation times (the steps of a subquery)
   returns at every step what a fresh lookup would *)
Theorem C28_instant_memo : forall lookback delta series isTs offset ts,
  sortedb series = true -> above_min series ->
  0 < lookback -> lookback - 1 <= delta -> ascending ts ->
  match ts with t :: _ => minInt64 < t - offset - delta | [] => True end ->
  eval_steps lookback isTs (memo_new delta series) offset ts =
  flat_map (fun t => match spec_instant lookback series (t - offset) with
                     | Some s => [out_point isTs t s] | None => [] end) ts.
Proof.
  intros. apply eval_steps_fresh; auto. now apply sortedb_ssorted.
Qed.

(* what "latest in the window unless stale" means, without [filter]/[last_opt] *)
Theorem C28_instant_meaning : forall lookback series te s,
  sortedb series = true -> 0 < lookback ->
  (spec_instant lookback series te = Some s <->
   In s series /\ te - lookback < s_t s <= te /\ s_stale s = false /\
   forall s', In s' series -> s_t s' <= te -> s_t s' <= s_t s).
Proof. exact spec_instant_meaning. Qed.

(* --- range selector: matrixIterSlice over a fresh BufferedSeriesIterator with delta = range
   yields exactly the non-stale samples in (maxt - r, maxt] *)
Theorem C28_range : forall r series maxt,
  sortedb series = true -> 0 <= r -> minInt64 < maxt - r ->
  matrix_iter_slice (buf_new r series) (maxt - r) maxt = spec_window r series maxt.
Proof.
  intros. apply mis_fresh; auto. now apply sortedb_ssorted.
Qed.

(* --- subquery: the evaluation times of the child evaluator (Go's truncating division, any sign)
   are exactly the multiples of the step inside (te - range, te], te = T - offset, ascending *)
Theorem C28_subquery_times : forall T suboff range interval,
  0 < interval ->
  let ts := steps (sub_start T suboff range interval) (T - suboff) interval in
  zsorted ts /\
  forall u, In u ts <-> (T - suboff - range < u <= T - suboff /\ u mod interval = 0).
Proof.
  intros T suboff range interval Hi ts. unfold ts. rewrite steps_eq_spec by assumption. split.
  - now apply spec_sub_times_sorted.
  - intros u. now apply spec_sub_times_in.
Qed.

(* --- offset and @ (the six query forms whose evaluation is modelled; for the nested forms QSub2 /
   QSub2Fn only the statement and the select hints are, see C28_hints_cover): the whole evaluator — offsets set by
   setOffsetForAtModifier, windows of matrixSelector / the Call path, subquery grid and re-basing
   of inner @ selectors in runSubquery — computes the statement at the shifted / fixed time
   [eff T off at] (negative offsets are just negative [off]) *)
Theorem C28_offset_at : forall c q series,
  sortedb series = true -> above_min series ->
  wf_query c q = true -> modelled q = true -> min_guard c q ->
  engine_eval c q series = spec_eval c q series.
Proof. exact engine_eq_spec. Qed.

(* the shift made explicit: a range selector with offset / @ evaluated at T returns what the plain
   selector returns at the shifted / fixed time (matrix points carry the samples' own times) *)
Theorem C28_range_shift : forall T lb d r off a series,
  sortedb series = true -> above_min series -> 0 < lb -> 0 < d -> 0 < r ->
  minInt64 + r < eff T off a ->
  engine_eval (mkCfg T lb d) (QRange r off a) series =
  engine_eval (mkCfg (eff T off a) lb d) (QRange r 0 None) series.
Proof.
  intros T lb d r off a series Hs Hm Hlb Hd Hr Hg.
  assert (Hwf : forall T' o' a', wf_query (mkCfg T' lb d) (QRange r o' a') = true).
  { intros. unfold wf_query. cbn [c_lookback c_defstep].
    rewrite !(proj2 (Z.ltb_lt _ _)) by assumption. reflexivity. }
  rewrite !C28_offset_at; auto.
  - unfold spec_eval. cbn [c_ts]. unfold eff at 2. now rewrite Z.sub_0_r.
  - cbn [min_guard c_ts]. unfold eff at 1. lia.
Qed.

(* --- the select hints of getTimeRangesForSelector cover every sample the statement needs; this
   includes the two-level nested subquery forms (subqueryTimes over the path: offsets and ranges of
   enclosing subqueries add up, an @ on a subquery discards what was accumulated) ... *)
Theorem C28_hints_cover : forall c q series,
  wf_query c q = true ->
  spec_eval c q (restrict (hints c q) series) = spec_eval c q series.
Proof. exact hints_cover. Qed.

(* ... so the engine fed by a storage returning exactly the hinted range computes the statement
   over the full series *)
Theorem C28_engine_on_storage : forall c q series,
  sortedb series = true -> above_min series ->
  wf_query c q = true -> modelled q = true -> min_guard c q ->
  engine_on_storage c q series = spec_eval c q series.
Proof. exact engine_on_storage_spec. Qed.

(* --- the two former departures of the engine from the statement (fixed in /repo) *)

Definition ex_series : list sample :=
  [mkS 0 KF false 1; mkS 10 KF false 2; mkS 20 KF false 3; mkS 30 KF false 4;
   mkS 40 KF true 5; mkS 50 KF false 6; mkS 60 KH false 7; mkS 70 KH true 8; mkS 80 KF false 9].

(* timestamp(m offset 10ms @ 0.035), lookback 10ms: the statement selects the sample at 20
   (evaluation at 35 - 10); the old engine evaluated at 35 and returned 30 (nothing on the hinted
   range [16,25]) *)
Theorem C28_timestamp_at_offset_old_refuted :
  exists c q series,
    sortedb series = true /\ above_min series /\ wf_query c q = true /\ min_guard c q /\
    engine_eval_old c q series <> spec_eval c q series /\
    engine_eval_old c q (restrict (hints c q) series) <> spec_eval c q series /\
    engine_eval c q series = spec_eval c q series.
Proof.
  exists (mkCfg 1000 10 7), (QInner (ITs 10 (Some 35))), ex_series.
  repeat split; try reflexivity; try (vm_compute; discriminate).
  - unfold above_min, ex_series. repeat constructor.
Qed.

(* (m @ 0.030)[5ms:10ms] offset -2ms at t = 1000ms: the only step is 1000 = the query time, the
   statement selects the sample at 30; the old engine looked m up at 30 + (-2) = 28 and returned
   the sample at 20 (nothing when the storage honours the hints [21,30]) *)
Theorem C28_subquery_start_old_refuted :
  exists c q series,
    sortedb series = true /\ above_min series /\ wf_query c q = true /\ min_guard c q /\
    engine_eval_old c q series <> spec_eval c q series /\
    engine_eval_old c q (restrict (hints c q) series) <> spec_eval c q series /\
    engine_eval c q series = spec_eval c q series.
Proof.
  exists (mkCfg 1000 10 7), (QSub (IVSel 0 (Some 30)) 5 10 (-2) None), ex_series.
  repeat split; try reflexivity; try (vm_compute; discriminate).
  - unfold above_min, ex_series. repeat constructor.
Qed.

(* --- non-vacuity: concrete non-trivial instances meeting every hypothesis *)

Example C28_ex_hyps :
  sortedb ex_series = true /\ above_min ex_series /\
  (* (m @ 0.025)[30ms:10ms] at 61: three steps, each the sample at 20 *)
  let c := mkCfg 61 10 7 in let q := QSub (IVSel 0 (Some 25)) 30 10 0 None in
  wf_query c q = true /\ min_guard c q /\
  engine_eval c q ex_series = RMat [mkP 40 KF 3; mkP 50 KF 3; mkP 60 KF 3].
Proof.
  repeat split; try reflexivity; try (vm_compute; discriminate).
  unfold above_min, ex_series. repeat constructor.
Qed.

Example C28_ex_instant :
  (* stale marker at 40 hides the series at 45; at 40 + lookback the window is left-open *)
  spec_instant 10 ex_series 45 = None /\ spec_instant 10 ex_series 39 = Some (mkS 30 KF false 4) /\
  spec_instant 10 ex_series 40 = None /\
  snd (vector_selector_single 10 (memo_new 10 ex_series) (-15) 10) = Some (mkS 20 KF false 3).
Proof. repeat split; reflexivity. Qed.

Example C28_ex_range :
  (* window (35, 80]: stale markers at 40 and 70 skipped, float and histogram samples kept *)
  matrix_iter_slice (buf_new 45 ex_series) 35 80 =
  [mkS 50 KF false 6; mkS 60 KH false 7; mkS 80 KF false 9] /\
  (* left edge excluded, right edge included *)
  matrix_iter_slice (buf_new 20 ex_series) 30 50 = [mkS 50 KF false 6].
Proof. split; reflexivity. Qed.

Example C28_ex_times :
  (* negative times: Go's truncating division is corrected by the `start <= x` step *)
  steps (sub_start (-5) 0 25 10) (-5) 10 = [-20; -10] /\
  steps (sub_start 65 5 30 10) 60 10 = [40; 50; 60].
Proof. split; reflexivity. Qed.

Example C28_ex_offset_at :
  let c := mkCfg 70 10 7 in
  engine_eval c (QRangeFn FCount 45 (-10) None) ex_series = RVec (Some (mkP 70 KF 3)) /\
  engine_on_storage (mkCfg 1000 10 7) (QInner (IVSel 5 (Some 30))) ex_series = RVec (Some (mkP 1000 KF 3)).
Proof. split; reflexivity. Qed.

Example C28_ex_nested_hints :
  (* last_over_time((last_over_time(m[20ms:10ms] @ 0.050))[20ms:10ms] offset 30ms) at 1000: the
     inner @ pins its window, the outer offset must not shift the hints: [21,50], not [-9,20] *)
  let c := mkCfg 1000 10 7 in
  let q := QSub2Fn FLast FLast (IVSel 0 None) 20 10 0 (Some 50) 20 10 30 None in
  hints c q = (21, 50) /\ wf_query c q = true /\
  spec_eval c q ex_series = RVec (Some (mkP 1000 KF 6)) /\
  spec_eval c q (restrict (hints c q) ex_series) = RVec (Some (mkP 1000 KF 6)) /\
  spec_eval c q (restrict (-9, 20) ex_series) <> spec_eval c q ex_series.
Proof. repeat split; try reflexivity. vm_compute. discriminate. Qed.

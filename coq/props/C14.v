(* props/C14.v — property theorems for C14 (WAL record encoding round-trips).
   Nothing but statements; proofs are in proof/RecordProofs.v (and lib/Bytes.v, lib/Varint.v).
   The hypotheses [*_ok] are the ranges of the Go types only (uint64 refs / counts / float bit
   patterns, int64 timestamps and bucket deltas, int32 schema and span offsets, uint32 span
   lengths, slice/string lengths below 2^63) — no bound on batch sizes, deltas or payloads —
   plus, for histograms, that the schema is not in 9..52 (those are sent through
   ReduceResolution by the decoder, which is not modelled).
   Every decoder result below is [Ok _]: in particular never EFuel (the loop fuel suffices),
   never EPanic.  Floats are bit patterns, so equality is bitwise. *)
From Coq Require Import List NArith ZArith.
From Verif Require Import lib.Int64 lib.Bytes lib.Varint model.Record proof.RecordProofs.
Import ListNotations.
Open Scope N_scope.

(* series records: refs, label names/values and their order come back exactly *)
Theorem C14_series_roundtrip : forall l, Forall series_ok l -> dec_series (enc_series l) = Ok l.
Proof. exact series_roundtrip. Qed.

(* float samples, V1 record (no start timestamps on the wire: ST decodes as 0) *)
Theorem C14_samples_v1_roundtrip : forall l, Forall sample_ok l ->
  dec_samples (enc_samples false l) = Ok (map drop_st l).
Proof. exact samples_v1_roundtrip. Qed.

(* float samples, V2 record with noST/sameST/explicitST markers: everything comes back *)
Theorem C14_samples_v2_roundtrip : forall l, Forall sample_ok l ->
  dec_samples (enc_samples true l) = Ok l.
Proof. exact samples_v2_roundtrip. Qed.

(* tombstones: one decoded stone per (ref, interval), in order; a stone without intervals vanishes *)
Theorem C14_tombstones_roundtrip : forall l, Forall stone_ok l ->
  dec_tombstones (enc_tombstones l) = Ok (canon_stones l).
Proof. exact tombstones_roundtrip. Qed.

Theorem C14_exemplars_roundtrip : forall l, Forall exemplar_ok l ->
  dec_exemplars (enc_exemplars l) = Ok l.
Proof. exact exemplars_roundtrip. Qed.

Theorem C14_metadata_roundtrip : forall l, Forall metadata_ok l ->
  dec_metadata (enc_metadata l) = Ok l.
Proof. exact metadata_roundtrip. Qed.

Theorem C14_mmap_markers_roundtrip : forall l, Forall mmap_ok l -> dec_mmap (enc_mmap l) = Ok l.
Proof. exact mmap_roundtrip. Qed.

(* Encoder{}.HistogramSamples (V1): the batch is split, in order, into the custom-bucket samples
   (returned to the caller, untouched) and the others (in the record) — nothing lost, nothing
   duplicated; the record decodes to the others; it is EMPTY when there are no others.
   canon_rs: ST is not on the V1 wire (0), samples with an unknown schema are dropped by the
   decoder, CustomValues survive only with the custom schema (see C14_canon_identity). *)
Theorem C14_histograms_v1_split : forall l, Forall rhist_ok l ->
  let r := enc_histogram_samples false l in
  let expo := filter (fun x => negb (hcustom x)) l in
  snd r = filter hcustom l /\
  (l = [] \/ expo <> [] -> dec_histogram_samples (fst r) = Ok (canon_rs canon_hist h_schema false expo)) /\
  (l <> [] -> expo = [] -> fst r = []).
Proof. exact histograms_v1_split. Qed.

Theorem C14_histograms_custom_v1_roundtrip : forall l, Forall rhist_ok l ->
  dec_histogram_samples (enc_cb_histogram_samples false l) = Ok (canon_rs canon_hist h_schema false l).
Proof. exact histograms_cb_v1_roundtrip. Qed.

(* V2: one record type for exponential and custom-bucket histograms, no leftovers, ST preserved *)
Theorem C14_histograms_v2_roundtrip : forall l, Forall rhist_ok l ->
  enc_histogram_samples true l = (enc_cb_histogram_samples true l, []) /\
  dec_histogram_samples (enc_cb_histogram_samples true l) = Ok (canon_rs canon_hist h_schema true l).
Proof. exact histograms_v2_roundtrip. Qed.

Theorem C14_float_histograms_v1_split : forall l, Forall rfhist_ok l ->
  let r := enc_float_histogram_samples false l in
  let expo := filter (fun x => negb (fcustom x)) l in
  snd r = filter fcustom l /\
  (l = [] \/ expo <> [] -> dec_float_histogram_samples (fst r) = Ok (canon_rs canon_fhist fh_schema false expo)) /\
  (l <> [] -> expo = [] -> fst r = []).
Proof. exact float_histograms_v1_split. Qed.

Theorem C14_float_histograms_custom_v1_roundtrip : forall l, Forall rfhist_ok l ->
  dec_float_histogram_samples (enc_cb_float_histogram_samples false l) = Ok (canon_rs canon_fhist fh_schema false l).
Proof. exact float_histograms_cb_v1_roundtrip. Qed.

Theorem C14_float_histograms_v2_roundtrip : forall l, Forall rfhist_ok l ->
  enc_float_histogram_samples true l = (enc_cb_float_histogram_samples true l, []) /\
  dec_float_histogram_samples (enc_cb_float_histogram_samples true l) = Ok (canon_rs canon_fhist fh_schema true l).
Proof. exact float_histograms_v2_roundtrip. Qed.

(* on valid histograms (known schema; custom values only with the custom schema) the V2 canon
   is the identity: decode (encode l) = l *)
Theorem C14_canon_identity :
  (forall l, Forall hist_valid l -> canon_rs canon_hist h_schema true l = l) /\
  (forall l, Forall fhist_valid l -> canon_rs canon_fhist fh_schema true l = l).
Proof. exact (conj canon_rs_hist_id canon_rs_fhist_id). Qed.

(* the primitive codecs of tsdb/encoding the records are built from *)
Theorem C14_varint_roundtrip :
  (forall x rest, u64_ok x -> d_uvarint64 (put_uvarint x ++ rest) = Ok (x, rest)) /\
  (forall x rest, int64 x -> d_varint64 (put_varint x ++ rest) = Ok (x, rest)) /\
  (forall x rest, u64_ok x -> d_be64 (put_be64 x ++ rest) = Ok (x, rest)).
Proof. exact (conj d_uvarint64_put (conj d_varint64_put d_be64_put)). Qed.

(* non-vacuity: extreme refs / timestamps / NaN payloads and all three ST markers satisfy the
   hypotheses, and the round trip computes *)
Example C14_nonvacuous_samples :
  Forall sample_ok ex_samples /\ dec_samples (enc_samples true ex_samples) = Ok ex_samples /\
  dec_samples (enc_samples false ex_samples) = Ok (map drop_st ex_samples).
Proof. split; [exact ex_samples_ok | split; vm_compute; reflexivity]. Qed.

(* a mixed batch: exponential, custom-bucket and unknown-schema histogram *)
Example C14_nonvacuous_hists :
  Forall rhist_ok ex_hists /\
  snd (enc_histogram_samples false ex_hists) = [nth 1 ex_hists (mkRS 0 0%Z 0%Z (mkHist 0 0 0 0 0 0 [] [] [] [] []))] /\
  length (filter (fun x => negb (hcustom x)) ex_hists) = 2%nat /\
  (exists x, dec_histogram_samples (fst (enc_histogram_samples false ex_hists)) = Ok [x]).
Proof.
  split; [exact ex_hists_ok|]. split; [reflexivity|]. split; [reflexivity|].
  eexists. vm_compute. reflexivity.
Qed.

(* props/C14.v — property theorems for C14 (WAL record encoding round-trips).
   Nothing but statements; proofs are in proof/RecordProofs.v (and lib/Bytes.v, lib/Varint.v).
   The hypotheses [*_ok] are the ranges of the Go types only (uint64 refs and float bit
   patterns, int64 timestamps, slice/string lengths below 2^63) — no bound on batch sizes,
   deltas or payloads. *)
From Coq Require Import List NArith ZArith.
From Verif Require Import lib.Int64 lib.Bytes lib.Varint model.Record proof.RecordProofs.
Import ListNotations.
Open Scope N_scope.

(* series records: refs, label names/values and their order come back exactly *)
Theorem C14_series_roundtrip : forall l, Forall series_ok l -> dec_series (enc_series l) = Ok l.
Proof. exact series_roundtrip. Qed.

(* float samples, V1 (no start timestamps on the wire: ST decodes as 0) *)
Theorem C14_samples_v1_roundtrip : forall l, Forall sample_ok l ->
  dec_samples (enc_samples false l) = Ok (map drop_st l).
Proof. exact samples_v1_roundtrip. Qed.

(* props/C35.v — property theorems for C35 (exposition formats are parsed faithfully and
   consistently).  Statements only; proofs are in proof/ExpoProofs.v.

   FULL STATEMENT (property text): for every set of metric families, each of the three encodings
   parses back to exactly the encoded samples, labels, timestamps, exemplars and metadata, the
   formats agree on what each can express, and arbitrary bytes yield entries or an error.

   What is proved here, for all family lists and all oracles (strconv, float conversions)
   satisfying [oracle_ok]:
     C35_text_roundtrip          text format: parse (print fams) = the encoded entries
                                 (families within [wf_family]: see the _refuted lemmas for why
                                 each restriction is there)
     C35_om_series_agree_text    the OpenMetrics SPEC stream has the same series as the text one
     C35_proto_model_meets_spec_partial  protobuf state machine = per-metric SPEC when no family
                                 mixes classic and native histograms
   and refuted on the faithful model (each replayed on the real parsers by the harness corpus):
     C35_text_negative_timestamp_refuted, C35_text_blank_help_refuted,
     C35_quoted_name_metadata_refuted, C35_om_exemplar_escape_refuted, C35_om_unit_leak_refuted,
     C35_proto_native_after_classic_refuted, C35_proto_nil_histogram_refuted. *)
From Coq Require Import List NArith ZArith Bool.
From Verif Require Import model.Expo proof.ExpoProofs.
Import ListNotations.
Open Scope N_scope.

(* Text exposition format: printing any well-formed family list with the reference encoder's
   grammar and parsing it with the promlex/promparse model yields exactly the encoded entry
   stream and ends with EOF; with or without type-and-unit labels. *)
Theorem C35_text_roundtrip : forall (O : oracles) (tu : bool), oracle_ok O ->
  forall fams : list family, Forall wf_family fams ->
  parse_text O tu (print_text O fams) = (entries_text O tu fams, true).
Proof. exact text_roundtrip. Qed.

(* the oracle assumptions are satisfiable, and a family with quoted UTF-8 names, escapes,
   le-normalisation and a timestamp is inside the theorem's domain *)
Example C35_oracle_ok_nonvacuous : exists O, oracle_ok O.
Proof. exact oracle_ok_satisfiable. Qed.

Example C35_wf_family_nonvacuous : Forall wf_family example_fams /\ length (entries_text toy_oracle true example_fams) = 9%nat.
Proof. exact example_fams_wf. Qed.

(* Formats agree (text vs OpenMetrics SPEC streams): without type-and-unit labels, created lines
   and exemplars, every family yields the same series entries in both formats; the metadata
   entries differ only by the documented naming rules (om_cname / om_tcode / UNIT). *)
Theorem C35_om_series_agree_text : forall (O : oracles) (o : opts) (f : family),
  o_typeunit o = false -> o_created o = false -> no_om_exemplars f ->
  flat_map (om_metric O o f) (f_metrics f) = flat_map (text_metric O false (f_name f) (f_type f)) (f_metrics f).
Proof. exact om_series_agree_text. Qed.

(* Protobuf: the parser's state machine yields the per-metric SPEC stream for every family list
   in which no histogram family contains a native histogram (partial: families that mix classic
   and native histograms are exactly where it does not, see the two _refuted lemmas below). *)
Theorem C35_proto_model_meets_spec_partial : forall (O : oracles) (o : opts) (fams : list family),
  Forall (fun f => Forall (fun m => native_on o m = false) (f_metrics f)) fams ->
  model_proto O o fams = entries_proto O o fams.
Proof. exact proto_model_meets_spec. Qed.

(* ---- the faithful model violates the full statement here (findings; each is replayed on the
   real code by the harness corpus and tagged with a stable shape key) *)
Theorem C35_text_negative_timestamp_refuted : exists O fams tu,
  parse_text O tu (print_text O fams) <> (entries_text O tu fams, true).
Proof. exact text_negative_timestamp_refuted. Qed.

Theorem C35_text_blank_help_refuted : exists O fams tu,
  parse_text O tu (print_text O fams) <> (entries_text O tu fams, true).
Proof. exact text_blank_help_refuted. Qed.

Theorem C35_quoted_name_metadata_refuted : exists O fams tu,
  parse_text O tu (print_text O fams) <> (entries_text O tu fams, true).
Proof. exact quoted_name_metadata_refuted. Qed.

Theorem C35_om_exemplar_escape_refuted : exists O o fams,
  parse_om O o (print_om O o fams) <> (entries_om O o fams, true).
Proof. exact om_exemplar_escape_refuted. Qed.

Theorem C35_om_unit_leak_refuted : exists O o fams,
  parse_om O o (print_om O o fams) <> (entries_om O o fams, true).
Proof. exact om_unit_leak_refuted. Qed.

Theorem C35_proto_native_after_classic_refuted : exists O o fams,
  model_proto O o fams <> entries_proto O o fams.
Proof. exact proto_native_after_classic_refuted. Qed.

Theorem C35_proto_nil_histogram_refuted : exists O o fams,
  In (nil_hist) (flat_map (fun e => match e with OX _ h _ _ _ => [h] | _ => [] end) (model_proto O o fams)).
Proof. exact proto_nil_histogram_refuted. Qed.

(* props/C08.v — property theorems for C08 (compaction planning converges and never mixes
   block classes).  Statements only; proofs are in proof/PlanProofs.v.  The specification
   predicates (wf_input, plan_shape, hints_ok, mu) are defined in model/Plan.v and are the same
   ones corr/CorrC08.v evaluates on the implementation's output.

   wf_input c ms: at least one range, ranges in (0, 2^61], block times in [-2^61, 2^61] (so no
   planning arithmetic wraps), MinTime <= MaxTime, distinct block ids.  Nothing bounds the
   number of blocks or of ranges. *)
From Coq Require Import List ZArith Bool Lia.
From Verif Require Import lib.Int64 model.Plan proof.PlanProofs.
Import ListNotations.
Open Scope Z_scope.

(* plan never panics on well-formed input ... *)
Theorem C08_plan_total : forall c ms, wf_input c ms = true -> exists p, plan c ms = Ok p.
Proof. exact plan_no_panic. Qed.

(* ... and what it returns names blocks ps of the input with [plan_shape]: empty, or distinct
   blocks of ONE class that are either an overlap group (sorted, each block starting before the
   end of the union of the previous ones; only if overlapping compaction is enabled), or a
   range group (>= 2 blocks, none failed, all inside one aligned window of one of the ranges
   after the first, pairwise disjoint when overlapping compaction is enabled, not containing
   the newest block of the class), or one block whose tombstones warrant a rewrite (also not
   the newest). *)
Theorem C08_plan_shape : forall c ms p, wf_input c ms = true -> plan c ms = Ok p ->
  exists ps, p = ids ps /\ plan_shape c ms ps = true.
Proof. exact plan_shape_thm. Qed.

(* a plan never mixes head-view classes (stale-series / selected-series / regular) *)
Theorem C08_no_class_mix : forall c ms ps, wf_input c ms = true -> plan_metas c ms = Ok ps ->
  forall x y, In x ps -> In y ps -> class_of x = class_of y.
Proof.
  intros c ms ps Hwf Hp. apply (plan_shape_same_class c ms ps).
  apply plan_metas_shape; [apply wf_input_spec; exact Hwf | exact Hp].
Qed.

(* CompactBlockMetas, for ANY non-empty input list: the out-of-order hint is set iff every input
   carries it, a partial-view hint iff some input carries it; if all inputs are of one class
   the merged block is of that class (hints_ok) *)
Theorem C08_hints : forall uid bs r, compact_block_metas uid bs = Ok r ->
  hints_ok bs r = true /\
  m_ooo r = forallb m_ooo bs /\ m_stale r = existsb m_stale bs /\ m_sel r = existsb m_sel bs.
Proof. intros uid bs r H. split; [exact (cbm_hints uid bs r H) | exact (cbm_hint_values uid bs r H)]. Qed.

(* merging what plan returned keeps the class of every planned block, and the merged block is
   out-of-order iff all planned blocks are *)
Theorem C08_plan_merge_keeps_class : forall c ms ps uid r, wf_input c ms = true ->
  plan_metas c ms = Ok ps -> compact_block_metas uid ps = Ok r ->
  (forall x, In x ps -> class_of r = class_of x) /\
  (m_ooo r = true <-> forall x, In x ps -> m_ooo x = true).
Proof. exact plan_merge_class. Qed.

(* One iteration of the plan/compact loop ([step]: plan non-empty, planned blocks replaced by the
   merged block with ANY fresh id, ANY NumSeries, no tombstones, or by nothing when the merged
   block came out empty) keeps the input well formed and strictly decreases
   mu = #blocks + #blocks with tombstones ... *)
Theorem C08_step_decreases : forall c uid written series ms ms',
  wf_input c ms = true -> ~ In uid (ids ms) -> 0 <= series < two64' ->
  compact_step c uid written series ms = Ok (Some ms') ->
  wf_input c ms' = true /\ 0 <= mu ms' < mu ms.
Proof.
  intros c uid written series ms ms' Hwf Hf Hs Hst. apply wf_input_spec in Hwf.
  destruct (compact_step_decreases c uid written series ms ms' Hwf Hf Hs Hst) as [H1 H2].
  split; [apply wf_input_spec; exact H1 | split; [apply mu_nonneg | exact H2]].
Qed.

(* ... so repeated planning and compacting stops: there is no infinite sequence of steps from a
   well-formed block set (for all choices the rewrites make), every run has at most mu ms
   steps, and a run can only stop at an empty plan *)
Theorem C08_converges : forall c ms, wf_input c ms = true -> Acc (fun a b => step c b a) ms.
Proof. intros c ms H. apply step_terminates. apply wf_input_spec. exact H. Qed.

Theorem C08_run_bound : forall c ms n ms', wf_input c ms = true -> run c ms n ms' ->
  Z.of_nat n <= mu ms /\ wf_input c ms' = true.
Proof.
  intros c ms n ms' Hwf Hr. apply wf_input_spec in Hwf.
  destruct (run_bound c ms n ms' Hwf Hr) as [H1 H2]. pose proof (mu_nonneg ms').
  split; [lia | apply wf_input_spec; exact H2].
Qed.

Theorem C08_stops_only_at_empty_plan : forall c ms uid written series, wf_input c ms = true ->
  (exists ms', compact_step c uid written series ms = Ok (Some ms')) \/
  (compact_step c uid written series ms = Ok None /\ plan c ms = Ok []).
Proof. intros c ms uid w s H. apply step_possible. apply wf_input_spec. exact H. Qed.

(* the executable loop of the model (the one whose step count is compared with the harness'
   loop over the real plan / CompactBlockMetas) ends at an empty plan within mu ms compactions
   whenever its fuel exceeds mu ms *)
Theorem C08_loop_terminates : forall fuel c next ms, wf_input c ms = true ->
  (forall i, In i (ids ms) -> i < next) -> mu ms < Z.of_nat fuel ->
  exists n, compact_loop fuel c next ms = Ok (Some n) /\ 0 <= n <= mu ms.
Proof. intros fuel c next ms H. apply compact_loop_terminates. apply wf_input_spec. exact H. Qed.

(* plan_shape spelled out as a proposition *)
Theorem C08_plan_shape_reading : forall c ms ps, plan_shape c ms ps = true ->
  ps = [] \/
  exists k, (forall x, In x ps -> class_of x = k /\ In (m_id x) (ids ms)) /\ NoDup (ids ps) /\
    ((c_overlap c = true /\ overlap_groupP ps) \/ range_groupP c (of_class k ms) ps \/
     tomb_singleP c (of_class k ms) ps).
Proof. exact plan_shape_reading. Qed.

(* ---- observation (not part of the statement proved above): with overlapping compaction
   DISABLED a range group may contain overlapping blocks; the disjointness clause of
   plan_shape is therefore conditional on the flag.  Replayed on the real code (corpus case
   "disabled overlap"). *)
Definition B (i a b : Z) : meta := mkMeta i a b false 0 10 false false false 1 [].

Theorem C08_disabled_overlap_group_may_overlap_refuted :
  exists c ms ps, wf_input c ms = true /\ c_overlap c = false /\ plan_metas c ms = Ok ps /\
                  disjoint_ordered ps = false.
Proof.
  exists (mkCfg [20; 60; 180] false), [B 0 0 10; B 1 5 15; B 2 20 30; B 3 60 70; B 4 100 110], [B 0 0 10; B 1 5 15; B 2 20 30].
  vm_compute. repeat split; reflexivity.
Qed.

(* ---- non-vacuity: each shape occurs on well-formed input, and a loop run that really compacts *)
Example C08_nonvacuous_range :
  let c := mkCfg [20; 60; 180] true in
  let ms := [B 0 (-60) (-40); B 1 (-40) (-20); B 2 (-20) 0; B 3 0 20] in
  wf_input c ms = true /\ plan c ms = Ok [0; 1; 2].
Proof. vm_compute. split; reflexivity. Qed.

Example C08_nonvacuous_overlap :
  let c := mkCfg [20; 60; 180] true in
  let ms := [B 0 0 20; B 1 19 40; B 2 40 60] in
  wf_input c ms = true /\ plan c ms = Ok [0; 1].
Proof. vm_compute. split; reflexivity. Qed.

Example C08_nonvacuous_tomb_and_classes :
  let c := mkCfg [20; 60; 180] true in
  let ms := [mkMeta 0 0 60 false 5 20 true false true 2 []; mkMeta 1 100 120 false 0 20 true false false 1 [];
             B 2 0 20; B 3 1000 1020] in
  wf_input c ms = true /\ plan c ms = Ok [0] /\ mu ms = 5.
Proof. vm_compute. repeat split; reflexivity. Qed.

Example C08_nonvacuous_loop :
  let c := mkCfg [20; 60; 180] true in
  let ms := [B 0 0 20; B 1 20 40; B 2 40 60; B 3 60 80; B 4 80 100; B 5 100 120; B 6 120 140;
             B 7 140 160; B 8 160 180; B 9 180 200] in
  wf_input c ms = true /\ compact_loop 64 c 10 ms = Ok (Some 4).
Proof. vm_compute. split; reflexivity. Qed.

(* props/C51.v — property theorems for C51 (the query API's JSON encodes values losslessly).
   Nothing but statements; proofs are in proof/ApiJsonProofs.v. *)
From Coq Require Import List ZArith NArith Bool String Lia.
From Verif Require Import lib.Int64 model.ApiJson proof.ApiJsonProofs proof.ApiJsonHistProofs.
Import ListNotations.
Open Scope Z_scope.

(* Timestamps (vectors, matrices, histogram points, exemplars: jsonutil.MarshalTimestamp).
   For EVERY int64 timestamp except MinInt64 — in particular for every timestamp of the API's time
   range — the bytes written are a JSON number (no exponent, no leading zeros) whose exact decimal
   value m/10^k equals t/1000: millisecond precision with no rounding at all. *)
Theorem C51_timestamp : forall t, minInt64 < t <= maxInt64 ->
  exists m k, parse_number (marshal_timestamp t) = Some (m, k) /\ m * 1000 = t * 10 ^ k /\ (k = 0 \/ k = 3).
Proof. exact timestamp_roundtrip. Qed.

Theorem C51_timestamp_api_range : forall t, in_api_range t = true ->
  exists m k, parse_number (marshal_timestamp t) = Some (m, k) /\ m * 1000 = t * 10 ^ k.
Proof.
  intros t H. destruct (timestamp_roundtrip t (api_range_in_domain t H)) as (m & k & H1 & H2 & _).
  exists m, k. auto.
Qed.

Example C51_timestamp_nonvacuous :
  marshal_timestamp 1435781451781 = s2b "1435781451.781" /\
  marshal_timestamp (-5) = s2b "-0.005" /\
  parse_number (s2b "-0.005") = Some (-5, 3) /\
  in_api_range 1435781451781 = true /\ minInt64 < -5 <= maxInt64.
Proof. repeat split; vm_compute; reflexivity || discriminate. Qed.

(* The one int64 the code does not handle: t = -t wraps for MinInt64 and the output is not a number.
   MinInt64 lies outside the API's time range, so this does not contradict the property. *)
Theorem C51_timestamp_minint64_refuted :
  marshal_timestamp minInt64 = s2b "--9223372036854775.00-808" /\
  parse_number (marshal_timestamp minInt64) = None /\ in_api_range minInt64 = false.
Proof. destruct timestamp_minint64_garbage. repeat split; auto. Qed.

(* Float values (jsonutil.MarshalFloat). strconv is an oracle: IF AppendFloat's output in either
   format consists of plain characters and ParseFloat reads it back to the same float (up to the
   sign/payload of NaN), THEN for every float64 bit pattern the JSON string written decodes to the
   same float, whichever format the cut-offs select. *)
Theorem C51_float : forall (fmt : Z -> fmtk -> bytes) (parse : bytes -> option Z),
  (forall f k, forallb plain_char (fmt f k) = true) ->
  (forall f k, exists f', parse (fmt f k) = Some f' /\ fsame f f' = true) ->
  forall f, exists s f', unquote (marshal_float fmt f) = Some s /\ parse s = Some f' /\ fsame f f' = true.
Proof. exact float_roundtrip. Qed.

(* Scalars (promql.Scalar.MarshalJSON writes float64(T)/1000): full statement
     forall t, in_api_range t -> nearest_ms (decimal written for t) = t
   is FALSE: two different timestamps inside the API's time range are written with identical bytes
   whatever the float formatting is (finding, reproduced on the real codec by the harness). *)
Theorem C51_scalar_timestamp_refuted :
  exists t1 t2, in_api_range t1 = true /\ in_api_range t2 = true /\ t1 <> t2 /\
    forall fmt v, marshal_scalar fmt t1 v = marshal_scalar fmt t2 v.
Proof. exact scalar_not_injective. Qed.

(* Histograms (jsonutil.MarshalHistogram over FloatHistogram.AllBucketIterator).
   The bytes written are the canonical rendering {"count":..,"sum":..,"buckets":[[code,lo,hi,n],..]}
   ("buckets" omitted when there is none) of count, sum and exactly the specification's non-empty
   buckets spec_exposed: negative buckets in descending index order, the zero bucket, positive buckets;
   bounds of bucket idx are (bound(idx-1), bound idx] resp. [-bound idx, -bound(idx-1)), clipped at
   the zero threshold; codes 0/1/3 as documented. Any counts (negative, NaN, -0 included), any
   span layout with non-negative lengths (empty spans included), any zero threshold.
   Hypotheses: idx_ok / idxn_ok = the oracle getBoundExponential is positive on the indices used
   (lower bound may underflow to 0); the zero count is not negative/NaN (that case is refuted below).
   Exponential schemas: *)
Theorem C51_histogram_exponential : forall fmt eb h,
  h_schema h =? custom_schema = false ->
  spans_ok (h_nspans h) (h_nb h) = true -> nonneg_spans (h_pspans h) ->
  Forall (fun ic => idxn_ok eb h (fst ic)) (expand (h_nspans h) (h_nb h) 0) ->
  Forall (fun ic => idx_ok eb h (fst ic)) (expand (h_pspans h) (h_pb h) 0) ->
  fgt (h_zc h) fzero = fne (h_zc h) fzero ->
  marshal_histogram fmt eb h = Ok (render_hist fmt (h_count h) (h_sum h) (spec_exposed eb h)).
Proof. exact marshal_histogram_exp. Qed.

(* Custom-bucket schema (valid such histograms have no negative buckets and no zero bucket), and
   more generally every histogram without negative buckets: *)
Theorem C51_histogram_no_negative_buckets : forall fmt eb h,
  h_nb h = [] -> nonneg_spans (h_pspans h) ->
  Forall (fun ic => idx_ok eb h (fst ic)) (expand (h_pspans h) (h_pb h) 0) ->
  (h_schema h =? custom_schema = true -> fgt (h_zc h) fzero = false) ->
  fgt (h_zc h) fzero = fne (h_zc h) fzero ->
  marshal_histogram fmt eb h = Ok (render_hist fmt (h_count h) (h_sum h) (spec_exposed eb h)).
Proof. exact marshal_histogram_pos_spec. Qed.

(* the reverse bucket iterator enumerates the expansion of a valid span layout backwards *)
Theorem C51_reverse_iterator : forall ss bs, spans_ok ss bs = true -> rev_iter ss bs = rev (expand ss bs 0).
Proof. exact rev_iter_expand. Qed.

Example C51_histogram_exponential_nonvacuous :
  let h := mkHist 0 0 4613937818241073152 0 0 [mkSpan 1 1] [mkSpan 0 2] [4607182418800017408] [4611686018427387904; 0] [] in
  let eb := fun (_ i : Z) => if i =? -1 then 4602678819172646912 else if i =? 0 then 4607182418800017408 else 4611686018427387904 in
  h_schema h =? custom_schema = false /\ spans_ok (h_nspans h) (h_nb h) = true /\
  Forall (fun ic => idxn_ok eb h (fst ic)) (expand (h_nspans h) (h_nb h) 0) /\
  spec_exposed eb h = [(1, 13830554455654793216, 13826050856027422720, 4611686018427387904);
                       (3, 9223372036854775808, 0, 4613937818241073152);
                       (0, 4607182418800017408, 4611686018427387904, 4607182418800017408)].
Proof.
  cbv zeta. split; [reflexivity|]. split; [reflexivity|]. split; [|vm_compute; reflexivity].
  repeat constructor; cbn; first [lia | reflexivity].
Qed.

(* the forward bucket iterator enumerates exactly the expansion of the spans (all inputs) *)
Theorem C51_forward_iterator : forall ss bs, nonneg_spans ss -> fwd_iter ss bs = expand ss bs 0.
Proof. exact fwd_iter_expand. Qed.

Example C51_histogram_nonvacuous :
  let h := mkHist 0 0 4613937818241073152 0 0 [mkSpan 1 2] [] [4607182418800017408; 0] [] [] in
  let eb := fun (_ i : Z) => if i =? 0 then 4607182418800017408 else if i =? 1 then 4611686018427387904 else 4616189618054758400 in
  h_nb h = [] /\ nonneg_spans (h_pspans h) /\
  Forall (fun ic => idx_ok eb h (fst ic)) (expand (h_pspans h) (h_pb h) 0) /\
  fgt (h_zc h) fzero = fne (h_zc h) fzero /\
  spec_exposed eb h = [(3, 9223372036854775808, 0, 4613937818241073152); (0, 4607182418800017408, 4611686018427387904, 4607182418800017408)].
Proof. exact pos_hist_nonvacuous. Qed.

(* A valid histogram whose zero bucket has a negative count (histogram subtraction produces such
   counts): the JSON has no buckets at all although the histogram has a non-empty bucket (finding,
   reproduced on the real codec by the harness). *)
Theorem C51_histogram_negative_zero_count_refuted :
  exists h, hist_valid h = true /\
    forall fmt eb, marshal_histogram fmt eb h = Ok (render_hist fmt (h_count h) (h_sum h) [])
                   /\ spec_exposed eb h = [(3, fnegate (h_zt h), h_zt h, h_zc h)].
Proof. exists neg_zero_hist. exact neg_zero_dropped. Qed.

(* props/C09.v — property theorems for C09 (retention removes only whole expired blocks, oldest
   first).  Nothing but statements; proofs are in proof/RetentionProofs.v.

   Everywhere `o` is the slice as deletableBlocks' (unstable) sort left it: ANY permutation of
   the blocks that is descending in MaxTime.  The theorems hold for every such `o`. *)
From Coq Require Import List ZArith Bool Lia Sorting.Permutation.
From Verif Require Import lib.Int64 model.Retention proof.RetentionProofs.
Import ListNotations.
Open Scope Z_scope.

(* Time-based retention deletes exactly the blocks whose MaxTime is at least the retention
   duration older than the newest MaxTime — whatever order the sort gave to equal MaxTimes.
   (span_ok: MaxTime differences fit int64; the code subtracts in int64.) *)
Theorem C09_time_exact : forall c bs o m b,
  Permutation o bs -> sorted_desc o = true -> NoDup (map b_id bs) ->
  0 < c_dur c -> span_ok bs -> is_newest bs m -> In b bs ->
  (In (b_id b) (beyond_time c o) <-> c_dur c <= m - b_maxt b).
Proof. exact time_exact. Qed.

(* Size-based retention keeps exactly the longest newest-first run (first k blocks of o) whose
   cumulative size plus Head().Size() stays within the limit, and deletes the rest. *)
Theorem C09_size_prefix : forall c o,
  0 < eff_max_bytes c -> (forall b, In b o -> 0 <= b_size b) -> 0 <= c_head c ->
  c_head c + sum_sizes o <= maxInt64 ->
  exists k, (k <= length o)%nat /\ beyond_size c o = map b_id (skipn k o) /\
    (forall j, (1 <= j <= k)%nat -> c_head c + sum_sizes (firstn j o) <= eff_max_bytes c) /\
    ((k < length o)%nat -> eff_max_bytes c < c_head c + sum_sizes (firstn (S k) o)).
Proof. exact size_prefix. Qed.

(* Size retention independently of how the sort ordered equal MaxTimes: a block is kept when
   everything at least as new as it fits, deleted when what is strictly newer plus itself does not
   fit; so only a group of equal MaxTime that straddles the limit depends on the tie order ... *)
Theorem C09_size_tie_independent : forall c bs o b,
  Permutation o bs -> sorted_desc o = true -> NoDup (map b_id bs) ->
  0 < eff_max_bytes c -> (forall x, In x bs -> 0 <= b_size x) -> 0 <= c_head c ->
  c_head c + sum_sizes bs <= maxInt64 -> In b bs ->
  (c_head c + sum_sizes (filter (newer_or_tied b) bs) <= eff_max_bytes c ->
     ~ In (b_id b) (beyond_size c o)) /\
  (eff_max_bytes c < c_head c + sum_sizes (filter (strictly_newer b) bs) + b_size b ->
     In (b_id b) (beyond_size c o)).
Proof. exact size_tie_independent. Qed.

(* ... and for a block whose MaxTime no other block shares the answer is exact. *)
Theorem C09_size_exact_no_tie : forall c bs o b,
  Permutation o bs -> sorted_desc o = true -> NoDup (map b_id bs) ->
  0 < eff_max_bytes c -> (forall x, In x bs -> 0 <= b_size x) -> 0 <= c_head c ->
  c_head c + sum_sizes bs <= maxInt64 -> In b bs ->
  (forall x, In x bs -> b_maxt x = b_maxt b -> x = b) ->
  (In (b_id b) (beyond_size c o) <->
   eff_max_bytes c < c_head c + sum_sizes (filter (strictly_newer b) bs) + b_size b).
Proof. exact size_exact_no_tie. Qed.

(* A limit of zero (or a negative one) disables the respective retention. *)
Theorem C09_disabled : forall c o,
  (c_dur c = 0 -> beyond_time c o = []) /\ (eff_max_bytes c <= 0 -> beyond_size c o = []).
Proof. intros c o. split; [apply time_disabled | apply size_disabled]. Qed.

(* Retention never deletes a block that is strictly newer than one it retains — for every
   configuration (no range assumptions at all) and every tie order. *)
Theorem C09_suffix : forall c o b b',
  sorted_desc o = true -> NoDup (map b_id o) -> In b o -> In b' o ->
  In (b_id b) (beyond_time c o ++ beyond_size c o) ->
  ~ In (b_id b') (beyond_time c o ++ beyond_size c o) ->
  b_maxt b <= b_maxt b'.
Proof. exact retention_oldest_first. Qed.

(* A successful reload keeps exactly the loadable blocks (and exactly the directories) that are
   neither superseded (Deletable flag, or parent of a loadable block) nor beyond retention:
   only whole blocks go, nothing else is touched, nothing new appears. *)
Theorem C09_reload_exact : forall c disk o loaded dirs,
  reload c disk o = ROk loaded dirs ->
  let gone i := (In i (map b_id (loadable disk)) /\
                   ((exists b, In b o /\ b_del b = true /\ b_id b = i) \/
                    In i (beyond_time c o ++ beyond_size c o)))
                \/ In i (parents_of (loadable disk)) in
  (forall b, In b loaded <-> In b (loadable disk) /\ ~ gone (b_id b)) /\
  (forall i, In i dirs <-> In i (map d_id disk) /\ ~ gone i).
Proof.
  intros c disk o loaded dirs H gone.
  destruct (reload_exact c disk o loaded dirs H) as [H1 H2].
  assert (Hg : forall i, gone i <-> In i (reload_deletable c disk o)).
  { intros i. unfold gone. rewrite in_reload_deletable, in_deletable_ids. tauto. }
  split; intros x; [rewrite H1 | rewrite H2]; rewrite Hg; tauto.
Qed.

(* Blocks superseded by a completed compaction are removed — from ANY directory state in which
   the compacted block is loadable, i.e. after a crash at any point of the parent deletions
   (any subset of the parents still on disk, corrupted or with unreadable meta or not). *)
Theorem C09_parents_removed : forall c disk o loaded dirs child p,
  reload c disk o = ROk loaded dirs -> In child (loadable disk) -> In p (b_parents child) ->
  ~ In p dirs /\ ~ In p (map b_id loaded).
Proof. exact parents_removed. Qed.

Corollary C09_crash_resume : forall c disk0 child removed o loaded dirs,
  let disk := mkD child true true :: filter (fun d => negb (memZ (d_id d) removed)) disk0 in
  reload c disk o = ROk loaded dirs ->
  forall p, In p (b_parents child) -> ~ In p dirs /\ ~ In p (map b_id loaded).
Proof.
  intros c disk0 child removed o loaded dirs disk H p Hp.
  eapply parents_removed; eauto. unfold disk, loadable. simpl. now left.
Qed.

(* Reloading never touches the head; a reload that fails (corrupted block that no loadable
   block supersedes) changes nothing. *)
Theorem C09_head_untouched : forall (H : Type) c o (s : dbstate H),
  s_head (reload_state c o s) = s_head s /\
  (forall bad, reload c (s_disk s) o = RErr bad -> reload_state c o s = s).
Proof. intros H c o s. split; [apply reload_state_head | intros bad; apply reload_state_err]. Qed.

(* The set of orders quantified over is never empty. *)
Theorem C09_order_exists : forall bs,
  Permutation (sort_desc bs) bs /\ sorted_desc (sort_desc bs) = true.
Proof. intros bs. split; [apply sort_desc_perm | apply sort_desc_sorted]. Qed.

(* ---- a stronger reading that the code does NOT satisfy (documented quirk) ----
   Size retention counts blocks that the very same reload removes as superseded, so it can
   delete an old block although everything that survives, plus that block, fits the limit. *)
Definition quirk_cfg := mkCfg 0 200 0 0 0 0.
Definition quirk_disk :=
  [ mkD (mkB 0 0 50 50 false []) true true;          (* X: old, independent *)
    mkD (mkB 1 50 100 50 false []) true true;        (* A *)
    mkD (mkB 2 100 200 50 false []) true true;       (* B *)
    mkD (mkB 3 50 200 100 false [1; 2]) true true ]. (* C = compaction of A and B *)

Theorem C09_size_tight_refuted :
  exists c disk o loaded dirs x,
    valid_order o (loadable disk) = true /\ reload c disk o = ROk loaded dirs /\
    In x (loadable disk) /\ b_del x = false /\ ~ In (b_id x) (parents_of (loadable disk)) /\
    beyond_time c o = [] /\
    ~ In x loaded /\ c_head c + sum_sizes (x :: loaded) <= eff_max_bytes c.
Proof.
  exists quirk_cfg, quirk_disk, (sort_desc (loadable quirk_disk)),
         [mkB 3 50 200 100 false [1; 2]], [3], (mkB 0 0 50 50 false []).
  repeat split; try reflexivity.
  - simpl. tauto.
  - vm_compute. intros [H|[H|H]]; try discriminate; contradiction.
  - vm_compute. intros [H|H]; [discriminate|contradiction].
  - vm_compute. discriminate.
Qed.

(* ---- non-vacuity ---- *)
Definition ex_blocks :=
  [ mkB 0 0 100 10 false []; mkB 1 100 200 20 false []; mkB 2 150 200 30 false [];
    mkB 3 200 300 40 false [] ].
Definition ex_order := [ mkB 3 200 300 40 false []; mkB 2 150 200 30 false [];
                         mkB 1 100 200 20 false []; mkB 0 0 100 10 false [] ].

Example C09_time_nonvacuous :
  let c := mkCfg 100 0 0 0 0 0 in
  Permutation ex_order ex_blocks /\ sorted_desc ex_order = true /\ NoDup (map b_id ex_blocks) /\
  0 < c_dur c /\ span_ok ex_blocks /\ is_newest ex_blocks 300 /\
  beyond_time c ex_order = [2; 1; 0].
Proof.
  intros c. split; [|split; [|split; [|split; [|split; [|split]]]]].
  - apply Permutation_sym. exact (Permutation_rev ex_blocks).
  - reflexivity.
  - simpl. repeat constructor; simpl; intuition discriminate.
  - simpl. lia.
  - intros x y Hx Hy. unfold int64, minInt64, maxInt64. simpl in Hx, Hy.
    repeat (destruct Hx as [<-|Hx]; [repeat (destruct Hy as [<-|Hy]; [simpl; lia|]); contradiction|]).
    contradiction.
  - split.
    + exists (mkB 3 200 300 40 false []). simpl. tauto.
    + intros x Hx. simpl in Hx. repeat (destruct Hx as [<-|Hx]; [simpl; lia|]). contradiction.
  - reflexivity.
Qed.

Example C09_size_nonvacuous :
  let c := mkCfg 0 75 0 0 0 5 in
  0 < eff_max_bytes c /\ (forall b, In b ex_order -> 0 <= b_size b) /\
  c_head c + sum_sizes ex_order <= maxInt64 /\
  beyond_size c ex_order = [1; 0] /\ beyond_size (mkCfg 0 0 25 (-1) 600 5) ex_order = [1; 0].
Proof.
  intros c. split; [|split; [|split; [|split]]].
  - reflexivity.
  - intros b Hb. simpl in Hb. repeat (destruct Hb as [<-|Hb]; [simpl; lia|]). contradiction.
  - vm_compute. discriminate.
  - reflexivity.
  - reflexivity.
Qed.

Example C09_reload_nonvacuous :
  reload (mkCfg 0 0 0 0 0 0)
         [ mkD (mkB 1 50 100 50 false []) true false;   (* corrupted parent, still on disk *)
           mkD (mkB 3 50 200 100 false [1; 2]) true true;
           mkD (mkB 4 0 0 0 false []) false true ]      (* unreadable meta: left alone *)
         [ mkB 3 50 200 100 false [1; 2] ]
  = ROk [ mkB 3 50 200 100 false [1; 2] ] [3; 4].
Proof. reflexivity. Qed.

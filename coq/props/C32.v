(* props/C32.v — property theorems for C32 (histogram query functions agree with the
   histograms they describe).  Nothing but statements; proofs are in proof/QuantileProofs.v.

   Model: model/Quantile.v — HistogramQuantile / HistogramFraction over the bucket sequence of
   a native histogram, BucketQuantile (sort, coalesceBuckets, ensureMonotonicAndIgnoreSmallDeltas,
   sort.Search) for classic buckets, in exact rational arithmetic with extended bounds.
   The exponential interpolation inside a standard-schema bucket is abstract: the theorems hold
   for EVERY interpolation that stays between the bucket's endpoints and is monotone
   (hypotheses [iexp_range]/[iexp_mono], [fexp_range]/[fexp_mono] below), which exp2/log2
   interpolation and linear interpolation both are.

   [wf_hist h]: count > 0, sum not NaN, count = sum of the bucket counts, counts >= 0, buckets
   ascending and disjoint with lower < upper, finite bounds for standard schemas, and no
   (-Inf,+Inf) bucket (a custom histogram without bounds; see notes/C32.md). *)
From Coq Require Import List ZArith QArith Sorted.
From Verif Require Import model.Quantile proof.QuantileProofs.
Import ListNotations.
Open Scope Q_scope.

(* histogram_count / histogram_sum / histogram_avg return the histogram's count, its sum and
   their ratio (float64 division: x/0 and NaN handled by [fdiv]) *)
Theorem C32_count_sum_avg : forall h,
  hist_count h = R (Fin (h_count h)) /\ hist_sum h = h_sum h /\
  hist_avg h = fdiv (h_sum h) (h_count h) /\
  (forall s, h_sum h = R (Fin s) -> ~ h_count h == 0 -> hist_avg h = R (Fin (s / h_count h))).
Proof.
  intro h. split; [reflexivity|]. split; [reflexivity|]. split; [reflexivity|].
  intros s Hs Hc. unfold hist_avg, fdiv. rewrite Hs.
  apply Qeq_bool_false in Hc. rewrite Hc. reflexivity.
Qed.

Section NativeQuantile.
  Variable iexp : Q -> Q -> Q -> Q.
  Hypothesis iexp_range : forall a b f, a < b -> 0 <= f -> f <= 1 -> a <= iexp a b f /\ iexp a b f <= b.
  Hypothesis iexp_mono : forall a b f1 f2, a < b -> 0 <= f1 -> f1 <= f2 -> f2 <= 1 ->
                                          iexp a b f1 <= iexp a b f2.

  (* for q in [0,1] histogram_quantile is a number within the bounds of a populated bucket
     that holds the requested rank q*count ([Sel]: cumulative count before the bucket <= rank
     <= cumulative count including it) *)
  Theorem C32_quantile_in_bucket : forall h q,
    wf_hist h -> 0 <= q -> q <= 1 ->
    exists pre b post e,
      Sel (h_buckets h) (q * h_count h) pre b post /\
      hquantile iexp q h = R e /\ ext_le (bl b) e /\ ext_le e (bu b).
  Proof. exact (quantile_in_bucket iexp iexp_range). Qed.

  (* ... and never decreases as q grows (across the switch from the forward to the reverse
     bucket iterator at q = 0.5 as well) *)
  Theorem C32_quantile_mono : forall h q1 q2,
    wf_hist h -> 0 <= q1 -> q1 <= q2 -> q2 <= 1 ->
    res_le (hquantile iexp q1 h) (hquantile iexp q2 h).
  Proof. exact (quantile_mono iexp iexp_range iexp_mono). Qed.

  (* histograms with NaN observations (sum NaN, count >= sum of the buckets; [wf_nan_hist]):
     the forward search is used for every q; the result for the larger quantile is NaN (rank
     beyond all buckets) or not smaller *)
  Theorem C32_quantile_nan_sum_mono : forall h q1 q2,
    wf_nan_hist h -> 0 <= q1 -> q1 <= q2 -> q2 <= 1 ->
    hquantile iexp q2 h = RNaN \/ res_le (hquantile iexp q1 h) (hquantile iexp q2 h).
  Proof. exact (quantile_mono_nan iexp iexp_range iexp_mono). Qed.
End NativeQuantile.

(* The code before "fix: promql: histogram_quantile interpolates in the last bucket when the
   sum is NaN" (e11e8e804f) decreased with growing q on a histogram with NaN observations;
   the fixed code does not (witness: custom buckets (0,1]:3, (1,2]:4, count 10, sum NaN,
   q = 1/4 and 5/16; replayed by the harness corpus case "nan-sum-old-witness"). *)
Theorem C32_quantile_old_refuted :
  exists h q1 q2,
    sum_nan h = true /\ 0 <= q1 /\ q1 <= q2 /\ q2 <= 1 /\
    forall iexp,
      ~ res_le (hquantile_old iexp q1 h) (hquantile_old iexp q2 h) /\
      res_le (hquantile iexp q1 h) (hquantile iexp q2 h).
Proof. exact hquantile_old_refuted. Qed.

Section NativeFraction.
  Variable fexp : Q -> Q -> Q -> Q.
  Hypothesis fexp_range : forall a b x, a < x -> x < b -> 0 <= fexp a b x /\ fexp a b x <= 1.
  Hypothesis fexp_mono : forall a b x1 x2, a < x1 -> x1 <= x2 -> x2 < b -> fexp a b x1 <= fexp a b x2.

  (* histogram_fraction lies in [0, 1] for every pair of (possibly infinite) bounds *)
  Theorem C32_fraction_range : forall h lo up,
    wf_hist h -> exists x, hfraction fexp lo up h = R (Fin x) /\ 0 <= x /\ x <= 1.
  Proof. intros h lo up W. exact (fraction_range fexp fexp_range fexp_mono h W lo up). Qed.

  (* it does not decrease when the interval grows *)
  Theorem C32_fraction_mono : forall h l1 u1 l2 u2,
    wf_hist h -> ext_le l2 l1 -> ext_le u1 u2 ->
    exists x1 x2, hfraction fexp l1 u1 h = R (Fin x1) /\ hfraction fexp l2 u2 h = R (Fin x2) /\ x1 <= x2.
  Proof. intros h l1 u1 l2 u2 W. exact (fraction_mono fexp fexp_range fexp_mono h W l1 u1 l2 u2). Qed.

  (* and is 1 over (-Inf, +Inf) for a non-empty histogram *)
  Theorem C32_fraction_total : forall h,
    wf_hist h -> exists x, hfraction fexp NInf PInf h = R (Fin x) /\ x == 1.
  Proof. intros h W. exact (fraction_total fexp h W). Qed.
End NativeFraction.

(* ensureMonotonicAndIgnoreSmallDeltas: for ANY input counts and tolerance the corrected
   cumulative counts never decrease (upper bounds untouched, non-negativity preserved) *)
Theorem C32_ensure_monotonic : forall tol bs out forced,
  ensure_monotonic tol bs = (out, forced) ->
  nondecreasing (ccs out) /\ ubs out = ubs bs /\
  (Forall (fun b => 0 <= cc b) bs -> Forall (fun b => 0 <= cc b) out).
Proof. exact ensure_monotonic_nondecreasing. Qed.

(* histogram_quantile over classic buckets: for any non-empty bucket set with finite
   non-negative counts — in any order, with duplicate bounds, cumulative counts not necessarily
   monotonic — BucketQuantile returns normally (no panic, the binary search terminates) and
   its non-NaN results never decrease as q grows.  (NaN: no +Inf bucket, fewer than two
   distinct bounds, no observations, or rank 0 falling into an empty lowest bucket.) *)
Theorem C32_classic_mono : forall bs q1 q2,
  bs <> [] -> Forall (fun b => 0 <= cc b) bs ->
  0 <= q1 -> q1 <= q2 -> q2 <= 1 ->
  exists r1 r2 forced,
    bucket_quantile q1 bs = QOk r1 forced /\ bucket_quantile q2 bs = QOk r2 forced /\
    (r1 = RNaN \/ r2 = RNaN \/ res_le r1 r2).
Proof. exact bucket_quantile_mono. Qed.

(* ---- non-vacuity ---- *)
Example C32_nonvacuous_exponential : wf_hist example_hist.
Proof. exact example_hist_wf. Qed.
Example C32_nonvacuous_custom : wf_hist example_custom.
Proof. exact example_custom_wf. Qed.
Example C32_nonvacuous_nan_sum : wf_nan_hist example_nan.
Proof. exact example_nan_wf. Qed.
(* linear interpolation satisfies the interpolation hypotheses *)
Example C32_nonvacuous_interp :
  (forall a b f, a < b -> 0 <= f -> f <= 1 -> a <= ilin a b f /\ ilin a b f <= b) /\
  (forall a b f1 f2, a < b -> 0 <= f1 -> f1 <= f2 -> f2 <= 1 -> ilin a b f1 <= ilin a b f2).
Proof.
  split; intros; unfold ilin.
  - apply lin_range; auto. apply Qlt_le_weak; auto.
  - apply lin_mono; auto. apply Qlt_le_weak; auto.
Qed.
(* a classic bucket set with non-monotonic counts: quantiles 0.25 and 0.75 are both numbers *)
Example C32_nonvacuous_classic :
  let bs := [mkCB (Fin 1) 6; mkCB PInf 8; mkCB (Fin 2) 4; mkCB (Fin 4) 9] in
  exists a b, bucket_quantile (1 # 4) bs = QOk (R (Fin a)) true /\
              bucket_quantile (3 # 4) bs = QOk (R (Fin b)) true /\ a < b.
Proof. simpl. eexists; eexists. split; [vm_compute; reflexivity|]. split; [vm_compute; reflexivity|]. reflexivity. Qed.

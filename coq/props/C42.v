(* props/C42.v — property theorems for C42 (remote read returns the same data as a local
   query).  Only statements; the proofs are in proof/RemoteReadProofs.v, the model in
   model/RemoteRead.v.

   Full statement: for every series set ss a storage returns for (matchers, [mint, maxt]),
       sampled_path limit ext sort ss              = Ok (ss with the external labels), and
       chunked_path maxBytes ext mint maxt chunks  = the in-range samples of every series, once.
   As stated it is FALSE of the faithful model (and of the code) in four corners, each with a
   `_refuted` theorem below and a reproducer in notes/C42.md:
     - streamed: a series whose chunks do not fit one frame comes back as several series
       entries with the same label set (chunkedSeriesSet.Next makes one series per frame);
     - sampled: a float sample -0.0 comes back as +0.0 (prompb.Sample omits Value when
       `m.Value != 0` is false);
     - sampled: a sample with timestamp MaxInt64 is dropped (noTS sentinel of
       concreteSeriesIterator.Next);
     - sampled: concreteSeriesIterator.Seek loses the first sample of the other value type on a
       series mixing floats and histograms (Seek moves both cursors off -1 before its no-op exit).
   Outside these corners the statement is proved at full strength (all series sets, ranges,
   frame sizes, limits, external labels). *)
From Coq Require Import List ZArith Bool NArith.
From Verif Require Import lib.Int64 model.RemoteRead proof.RemoteReadProofs.
Import ListNotations.
Open Scope Z_scope.

(* SAMPLES response: ToQueryResult -> wire -> FromQueryResult -> concreteSeriesIterator gives
   back every series with exactly its samples (floats, integer and float histograms, in
   timestamp order), external labels attached, sorted iff asked for. *)
Theorem C42_sampled_id : forall limit ext sortSeries ss,
  Forall good_series ss ->
  limit <= 0 \/ total_samples ss <= limit ->
  sampled_path limit ext sortSeries ss =
    Ok (let l := map (with_ext ext) ss in if sortSeries then sort_series l else l).
Proof. exact sampled_id. Qed.

(* ... in particular the identity when the storage returned the series sorted *)
Theorem C42_sampled_id_sorted : forall limit ext sortSeries ss,
  Forall good_series ss -> limit <= 0 \/ total_samples ss <= limit ->
  label_sorted (map (with_ext ext) ss) ->
  sampled_path limit ext sortSeries ss = Ok (map (with_ext ext) ss).
Proof. exact sampled_id_sorted. Qed.

(* a configured sample limit below the size of the result turns the response into an error,
   never into a truncated result *)
Theorem C42_sampled_limit : forall limit ext sortSeries ss,
  0 < limit < total_samples ss -> sampled_path limit ext sortSeries ss = ErrLimit.
Proof. exact sampled_limit. Qed.

(* STREAMED_XOR_CHUNKS response, frames: the frames of a series are a partition of its chunk
   list, in order, none empty *)
Theorem C42_frames_partition : forall maxBytes lbls chs,
  concat (frames_of maxBytes lbls chs) = chs /\
  Forall (fun f => f <> []) (frames_of maxBytes lbls chs).
Proof. intros. split; [apply frames_of_concat|apply frames_go_nonempty]. Qed.

(* per series, for ANY frame size: the samples the client iterators yield for the frames of
   the series, concatenated, are exactly the series' samples inside [mint, maxt] *)
Theorem C42_chunked_series_samples : forall maxBytes lbls mint maxt chs,
  ts_nondecr (all_samples chs) ->
  concat (map (chunked_iter mint maxt) (frames_of maxBytes lbls chs))
  = filter (in_range mint maxt) (all_samples chs).
Proof. exact chunked_series_samples. Qed.

(* whole response, for ANY frame size: gluing neighbouring client entries with equal label
   sets gives exactly the direct result (every series once, its in-range samples, server order) *)
Theorem C42_chunked_reassemble : forall maxBytes ext mint maxt ss,
  Forall good_cseries ss ->
  adj_distinct (map (fun s => merge_labels (cs_l s) ext) ss) ->
  reassemble (chunked_path maxBytes ext mint maxt ss) = map (trim_series mint maxt ext) ss.
Proof. exact chunked_reassemble. Qed.

(* whole response when every series fits one frame (the 1 MiB default and ordinary series):
   the client's series set IS the direct result, no gluing needed *)
Theorem C42_chunked_id_one_frame : forall maxBytes ext mint maxt ss,
  Forall good_cseries ss -> Forall (fits maxBytes ext) ss ->
  chunked_path maxBytes ext mint maxt ss = map (trim_series mint maxt ext) ss.
Proof. exact chunked_id_one_frame. Qed.

(* frame budget: a frame holds one chunk, or its chunks except the last stay below
   maxBytesInFrame minus the label sizes ("inaccuracy of at most one chunk") *)
Theorem C42_frames_budget : forall maxBytes lbls chs,
  Forall (within_budget (max_data_length maxBytes lbls)) (frames_of maxBytes lbls chs).
Proof. exact frames_budget. Qed.

(* read.go querier (NewSampleAndChunkQueryableClient) configured with the serving side's
   external labels: the labels added by the handler are stripped again and the result is the
   direct result itself — over the sampled response ... *)
Theorem C42_querier_sampled_id : forall limit maxBytes ext mnames sortSeries mint maxt ss chunks,
  Forall good_series ss -> limit <= 0 \/ total_samples ss <= limit ->
  Forall (fun l => str_mem (fst l) mnames = false) ext ->
  Forall (fun s => storable ext (ser_l s)) ss ->
  label_sorted (map (with_ext ext) ss) ->
  querier_path false limit maxBytes ext mnames sortSeries mint maxt ss chunks = Ok ss.
Proof. exact querier_sampled_id. Qed.

(* ... and over the streamed response when every series fits one frame *)
Theorem C42_querier_chunked_id : forall limit maxBytes ext mnames sortSeries mint maxt direct ss,
  Forall good_cseries ss -> Forall (fits maxBytes ext) ss ->
  Forall (fun l => str_mem (fst l) mnames = false) ext ->
  Forall (fun s => storable ext (cs_l s)) ss ->
  querier_path true limit maxBytes ext mnames sortSeries mint maxt direct ss
  = Ok (map (fun s => mkSer (cs_l s) (filter (in_range mint maxt) (all_samples (cs_c s)))) ss).
Proof. exact querier_chunked_id. Qed.

Example C42_querier_nonvacuous :
  storable [([122%N], [49%N])] [([97%N], [98%N]); ([99%N], [100%N])] /\
  querier_path false 0 100 [([122%N], [49%N])] [[97%N]] true 0 100
     [mkSer [([97%N], [98%N])] [mkS 5 KF 1]] [] = Ok [mkSer [([97%N], [98%N])] [mkS 5 KF 1]].
Proof. exact querier_example. Qed.

(* refuted: a series larger than a frame (every single chunk fits) is returned as two series *)
Theorem C42_chunked_split_refuted : exists maxBytes ext mint maxt ss,
  Forall good_cseries ss /\
  adj_distinct (map (fun s => merge_labels (cs_l s) ext) ss) /\
  Forall (fun s => Forall (fun c => chunk_size c < max_data_length maxBytes (merge_labels (cs_l s) ext)) (cs_c s)) ss /\
  chunked_path maxBytes ext mint maxt ss <> map (trim_series mint maxt ext) ss.
Proof. exact chunked_split_refuted. Qed.

(* refuted: negative zero does not survive the sampled response *)
Theorem C42_sampled_negzero_refuted : exists ss,
  Forall (fun s => ts_sorted (ser_s s) /\ below_noTS (ser_s s)) ss /\
  sampled_path 0 [] false ss <> Ok ss.
Proof. exact sampled_negzero_refuted. Qed.

(* refuted: a sample at MaxInt64 does not survive the sampled response *)
Theorem C42_sampled_maxint64_refuted : exists ss,
  Forall (fun s => ts_sorted (ser_s s) /\ no_negzero (ser_s s)) ss /\
  sampled_path 0 [] false ss <> Ok ss.
Proof. exact sampled_maxint64_refuted. Qed.

(* refuted: Seek is not a faithful access path on a series that mixes floats and histograms
   (Seek is otherwise covered by the correspondence run only: seek_probe vs seek_spec) *)
Theorem C42_sampled_seek_mixed_refuted : exists all skip t,
  ts_sorted all /\ below_noTS all /\ no_negzero all /\
  seek_probe (floats_of all) (hists_of all) skip t <> Some (Some (seek_spec all skip t)).
Proof. exact sampled_seek_mixed_refuted. Qed.

Example C42_seek_probe_nonvacuous :
  seek_probe (floats_of [mkS 10 KF 1; mkS 20 KH 3; mkS 30 KF 2]) (hists_of [mkS 10 KF 1; mkS 20 KH 3; mkS 30 KF 2]) 0 15
  = Some (Some (seek_spec [mkS 10 KF 1; mkS 20 KH 3; mkS 30 KF 2] 0 15)).
Proof. exact seek_fresh_example. Qed.

(* non-vacuity: concrete non-trivial inputs meeting the hypotheses *)
Example C42_nonvacuous_sampled :
  Forall good_series
    [mkSer [([97%N], [98%N])] [mkS 10 KF 4607182418800017408; mkS 20 KH 77; mkS 30 KFH 78; mkS 40 KF 0];
     mkSer [([97%N], [99%N])] []]
  /\ sampled_path 3 [([122%N], [49%N])] true
       [mkSer [([97%N], [98%N])] [mkS 10 KF 4607182418800017408; mkS 20 KH 77; mkS 30 KFH 78; mkS 40 KF 0]]
     = ErrLimit.
Proof. exact good_series_example. Qed.

Example C42_nonvacuous_chunked :
  Forall good_cseries ex_cseries /\ adj_distinct (map (fun s => merge_labels (cs_l s) []) ex_cseries)
  /\ length (stream_frames 60 [] ex_cseries) = 3%nat
  /\ length (chunked_path 60 [] 2 5 ex_cseries) = 3%nat
  /\ Forall (fits 1000 []) ex_cseries.
Proof. exact good_cseries_example. Qed.

(* props/C36.v — property theorems for C36. *)
From Coq Require Import List ZArith Bool String.
From Verif Require Import model.Nhcb proof.NhcbProofs.
Import ListNotations.
Open Scope Z_scope.

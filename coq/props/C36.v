(* props/C36.v — property theorems for C36: classic histograms convert to custom-bucket
   histograms without loss (model/Nhcb.v = NHCBParser + convertnhcb.TempHistogram).

   Theorems ending in _partial prove a part of the statement (what is missing is said at each);
   theorems ending in _refuted exhibit inputs on which the faithful model — and, replayed by
   the harness, the real code — violates a part of the property (see notes/C36.md). *)
From Coq Require Import List ZArith Bool String.
From Verif Require Import model.Nhcb proof.NhcbProofs.
Import ListNotations.
Open Scope string_scope.
Open Scope list_scope.
Open Scope Z_scope.

(* the code as found / with the five repairs of notes/C36_fix.md *)
Definition cfg_found (keep pst partial : bool) : cfg := mkCfg keep pst partial false false false false false.
Definition cfg_fixed (keep pst partial : bool) : cfg := mkCfg keep pst partial true true true true true.

(* ---- other series pass through unchanged ----------------------------------------------------
   For every entry stream of the wrapped parser, every option setting and both endings: the
   non-series entries (TYPE, HELP, UNIT, comments, native histograms with their labels,
   timestamp, exemplars and start timestamp) come out unchanged, all of them, in order. *)
Theorem C36_passthrough : forall parse_le c es eof,
  filter nonseries_o (fst (run parse_le c es eof)) = map to_o (filter nonseries_b es).
Proof. exact passthrough. Qed.

(* ---- keep-classic ----------------------------------------------------------------------------
   FULL STATEMENT (false of the code as found, see C36_keep_classic_exemplars_refuted):
     keep_classic c = true -> filter visible (fst (run parse_le c es eof)) = map to_o es.
   PROVED: with keep-classic every entry of the wrapped parser is emitted, in order, and apart
   from the inserted converted histograms nothing else is; float series agree with the
   unconverted stream in labels, timestamp and value ([erase] blanks exemplars and start
   timestamp of float series only).  Missing: exemplars and start timestamp of the series. *)
Theorem C36_keep_classic_partial : forall parse_le c es eof,
  keep_classic c = true ->
  map erase (filter visible (fst (run parse_le c es eof))) = map erase (map to_o es).
Proof. exact keep_classic_order. Qed.

Definition le_tab (s : string) : option num :=
  if String.eqb s "1" then Some (Fin 8) else if String.eqb s "2" then Some (Fin 16)
  else if String.eqb s "+Inf" then Some PInf else None.

Definition ser (name : string) (ls : labels) (t : option Z) (xs : list exem) (v : Z) : bentry :=
  BSeries (mkS (("__name__", name) :: ls) t 0 xs) (Fin v).

(* TYPE h histogram / h_bucket{le="1"} 2 # exemplar 7 / h_bucket{le="+Inf"} 5 / h_count 5 *)
Definition w_keep : list bentry :=
  [BType "h" T_HISTOGRAM; ser "h_bucket" [("le", "1")] None [(7, Some 10)] 16;
   ser "h_bucket" [("le", "+Inf")] None [] 40; ser "h_count" [] None [] 40].

Theorem C36_keep_classic_exemplars_refuted : exists es,
  filter visible (fst (run le_tab (cfg_found true false true) es true)) <> map to_o es.
Proof. exists w_keep. vm_compute. intros H. discriminate H. Qed.

Example keep_classic_exemplars_repaired :
  filter visible (fst (run le_tab (cfg_fixed true false true) w_keep true)) = map to_o w_keep.
Proof. vm_compute. reflexivity. Qed.

(* ---- no custom-bucket histogram for a series that has a native histogram ------------------
   After a native histogram entry, float series of the same metric (base name = the native
   histogram's name, same labels apart from le) are passed through unchanged — labels,
   timestamp, value, exemplars, start timestamp — and nothing is converted, however many
   follow and whatever ends the input.  (The parser looks at the directly preceding native
   histogram only; the protobuf parser yields native histogram and classic series of a metric
   in exactly this order.) *)
Theorem C36_no_nhcb_if_native : forall parse_le c p s hid ss,
  p_typ p = T_HISTOGRAM ->
  Forall (fun sv : sample * num =>
            snd (base_name (lget (s_lset (fst sv)) NAME)) = lget (s_lset s) NAME /\
            without (s_lset (fst sv)) [LE] = without (s_lset s) []) ss ->
  let p1 := fst (step parse_le c p (BHist s hid)) in
  exists p2,
    run_from parse_le c p1 (map (fun sv => BSeries (fst sv) (snd sv)) ss) =
      (p2, map (fun sv => OSeries (fst sv) (snd sv)) ss) /\
    snd (process_nhcb c p2) = [].
Proof. exact native_inhibits. Qed.

Example native_nonvacuous :
  fst (run le_tab (cfg_found false false false)
         [BType "h" T_HISTOGRAM; BHist (mkS [("__name__", "h")] None 0 []) 5;
          ser "h_bucket" [("le", "1")] None [] 16; ser "h_count" [] None [] 16] true) =
  [OType "h" T_HISTOGRAM; OHist (mkS [("__name__", "h")] None 0 []) 5;
   OSeries (mkS [("__name__", "h_bucket"); ("le", "1")] None 0 []) (Fin 16);
   OSeries (mkS [("__name__", "h_count")] None 0 []) (Fin 16)].
Proof. vm_compute. reflexivity. Qed.

(* ---- bounds, de-cumulated counts, count, sum ---------------------------------------------------
   FULL STATEMENT: for the buckets given in any order.  PROVED: for the buckets fed in
   increasing order of le (the order every exposition library uses): custom bounds = the
   finite upper bounds, bucket counts = adjacent differences of the cumulative counts plus the
   +Inf bucket, count = _count (or the +Inf bucket, or the highest bucket), sum = _sum; for any
   number of buckets and any values.  Missing: out-of-order insertion ([th_insert]) — covered
   by the harness only. *)
Theorem C36_buckets_partial : forall fin inf cnt sum h0,
  let infb := match inf with Some i => [(PInf, i)] | None => [] end in
  let N := expected_count fin inf cnt in
  forallb finite_le fin = true ->
  incr None (fin ++ infb) ->
  match cnt with Some c => 0 <= c | None => True end ->
  match cnt, inf with Some c, Some i => c = i | _, _ => True end ->
  feed th_empty (fin ++ infb) = Some h0 ->
  convert (set_sum (with_count h0 cnt) sum) =
  Some (mkNH (negb (forallb (fun b => is_int8 (snd b)) (fin ++ [(PInf, N)]) && is_int8 N))
             N sum (map fst fin) (decumulate 0 fin ++ [N - top fin])).
Proof. exact convert_sorted. Qed.

Example buckets_nonvacuous :
  exists h0, feed th_empty [(Fin 8, 16); (Fin 16, 24); (PInf, 40)] = Some h0 /\
    convert (set_sum (with_count h0 (Some 40)) (Fin 60)) =
    Some (mkNH false 40 (Fin 60) [Fin 8; Fin 16] [16; 8; 16]).
Proof. eexists. split; vm_compute; reflexivity. Qed.

(* ---- exactly one custom-bucket histogram per classic histogram ---------------------------------
   FULL STATEMENT: for every exposition, one converted histogram per (family, label set).
   False in general: C36_interleaved_refuted.
   PROVED: one classic histogram read from the start state under its TYPE line — the bucket,
   count and sum series of one label set in any order the TempHistogram accepts, any number of
   them, each with any number of exemplars — and ended by a TYPE/HELP/UNIT/comment entry or by
   the end of input: its series are swallowed and exactly one histogram is emitted, namely the
   conversion of the accumulated TempHistogram, with the label set minus le under the base
   name, the timestamp of the series, the start timestamp of the first series and all
   exemplars of the series in order.  The hypothesis on exemplar writes holds for parsers that
   assign every field of the exemplar and, since repair 3, for OpenMetricsParser as well
   (without it: C36_exemplars_refuted (b)).  Missing: collections ended by a float series
   (pre-repair the timestamp is wrong there, C36_timestamp_refuted), several histograms in a
   row (the buffer is then not empty but re-used). *)
Theorem C36_one_per_histogram_partial : forall parse_le c,
  keep_classic c = false -> ex_partial c = false \/ fix_exzero c = true ->
  forall n key m0 ms p t' nh,
  p_state p = SStart -> p_typ p = T_HISTOGRAM -> p_bname p = n -> p_tmp p = th_empty ->
  full 0 (p_ex p) ->
  Forall (member_ok parse_le n key) (m0 :: ms) ->
  apply_all th_empty (m0 :: ms) = Some t' ->
  convert t' = Some nh -> validate nh = true ->
  let hist := ONhcb (mkS (metric_base (s_lset (m_sample m0)) n)
                         (last (map (fun m => s_ts (m_sample m)) (m0 :: ms)) None)
                         (if parse_st c then s_st (m_sample m0) else 0)
                         (all_ex (m0 :: ms))) nh in
  (forall e, is_meta e = true ->
     snd (run_from parse_le c p (map to_series (m0 :: ms) ++ [e])) = [hist; to_o e]) /\
  (let '(p', out) := run_from parse_le c p (map to_series (m0 :: ms)) in
   out ++ snd (process_nhcb c p') = [hist]).
Proof. exact one_histogram_ex. Qed.

Example one_histogram_nonvacuous :
  fst (run le_tab (cfg_found false false false)
         [BType "h" T_HISTOGRAM; ser "h_bucket" [("a", "x"); ("le", "1")] (Some 1000) [(7, Some 10); (8, None)] 16;
          ser "h_bucket" [("a", "x"); ("le", "+Inf")] (Some 1000) [] 40;
          ser "h_count" [("a", "x")] (Some 1000) [] 40; ser "h_sum" [("a", "x")] (Some 1000) [] 60;
          BOther 1 "g" "help"] true) =
  [OType "h" T_HISTOGRAM;
   ONhcb (mkS [("__name__", "h"); ("a", "x")] (Some 1000) 0 [(7, Some 10); (8, None)])
         (mkNH false 40 (Fin 60) [Fin 8] [16; 24]);
   OOther 1 "g" "help"].
Proof. vm_compute. reflexivity. Qed.

(* ---- refutations (each replayed on the real code by the harness corpus) ---------------------- *)

Definition grp (a : string) (t : option Z) (xs : list exem) (b1 binf : Z) : list bentry :=
  [ser "h_bucket" [("a", a); ("le", "1")] t xs b1; ser "h_bucket" [("a", a); ("le", "+Inf")] t [] binf;
   ser "h_count" [("a", a)] t [] binf].
Definition nhcb_ts (o : oentry) : list (option Z) := match o with ONhcb s _ => [s_ts s] | _ => [] end.
Definition nhcb_ex (o : oentry) : list (list exem) := match o with ONhcb s _ => [s_ex s] | _ => [] end.

(* timestamp: two label sets of one family with timestamps 1000 and 2000: the first converted
   histogram is stamped 2000 *)
Theorem C36_timestamp_refuted :
  flat_map nhcb_ts (fst (run le_tab (cfg_found false false false)
                           (BType "h" T_HISTOGRAM :: grp "1" (Some 1000) [] 16 40 ++ grp "2" (Some 2000) [] 8 24) true))
  = [Some 2000; Some 2000].
Proof. vm_compute. reflexivity. Qed.

Example timestamp_repaired :
  flat_map nhcb_ts (fst (run le_tab (cfg_fixed false false false)
                           (BType "h" T_HISTOGRAM :: grp "1" (Some 1000) [] 16 40 ++ grp "2" (Some 2000) [] 8 24) true))
  = [Some 1000; Some 2000].
Proof. vm_compute. reflexivity. Qed.

(* interleaved label sets: 2 classic histograms, 4 converted ones (partial, wrong ones) *)
Theorem C36_interleaved_refuted :
  List.length (filter is_nhcb (fst (run le_tab (cfg_found false false false)
     [BType "h" T_HISTOGRAM;
      ser "h_bucket" [("a", "1"); ("le", "1")] None [] 16; ser "h_bucket" [("a", "2"); ("le", "1")] None [] 8;
      ser "h_bucket" [("a", "1"); ("le", "+Inf")] None [] 40; ser "h_bucket" [("a", "2"); ("le", "+Inf")] None [] 24]
     true))) = 4%nat.
Proof. vm_compute. reflexivity. Qed.

(* exemplars: (a) a histogram that fails to convert (bucket le=1 above +Inf) leaves its
   exemplar 7 in the buffer and the next histogram reports it instead of its own exemplar 9;
   (b) with the OpenMetrics parser an exemplar without timestamp (9) shows the timestamp of the
   exemplar that used the buffer slot before (7 @ 10) *)
Theorem C36_exemplars_refuted :
  flat_map nhcb_ex (fst (run le_tab (cfg_found false false true)
     (BType "h" T_HISTOGRAM :: grp "1" None [(7, Some 10)] 48 40 ++ grp "2" None [(9, Some 20)] 8 24) true))
  = [[(7, Some 10)]] /\
  flat_map nhcb_ex (fst (run le_tab (cfg_found false false true)
     (BType "h" T_HISTOGRAM :: grp "1" None [(7, Some 10)] 16 40 ++ grp "2" None [(9, None)] 8 24) true))
  = [[(7, Some 10)]; [(9, Some 10)]].
Proof. split; vm_compute; reflexivity. Qed.

(* a converted histogram that fails Validate (no +Inf bucket, _count below the highest
   bucket) is not reset: the first series of the next label set is merged into it (and makes
   it fail for good), so the next histogram is converted without its bucket le="2" *)
Theorem C36_validate_failure_refuted :
  filter is_nhcb (fst (run le_tab (cfg_found false false false)
     [BType "h" T_HISTOGRAM; ser "h_bucket" [("a", "1"); ("le", "1")] None [] 32; ser "h_count" [("a", "1")] None [] 24;
      ser "h_bucket" [("a", "2"); ("le", "2")] None [] 8; ser "h_bucket" [("a", "2"); ("le", "+Inf")] None [] 16;
      ser "h_count" [("a", "2")] None [] 16] true)) =
  [ONhcb (mkS [("__name__", "h"); ("a", "2")] None 0 []) (mkNH false 16 (Fin 0) [] [16])].
Proof. vm_compute. reflexivity. Qed.

Example exemplars_repaired :
  flat_map nhcb_ex (fst (run le_tab (cfg_fixed false false true)
     (BType "h" T_HISTOGRAM :: grp "1" None [(7, Some 10)] 48 40 ++ grp "2" None [(9, Some 20)] 8 24) true))
  = [[(9, Some 20)]] /\
  flat_map nhcb_ex (fst (run le_tab (cfg_fixed false false true)
     (BType "h" T_HISTOGRAM :: grp "1" None [(7, Some 10)] 16 40 ++ grp "2" None [(9, None)] 8 24) true))
  = [[(7, Some 10)]; [(9, None)]].
Proof. split; vm_compute; reflexivity. Qed.

Example validate_failure_repaired :
  filter is_nhcb (fst (run le_tab (cfg_fixed false false false)
     [BType "h" T_HISTOGRAM; ser "h_bucket" [("a", "1"); ("le", "1")] None [] 32; ser "h_count" [("a", "1")] None [] 24;
      ser "h_bucket" [("a", "2"); ("le", "2")] None [] 8; ser "h_bucket" [("a", "2"); ("le", "+Inf")] None [] 16;
      ser "h_count" [("a", "2")] None [] 16] true)) =
  [ONhcb (mkS [("__name__", "h"); ("a", "2")] None 0 []) (mkNH false 16 (Fin 0) [Fin 16] [8; 8])].
Proof. vm_compute. reflexivity. Qed.

(* props/C37.v — property theorems for C37 (scraping stores exactly the exposed samples and
   marks vanished series stale).  Statements only; proofs are in proof/ScrapeProofs.v.

   Vocabulary (model/Scrape.v, proof/ScrapeProofs.v):
     do_step c mut rep S sp      one scrape (scrapeAndReport) or the end-of-run pass from loop
                                 state S: the new state and the appenders it opened, each with
                                 Commit/Rollback and the appends that reached the storage;
     state_after c mut rep h     the loop state after history h (fold of do_step);
     step_failed c mut S sp      the scrape failed: scrape error, or scrapeLoop.append returned
                                 an error (unparsable body, rejected series, sample_limit);
     abs_body c mut t es         the reference semantics of a body, a function of the body alone:
                                 ab_samples (label set, timestamp, value) to store,
                                 ab_tracked the label sets tracked for staleness,
                                 ab_total / ab_added the line counters;
     tracked S l                 label set l is tracked for staleness in state S;
     step_ok c sp                scope of the history theorems: the storage forgets no series
                                 before the scrape (no reference change), scrape time and
                                 explicit timestamps are inside the storage's bounds, metric
                                 texts are not report names. *)
From Coq Require Import List ZArith Bool.
From Verif Require Import model.Scrape proof.ScrapeProofs.
Import ListNotations.
Open Scope Z_scope.

(* A failed scrape stores nothing but its report — for EVERY loop state (hence every history,
   with or without reference changes): all appenders but the last are rolled back; the last one
   holds staleness markers at the scrape time followed by the report samples with up = 0. *)
Theorem C37_failed_stores_nothing_but_reports :
  forall c mut rep S sp S' bs,
    do_step c mut rep S sp = (S', bs) -> step_failed c mut S sp ->
    exists total added sadded bytes,
      last_batch_shape (st_time sp) (report_vals c 0 total added sadded bytes) bs.
Proof. exact failed_step_shape. Qed.

(* When scrapeLoop.append accepts a body, after any history in scope — a condition on the body
   alone: no unparsable tail, no line whose relabeled series is rejected, and sample_limit = 0 or
   the number of samples the reference semantics stores is within sample_limit. *)
Theorem C37_accepts_iff :
  forall c mut rep h sp es bad len,
    Forall (step_ok c) h -> step_ok c sp -> st_out sp = OBody es bad len -> len <> 0 ->
    (~ step_failed c mut (state_after c mut rep h) sp <-> body_accepts c mut (st_time sp) es bad).
Proof.
  intros c mut rep h sp es bad len FH. intros.
  eapply accept_iff; eauto. now apply reachable_ginv.
Qed.

(* An accepted body, after any history in scope: one committed appender holding
   (1) exactly the samples of the reference semantics, in body order, with the relabeled label
       set, the explicit timestamp or the scrape time, and the exposed value;
   (2) a staleness marker at the scrape time for exactly the label sets tracked before and not
       tracked by this body;
   (3) the report samples up = 1, duration, scraped = lines, post-relabeling = lines kept,
       series_added, (timeout, sample_limit, body size) with the report label sets at the scrape time;
   and afterwards exactly ab_tracked of this body is tracked. *)
Theorem C37_appended_exact :
  forall c mut rep h sp es len S' bs,
    Forall (step_ok c) h -> step_ok c sp ->
    st_out sp = OBody es false len -> len <> 0 ->
    do_step c mut rep (state_after c mut rep h) sp = (S', bs) ->
    ~ step_failed c mut (state_after c mut rep h) sp ->
    exists samples markers reps sadded,
      bs = [mkBatch true (samples ++ markers ++ reps)] /\
      map app_proj samples = map samp_inj (rev (ab_samples (abs_body c mut (st_time sp) es))) /\
      Forall (fun x => a_rout x = R (a_lset x)) samples /\
      Forall (marker_at (st_time sp)) markers /\ Forall marker_ok markers /\
      (forall l, In l (map a_lset markers) <->
                 tracked (state_after c mut rep h) l /\
                 ~ In l (ab_tracked (abs_body c mut (st_time sp) es))) /\
      report_apps rep (st_time sp)
        (report_vals c 1 (ab_total (abs_body c mut (st_time sp) es))
                     (ab_added (abs_body c mut (st_time sp) es)) sadded len) reps /\
      ginv mut rep S' /\
      (forall l, tracked S' l <-> In l (ab_tracked (abs_body c mut (st_time sp) es))).
Proof.
  intros c mut rep h sp es len S' bs FH. intros.
  eapply body_step; eauto. now apply reachable_ginv.
Qed.

(* Staleness markers at scrape k+1 = series of scrape k without explicit timestamp (or any, with
   track_timestamps_staleness) minus the series of scrape k+1 — for two consecutive accepted
   bodies after any history in scope.
   PARTIAL: histories without reference changes (st_gc = []); the code path that follows a
   changed reference (updateRef/moveStaleness) is covered by the correspondence check only. *)
Theorem C37_stale_markers_partial :
  forall c mut rep h sp1 sp2 es1 len1 es2 len2 S2 bs2,
    Forall (step_ok c) h -> step_ok c sp1 -> step_ok c sp2 ->
    st_out sp1 = OBody es1 false len1 -> len1 <> 0 ->
    st_out sp2 = OBody es2 false len2 -> len2 <> 0 ->
    ~ step_failed c mut (state_after c mut rep h) sp1 ->
    ~ step_failed c mut (state_after c mut rep (h ++ [sp1])) sp2 ->
    do_step c mut rep (state_after c mut rep (h ++ [sp1])) sp2 = (S2, bs2) ->
    exists samples markers reps,
      bs2 = [mkBatch true (samples ++ markers ++ reps)] /\
      Forall (marker_at (st_time sp2)) markers /\
      (forall l, In l (map a_lset markers) <->
                 In l (ab_tracked (abs_body c mut (st_time sp1) es1)) /\
                 ~ In l (ab_tracked (abs_body c mut (st_time sp2) es2))).
Proof. exact consecutive_bodies. Qed.

(* A tracked label set is the relabeling result of a line of the body that has no explicit
   timestamp (or any line when track_timestamps_staleness is on). *)
Theorem C37_tracked_sound :
  forall c mut t es l,
    In l (ab_tracked (abs_body c mut t es)) ->
    exists en, In en es /\ mut (en_met en) = MKeep l /\ (nots c en = true \/ track_ts c = true).
Proof.
  intros c mut t es l I. unfold abs_body in I.
  destruct (ab_tracked_sound c mut t es abs0 l I) as [[]|H]; exact H.
Qed.

(* Scrape error, empty body, or the end of the run (target removed), after any history in scope:
   a staleness marker at that time for EVERY tracked label set, the report (up = 0 / up = 1 with
   zero counters / stale report samples), and nothing is tracked afterwards.
   PARTIAL as above (no reference changes). *)
Theorem C37_failure_marks_all_stale_partial :
  forall c mut rep h sp S' bs,
    Forall (step_ok c) h -> step_ok c sp -> quiet sp ->
    do_step c mut rep (state_after c mut rep h) sp = (S', bs) ->
    exists markers reps,
      bs = [mkBatch true (markers ++ reps)] /\
      Forall (marker_at (st_time sp)) markers /\ Forall marker_ok markers /\
      (forall l, In l (map a_lset markers) <-> tracked (state_after c mut rep h) l) /\
      report_apps rep (st_time sp) (quiet_vals c sp) reps /\
      ginv mut rep S' /\ (forall l, ~ tracked S' l).
Proof.
  intros c mut rep h sp S' bs FH. intros.
  eapply quiet_step; eauto. now apply reachable_ginv.
Qed.

(* REFUTED: "a scrape whose body fails to parse or exceeds a limit is treated like a failed
   scrape for staleness".  After one accepted scrape of label sets 1 and 2 (sample_limit 2), a
   body with three samples fails (limit exceeded after two samples were appended and rolled
   back); label set 1 is tracked, yet no committed appender of that scrape holds a staleness
   marker for it.  The real loop reproduces this (harness corpus case sample-limit-after-samples;
   scrape_test.go's TestScrapeLoopRunCreatesStaleMarkersOnSampleLimit pins it). *)
Theorem C37_failed_body_marks_all_refuted :
  exists c mut rep h sp,
    Forall (step_ok c) h /\ step_ok c sp /\
    step_failed c mut (state_after c mut rep h) sp /\
    tracked (state_after c mut rep h) 1 /\
    has_marker (snd (do_step c mut rep (state_after c mut rep h) sp)) 1 = false.
Proof. exact failed_body_marks_all_refuted. Qed.

(* REFUTED outside the scope above (the storage changes a reference): "markers only for series
   that stopped being exposed".  Two metric texts with one label set, both scraped; the storage
   forgets the series; the next (accepted) scrape exposes one text with an explicit timestamp under
   track_timestamps_staleness: the label set is stored AND gets a staleness marker at the scrape
   time.  Reproduced on the real loop by corpus case alias-ref-change-timestamped. *)
Theorem C37_alias_ref_change_marker_refuted :
  exists c mut rep h sp l,
    ~ step_failed c mut (state_after c mut rep h) sp /\
    has_sample (snd (do_step c mut rep (state_after c mut rep h) sp)) l = true /\
    has_marker (snd (do_step c mut rep (state_after c mut rep h) sp)) l = true.
Proof. exact alias_ref_change_marker_refuted. Qed.

(* non-vacuity: a history in scope with an accepted second body, duplicate lines, an explicit
   timestamp, non-empty tracked sets and a marker that is really emitted *)
Example C37_nonvacuous :
  Forall (step_ok nv_cfg) [nv_sp1] /\ step_ok nv_cfg nv_sp2 /\
  ~ step_failed nv_cfg rf_mut (state_after nv_cfg rf_mut rf_rep [nv_sp1]) nv_sp2 /\
  ab_tracked (abs_body nv_cfg rf_mut 1000 [mkE 1 None 5; mkE 2 None 6; mkE 2 None 7]) = [2; 1] /\
  ab_tracked (abs_body nv_cfg rf_mut 2000 [mkE 2 None 7; mkE 3 (Some 1500) 9]) = [2] /\
  has_marker (snd (do_step nv_cfg rf_mut rf_rep (state_after nv_cfg rf_mut rf_rep [nv_sp1]) nv_sp2)) 1 = true.
Proof. exact nonvacuous_example. Qed.

(* props/C04.v — property theorems for C04 (damaged on-disk data never yields wrong samples).
   Model: model/Damage.v (reader over a damaged segment / head chunk file; the open sequence of
   tsdb/db.go + Head.Init with WAL / WBL repair; appends; a second open).
   Proofs: proof/DamageProofs.v.

   The property as stated:
     forall database, damage (truncation at any byte / any one byte changed) of WAL, WBL,
     checkpoint or head chunk data:
       open fails WITHOUT removing or altering undamaged data, or
       open succeeds with contents = blocks + each log replayed up to its first damaged record
       (undamaged logs in full) + intact head chunks;
     no sample, series or value that was not written; the repaired database accepts and keeps
     new writes.
   What is proved of the model of the code as it is:
     C04_no_invention            (full)     the first open never shows a sample that is not on disk
                                            under its series' ref - for any damage of any files
     C04_reader_prefix           (full)     a damaged segment is replayed as a prefix of its records,
                                            everything before the damage included
     C04_reader_keeps_before_damage (full)  every record that ends before the damage is delivered
     C04_open_replays_prefixes   (partial)  a successful open replays checkpoint + WAL + WBL as delivered,
                                            except that a WAL error skips the WBL
     C04_failed_open_cases       (partial)  a failed open leaves blocks, checkpoint and WBL alone, and
                                            the WAL too unless the checkpoint was unreadable
   and four parts of the statement are FALSE of the model (and of the code, see notes/C04.md):
     C04_checkpoint_damage_refuted          an unreadable checkpoint makes Open fail AFTER it deleted
                                            the WAL segments
     C04_wal_repair_skips_wbl_refuted       when the WAL is repaired the (undamaged) WBL is not replayed
     C04_reopen_invention_refuted           after a repair that lost a Series record the ref is given to
                                            a new series; at the next open it shows the old series' samples
     C04_old_chunk_file_refuted             an older head chunk file cut at a chunk boundary hides
                                            samples that the WAL still has
     C04_acknowledged_append_dropped_refuted  after a repair that leaves a series without head chunk an
                                            out-of-order append is acknowledged and silently dropped *)
From Coq Require Import List ZArith Bool.
From Verif Require Import model.Damage proof.DamageProofs.
Import ListNotations.
Open Scope Z_scope.

Ltac in_list := repeat (first [left; reflexivity | right]).

(* ------------------------------------------------------------------ no invention (first open) *)
(* For every directory state d - blocks, checkpoint, WAL, WBL and head chunk files, each file
   with ANY damage (not only a single one) - if Open succeeds, every sample it shows is a block
   sample or is attributed to a series identity id through a ref such that a Series record
   (ref, id) and a sample (ref, t, v) (in a log record or a head chunk) exist in the undamaged
   data: nothing is made up, no value or timestamp is altered, no series appears from nowhere.
   No CRC hypothesis is needed: where a checksum fails to detect a change the model's result is
   OOracle, not OOk. *)
Theorem C04_no_invention :
  forall d h d' k cr cl, open d = OOk h d' k cr cl ->
  forall x, In x (contents d h) -> written d x.
Proof. exact open_no_invention. Qed.

(* a concrete database: two series declared in the WAL (the second one late), in-order samples
   in the WAL, out-of-order samples in the WBL *)
Definition no_or : oracle := mkO 5 false false.
Definition ex_wal (dm : dmg) : seg :=
  mkSeg 32768 [mkR [mkF 0 20 111] 0 (RSeries [(1, 10)]);
               mkR [mkF 27 10 222] 0 (RSamples [(1, 100, 1)]);
               mkR [mkF 44 20 333] 0 (RSeries [(2, 20)]);
               mkR [mkF 71 10 444] 0 (RSamples [(2, 200, 2)])] dm no_or.
Definition ex_wbl : seg :=
  mkSeg 32768 [mkR [mkF 0 12 555] 0 (RMarkers [(1, 0)]);
               mkR [mkF 19 10 666] 0 (RSamples [(1, 50, 3)]);
               mkR [mkF 36 12 777] 0 (RMarkers [(2, 0)]);
               mkR [mkF 55 10 888] 0 (RSamples [(2, 150, 4)])] DNone no_or.
Definition ex_disk (dm : dmg) : disk := mkD [] min_int64 None [(0, ex_wal dm)] [(0, ex_wbl)] [] 4.

Example C04_no_invention_nonvacuous :
  exists h d' , open (ex_disk DNone) = OOk h d' KNone false false /\
    contents (ex_disk DNone) h = [(10, 100, 1); (10, 50, 3); (20, 200, 2); (20, 150, 4)].
Proof. eexists; eexists; vm_compute; split; reflexivity. Qed.

(* ------------------------------------------------------------------ the reader delivers a prefix *)
(* For every segment layout, every damage (truncation at any offset, any byte set to any
   value) and every oracle: the records the reader delivers are - apart from empty records, which
   replay ignores - exactly the first k records of the segment for some k, and every record that
   lies wholly before the damage is among them (its delivery does not depend on the damage).
   Reading never continues past a record it had to give up on. *)
Theorem C04_reader_prefix :
  forall s out st, read_seg s = (out, st) ->
  exists k, (k <= length (sg_recs s))%nat /\
    strip out = strip (firstn k (seg_contents s)) /\
    (forall j r, (j < k)%nat -> nth_error (sg_recs s) j = Some r -> In (r_rec r) out).
Proof.
  intros s out st H. unfold read_seg in H.
  destruct (rd_prefix _ _ _ _ _ _ _ H) as (k & Hk & Hs & Hin).
  exists k. split; auto. split; auto. unfold seg_contents. rewrite firstn_map. exact Hs.
Qed.

(* an undamaged segment is replayed in full, without error *)
Theorem C04_undamaged_segment :
  forall s, sg_dmg s = DNone -> read_seg s = (seg_contents s, RClean).
Proof. intros s H. unfold read_seg. rewrite H. apply rd_none. Qed.

Example C04_reader_prefix_nonvacuous :
  (* a changed data byte in the third record, detected by the checksum: two records delivered *)
  read_seg (ex_wal (DByte 60 99)) = ([RSeries [(1, 10)]; RSamples [(1, 100, 1)]], RCorrupt) /\
  (* a truncation one byte into the third record's header: an empty record, no error *)
  read_seg (ex_wal (DTrunc 45)) = ([RSeries [(1, 10)]; RSamples [(1, 100, 1)]; ROther], RClean) /\
  (* one of the three unused header bits flipped: nothing happens *)
  read_seg (ex_wal (DByte 44 33)) = (seg_contents (ex_wal DNone), RClean).
Proof. vm_compute. repeat split; reflexivity. Qed.

(* ------------------------------------------------------------------ what a successful open replays *)
(* every record of a segment that ends before the damaged byte / the cut is delivered, whatever
   the damage and the oracle are *)
Theorem C04_reader_keeps_before_damage :
  forall s m, (m <= length (sg_recs s))%nat ->
  (forall j r, (j < m)%nat -> nth_error (sg_recs s) j = Some r -> dmg_lt (sg_dmg s) (r_end r) = false) ->
  exists out' st, read_seg s = (firstn m (seg_contents s) ++ out', st).
Proof.
  intros s m Hm Hb. unfold read_seg, seg_contents. rewrite firstn_map.
  apply rd_before; auto.
Qed.

(* Full statement (FALSE because of the third case, see C04_wal_repair_skips_wbl_refuted): a
   successful open yields the head obtained by replaying what each log's readers deliver
   (checkpoint, WAL, then WBL) over the head chunks that iterate.
   Proved: the checkpoint is read completely and cleanly, and exactly one of three things
   happened - (KNone) WAL and WBL read cleanly and are both replayed, the WAL directory only gains
   the fresh segment; (KWbl) the WAL is replayed completely, the WBL up to its corrupt segment's
   last good record, the WAL directory only gains the fresh segment; (KWal) the WAL is replayed up
   to its corrupt segment's last good record and the WBL is NOT replayed at all (its directory
   only gains the fresh segment).  By C04_reader_prefix each "delivered" list is a prefix of the
   segment's records, and replay ignores the empty records (replay_wal_strip / replay_wbl_strip). *)
Theorem C04_open_replays_prefixes_partial :
  forall d h d' k cr cl, open d = OOk h d' k cr cl ->
  exists cs files crecs wrecs wst,
    load_chunks (d_chunks d) = ChOk cs files cr /\
    read_log (ckpt_recs d) = (crecs, LClean) /\ read_log (d_wal d) = (wrecs, wst) /\
    let rp := replay cs (d_minvalid d) (d_cap d) (last_mmref cs) (crecs ++ wrecs) in
    ((k = KNone /\ wst = LClean /\ exists brecs, read_log (d_wbl d) = (brecs, LClean) /\
        h = gc (rp brecs) /\ d_wal d' = new_segment (d_wal d)) \/
     (k = KWbl /\ wst = LClean /\ exists brecs idx kept, read_log (d_wbl d) = (brecs, LCorrupt idx kept) /\
        h = gc (rp brecs) /\ d_wal d' = new_segment (d_wal d)) \/
     (k = KWal /\ exists idx kept, wst = LCorrupt idx kept /\ h = gc (rp []) /\
        d_wbl d' = (if 0 <? d_cap d then new_segment (d_wbl d) else d_wbl d))).
Proof. exact open_ok_shape. Qed.

Example C04_open_replays_nonvacuous :
  (* a cut in the middle of the WBL's last record: WAL in full, WBL up to the cut, WBL repaired *)
  exists h d', open (mkD [] min_int64 None [(0, ex_wal DNone)]
                         [(0, mkSeg 32768 (sg_recs ex_wbl) (DTrunc 60) no_or)] [] 4) = OOk h d' KWbl false false /\
    contents (ex_disk DNone) h = [(10, 100, 1); (10, 50, 3); (20, 200, 2)] /\
    d_wbl d' = [(0, clean_seg [RMarkers [(1, 0)]; RSamples [(1, 50, 3)]; RMarkers [(2, 0)]]); (1, clean_seg [])].
Proof. eexists; eexists; vm_compute; repeat split; reflexivity. Qed.

(* ------------------------------------------------------------------ a failed open *)
(* Full statement (FALSE, see C04_checkpoint_damage_refuted): open d = OErr d' -> d' = d up to
   the two empty segments created by the open.
   Proved: whenever Open fails, blocks, checkpoint and WBL are as they were (plus the fresh empty
   WBL segment) and EITHER a head chunk file has a broken header and WAL and head chunk files are
   as they were (plus the fresh empty WAL segment), OR the checkpoint was unreadable and the WAL
   directory has lost every segment above the index of the checkpoint's bad segment.  A WAL or
   WBL read error never makes Open fail (the repair always finds its segment). *)
Theorem C04_failed_open_cases_partial :
  forall d d', open d = OErr d' ->
  let wal1 := new_segment (d_wal d) in
  let wbl1 := if 0 <? d_cap d then new_segment (d_wbl d) else d_wbl d in
  d_blocks d' = d_blocks d /\ d_ckpt d' = d_ckpt d /\ d_wbl d' = wbl1 /\
  ((load_chunks (d_chunks d) = ChFail /\ d_wal d' = wal1 /\ d_chunks d' = d_chunks d) \/
   (exists crecs cidx kept, read_log (ckpt_recs d) = (crecs, LCorrupt cidx kept) /\
      d_wal d' = filter (fun p => fst p <=? cidx) wal1)).
Proof. exact open_error_cases. Qed.

(* a database with a checkpoint (its segment 0 holds the Series records) and two WAL segments *)
Definition ex_ckpt (dm : dmg) : seg :=
  mkSeg 32768 [mkR [mkF 0 20 111] 0 (RSeries [(1, 10); (2, 20)])] dm no_or.
Definition ex_seg_a : seg := mkSeg 32768 [mkR [mkF 0 10 222] 0 (RSamples [(1, 100, 1)])] DNone no_or.
Definition ex_seg_b : seg := mkSeg 32768 [mkR [mkF 0 10 444] 0 (RSamples [(2, 200, 2)])] DNone no_or.
Definition ex_disk_ckpt (dm : dmg) : disk :=
  mkD [] min_int64 (Some (1, [(0, ex_ckpt dm)])) [(2, ex_seg_a); (3, ex_seg_b)] [] [] 0.

(* one changed byte in the checkpoint: Open returns an error, and the two undamaged WAL
   segments are gone *)
Theorem C04_checkpoint_damage_refuted :
  exists d d', (exists off v, d = ex_disk_ckpt (DByte off v)) /\
    open (ex_disk_ckpt DNone) <> open d /\
    open d = OErr d' /\ d_wal d = [(2, ex_seg_a); (3, ex_seg_b)] /\ d_wal d' = [].
Proof.
  exists (ex_disk_ckpt (DByte 10 99)). eexists. split; [exists 10, 99; reflexivity|].
  vm_compute. split; [discriminate|]. split; [reflexivity|]. split; reflexivity.
Qed.

Example C04_failed_open_nonvacuous :
  (* the undamaged checkpointed database opens and shows both samples *)
  (exists h d', open (ex_disk_ckpt DNone) = OOk h d' KNone false false /\
     contents (ex_disk_ckpt DNone) h = [(10, 100, 1); (20, 200, 2)]) /\
  (* a head chunk file with a flipped magic byte: Open fails, nothing but the fresh segment changes *)
  (exists d', open (mkD [] min_int64 None [(0, ex_wal DNone)] [] [mkCF 1 1000 [] (DByte 1 7) false] 0) = OErr d' /\
     d_wal d' = [(0, ex_wal DNone); (1, clean_seg [])]).
Proof. split; [eexists; eexists; vm_compute; split; reflexivity | eexists; vm_compute; split; reflexivity]. Qed.

(* ------------------------------------------------------------------ the WBL is skipped *)
(* Full statement (FALSE): if only the WAL is damaged, the contents after Open include every WBL
   sample of every series declared before the damage.
   Counterexample: a data byte of the LAST WAL record changes (detected by the checksum, the WAL
   is repaired, both series are declared before the damage) - the out-of-order samples of both
   series, which only the untouched WBL holds, are not in the opened database. *)
Theorem C04_wal_repair_skips_wbl_refuted :
  exists d h d' x, d = ex_disk (DByte 80 99) /\
    open d = OOk h d' KWal false false /\
    d_wbl d = [(0, ex_wbl)] /\ sg_dmg ex_wbl = DNone /\
    x = (10, 50, 3) /\ written d x /\ ~ In x (contents d h).
Proof.
  exists (ex_disk (DByte 80 99)). eexists. eexists. exists (10, 50, 3).
  split; [reflexivity|]. split; [vm_compute; reflexivity|].
  split; [reflexivity|]. split; [reflexivity|]. split; [reflexivity|]. split.
  - right. exists 1. vm_compute. split; [left; reflexivity|]. in_list.
  - vm_compute. intros [H|[]]. discriminate.
Qed.

(* ------------------------------------------------------------------ a ref is given out twice *)
(* Full statement (FALSE): after a successful open, appends, Close and a second Open, every
   sample shown was written (before the damage, or by those appends).
   Counterexample: a data byte of the Series record of series 20 (ref 2) changes; the repair
   drops that record; a series never seen before (identity 30) is appended and gets ref 2; at
   the second open the WBL sample (2, 150, 4), written to series 20, is shown as a sample of
   series 30. *)
Theorem C04_reopen_invention_refuted :
  exists d added c1 c1b c2 k2 x, d = ex_disk (DByte 60 99) /\ added = [(30, 300, 7)] /\
    scenario d added = SOk c1 KWal false c1b (R2Ok c2 k2) /\
    In x c2 /\ ~ written d x /\ ~ In x added.
Proof.
  exists (ex_disk (DByte 60 99)), [(30, 300, 7)]. eexists. eexists. eexists. eexists. exists (30, 150, 4).
  split; [reflexivity|]. split; [reflexivity|]. split; [vm_compute; reflexivity|].
  split; [vm_compute; in_list|]. split.
  - intros [H|(ref & Hd & _)]; [destruct H|]. vm_compute in Hd.
    destruct Hd as [Hd|[Hd|[]]]; inversion Hd.
  - intros [H|[]]. discriminate.
Qed.

(* the same scenario without damage keeps every write and invents nothing *)
Example C04_reopen_nonvacuous :
  exists c1 c1b c2, scenario (ex_disk DNone) [(30, 300, 7)] = SOk c1 KNone false c1b (R2Ok c2 KNone) /\
    c2 = [(10, 100, 1); (10, 50, 3); (20, 200, 2); (20, 150, 4); (30, 300, 7)].
Proof. eexists; eexists; eexists; vm_compute; split; reflexivity. Qed.

(* ------------------------------------------------------------------ an older head chunk file cut short *)
(* Full statement (FALSE): with undamaged logs, damage to head chunk files never changes the
   contents.  Counterexample (outside the property's quantifier, which truncates the NEWEST head
   chunk file only): head chunk file 1 holds two chunks of ref 1, file 2 one more; file 1 is cut
   exactly between its chunks.  No error is raised, the second chunk is gone, but the newest
   chunk still sets mmMaxTime = 60, so replay skips the WAL samples at 30 and 40. *)
Definition ex_wal_long : seg :=
  mkSeg 32768 [mkR [mkF 0 20 111] 0 (RSeries [(1, 10)]);
               mkR [mkF 27 60 222] 0 (RSamples [(1, 10, 1); (1, 20, 2); (1, 30, 3); (1, 40, 4); (1, 50, 5); (1, 60, 6); (1, 70, 7)])]
        DNone no_or.
Definition ex_chunks (dm : dmg) : list cfile :=
  [mkCF 1 1000 [mkC 8 50 4294967304 1 false 20 [(10, 1); (20, 2)];
                mkC 50 92 4294967346 1 false 40 [(30, 3); (40, 4)]] dm false;
   mkCF 2 1000 [mkC 8 50 8589934600 1 false 60 [(50, 5); (60, 6)]] DNone false].
Definition ex_disk_chunks (dm : dmg) : disk := mkD [] min_int64 None [(0, ex_wal_long)] [] (ex_chunks dm) 0.

Theorem C04_old_chunk_file_refuted :
  exists d h d', d = ex_disk_chunks (DTrunc 50) /\ open d = OOk h d' KNone false true /\
    written d (10, 30, 3) /\ ~ In (10, 30, 3) (contents d h) /\
    (exists h0 d0, open (ex_disk_chunks DNone) = OOk h0 d0 KNone false false /\
                   In (10, 30, 3) (contents (ex_disk_chunks DNone) h0)).
Proof.
  exists (ex_disk_chunks (DTrunc 50)). eexists. eexists.
  split; [reflexivity|]. split; [vm_compute; reflexivity|]. split.
  - right. exists 1. vm_compute. split; [left; reflexivity|]. in_list.
  - split.
    + vm_compute. intros H. repeat (destruct H as [H|H]; [discriminate|]). destruct H.
    + eexists. eexists. split; [vm_compute; reflexivity|]. vm_compute. in_list.
Qed.

(* ------------------------------------------------------------------ an acknowledged write is dropped *)
(* Full statement (FALSE): every sample acknowledged after a successful open is stored.
   Counterexample: the last WAL record is cut; every sample that is left lies in an m-mapped
   chunk, so the series is rebuilt without a head chunk; memSeries.appendable then takes ANY
   sample for an in-order one ("freshly created series"), the out-of-order sample (10, 25) is
   acknowledged, logged to the WAL, and ignored by memSeries.append because the newest m-mapped
   chunk is newer; the next replay skips it for the same reason. *)
Definition ex_wal_tail (dm : dmg) : seg :=
  mkSeg 32768 [mkR [mkF 0 20 111] 0 (RSeries [(1, 10)]);
               mkR [mkF 27 30 222] 0 (RSamples [(1, 10, 1); (1, 20, 2); (1, 30, 3)]);
               mkR [mkF 64 10 333] 0 (RSamples [(1, 40, 4)])] dm no_or.
Definition ex_disk_tail (dm : dmg) : disk :=
  mkD [] min_int64 None [(0, ex_wal_tail dm)] []
      [mkCF 1 1000 [mkC 8 50 4294967304 1 false 30 [(10, 1); (20, 2); (30, 3)]] DNone false] 4.

Theorem C04_acknowledged_append_dropped_refuted :
  exists d c1 c1b c2 k2, d = ex_disk_tail (DTrunc 70) /\
    scenario d [(10, 25, 9)] = SOk c1 KWal false c1b (R2Ok c2 k2) /\
    ~ In (10, 25, 9) c1b /\ ~ In (10, 25, 9) c2 /\
    (* while the undamaged database stores it *)
    (exists c1' c1b' c2' k2', scenario (ex_disk_tail DNone) [(10, 25, 9)] = SOk c1' KNone false c1b' (R2Ok c2' k2') /\
       In (10, 25, 9) c1b' /\ In (10, 25, 9) c2').
Proof.
  exists (ex_disk_tail (DTrunc 70)). eexists. eexists. eexists. eexists.
  split; [reflexivity|]. split; [vm_compute; reflexivity|]. split; [|split].
  - vm_compute. intros H. repeat (destruct H as [H|H]; [discriminate|]). destruct H.
  - vm_compute. intros H. repeat (destruct H as [H|H]; [discriminate|]). destruct H.
  - eexists. eexists. eexists. eexists. split; [vm_compute; reflexivity|]. split; vm_compute; in_list.
Qed.

(* props/C54.v — property theorems for C54 (fanout storage merges primary and secondary data
   with best-effort secondaries; commit order).  Nothing but statements; definitions are in
   model/Fanout.v, proofs and the vocabulary of the hypotheses (wf, creatable, no_late,
   late_failure, lbl_of, label_selector, rb_call, is_rollback) in proof/FanoutProofs.v.

   Full statement of the query part (NOT a theorem of the code as it is):
     forall p secs nsel currs, wf nsel p -> Forall (wf nsel) secs -> creatable p ->
       length currs = length (live_secs secs) ->
       <conclusion of C54_query_partial>
   i.e. without the hypotheses `Forall creatable secs` (no secondary fails at Querier()
   creation) and `Forall no_late secs` (no secondary fails at a Next after its first).  Both
   excluded stages are refuted below on the faithful model (C54_create_refuted,
   C54_late_failure_refuted) and reproduced on the real fanout by the harness corpus. *)
From Coq Require Import List ZArith.
From Verif Require Import model.Fanout proof.FanoutProofs.
Import ListNotations.
Open Scope Z_scope.

(* Query through a fanout whose secondaries fail, if at all, at Select or at the first Next
   (any number of them, in any of the nsel Selects, whatever Select triggered their Once):
   the querier is created, and every Select either fails with the primary's error (when the
   primary's set fails, at any step) or succeeds with exactly the merge of the primary's
   series and the series of the secondaries that failed nowhere in the query — nothing of a
   failed secondary, in any Select (all-or-nothing). *)
Theorem C54_query_partial : forall p secs nsel currs,
  wf nsel p -> Forall (wf nsel) secs -> creatable p -> Forall creatable secs ->
  Forall no_late secs -> length currs = length (live_secs secs) ->
  exists rs lv ln,
    query p secs nsel currs = ROk rs lv ln (map is_ok (p :: secs)) /\ length rs = nsel /\
    forall a r, nth_error rs a = Some r ->
      exists pc, set_at p a = Some pc /\
        match final_err pc with
        | Some e => r_errs r = [e]
        | None => r_errs r = [] /\ r_series r = expected_series pc secs a
        end.
Proof. exact query_partial. Qed.

(* ... and the failure of such a secondary is reported: its error is among the warnings of the
   Select that triggered its Once (unless the primary failed at the first Next there, in
   which case the query fails anyway). *)
Theorem C54_secondary_failure_reported : forall p secs currs j sels lv ln cu e ws r,
  nth_error (combine (live_secs secs) currs) j = Some (QOk sels lv ln, cu) ->
  find_first_fail sels = Some (e, ws) ->
  select_res p (combine (live_secs secs) currs) cu = Some r ->
  (forall pc, set_at p cu = Some pc -> first_fail pc = None) ->
  In e (r_warns r).
Proof. exact warn_reported. Qed.

(* LabelValues / LabelNames: fail exactly when the primary's call fails; otherwise the values
   are those of the primary and of every secondary whose call succeeded, every failed
   secondary's error is a warning, the primary's warnings are kept. *)
Theorem C54_label_queries : forall sel p secs, label_selector sel ->
  exists r, label_res sel p (live_secs secs) = Some r /\
    match l_fail (lbl_of sel p) with
    | Some e => snd r = Some e
    | None =>
        snd r = None
        /\ (forall v, In v (lvals r) <->
                      In v (l_vals (lbl_of sel p)) \/
                      exists s l, In s secs /\ sel s = Some l /\ l_fail l = None /\ In v (l_vals l))
        /\ (forall s l e, In s secs -> sel s = Some l -> l_fail l = Some e -> In e (lwarns r))
        /\ (forall w, In w (l_warns (lbl_of sel p)) -> In w (lwarns r))
    end.
Proof. exact label_res_spec. Qed.

(* The two excluded stages, on the faithful model (known findings). *)
Theorem C54_late_failure_refuted :
  exists p secs nsel currs rs lv ln cl r,
    wf nsel p /\ Forall (wf nsel) secs /\ creatable p /\ Forall creatable secs /\
    (forall a c, set_at p a = Some c -> final_err c = None) /\
    (exists sels l1 l2 c, In (QOk sels l1 l2) secs /\ In c sels /\ late_failure c) /\
    query p secs nsel currs = ROk rs lv ln cl /\ nth_error rs 0 = Some r /\
    r_errs r = [2101] /\ r_warns r = [] /\ In (mkSer 1 [(0, 1000); (30, 1030)]) (r_series r).
Proof. exact late_failure_refuted. Qed.

Theorem C54_create_refuted :
  exists p secs nsel currs e cl,
    wf nsel p /\ creatable p /\ In (QCreateFail e) secs /\
    query p secs nsel currs = RCreateFail e cl.
Proof. exact create_refuted. Qed.

(* Appender side.  One fanout appender session (Appender or AppenderV2) started from ANY
   contents of the stores: appends that returned nil and were committed (Commit = nil) are in
   the primary and in every secondary; Commit = nil exactly when everyone committed; a Commit
   error is the error of the first failing commit, everything before it committed and
   everything after it is rolled back; if the primary's commit fails no secondary commits and
   no store changes; Rollback rolls everyone back.  Stores only grow. *)
Theorem C54_commit : forall stores s stores' res,
  length stores = S (length (ss_secs s)) ->
  run_session stores s = (stores', res) ->
  length stores' = length stores /\ sr_stores res = stores' /\ Forall2 grows stores stores' /\
  length (sr_appends res) = length (ss_samples s) /\
  (ss_commit s = true -> sr_end res = None ->
     Forall (fun c => c = ECommitOk) (sr_calls res) /\
     forall k x ref, nth_error (ss_samples s) k = Some x ->
                     nth_error (sr_appends res) k = Some (ref, None) ->
       Forall2 (fun old new => exists d, new = old ++ d /\ exists r, In (x, r) d) stores stores') /\
  (ss_commit s = true -> forall e, sr_end res = Some e ->
     exists pre c post, ss_prim s :: ss_secs s = pre ++ c :: post /\ ac_commit c = true /\ e = e_commit c /\
       Forall (fun c => ac_commit c = false) pre /\
       map Some (sr_calls res) = map (fun _ => Some ECommitOk) pre ++ Some ECommitFail :: map (fun c => Some (snd (rb_call c))) post) /\
  (ss_commit s = true -> ac_commit (ss_prim s) = true ->
     sr_end res = Some (e_commit (ss_prim s)) /\ stores' = stores /\
     exists calls, sr_calls res = ECommitFail :: calls /\ Forall is_rollback calls) /\
  (ss_commit s = false -> stores' = stores /\ Forall is_rollback (sr_calls res)).
Proof. exact session_spec. Qed.

(* Every session of every history of sessions is such a step, so C54_commit covers all
   reachable states. *)
Theorem C54_history : forall n ss stores,
  length stores = n -> Forall (fun s => S (length (ss_secs s)) = n) ss ->
  Forall2 (fun s res => exists st st', length st = n /\ run_session st s = (st', res))
          ss (run_sessions stores ss).
Proof. exact history_spec. Qed.

(* Non-vacuity: a fanout with a secondary failing at its first Next (and at LabelValues), a
   noop secondary and a healthy one meets the hypotheses of C54_query_partial; the result has
   nothing of the failed secondary and carries its warning and error as warnings. *)
Example C54_nonvacuous :
  wf 1 wit_prim /\ Forall (wf 1) [wit_sec_first; QNoop; wit_sec_ok] /\ creatable wit_prim /\
  Forall creatable [wit_sec_first; QNoop; wit_sec_ok] /\ Forall no_late [wit_sec_first; QNoop; wit_sec_ok] /\
  sec_failed wit_sec_first = true /\
  exists lv ln cl,
  query wit_prim [wit_sec_first; QNoop; wit_sec_ok] 1 [0%nat; 0%nat] =
    ROk [mkSelRes [mkSer 0 [(0, 0); (10, 10)]; mkSer 3 [(10, 3010); (20, 3020); (30, 3030)]; mkSer 7 [(50, 7050)]]
                  [] [2102; 2101]] lv ln cl.
Proof. exact query_partial_nonvacuous. Qed.

(* Non-vacuity of C54_commit: the primary's commit fails in a session with two secondaries. *)
Example C54_commit_nonvacuous :
  let s := mkSession false (mkApp [] true false 10) [mkApp [1%nat] false false 20; mkApp [] false true 30] [1; 2; 3] true in
  run_session [[]; [(9, 9)]; []] s =
    ([[]; [(9, 9)]; []],
     mkSessRes [(1001, None); (0, Some 21); (1003, None)] (Some 12) [ECommitFail; ERollbackOk; ERollbackFail] [[]; [(9, 9)]; []]).
Proof. vm_compute. reflexivity. Qed.

(* props/C43.v — property theorems for C43 (OTLP metrics convert to Prometheus series without
   distorting values).  Nothing but statements; proofs are in proof/OtlpProofs.v. *)
From Coq Require Import List ZArith.
From Verif Require Import lib.Int64 model.Otlp proof.OtlpProofs.
Import ListNotations.
Open Scope Z_scope.

(* Re-bucketing (convertBucketsLayout, as repaired in /repo b3f28523c8): for every array of
   source bucket counts (uint64 values whose total fits the int64 deltas), every offset and
   array length for which the bucket indexes stay inside int32, and every scale-down k >= 0
   (with the OTel -> Prometheus index shift; or k = 0 without it, the custom-buckets use),
   bucket p of the emitted span/delta layout holds exactly the sum of the source buckets i
   whose target ((i + offset) >> k) + 1 (resp. i + offset) is p — for EVERY index p, so nothing
   is emitted anywhere else either.  [layout_pre_P] is the conjunction of these hypotheses. *)
Theorem C43_bucket_sums : forall cs off k adj,
  layout_pre_P cs off k adj ->
  forall p, bucket_at (buckets_of (convert_buckets_layout cs off k adj)) p = ref_sum cs off k adj p.
Proof. exact bucket_sums. Qed.

(* non-vacuity: the former defect witness meets the hypotheses, and its single target bucket
   2 receives all 12 observations *)
Example C43_bucket_sums_nonvacuous :
  layout_pre_P [0; 0; 5; 7] 0 1 true /\
  buckets_of (convert_buckets_layout [0; 0; 5; 7] 0 1 true) = [(1, 0); (2, 12)] /\
  ref_sum [0; 0; 5; 7] 0 1 true 2 = 12.
Proof. exact bucket_sums_nonvacuous. Qed.

(* convertBucketsLayout as it was before commit b3f28523c8 violates the bucket-sum property. *)
Theorem C43_bucket_sums_old_refuted :
  exists cs off k, layout_pre_P cs off k true /\
    exists p, bucket_at (buckets_of (convert_buckets_layout_old cs off k true)) p
              <> ref_sum cs off k true p.
Proof. exact old_refuted. Qed.

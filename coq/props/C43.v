(* props/C43.v — property theorems for C43 (OTLP metrics convert to Prometheus series without
   distorting values).  Nothing but statements; proofs are in proof/OtlpProofs.v. *)
From Coq Require Import List ZArith Bool.
From Verif Require Import lib.Int64 model.Otlp proof.OtlpProofs.
Import ListNotations.
Open Scope Z_scope.

(* Re-bucketing (convertBucketsLayout, as repaired in /repo b3f28523c8): for every array of
   source bucket counts (uint64 values whose total fits the int64 deltas), every offset and
   array length for which the bucket indexes stay inside int32, and every scale-down k >= 0
   (with the OTel -> Prometheus index shift; or k = 0 without it, the custom-buckets use),
   bucket p of the emitted span/delta layout holds exactly the sum of the source buckets i
   whose target ((i + offset) >> k) + 1 (resp. i + offset) is p — for EVERY index p, so nothing
   is emitted anywhere else either.  [layout_pre_P] is the conjunction of these hypotheses. *)
Theorem C43_bucket_sums : forall cs off k adj,
  layout_pre_P cs off k adj ->
  forall p, bucket_at (buckets_of (convert_buckets_layout cs off k adj)) p = ref_sum cs off k adj p.
Proof. exact bucket_sums. Qed.

(* ... and the emitted layout is a well-formed span/delta encoding: one delta per span slot, no
   negative span length, no negative offset after the first span — so its buckets have
   pairwise distinct, increasing indexes and [bucket_at] above is the count of THE bucket p. *)
Theorem C43_layout_wf : forall cs off k adj,
  layout_pre_P cs off k adj -> layout_wf (convert_buckets_layout cs off k adj) = true.
Proof. exact layout_wf_ok. Qed.

(* non-vacuity: the former defect witness meets the hypotheses, and its single target bucket
   2 receives all 12 observations *)
Example C43_bucket_sums_nonvacuous :
  layout_pre_P [0; 0; 5; 7] 0 1 true /\
  buckets_of (convert_buckets_layout [0; 0; 5; 7] 0 1 true) = [(1, 0); (2, 12)] /\
  ref_sum [0; 0; 5; 7] 0 1 true 2 = 12.
Proof. exact bucket_sums_nonvacuous. Qed.

(* convertBucketsLayout as it was before commit b3f28523c8 violates the bucket-sum property. *)
Theorem C43_bucket_sums_old_refuted :
  exists cs off k, layout_pre_P cs off k true /\
    exists p, bucket_at (buckets_of (convert_buckets_layout_old cs off k true)) p
              <> ref_sum cs off k true p.
Proof. exact old_refuted. Qed.

(* Exponential histogram data point -> native histogram (exponentialToNativeHistogram): a scale
   below -4 is rejected; otherwise the schema is min(scale, 8), the reset hint is "gauge" exactly
   for delta temporality, zero count is copied, count and sum are the data point's (sum 0 when
   unset), or both the stale marker when the point is flagged "no recorded value", and the
   positive and negative buckets are the source buckets merged 2^(scale-8) to one (C43_bucket_sums). *)
Theorem C43_exponential_histogram : forall p delta,
  int32 (e_scale p) ->
  (e_scale p < -4 -> exp_to_native true p delta = None) /\
  (-4 <= e_scale p -> exists h w, exp_to_native true p delta = Some (h, w) /\
     schema h = Z.min (e_scale p) 8 /\
     hint h = (if delta then hintGauge else hintUnknown) /\
     zcount h = e_zero p /\ custom h = [] /\
     (e_norec p = true -> hsum h = staleNaN /\ hcount h = staleNaN) /\
     (e_norec p = false -> hcount h = e_count p /\ hsum h = (if e_hassum p then e_sum p else 0)) /\
     (layout_pre_P (b_counts (e_pos p)) (b_off (e_pos p)) (scale_down (e_scale p)) true ->
        layout_wf (pspans h, pdeltas h) = true /\
        forall i, bucket_at (buckets_of (pspans h, pdeltas h)) i =
                  ref_sum (b_counts (e_pos p)) (b_off (e_pos p)) (scale_down (e_scale p)) true i) /\
     (layout_pre_P (b_counts (e_neg p)) (b_off (e_neg p)) (scale_down (e_scale p)) true ->
        layout_wf (nspans h, ndeltas h) = true /\
        forall i, bucket_at (buckets_of (nspans h, ndeltas h)) i =
                  ref_sum (b_counts (e_neg p)) (b_off (e_neg p)) (scale_down (e_scale p)) true i)).
Proof. exact exp_to_native_spec. Qed.

Example C43_exponential_histogram_nonvacuous :
  let p := mkExp 9 1 (mkB 0 [0; 0; 5; 7]) (mkB (-3) [2; 0; 0; 0; 0; 1]) 16 true 0 false 5000000 0 in
  int32 (e_scale p) /\ -4 <= e_scale p /\
  layout_pre_P (b_counts (e_pos p)) (b_off (e_pos p)) (scale_down (e_scale p)) true /\
  layout_pre_P (b_counts (e_neg p)) (b_off (e_neg p)) (scale_down (e_scale p)) true.
Proof. exact exp_nonvacuous. Qed.

(* Explicit-bucket histogram -> native histogram with custom buckets
   (explicitHistogramToCustomBucketsHistogram): bucket j of the result is element j of the bucket
   count array (and nothing outside the array), custom values are the explicit bounds, schema -53,
   hint / sum / count / stale marker as above. *)
Theorem C43_custom_buckets : forall p delta, hist_pre p ->
  let h := fst (explicit_to_custom true p delta) in
  schema h = customBucketsSchema /\ custom h = h_bounds p /\
  hint h = (if delta then hintGauge else hintUnknown) /\ zcount h = 0 /\ nspans h = [] /\ ndeltas h = [] /\
  (h_norec p = true -> hsum h = staleNaN /\ hcount h = staleNaN) /\
  (h_norec p = false -> hcount h = h_count p /\ hsum h = (if h_hassum p then h_sum p else 0)) /\
  layout_wf (pspans h, pdeltas h) = true /\
  forall j, bucket_at (buckets_of (pspans h, pdeltas h)) j =
            if (0 <=? j) && (j <? Z.of_nat (length (h_counts p))) then nth (Z.to_nat j) (h_counts p) 0 else 0.
Proof. exact explicit_to_custom_spec. Qed.

Example C43_custom_buckets_nonvacuous : hist_pre (mkHist [] [0; 3; 0; 9] 12 true 0 false 0 0).
Proof. exact hist_nonvacuous. Qed.

(* Timestamps: a nanosecond time that fits int64 becomes its millisecond (floor). *)
Theorem C43_timestamps : forall ns, 0 <= ns <= maxInt64 ->
  convert_timestamp ns = ns / 1000000 /\
  1000000 * convert_timestamp ns <= ns < 1000000 * (convert_timestamp ns + 1).
Proof. exact convert_timestamp_ms. Qed.

(* Gauge / sum number data points: one sample with the point's start time and time in ms and
   its value (double copied bit for bit, int converted by float64()), or the stale marker. *)
Theorem C43_number_points : forall p,
  num_sample p = Float SPlain (convert_timestamp (n_st p)) (convert_timestamp (n_ts p)) (num_value p) /\
  (n_norec p = true -> num_value p = staleNaN) /\
  (n_norec p = false -> forall b, n_val p = DblV b -> num_value p = b) /\
  (n_norec p = false -> forall v, n_val p = IntV v -> num_value p = float_of_Z v).
Proof. exact number_points. Qed.

(* Temporality: anything but cumulative, or delta when allowed, is rejected with an error and
   produces no sample. *)
Theorem C43_temporality_gate : forall fixed s t, temp_ok s t = false ->
  (forall pts, from_metric_gen fixed s (MSum t pts) = error_result) /\
  (forall pts, from_metric_gen fixed s (MHist t pts) = error_result) /\
  (forall pts, from_metric_gen fixed s (MExp t pts) = error_result).
Proof. exact temporality_gate. Qed.

(* props/C12.v — property theorems for C12 (counter-reset hints returned by queries are sound).
   Statements only; proofs are in proof/CounterResetHintProofs.v, the model in
   model/CounterResetHint.v.

   Vocabulary.  [P a b]: a is non-stale, has b's schema, zero threshold and custom bounds, and no
   count, zero count or bucket count (absent bucket = 0) of b is lower than in a.
   [sound_list l]: the statement of C12 on a returned list l — every non-stale sample marked
   NotCounterReset has a preceding sample in l with [P] (evaluated as [pred_ok]); it is the predicate
   the correspondence check evaluates on the real queriers' output.  [sound_tail l]: the same for every
   sample but the first.  [valid h]: bucket indices strictly increasing, bucket counts non-negative,
   custom bounds only with the custom schema (what Histogram.Validate enforces on ingestion).

   The FULL statement (all samples of every query result are sound) is FALSE of the faithful model and
   of the code: C12_first_sample_refuted and C12_deleted_chunk_start_refuted (both reproduced on the
   real DB, both recorded as known findings).  What is proved of the code for all inputs is
   C12_sound_partial (+ C12_sound_from_start).  C12_sound_if_hint_reset is about a hypothetical
   repair of tsdb.DeletedIterator, not about the code. *)
From Coq Require Import List ZArith Bool.
From Verif Require Import model.CounterResetHint proof.CounterResetHintProofs.
Import ListNotations.
Open Scope Z_scope.

(* The appendable cascade: a non-stale histogram is appended to a counter chunk only if the chunk's
   last sample is an admissible predecessor (any decrease, disappeared used bucket, layout change or
   stale predecessor makes appendable refuse or report a reset). *)
Theorem C12_appendable_cascade : forall a last h,
  inv a last -> valid h -> a_stale h = false ->
  appendable a h = (true, CNotReset) -> P last h.
Proof. exact appendable_sound. Qed.

(* For every sequence of AppendHistogram calls (any forced cuts, any valid histograms, resets, layout
   changes, stale markers, gauge samples): within one counter chunk every non-stale sample has all
   earlier samples of the chunk as admissible predecessors. *)
Theorem C12_chunk_sound : forall k ops, Forall (fun op => valid (snd op)) ops ->
  forall c, In c (run k ops) -> c_crh c <> CGauge ->
  forall l1 a l2 b l3, c_samples c = l1 ++ a :: l2 ++ b :: l3 ->
  a_stale (snd b) = false -> P (snd a) (snd b).
Proof. exact chunk_sound. Qed.

(* Reading all chunks of such a series with the chunk iterators (hint from counterResetHint(crh,
   numRead)) gives a sound list, first sample included. *)
Theorem C12_read_sound : forall k ops, Forall (fun op => valid (snd op)) ops ->
  sound_list (concat (map read_chunk (run k ops))) = true.
Proof. exact read_sound. Qed.

(* The chained merge, for every tie-breaking of its heap: if every input has strictly increasing
   timestamps and is sound for all samples but its first, the merged list is sound for every sample
   (NotCounterReset survives only for a sample that directly follows its predecessor in the same
   input iterator). *)
Theorem C12_merge_sound : forall srcs ch out,
  Forall it_ok srcs -> chain srcs ch = COk out -> sound_list out = true.
Proof. exact chain_sound. Qed.

(* PARTIAL end-to-end statement about the code.
   FULL STATEMENT (false, see the two _refuted theorems below): for any number of sources, any valid
   append histories with increasing timestamps and any keep predicate (query window, tombstones),
   every sample of the result is sound.
   PROVED: for a query window [mint, maxt] — results merged through the chained iterator (every
   tie-breaking) are sound for every sample; a single source returned as it is is sound for every
   sample but the first, and for the first one too unless it is marked.
   MISSING: the first sample of a single-source result whose range starts inside a chunk, and results
   filtered by tombstones. *)
Theorem C12_sound_partial : forall (srcs : list src) mint maxt,
  Forall src_ok srcs ->
  (forall ch out, chain (map (src_read mint maxt) srcs) ch = COk out -> sound_list out = true)
  /\ (forall s, In s srcs ->
        sound_tail (src_read mint maxt s) = true
        /\ (match src_read mint maxt s with [] => True | x :: _ => marked x = false end ->
            sound_list (src_read mint maxt s) = true)).
Proof. exact sound_partial. Qed.

(* A query whose range starts at or before the first sample of the series is sound for every sample. *)
Theorem C12_sound_from_start : forall k ops mint maxt lo,
  Forall (fun op => valid (snd op)) ops -> zincr lo (map op_time ops) -> mint <= lo + 1 ->
  sound_list (read_source (window mint maxt) (run k ops)) = true.
Proof. exact sound_from_start. Qed.

(* Refuted: the first sample of a range-restricted single-source result is marked although its
   predecessor is not in the result (counter histograms 10..50 at 1000..5000, range [3000,10000]);
   known finding first-sample-of-range-restricted-result, corpus case 5 of h_c12. *)
Theorem C12_first_sample_refuted : exists (s : src) mint maxt,
  src_ok s /\ sound_list (src_read mint maxt s) = false
  /\ match src_read mint maxt s with x :: _ => marked x = true | [] => False end.
Proof. exact first_sample_refuted. Qed.

(* Refuted: with a tombstone over the first sample of a later chunk a NON-first sample is marked
   although the counter decreased (10,20 | 5,6,7 with [2500,3500] deleted gives 10,20,6*,7);
   known finding sample-after-deleted-chunk-start, corpus case 7 of h_c12. *)
Theorem C12_deleted_chunk_start_refuted : exists (s : src) keep,
  src_ok s /\ sound_tail (read_source keep (run (fst s) (snd s))) = false.
Proof. exact deleted_chunk_start_refuted. Qed.

(* ABOUT A HYPOTHETICAL REPAIR, NOT ABOUT THE CODE: if the DeletedIterator reset a NotCounterReset
   hint to unknown for a sample it reaches by skipping deleted samples (model read_source_fixed), the
   property would hold at full strength: any sources, any keep predicate, merged or single. *)
Theorem C12_sound_if_hint_reset : forall (srcs : list src) keep,
  Forall src_ok srcs ->
  (forall ch out, chain (map (src_read_fixed keep) srcs) ch = COk out -> sound_list out = true)
  /\ (forall s, In s srcs -> sound_list (src_read_fixed keep s) = true).
Proof. exact sound_if_hint_reset. Qed.

(* the two refuting inputs through the hypothetical repair *)
Example C12_fixed_witnesses :
  map marked (read_source_fixed (window 3000 10000) (run KInt ops_grow)) = [false; true; true]
  /\ map marked (read_source_fixed keep_del (run KInt ops_reset)) = [false; true; false; true].
Proof. exact fixed_witnesses. Qed.

(* Non-vacuity: a concrete series whose read keeps four marked samples, a concrete history that cuts a
   second chunk at the reset, and a concrete merge of two overlapping windows that satisfies the
   hypotheses of C12_merge_sound and keeps marks only inside runs of one iterator. *)
Example C12_nonvacuous_read :
  map marked (concat (map read_chunk (run KInt ops_grow))) = [false; true; true; true; true]
  /\ length (run KInt ops_reset) = 2%nat.
Proof. exact nonvacuous_read. Qed.

Example C12_nonvacuous_merge : exists out,
  chain two_reads [] = COk out /\ map r_t out = [1000; 2000; 3000; 4000; 5000]
  /\ map marked out = [false; true; false; false; true] /\ Forall it_ok two_reads.
Proof. exact nonvacuous_merge. Qed.

Example C12_nonvacuous_sources : src_ok (KInt, ops_grow) /\ src_ok (KInt, ops_reset).
Proof. split; [exact ops_grow_ok|exact ops_reset_ok]. Qed.

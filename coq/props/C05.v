(* props/C05.v — C05 "Readers see whole transactions only".

   The model (model/Isolation.v) is a transition system over the atomic steps of the real code
   (ENewApp, EApply = one sample of a Commit, ECleanup = one sample of a Rollback, EClose,
   ENewReader, ECloseReader, EMmap); [run init tr = ROk st] says tr is a valid trace (every
   step's precondition held) ending in st.  All theorems quantify over ALL valid traces, i.e.
   over every interleaving of any number of appenders, rollbacks, chunk cuts (the [cut] flag of
   EApply is unconstrained), m-mapping and reader creation/closing, and over every open reader
   reading at any later moment.

   Ghost state used to state the property (not used by the modelled code): st_closed = the
   appendIDs whose closeAppend step has happened; rd_snap = st_closed at the reader's creation;
   s_owner = the appendID a sample was written with.

   FULL STATEMENT of the property (completeness half), kept here as required:
     forall tr st rd sref x, run init tr = ROk st -> In rd (st_readers st) ->
       In x (all_samples (st_series st sref)) -> In (s_owner x) (rd_snap rd) ->
       exists l, read_series rd (st_series st sref) = Some l /\ In x l
   It is FALSE of the faithful model and of the code (C05_complete_refuted; known finding
   committed-txn-hidden-behind-inflight-sample).  What holds instead is the exact
   characterisation C05_read_is_visible_prefix, from which the safety half
   (C05_no_dirty_read) holds in full and completeness / all-or-nothing hold under the side
   condition of C05_complete_partial / C05_whole_txn_partial. *)
From Coq Require Import List ZArith Bool.
From Verif Require Import model.Isolation proof.IsolationProofs proof.IsolationSeries proof.IsolationInv.
Import ListNotations.
Open Scope Z_scope.

(* Safety half, at full strength: an open reader was created by an ENewReader step of the
   trace, and whatever it returns for any series at any later moment was written by appenders
   whose closeAppend step precedes that ENewReader step (never a sample of an appender that
   had not finished committing when the reader was created; never a panic). *)
Theorem C05_no_dirty_read :
  forall tr st rd,
    run init tr = ROk st -> In rd (st_readers st) ->
    exists tr1 st1 tr2,
      tr = tr1 ++ ENewReader (rd_key rd) :: tr2 /\ run init tr1 = ROk st1 /\
      forall sref, exists l, read_series rd (st_series st sref) = Some l /\
        forall x, In x l -> In (s_owner x) (st_closed st1) /\ In (EClose (s_owner x)) tr1.
Proof. exact no_dirty_read. Qed.

(* Exact characterisation of a read: the longest prefix of the series' samples whose
   appenders were closed when the reader was created. *)
Theorem C05_read_is_visible_prefix :
  forall tr st rd sref,
    run init tr = ROk st -> In rd (st_readers st) ->
    read_series rd (st_series st sref) =
    Some (takewhile (fun x => memZ (s_owner x) (rd_snap rd)) (all_samples (st_series st sref))).
Proof. exact read_prefix. Qed.

(* The invariant the stopAfter arithmetic relies on: in every reachable state the ring is
   well formed (count <= len, first < len) and its logical contents are exactly the appendIDs
   of the newest txIDCount samples of the series, across chunk cuts, m-mapping and trimming. *)
Theorem C05_ring_alignment :
  forall tr st sref,
    run init tr = ROk st ->
    let s := st_series st sref in
    wf_ring (m_txs s) /\ (r_count (m_txs s) <= length (all_samples s))%nat /\
    ring_contents (m_txs s) = map s_owner (lastn (r_count (m_txs s)) (all_samples s)).
Proof. exact ring_alignment. Qed.

(* Trimming with the low watermark never drops an appendID a live reader still needs: every
   sample no longer covered by the ring was written by a closed appender that every open
   reader is entitled to see. *)
Theorem C05_watermark_sound :
  forall tr st sref x,
    run init tr = ROk st ->
    let s := st_series st sref in
    In x (firstn (length (all_samples s) - r_count (m_txs s)) (all_samples s)) ->
    In (s_owner x) (st_closed st) /\ forall rd, In rd (st_readers st) -> entitled rd x = true.
Proof. exact watermark_sound. Qed.

(* The completeness half is refuted: a reader created after appender 2 closed gets 2's sample
   on series 3 but not on series 1, where it sits behind a sample of the still open appender 1. *)
Theorem C05_complete_refuted :
  exists tr st rd x1 x3,
    run init tr = ROk st /\ In rd (st_readers st) /\
    In (s_owner x1) (rd_snap rd) /\ s_owner x3 = s_owner x1 /\
    In x1 (all_samples (st_series st 1)) /\ In x3 (all_samples (st_series st 3)) /\
    read_series rd (st_series st 1) = Some [] /\
    read_series rd (st_series st 3) = Some [x3].
Proof. exact complete_refuted. Qed.

(* Completeness for every sample not behind a sample the reader is not entitled to. *)
Theorem C05_complete_partial :
  forall tr st rd sref l1 x l2,
    run init tr = ROk st -> In rd (st_readers st) ->
    all_samples (st_series st sref) = l1 ++ x :: l2 ->
    In (s_owner x) (rd_snap rd) -> Forall (fun y => In (s_owner y) (rd_snap rd)) l1 ->
    exists l, read_series rd (st_series st sref) = Some l /\ In x l.
Proof. exact complete_partial. Qed.

(* All-or-nothing for every transaction none of whose series has an earlier sample of an
   appender that was still open at the reader's creation. *)
Theorem C05_whole_txn_partial :
  forall tr st rd a,
    run init tr = ROk st -> In rd (st_readers st) ->
    (forall sref l1 x l2, all_samples (st_series st sref) = l1 ++ x :: l2 -> s_owner x = a ->
                          Forall (fun y => In (s_owner y) (rd_snap rd)) l1) ->
    (In a (rd_snap rd) ->
     forall sref x, In x (all_samples (st_series st sref)) -> s_owner x = a ->
                    exists l, read_series rd (st_series st sref) = Some l /\ In x l) /\
    (~ In a (rd_snap rd) ->
     forall sref l, read_series rd (st_series st sref) = Some l -> forall x, In x l -> s_owner x <> a).
Proof. exact whole_txn_partial. Qed.

(* isolation.lowWatermark() (oldest open reader's watermark, else lowest open appendID, else
   last issued id) never decreases along a valid trace, whatever appenders and readers do. *)
Theorem C05_watermark_monotone :
  forall tr1 tr2 st1 st2,
    run init tr1 = ROk st1 -> run st1 tr2 = ROk st2 ->
    low_watermark (st_last st1) (st_open st1) (st_readers st1) <=
    low_watermark (st_last st2) (st_open st2) (st_readers st2).
Proof. exact watermark_monotone. Qed.

(* No step of a valid trace hits a Go panic (ring index / slice bounds). *)
Theorem C05_no_panic : forall tr, run init tr <> RPanic.
Proof. exact no_panic. Qed.

(* ---------------------------------------------------------------- non-vacuity *)

(* appender 1 commits two series; appender 2 is in the middle of its commit (one of two
   samples applied, ring grown and partly trimmed) when reader 7 is created; m-map and a
   chunk cut happen; the reader is open, sees 1's samples and none of 2's *)
Definition tr_ex : list ev :=
  [ENewApp; EApply 1 1 10 1000 false; EApply 1 2 10 1001 false; EClose 1;
   ENewApp; EApply 2 1 20 2000 true; ENewReader 7; EMmap 1; EApply 2 2 20 2001 false;
   ENewApp; EApply 3 1 30 3000 false; EClose 3].

Example C05_trace_nonvacuous :
  exists st rd,
    run init tr_ex = ROk st /\ In rd (st_readers st) /\ rd_snap rd = [1] /\
    map s_v (all_samples (st_series st 1)) = [1000; 2000; 3000] /\
    read_series rd (st_series st 1) = Some [mkS 10 1000 1] /\
    read_series rd (st_series st 2) = Some [mkS 10 1001 1] /\
    r_count (m_txs (st_series st 1)) = 2%nat.
Proof.
  destruct (run init tr_ex) as [st| |] eqn:E; [|vm_compute in E; discriminate|vm_compute in E; discriminate].
  exists st. vm_compute in E. injection E as <-.
  eexists (mkR 7 2 [2] 2 [1]). vm_compute. repeat split; auto.
Qed.

(* the side condition of C05_complete_partial is met non-trivially in that state: sample
   (10,1000) of the closed appender 1 has no predecessor, and is returned *)
Example C05_partial_nonvacuous :
  exists st rd x, run init tr_ex = ROk st /\ In rd (st_readers st) /\
    all_samples (st_series st 1) = [] ++ x :: [mkS 20 2000 2; mkS 30 3000 3] /\
    In (s_owner x) (rd_snap rd).
Proof.
  destruct (run init tr_ex) as [st| |] eqn:E; [|vm_compute in E; discriminate|vm_compute in E; discriminate].
  exists st. vm_compute in E. injection E as <-.
  eexists (mkR 7 2 [2] 2 [1]), (mkS 10 1000 1). vm_compute. repeat split; auto.
Qed.

(* the watermark really moves: 2 when reader 7 has just been created (appender 1 closed,
   appender 2 open), 3 after tr_ex followed by closing the reader and appender 2 *)
Example C05_watermark_moves :
  exists st1 st2,
    run init (firstn 7 tr_ex) = ROk st1 /\ run st1 (skipn 7 tr_ex ++ [ECloseReader 7; EClose 2]) = ROk st2 /\
    low_watermark (st_last st1) (st_open st1) (st_readers st1) = 2 /\
    low_watermark (st_last st2) (st_open st2) (st_readers st2) = 3.
Proof.
  destruct (run init (firstn 7 tr_ex)) as [st1| |] eqn:E1; [|vm_compute in E1; discriminate|vm_compute in E1; discriminate].
  exists st1.
  destruct (run st1 (skipn 7 tr_ex ++ [ECloseReader 7; EClose 2])) as [st2| |] eqn:E2.
  - exists st2. vm_compute in E1. injection E1 as <-. vm_compute in E2. injection E2 as <-.
    vm_compute. repeat split; auto.
  - vm_compute in E1. injection E1 as <-. vm_compute in E2. discriminate.
  - vm_compute in E1. injection E1 as <-. vm_compute in E2. discriminate.
Qed.

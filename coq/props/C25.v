(* props/C25.v — the property theorems of C25 (head chunks on disk are readable at once and
   after restart).  Statements only; proofs are in proof/HeadChunksProofs.v. *)
From Coq Require Import List NArith ZArith Bool.
From Verif Require Import lib.Int64 lib.Bytes lib.Varint model.HeadChunks proof.HeadChunksProofs.
Import ListNotations.
Open Scope N_scope.

(* Truncate(n) removes only files whose number is below n, never the file being written, and
   changes nothing else that a reader can see (bytes of the remaining files, the pending map,
   the chunk buffer, the writer position). *)
Theorem C25_truncate_only_older : forall s n,
  let s' := do_trunc s n in
  (forall e, In e (files s') -> In e (files s)) /\
  (forall q bs, In (q, bs) (files s) -> ~ In (q, bs) (files s') ->
      q mod 4294967296 < n /\ q <> cur_seq s) /\
  cur_seq s' = cur_seq s /\ cur_off s' = cur_off s /\ wbuf s' = wbuf s /\
  pend s' = pend s /\ queue s' = queue s /\ wk s' = wk s /\ cbuf s' = cbuf s.
Proof. exact trunc_only_older. Qed.

(* props/C25.v — the property theorems of C25 (head chunks on disk are readable at once and
   after restart).  Statements only; proofs are in proof/HeadChunksProofs.v.
   Model: model/HeadChunks.v.  The CRC is an arbitrary function [crc] everywhere: no theorem
   below assumes anything about it. *)
From Coq Require Import List NArith ZArith Bool Lia.
From Verif Require Import lib.Int64 lib.Bytes lib.Varint model.HeadChunks proof.HeadChunksProofs.
Import ListNotations.
Open Scope N_scope.

(* ------------------------------------------------------------------ read-your-write *)
(* FULL STATEMENT (false of the faithful model, see C25_read_your_write_refuted):
     for every directory fs the mapper was opened on and every schedule tr of WriteChunk / CutNewFile /
     Truncate / worker phases (pop, write+callback, leave the map) / Chunk calls, every chunk handed
     to WriteChunk whose file was not removed by a Truncate is returned by Chunk(ref) with the same
     encoding and bytes, at every later point.
   PROVED (partial): the same for every schedule in which each WriteChunk hands over a well-formed
   chunk and no Truncate lowers the highest file number of the directory while no file is open
   — except when nothing is queued and the directory becomes empty ([safe], decided step by step
   on the schedule).  What is missing is exactly the excluded Truncate, for which the statement
   is false.  [grun] threads the set G of chunks that must be readable: WriteChunk adds (ref, chunk),
   Truncate drops the refs whose file it removed.
   The schedules include the worker's single atomic actions ([SMicro], and [SSite] = run on to a
   flushBuffer pause point): flushBuffer is two steps, chkWriter.Flush() and chunkBuffer.clear(),
   and a Chunk call (or WriteChunk / CutNewFile / Truncate) may fall before, between and after
   them, for each of the three flushes of writeChunk (finalizeCurFile in cut, buffer full, chunk
   >= buffer).  The invariant behind the proof says for the intermediate states, too, that every
   acknowledged chunk is in chunkRefMap, or in chunkBuffer (current file), or in the file's bytes. *)
Theorem C25_read_your_write_partial : forall crc bufsize qmax fs tr rf r,
  safe crc bufsize qmax (init_state fs) tr ->
  lookup_ref rf (snd (grun crc bufsize qmax (init_state fs) [] tr)) = Some r ->
  do_read crc (fst (grun crc bufsize qmax (init_state fs) [] tr)) rf = RdOk (r_enc r) (r_data r).
Proof. exact read_your_write. Qed.

(* non-vacuity: a schedule with a queued, a written and a flushed-away chunk, a cut, a Truncate that
   removes a file, and reads in between; it is admissible and three refs must be (and are) readable *)
Definition ex_rec (series : N) (d : list N) : rec := mkRec series 10 20 1 false d.
Definition ex_trace : list step :=
  [SWrite (ex_rec 1 [0; 2; 9; 9]); SPop; SRead (1, 8); SProc; SRead (1, 8); SDone; SCut;
   SWrite (ex_rec 2 [0; 1; 7; 7; 7]); SPop; SProc; SDone; SWrite (ex_rec 3 [0; 3; 1; 2; 3]); STrunc 1;
   SWrite (ex_rec 4 [0; 1; 1; 1]); SPop; SProc].

Lemma ex_wf series d : u64_ok series -> (4 <= length d)%nat -> nlen d < 1000 -> wf_write (ex_rec series d).
Proof.
  intros H1 H2 H3. unfold wf_write, wf_rec, ex_rec, rec_size, max_file_size. cbn [r_series r_mint r_maxt r_enc r_ooo r_data].
  assert (nlen (put_uvarint (nlen d)) <= 5).
  { pose proof (put_uvarint_len (nlen d) ltac:(lia)). unfold nlen in *. lia. }
  repeat split; try (unfold int64, minInt64, maxInt64; lia); try assumption; try lia; try reflexivity;
    try (intros (_ & H & _); discriminate).
Qed.

Example C25_read_your_write_nonvacuous :
  safe (fun _ => 7) 65536 4 (init_state []) ex_trace /\
  map fst (snd (grun (fun _ => 7) 65536 4 (init_state []) [] ex_trace)) = [(3, 8); (2, 43); (2, 8); (1, 8)].
Proof.
  split; [|vm_compute; reflexivity].
  unfold ex_trace. cbn [safe safe_step].
  repeat split; try (apply ex_wf; [unfold u64_ok, two64N; lia | cbn; lia | cbn; lia]).
  right. left. vm_compute. reflexivity.
Qed.

(* non-vacuity for the flush window, and why the order Flush-then-clear matters: the worker stands
   just before the chkWriter.Flush() of cut()'s finalizeCurFile, one chunk lives only in
   chunkBuffer + writer.  It is readable there, readable between Flush() and clear(), readable
   after clear(); with the two actions swapped (clear first) it would not be. *)
Definition ex_flush_trace : list step :=
  [SWrite (ex_rec 1 [0; 2; 9; 9]); SPop; SProc; SDone; SCut; SWrite (ex_rec 2 [0; 1; 7; 7; 7]); SPop;
   SSite false; SRead (1, 8); SSite true; SRead (1, 8); SMicro; SRead (1, 8); SProc; SRead (1, 8)].

Example C25_flush_window_nonvacuous :
  let crc := fun _ : list N => 7 in
  safe crc 65536 4 (init_state []) ex_flush_trace /\
  snd (run crc 65536 4 (init_state []) ex_flush_trace) =
    [ORef (1, 8); ONone; OProc true 1 42 0; ONone; ONone; ORef (2, 8); ONone;
     ONone; ORead (RdOk 1 [0; 2; 9; 9]); ONone; ORead (RdOk 1 [0; 2; 9; 9]); ONone; ORead (RdOk 1 [0; 2; 9; 9]);
     OProc true 2 43 0; ORead (RdOk 1 [0; 2; 9; 9])] /\
  (let s := fst (run crc 65536 4 (init_state []) (firstn 8 ex_flush_trace)) in
   at_site 65536 false s = true /\ wbuf s <> [] /\
   do_read crc s (1, 8) = RdOk 1 [0; 2; 9; 9] /\
   do_read crc (flushout s) (1, 8) = RdOk 1 [0; 2; 9; 9] /\       (* between Flush() and clear() *)
   do_read crc (clearbuf (flushout s)) (1, 8) = RdOk 1 [0; 2; 9; 9] /\
   do_read crc (clearbuf s) (1, 8) = RdBeyond).                      (* clear() before Flush(): lost for a reader *)
Proof.
  cbn zeta. split.
  - unfold ex_flush_trace. cbn [safe safe_step].
    repeat split; try (apply ex_wf; [unfold u64_ok, two64N; lia | cbn; lia | cbn; lia]).
  - vm_compute. repeat split; try reflexivity. discriminate.
Qed.

(* the excluded schedule: the mapper is opened on files 1 and 2; a chunk is queued (it will open
   file 3); Truncate(3) — what the head passes when only that chunk is still referenced — removes
   files 1 and 2 while the job waits; the worker then cuts file 1, cutAndExpectRef fails, the
   chunk is dropped, and Chunk(ref) fails although WriteChunk returned the ref and no file with
   the ref's number was ever removed. *)
Theorem C25_read_your_write_refuted : forall crc bufsize, exists fs r rf s outs,
  wf_write r /\
  run crc bufsize 4 (init_state fs) [SWrite r; SPop; SRead rf; STrunc 3; SProc; SDone; SRead rf] = (s, outs) /\
  nth 0 outs ONone = ORef rf /\                                   (* WriteChunk returned rf *)
  nth 2 outs ONone = ORead (RdOk (r_enc r) (r_data r)) /\         (* readable while queued *)
  nth 3 outs ONone = OTrunc [1; 2] [] /\ fst rf = 3 /\            (* files 1, 2 removed; rf is in file 3 *)
  nth 4 outs ONone = OProc false 1 8 0 /\                           (* the callback gets an error *)
  nth 6 outs ONone = ORead (RdErr 6).                             (* the chunk is gone *)
Proof.
  intros crc bufsize.
  exists [(1, hc_header); (2, hc_header)], (ex_rec 3 [0; 3; 1; 2; 3]), (3, 8).
  eexists. eexists. split; [apply ex_wf; [unfold u64_ok, two64N; lia | cbn; lia | cbn; lia]|].
  split; [vm_compute; reflexivity|]. vm_compute. repeat split; reflexivity.
Qed.

(* Ref allocation (chunkPos.getNextChunkRef): for every start position (a fresh position, offset 0,
   or one at or after the header) and every run of WriteChunk calls, each optionally preceded by
   CutNewFile, with chunks that fit into an empty file: every chunk lies entirely inside its file
   (after the 8-byte header, ending at or before MaxHeadChunkFileSize = the size of the mapping),
   starts exactly where the previous one ended or at offset 8 of the next file, and a new file is
   cut exactly then — so refs strictly increase and no two chunks overlap.  WriteChunk of the
   state machine allocates with this function (do_write_alloc). *)
Theorem C25_alloc_within_file : forall steps seq off cutf,
  (off = 0 \/ 8 <= off) -> (forall st, In st steps -> 8 + snd st <= max_file_size) ->
  chain seq off (fst (alloc_run seq off cutf steps)).
Proof. exact alloc_run_chain. Qed.

Example C25_alloc_nonvacuous :
  (* 50 bytes before the limit: a 60-byte record (30 data bytes) does not fit although its data would *)
  fst (alloc_run 3 (max_file_size - 50) false [(false, size_of_len 30); (false, size_of_len 20); (true, size_of_len 1)]) =
    [(true, (4, 8), 60); (false, (4, 68), 50); (true, (5, 8), 31)] /\
  (* exact fit: no cut; one byte more: cut *)
  fst (alloc_run 3 (max_file_size - 60) false [(false, size_of_len 30)]) = [(false, (3, max_file_size - 60), 60)] /\
  fst (alloc_run 3 (max_file_size - 59) false [(false, size_of_len 30)]) = [(true, (4, 8), 60)].
Proof. vm_compute. repeat split; reflexivity. Qed.

(* Chunk(ref) served from a file: a record lying at offset off of the file's bytes is returned
   with its encoding and data (no matter what follows it) *)
Theorem C25_chunk_from_file : forall crc bs vlen off r,
  wf_rec r -> valid_enc (r_enc r) = true -> resident crc bs off r -> off + rec_size r <= vlen ->
  chunk_at crc bs vlen off = RdOk (r_enc r) (r_data r).
Proof. exact chunk_at_resident. Qed.

(* ------------------------------------------------------------------ restart *)
(* A file written by the mapper is header ++ records ++ p zero bytes (preallocation).  After a
   restart iteration yields every record in write order with its ref (file, offset), series,
   time range, sample count (first two data bytes), encoding and out-of-order flag. *)
Theorem C25_iterate_roundtrip : forall crc seq rs p, Forall wf_rec rs ->
  iterate_file crc seq (file_bytes crc rs p) = (infos seq 8 rs, EOk).
Proof. exact iterate_roundtrip. Qed.

(* Torn tail: the file cut at ANY byte k at or after the header yields exactly the records that
   end at or before k, followed by a clean end or a CorruptionErr for this file — never a chunk
   that was not completely written, never a panic.  No assumption on the CRC is used: the
   verdict follows from lengths alone. *)
Theorem C25_torn_tail : forall crc seq rs p k, Forall wf_rec rs ->
  (8 <= k <= length (file_bytes crc rs p))%nat ->
  exists e, iterate_file crc seq (firstn k (file_bytes crc rs p)) =
              (firstn (ncomplete rs (k - 8)) (infos seq 8 rs), e) /\
            (e = EOk \/ exists w, e = ECorrupt w).
Proof. exact iterate_torn. Qed.

(* a file cut inside its header is never accepted (NewChunkDiskMapper fails, or
   repairLastChunkFile deletes it when fewer than 4 bytes are left) *)
Theorem C25_torn_header : forall k bs, (k < 8)%nat -> header_ok (firstn k bs) = false.
Proof. exact (torn_header (fun _ => 0)). Qed.

Example C25_restart_nonvacuous :
  let rs := [ex_rec 1 [0; 2; 9; 9]; mkRec 5 (-3) 7 2 true [0; 1; 200; 200; 200; 0; 0]] in
  Forall wf_rec rs /\
  iterate_file (fun _ => 7) 4 (file_bytes (fun _ => 7) rs 40) =
    ([((4, 8), mkCI 1 10 20 2 1 false); ((4, 42), mkCI 5 (-3) 7 1 2 true)], EOk) /\
  ncomplete rs (60 - 8) = 1%nat /\
  iterate_file (fun _ => 7) 4 (firstn 60 (file_bytes (fun _ => 7) rs 40)) =
    ([((4, 8), mkCI 1 10 20 2 1 false)], ECorrupt 1) /\
  iterate_file (fun _ => 7) 4 (firstn 85 (file_bytes (fun _ => 7) rs 40)) =
    ([((4, 8), mkCI 1 10 20 2 1 false); ((4, 42), mkCI 5 (-3) 7 1 2 true)], EOk).
Proof.
  cbn zeta. split.
  - constructor; [|constructor; [|constructor]];
      unfold wf_rec, ex_rec; cbn [r_series r_mint r_maxt r_enc r_ooo r_data];
      (repeat split; try (unfold int64, minInt64, maxInt64, u64_ok, two64N; cbn; lia)); try (intros (H & _); discriminate).
  - vm_compute. repeat split; reflexivity.
Qed.

(* ------------------------------------------------------------------ truncation *)
(* Truncate(n) removes only files whose number is below n, never the file being written, and
   changes nothing else that a reader can see (bytes of the remaining files, the pending map,
   the chunk buffer, the writer position). *)
Theorem C25_truncate_only_older : forall s n,
  let s' := do_trunc s n in
  (forall e, In e (files s') -> In e (files s)) /\
  (forall q bs, In (q, bs) (files s) -> ~ In (q, bs) (files s') ->
      q mod 4294967296 < n /\ q <> cur_seq s) /\
  cur_seq s' = cur_seq s /\ cur_off s' = cur_off s /\ wbuf s' = wbuf s /\
  pend s' = pend s /\ queue s' = queue s /\ wk s' = wk s /\ cbuf s' = cbuf s.
Proof. exact trunc_only_older. Qed.

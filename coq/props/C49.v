(* props/C49.v — property theorems for C49 (printing a configuration and loading it back is
   lossless).  Nothing but statements; proofs are in proof/ConfigProofs.v.

   Vocabulary (model/Config.v): a configuration and a YAML document are [node] trees;
   [print] = Config.String (which fields are written: yaml tags, omitempty, isZero),
   [load] = config.Load (overlay of the document on the defaults, then the UnmarshalYAML /
   Validate hooks).  [valid c]: c is well-typed and every struct in it is a fixed point of its
   hook (it is what Load/Validate produce and accept).  [lossless c]: every field that print
   omits holds exactly the value load puts there when the key is absent.

   The property as stated ("for ANY valid configuration ... loading the printed text yields an
   equal configuration") is FALSE of the code and of the faithful model: C49_roundtrip_refuted.
   What holds is the statement restricted to lossless configurations (C49_roundtrip), and the
   restriction is exactly the per-field condition C49_omission_safe_iff: a field equal to its
   default may be omitted, a zero value that differs from the default must not be. *)
From Coq Require Import List ZArith Bool String.
From Verif Require Import model.Config proof.ConfigProofs.
Import ListNotations.

(* Round trip, concrete schema: for every valid lossless configuration, loading the printed
   configuration yields the same configuration, and printing that yields the same document. *)
Theorem C49_roundtrip : forall c, valid c = true -> lossless c = true ->
  exists c', load (print c) = Ok c' /\ c' = c /\ print c' = print c.
Proof. exact roundtrip_config_print. Qed.

(* The same for every schema and every hooks (reset, post): nothing in the argument depends on
   the Prometheus tables. *)
Theorem C49_roundtrip_generic : forall reset post t cur v,
  nodup_keys t = true -> wtb t v = true -> fixedb post t v = true -> losslessb reset t cur v = true ->
  decode reset post t cur (pr t v) = Ok v.
Proof. exact roundtrip_generic. Qed.

(* Per-field lemma 1 (default absorbing): after loading a mapping into a struct, a field whose
   key is absent holds the content of the base (the default the hook started from). *)
Theorem C49_default_absorbing : forall reset post fs bm m m',
  overlay reset post fs bm m = Ok m' ->
  forall k, lookup k m = None -> lookup k m' = lookup k (combine (keys fs) (map snd bm)).
Proof. exact overlay_absent. Qed.

(* Per-field lemma 2: a field whose key is present holds the decoded document value. *)
Theorem C49_present_decoded : forall reset post fs bm m m',
  NoDup (keys fs) -> overlay reset post fs bm m = Ok m' ->
  forall k y, lookup k m = Some y -> In k (keys fs) ->
  exists t b v, lookup k (combine (keys fs) (map snd bm)) = Some b /\ decode reset post t b y = Ok v /\
                lookup k m' = Some v.
Proof. exact overlay_present. Qed.

(* Per-field lemma 3 (when omission is safe): provided the fields that ARE written decode back,
   overlaying the printed struct on the base reproduces the struct IF AND ONLY IF every omitted
   field equals the base's field.  "Only if" is where round-trip bugs live: an omitempty field
   whose zero value differs from its default. *)
Theorem C49_omission_safe_iff : forall reset post fs bm m,
  NoDup (keys fs) -> present_ok reset post fs bm m ->
  (overlay reset post fs bm (prs fs m) = Ok m <-> omitted_agree fs bm m).
Proof. exact overlay_print_iff. Qed.

(* The unrestricted statement is refuted: remote_read with `filter_external_labels: false` loads
   to a valid configuration, print omits the field (omitempty, false is zero), the reload has
   true (DefaultRemoteReadConfig).  The witness is replayed on the real code by the harness
   (corpus case "lossy remote_read.filter_external_labels"). *)
Theorem C49_roundtrip_refuted :
  exists doc c, load doc = Ok c /\ valid c = true /\ load (print c) <> Ok c.
Proof. exact roundtrip_refuted. Qed.

(* the witness in detail: the model names the lossy field, and the second round trip is stable *)
Example C49_refuted_witness :
  load doc_rr_filter = Ok cfg_rr_filter /\ valid cfg_rr_filter = true /\
  lossless cfg_rr_filter = false /\
  lossy_fields cfg_rr_filter = [".remote_read.filter_external_labels"%string] /\
  (exists c2, load (print cfg_rr_filter) = Ok c2 /\ node_eqb c2 cfg_rr_filter = false /\
              load (print c2) = Ok c2).
Proof. exact refuted_witness. Qed.

(* Where the losses are: a well-typed configuration can be lossy only at an omitempty field whose
   load-time base is not zero (generic: lossy_in_risky_mut); for the modelled Prometheus schema
   these are the 31 fields of risky_fields (computed from the tags and defaults; listed in
   ConfigProofs.risky_fields_list).  For 14 of them validation rejects or repairs the zero value
   (the relabel action in its 6 places, protobuf_message, queue_config and its 4 positive
   settings, runtime and runtime.gogc); the other 17 are lossy on the real code (findings). *)
Theorem C49_lossy_only_risky : forall c x,
  wtb top_ty c = true -> In x (lossy_fields c) -> In x risky_fields.
Proof. exact lossy_only_risky. Qed.

(* Idempotence of load-after-print ("load (print (load (print c))) = load (print c)"), PARTIAL.
   Full statement: forall c, wtb top_ty c = true -> forall c1, load (print c) = Ok c1 ->
   load (print c1) = Ok c1.  Proved: the same statement for every schema whose hooks only check
   (return their argument or an error) and whose base values are valid — for ALL well-typed
   values, lossy or not — and its instances for the sections remote_read, remote_write (with
   queue_config and metadata_config), alerting (alertmanagers, relabel rules), otlp,
   scrape_configs before Validate, relabel rule lists and rule_files.  Missing: the hooks that
   fill values (GlobalConfig.UnmarshalYAML, TSDBConfig.UnmarshalYAML, ScrapeConfig.Validate and
   the top-level pass); for those idempotence is checked on every harness case (c3 = c2). *)
Theorem C49_idempotent_partial : forall t cur, In (t, cur) check_only_sections ->
  forall v v1, wtb t v = true ->
  decode reset post t cur (pr t v) = Ok v1 -> decode reset post t cur (pr t v1) = Ok v1.
Proof. exact idempotent_sections. Qed.

Theorem C49_idempotent_check_only_generic : forall reset post t cur v v1,
  nodup_keys t = true -> check_only post t -> bases_ok reset post t cur = true -> wtb t v = true ->
  decode reset post t cur (pr t v) = Ok v1 -> decode reset post t cur (pr t v1) = Ok v1.
Proof. exact idempotent_check_only. Qed.

(* non-vacuity: the lossy remote_read witness is in the domain of C49_idempotent_partial (its
   first reload differs from it, the second does not) *)
Example C49_idempotent_nonvacuous :
  exists v v1, wtb (TSeq (TPtr rr_ty)) v = true /\
               decode reset post (TSeq (TPtr rr_ty)) (NSeq []) (pr (TSeq (TPtr rr_ty)) v) = Ok v1 /\
               node_eqb v v1 = false.
Proof. exact idempotent_sections_example. Qed.

(* Non-vacuity of C49_roundtrip: a configuration with nine sections, inherited and defaulted
   values, explicit empty separator/replacement and false HTTP flags is valid and lossless. *)
Example C49_nonvacuous :
  load doc_example_ok = Ok cfg_example /\ valid cfg_example = true /\ lossless cfg_example = true.
Proof. destruct example_valid_lossless as [H1 [H2 [H3 _]]]. auto. Qed.

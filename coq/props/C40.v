(* props/C40.v — property theorems for C40 (remote write delivers every sample in order despite
   resharding and retries).  Statements only; proofs are in proof/RemoteQueueProofs.v.

   [run relab bsz nbq ext old_flush n0 ops] is the state of a queue manager started with n0 shards after ANY
   list [ops] of atomic steps of the goroutines involved (watcher: OStore / OReset / OLookup /
   OEnqueue; runShard k: OTake / OTimer / OSend with outcome Ok | Recoverable | Unrecoverable;
   stop(): OSoft, the FlushAndShutdown goroutines OFlushPush / OFlushClose, OHard when the flush
   deadline expires; start(n): OStart).  A step that is not enabled is a no-op, so every theorem
   quantifies over all interleavings, of any length, for any batch size, channel capacity, number
   of shards, external labels and any relabelling function [relab].

   fed s      = the samples Append accepted (not too old, series known and kept), in WAL order, each
                with a fresh id (its position in the feed) and the labels the series had then
   log s      = every WriteClient.Store call with its outcome, in order
   delivered  = the samples of the successful calls;  attempted = the samples of all calls
   lossy s    = a batch was abandoned (unrecoverable error, or hard shutdown at the flush deadline)
   flushrace s= runShard's timer took a q.batch that tryEnqueueingBatch had already put on the channel *)
From Coq Require Import List ZArith Bool.
From Verif Require Import model.RemoteQueue.
From Verif Require Import proof.RemoteQueueProofs.
Import ListNotations.
Open Scope Z_scope.

(* All theorems are about the code as it is now, i.e. [run .. false ..] (old_flush = false, after fix
   dca118dfcb); [run .. true ..] is the code before that fix, kept for C40_no_dup_old_refuted. *)

(* Every sample, per series in WAL order.  For all interleavings in which no batch is abandoned
   (the property's "failures recover within the flush deadline"): at every moment the accepted
   samples of a series are exactly the delivered ones followed by the ones still queued in the
   series' single shard / in flight / pending in Append, in order -- whatever the reshards,
   however often sends fail recoverably -- and once nothing is queued any more,
   delivered = accepted. *)
Theorem C40_per_series_exact : forall relab bsz nbq ext n0 ops r, (0 < n0)%nat ->
  let s := run relab bsz nbq ext false n0 ops in
  lossy s = false ->
  fr r (fed s) = fr r (delivered (log s)) ++ outstanding s r
  /\ (quiescent s = true -> fr r (fed s) = fr r (delivered (log s))).
Proof. exact per_series_exact. Qed.

(* Order and uniqueness in the form of the property text: ids are unique in the feed; everything
   delivered was accepted; nothing is delivered twice; per series the delivered samples are a
   prefix of the accepted ones (so in WAL order, without gaps). *)
Theorem C40_in_order_once : forall relab bsz nbq ext n0 ops, (0 < n0)%nat ->
  let s := run relab bsz nbq ext false n0 ops in
  lossy s = false ->
  NoDup (map i_id (fed s))
  /\ incl (delivered (log s)) (fed s)
  /\ NoDup (map i_id (delivered (log s)))
  /\ forall r, exists rest, fr r (fed s) = fr r (delivered (log s)) ++ rest.
Proof. exact delivered_in_order_once. Qed.

(* When no send fails (and no stop() runs into the flush deadline) no sample is sent twice. *)
Theorem C40_no_dup_without_failure : forall relab bsz nbq ext n0 ops, (0 < n0)%nat ->
  let s := run relab bsz nbq ext false n0 ops in
  all_ok (log s) = true -> lossy s = false ->
  NoDup (map i_id (attempted (log s))).
Proof. exact no_dup_without_failure. Qed.

(* Before fix dca118dfcb that statement was false: one shard, no failure, no reshard, only Stop():
   the timer of runShard fires after tryEnqueueingBatch has put the partial batch on the channel
   and before FlushAndShutdown clears q.batch; both samples are sent twice.  Reproduced on the real
   queue and on a real QueueManager before the fix; both reproducers are regression cases now. *)
Theorem C40_no_dup_old_refuted :
  exists ops, let s := run relab_id 3 1 [] true 1 ops in
    all_ok (log s) = true /\ lossy s = false /\ quiescent s = true
    /\ map i_id (attempted (log s)) = [0; 1; 0; 1].
Proof. exact no_dup_old_refuted. Qed.

(* The flush/timer race event cannot happen any more, for any interleaving. *)
Theorem C40_no_flush_race : forall relab bsz nbq ext n0 ops, (0 < n0)%nat ->
  flushrace (run relab bsz nbq ext false n0 ops) = false.
Proof. exact flushrace_run. Qed.

(* Within an epoch (between two start() calls) all queued samples of a series sit in one shard. *)
Theorem C40_one_shard_per_series : forall relab bsz nbq ext n0 ops, (0 < n0)%nat ->
  let s := run relab bsz nbq ext false n0 ops in
  lossy s = false ->
  forall k sh x, nth_error (shards s) k = Some sh -> In x (pipe sh) ->
                 shard_of (length (shards s)) (i_ref x) = k.
Proof. exact one_shard_per_series. Qed.

(* Labels, unconditionally (failures and hard shutdown included): every sample in any Store call,
   successful or not, was accepted by Append, and its labels are exactly what relabelling made of
   (a stored label set of that series + external labels). *)
Theorem C40_labels : forall relab bsz nbq ext n0 ops x,
  In x (attempted (log (run relab bsz nbq ext false n0 ops))) ->
  In x (fed (run relab bsz nbq ext false n0 ops))
  /\ exists raw seg, In (OStore (i_ref x) raw seg) ops /\ relab (add_ext ext raw) = Some (i_lbl x).
Proof. exact sent_provenance. Qed.

(* No sample of a dropped series is sent, unconditionally. *)
Theorem C40_dropped_never_sent : forall relab bsz nbq ext n0 ops r,
  (forall raw seg, In (OStore r raw seg) ops -> relab (add_ext ext raw) = None) ->
  forall x, In x (attempted (log (run relab bsz nbq ext false n0 ops))) -> i_ref x <> r.
Proof. exact dropped_never_sent. Qed.

(* enqueue never runs into a closed queue (send on closed channel) and never divides by zero. *)
Theorem C40_no_panic : forall relab bsz nbq ext n0 ops, (0 < n0)%nat ->
  panicked (run relab bsz nbq ext false n0 ops) = false.
Proof. exact no_panic. Qed.

(* Every sample handed to Append is accepted or counted in droppedSamplesTotal. *)
Theorem C40_append_accounting : forall relab bsz nbq ext n0 ops,
  let s := run relab bsz nbq ext false n0 ops in
  nextid s = Z.of_nat (length (fed s)) + n_old s + n_dropped s + n_unint s.
Proof. exact append_accounting. Qed.

(* Flush on stop.  In the model the FlushAndShutdown goroutine of a queue has no way to give up:
   its only steps are OFlushPush (tryEnqueueingBatch) and, after a successful one, OFlushClose.  On
   a full channel OFlushPush is a no-op that leaves the goroutine where it was, so the step stays
   enabled and has to be taken again (the `for q.tryEnqueueingBatch(done) { wait 1s }` loop); the
   channel cannot be closed before; once the channel has room the whole partial batch is handed
   over.  The only other exit is OHard (flush deadline), which sets [lossy].  C40_per_series_exact
   (delivered = accepted at quiescence when not lossy) rests on exactly this: a state in which a
   queue was closed with its partial batch dropped is not reachable.  That the loop is actually
   taken until it succeeds (fairness / liveness) is not a Coq theorem; it is covered by the tie:
   scripts in which FlushAndShutdown stays blocked for > 2 s on a full channel (agree), and
   concurrent runs in which the endpoint stalls or fails recoverably for > 2.5 s during
   Stop / reshard with full channels and non-empty partial batches (holds: exact delivery). *)
Theorem C40_flush_retries_until_enqueued : forall nbq sh, sh_fl sh = FNone ->
  (q_batch (sh_q sh) <> [] -> (nbq <= length (q_chan (sh_q sh)))%nat -> sh_flushpush nbq false sh = sh)
  /\ sh_flushclose sh = sh
  /\ ((length (q_chan (sh_q sh)) < nbq)%nat ->
      let sh' := sh_flushpush nbq false sh in
      sh_fl sh' = FPushed /\ q_batch (sh_q sh') = [] /\ pipe sh' = pipe sh).
Proof.
  intros nbq sh H. split; [|split].
  - intros; apply flush_full_is_noop; auto.
  - apply close_needs_flush; auto.
  - intros; apply flush_succeeds_with_room; auto.
Qed.

(* In every reachable state, whatever the interleaving: a closed queue has no partial batch left
   behind and its flush has completed; a queue whose flush has not succeeded is still open. *)
Theorem C40_closed_only_after_flush : forall relab bsz nbq ext n0 ops k sh, (0 < n0)%nat ->
  nth_error (shards (run relab bsz nbq ext false n0 ops)) k = Some sh ->
  (q_closed (sh_q sh) = true -> sh_fl sh = FClosed /\ q_batch (sh_q sh) = [])
  /\ (sh_fl sh = FNone -> q_closed (sh_q sh) = false).
Proof. exact closed_only_after_flush. Qed.

(* Every Store call carries between 1 and MaxSamplesPerSend samples, unconditionally. *)
Theorem C40_batch_bound : forall relab bsz nbq ext, (0 < bsz)%nat -> forall n0 ops,
  batches_ok bsz (log (run relab bsz nbq ext false n0 ops)) = true.
Proof. exact batch_bound. Qed.

(* Non-vacuity: two shards, batches of two, external label 4=7, relabelling drops series with label
   5; a recoverable failure retried in place, a sample pending across a reshard to three shards,
   a too-old sample, a dropped series, an unknown series; the run ends quiescent and lossless. *)
Example C40_nonvacuous :
  let s := run relab_nv 2 1 [(4, 7)] false 2 ops_nv in
  lossy s = false /\ flushrace s = false /\ quiescent s = true /\ panicked s = false
  /\ map i_id (delivered (log s)) = [0; 2; 1; 6]
  /\ map i_id (attempted (log s)) = [0; 2; 0; 2; 1; 6]
  /\ map i_lbl (delivered (log s)) = [[(1, 1); (4, 7)]; [(1, 1); (4, 7)]; [(1, 2); (4, 7)]; [(1, 1); (4, 7)]]
  /\ length (shards s) = 3%nat
  /\ (n_old s, n_dropped s, n_unint s) = (1, 1, 1).
Proof. exact nonvacuous. Qed.

(* The interleaving of C40_no_dup_old_refuted on the code as it is now: each sample once. *)
Example C40_race_regression :
  let s := run relab_id 3 1 [] false 1 ops_race in
    all_ok (log s) = true /\ lossy s = false /\ quiescent s = true /\ flushrace s = false
    /\ map i_id (attempted (log s)) = [0; 1].
Proof. exact race_regression. Qed.

(* props/C44.v — property theorems for C44 (alert states follow the for / keep_firing_for
   semantics). Statements only; proofs are in proof/AlertingProofs.v; the model (AlertingRule.Eval,
   sendAlerts, Group.RestoreForState, CopyState at reload) and the documented reference machine
   (spec_next / spec_vec) are in model/Alerting.v.
   Times are Unix nanoseconds, [None] is Go's zero time.Time. *)
From Coq Require Import List ZArith Bool.
From Verif Require Import model.Alerting proof.AlertingProofs.
Import ListNotations.
Open Scope Z_scope.

(* 1. Refinement, for ALL histories: after any sequence of evaluations (successful or failing
   with a query error / duplicate label set / exceeded limit), notifications, reloads with other
   hold and keep_firing_for durations, restarts and for-state restores, a successful evaluation
   moves every alert instance exactly as the reference state machine [spec_next] says (first
   activity -> pending from ts; still active -> firing iff active for >= hold; absent -> pending
   dropped, firing resolved unless within keep_firing_for; resolved -> retained for the retention
   period; resolved and active again -> new pending period), and the returned ALERTS /
   ALERTS_FOR_STATE series are exactly those of the instances active afterwards once the rule is
   marked restored, and empty before. *)
Theorem C44_transitions : forall c0 ops c m ts qo limit res m' vec,
  run_world (c0, []) ops = (c, m) ->
  eval c m ts qo limit false res = (m', EvOk vec) ->
  (forall k, lookup k m' = spec_next c ts (lookup k res) (lookup k m)) /\
  vec = spec_vec c ts qo m'.
Proof. exact transitions_any_history. Qed.

(* the same for one step from any well-formed state, with the invariant preserved *)
Theorem C44_series_reflect_state : forall c m ts qo limit res m' vec,
  inv m -> eval c m ts qo limit false res = (m', EvOk vec) ->
  inv m' /\ (forall k, lookup k m' = spec_next c ts (lookup k res) (lookup k m)) /\
  vec = spec_vec c ts qo m'.
Proof. exact eval_ok_spec. Qed.

(* failing evaluations: a query error or a duplicate label set leaves the state untouched, an
   exceeded limit empties it *)
Theorem C44_failed_eval : forall c m ts qo limit qerr res m' o,
  eval c m ts qo limit qerr res = (m', o) ->
  (qerr = true -> o = EvQueryErr /\ m' = m) /\
  (qerr = false -> has_dup (map fst res) = true -> o = EvDup /\ m' = m) /\
  (o = EvLimit -> m' = [] /\ 0 < limit) /\
  (o = EvQueryErr \/ o = EvDup -> m' = m).
Proof. exact eval_errors. Qed.

(* 2. Whole evaluation histories follow the per-instance reference machine. *)
Theorem C44_history_refines : forall c es m m', inv m -> evals c m es = Some m' ->
  inv m' /\ forall k, lookup k m' = key_run c k es (lookup k m).
Proof. exact evals_refine. Qed.

(* 3. "pending from its first active evaluation, firing at the first evaluation at least 'for'
   after its activation while it stayed active": an instance without an entry (or with a resolved
   one) that is in the result of every evaluation e0, e1, ... (times never going back) has
   ActiveAt = time of e0, and is firing with FiredAt = the time of the FIRST evaluation e with
   ts(e) - ts(e0) >= hold if there is one, pending with no FiredAt otherwise. *)
Theorem C44_fires_at_first : forall c k e0 es a0,
  (a0 = None \/ exists a, a0 = Some a /\ is_active a = false) ->
  Forall (present_in k) (e0 :: es) -> mono (e_ts e0) es ->
  exists a', key_run c k (e0 :: es) a0 = Some a' /\
    match find (reaches c (e_ts e0)) (e0 :: es) with
    | Some e1 => shape a' Firing (e_ts e0) (Some (e_ts e1))
    | None => shape a' Pending (e_ts e0) None
    end.
Proof. exact fires_at_first. Qed.

(* 4. Absence. A pending alert is dropped; a firing one is resolved at once without
   keep_firing_for; with keep_firing_for the first absence opens the window, the alert stays
   firing (unchanged) over any number of absent evaluations inside the window, and the first
   evaluation at or after its end resolves it. *)
Theorem C44_absent_pending_dropped : forall c ts a, a_state a = Pending -> spec_next c ts None (Some a) = None.
Proof. exact absent_pending. Qed.

Theorem C44_absent_firing_resolved : forall c ts a, a_state a = Firing -> c_kff c <= 0 ->
  spec_next c ts None (Some a) = Some (resolve a ts).
Proof. exact absent_firing_no_keep. Qed.

Theorem C44_keep_firing_starts : forall c ts a, a_state a = Firing -> a_keepSince a = None -> 0 < c_kff c ->
  c_hold c <= ts - a_activeAt a ->
  spec_next c ts None (Some a) = Some (set_keepSince a (Some ts)).
Proof. exact keep_firing_starts. Qed.

Theorem C44_keep_firing_window : forall c k es a t1 tl,
  a_state a = Firing -> a_keepSince a = Some t1 -> 0 < c_kff c -> c_hold c <= tl - a_activeAt a ->
  mono tl es -> Forall (absent_in k) es -> Forall (fun e => e_ts e - t1 < c_kff c) es ->
  key_run c k es (Some a) = Some a.
Proof. exact keep_firing_window. Qed.

Theorem C44_keep_firing_ends : forall c ts a t1, a_state a = Firing -> a_keepSince a = Some t1 ->
  c_kff c <= ts - t1 -> spec_next c ts None (Some a) = Some (resolve a ts).
Proof. exact keep_firing_ends. Qed.

(* 5. Retention: a resolved entry is kept unchanged over every absent evaluation up to and
   including resolvedAt + 15 min, dropped by the first one later than that, and replaced by a new
   pending period when the instance is active again. *)
Theorem C44_retention : forall c k r es a,
  a_state a = Inactive -> a_resolvedAt a = Some r ->
  Forall (absent_in k) es -> Forall (fun e => e_ts e - r <= resolvedRetention) es ->
  key_run c k es (Some a) = Some a.
Proof. exact retention_kept. Qed.

Theorem C44_retention_dropped : forall c ts a r, a_state a = Inactive -> a_resolvedAt a = Some r ->
  resolvedRetention < ts - r -> spec_next c ts None (Some a) = None.
Proof. exact retention_dropped. Qed.

Theorem C44_reappears_pending : forall c ts a v, a_state a = Inactive ->
  spec_next c ts (Some v) (Some a) = Some (hold_state c ts (new_alert ts v)).
Proof. exact reappears_pending. Qed.

(* 6. Restore. RestoreForState marks the rule restored, keeps the durations, touches nothing but
   ActiveAt, and ActiveAt changes only for an instance whose last stored ALERTS_FOR_STATE sample
   inside [ts - outage tolerance, ts] is not a stale marker, and only if hold >= grace period; then
   it is [restored_activeAt], which means (C44_restore_shift): if the alert was already due to
   fire when that sample was written the stored activation time is taken (it fires at the next
   evaluation), otherwise the time still to wait after the restore is max(grace period, what
   remained when Prometheus went down). *)
Theorem C44_restore : forall c m ts tol grace st c' m',
  NoDup (map fst st) -> restore c m ts tol grace st = (c', m') ->
  c' = mkCfg (c_hold c) (c_kff c) true /\
  (forall k, lookup k m = None -> lookup k m' = None) /\
  forall k a, lookup k m = Some a ->
    exists a', lookup k m' = Some a' /\ a' = set_activeAt a (a_activeAt a') /\
      a_activeAt a' =
      match visible_sample ts tol st k with
      | Some (t, Some v) => if c_hold c <? grace then a_activeAt a
                            else restored_activeAt (c_hold c) grace ts t v
      | _ => a_activeAt a
      end.
Proof. exact restore_spec. Qed.

Theorem C44_restore_shift : forall hold grace ts t v,
  let down := Z.quot t 1000 * sec in
  let orig := v * sec in
  let remaining := hold - (down - orig) in
  let r := restored_activeAt hold grace ts t v in
  (remaining <= 0 -> r = orig) /\
  (0 < remaining -> r + hold = ts + Z.max grace remaining).
Proof. exact restored_activeAt_spec. Qed.

Theorem C44_restore_outage_tolerance : forall ts tol st k s,
  lookup k st = Some s ->
  Forall (fun tv => fst tv < tms_of_nano (ts - tol) \/ tms_of_nano ts < fst tv) s ->
  visible_sample ts tol st k = None.
Proof. exact visible_sample_out_of_tolerance. Qed.

(* 7. The state invariant holds in every reachable state. *)
Theorem C44_invariant : forall ops w, inv (snd w) -> inv (snd (run_world w ops)).
Proof. exact run_world_inv. Qed.

(* ---------- non-vacuity ---------- *)
Definition ex_cfg := mkCfg 60 120 true.      (* hold 60, keep_firing_for 120 (tiny units) *)
Definition ex_ev (ts : Z) (keys : list Z) := mkEv ts 0 0 (map (fun k => (k, 1)) keys).

(* a history with flapping: instance 7 pending at 1000, firing at 1060 (not at 1059), kept firing
   while absent at 1100 and 1200, resolved at 1220 (window from 1100 ends at 1220); instance 8
   pending at 1059 and dropped at 1100 *)
Example C44_nonvacuous_history :
  evals ex_cfg [] [ex_ev 1000 [7]; ex_ev 1059 [7; 8]; ex_ev 1060 [7]; ex_ev 1100 []; ex_ev 1200 []; ex_ev 1220 []]
  = Some [(7, mkAlert Inactive 1 1000 (Some 1060) (Some 1220) (Some 1100) None None)].
Proof. vm_compute. reflexivity. Qed.

Example C44_nonvacuous_fires :
  Forall (present_in 7) [ex_ev 1000 [7]; ex_ev 1059 [7; 8]; ex_ev 1060 [7]; ex_ev 1070 [7]] /\
  mono 1000 [ex_ev 1059 [7; 8]; ex_ev 1060 [7]; ex_ev 1070 [7]] /\
  find (reaches ex_cfg 1000) [ex_ev 1000 [7]; ex_ev 1059 [7; 8]; ex_ev 1060 [7]; ex_ev 1070 [7]] = Some (ex_ev 1060 [7]).
Proof.
  split; [|split; [simpl; repeat split; discriminate|reflexivity]].
  repeat constructor; exists 1; reflexivity.
Qed.

(* a reachable state through a reload that raises the hold duration (firing falls back to
   pending) and a restart + restore that moves ActiveAt *)
Example C44_nonvacuous_world :
  run_world (mkCfg 60 0 true, [])
    [OpEval 1000 0 0 false [(1, 5)]; OpEval 1060 0 0 false [(1, 5)]; OpSend 1060 0 10;
     OpReload 600 0 true; OpEval 1100 0 0 false [(1, 5)]]
  = (mkCfg 600 0 true, [(1, mkAlert Pending 5 1000 None None None None (Some 1100))]).
Proof. vm_compute. reflexivity. Qed.

Example C44_nonvacuous_restore :
  (* hold 30 min, grace 10 min, sample written 2 min before the restore, 5 min after activation:
     25 min remained -> fires 25 min + the 2 min outage after the original deadline *)
  let hold := 1800 * sec in let grace := 600 * sec in
  let ts := 2000 * sec in let t := 1880 * 1000 in let v := 1580 in
  restored_activeAt hold grace ts t v + hold = ts + 1500 * sec /\
  restored_activeAt hold grace ts t v = (1580 + 120) * sec.
Proof. vm_compute. split; reflexivity. Qed.

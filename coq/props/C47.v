(* props/C47.v — property theorems for C47 (service discovery converges to the latest target
   groups; no update is lost while the consumer is slow).  Statements only; proofs are in
   proof/DiscoveryProofs.v.  The transition system (`step`, `run`, `init`) is the model of
   discovery.Manager in model/Discovery.v; a trace is any interleaving of the atomic steps of
   all updaters, the sender, the consumer and ApplyConfig. *)
From Coq Require Import List ZArith Bool.
From Verif Require Import model.Discovery proof.DiscoveryProofs.
Import ListNotations.

(* Safety (no lost update), for all interleavings: in every reachable state either an update is
   still being propagated — triggerSend is armed or some updater is between receiving a batch
   and arming the trigger — or what the sender is holding (its partial or complete allGroups
   snapshot) resp., when it is idle, what the consumer last received, is exactly allGroups of
   the current state.  In particular there is no reachable state in which the consumer's view
   is stale and nothing is scheduled to repair it, however slow the consumer is. *)
Theorem C47_no_lost_update : forall tr s,
  run init tr = Some s ->
  trigger s = true \/
  (exists p, In p (providers s) /\ uidle p = false) \/
  match sender s with
  | SIdle => delivered s = allGroups (providers s) (targets s)
  | SSnap k acc => acc = fold_left (ag_prov (targets s)) (firstn k (providers s)) []
  | SHave acc => acc = allGroups (providers s) (targets s)
  | SRearm => True   (* a failed send is being repaired: the put-back of the trigger is pending *)
  end.
Proof. exact no_lost_update. Qed.

(* Convergence under a fair continuation: from any reachable state, let the system run on its
   own (no new batch, no reload, no spurious trigger; the consumer keeps receiving, i.e. every
   send attempt finds it waiting).  Every such continuation has at most `rank s` steps, and
   from whatever state it has reached, either it has converged — sender idle, trigger clear,
   all updaters idle and the last delivered map = allGroups of the current state — or a further
   fair step is enabled.  Hence every maximal fair continuation ends converged.
   This relies on the sender's put-back of the trigger after a failed send (ERearm) being
   NON-BLOCKING: it is enabled in state SRearm whatever the trigger flag is.  If it blocked when
   an updater or a reload has re-armed the trigger between ETake and the put-back, SRearm with
   trigger = true would have no enabled sender step for ever (the sender is the only reader of
   triggerSend) and the second disjunct would fail there; C47_nonvacuous goes through exactly
   this window ([...; ESend (fails); ETrig 0; ERearm; ...]). *)
Theorem C47_convergence : forall tr0 s tr s',
  run init tr0 = Some s -> fair_run s tr -> run s tr = Some s' ->
  (length tr + rank s' <= rank s)%nat /\
  (converged s' \/ exists l s'', internal l = true /\ fair s' l /\ step s' l = Some s'').
Proof. exact convergence. Qed.

(* ... and a converged state is stable: the only internal step still enabled is the consumer
   starting to wait; nothing more is delivered until the environment acts again. *)
Theorem C47_converged_stable : forall s l s',
  converged s -> internal l = true -> step s l = Some s' -> l = EWait.
Proof. exact converged_stuck. Qed.

(* The fold specification of updateGroup: after any sequence of batches the entry of a source
   is the latest group sent for that source if that group is non-empty, and absent otherwise
   (emptied sources are removed, nil entries are skipped). *)
Theorem C47_fold_spec : forall h k,
  iget k (fold_batches h) =
  match last_of k (flat h) with
  | Some g => if (0 <? gnt g)%Z then Some g else None
  | None => None
  end.
Proof. exact fold_lookup. Qed.

(* The reference fold used by the harness-side specification (`latest`) denotes the same set. *)
Theorem C47_fold_is_latest : forall h g,
  In g (map snd (fold_batches h)) <-> In g (latest h).
Proof. exact fold_is_latest. Qed.

(* m.targets is the fold of the history, for every interleaving including reloads: what is
   stored for (job j, provider p) is the fold of the batches p's updater has applied since p was
   started (plus the batch being applied right now if j was already visited) when j is one of
   p's subs, and nothing otherwise (removed subs and removed providers leave nothing behind;
   a sub added by a reload starts with a copy of the provider's current state). *)
Theorem C47_targets_are_fold : forall tr s p j,
  run init tr = Some s -> In p (providers s) ->
  inner (j, pname p) (targets s) =
  if zmem j (psubs p) then
    match pu p with
    | UBusy b rem => if zmem j rem then fold_batches (papplied p)
                     else apply_batch (fold_batches (papplied p)) b
    | _ => fold_batches (papplied p)
    end
  else [].
Proof. exact targets_are_fold. Qed.

(* What allGroups returns: an entry exactly for the jobs some provider serves (empty list if
   there are no targets), listing provider after provider the groups stored for that job. *)
Theorem C47_allgroups_spec : forall T P j,
  Forall (fun p => NoDup (psubs p)) P ->
  slook j (allGroups P T) =
  if existsb (serves j) P
  then Some (flat_map (fun p => if serves j p then map snd (inner (j, pname p) T) else []) P)
  else None.
Proof. exact allGroups_lookup. Qed.

(* End to end: once converged (which every maximal fair continuation reaches, C47_convergence),
   the map last received by the consumer has an entry exactly for the jobs of the current
   configuration, and the entry of a job lists, for every provider serving it, the latest
   non-empty group of every source (C47_fold_spec) that provider has sent since it was
   started; emptied sources, removed subs and removed providers are absent. *)
Theorem C47_converged_delivers_fold : forall tr s j,
  run init tr = Some s -> converged s ->
  slook j (delivered s) =
  if existsb (serves j) (providers s)
  then Some (flat_map (fun p => if serves j p then map snd (fold_batches (papplied p)) else [])
                      (providers s))
  else None.
Proof. exact converged_delivers_fold. Qed.

(* Non-vacuity: a reachable state with an update in flight, a failed send behind it (slow
   consumer: nothing delivered yet, trigger re-armed), and a fair continuation of it that ends
   converged with the folded groups delivered (job 3 has no targets and is delivered empty). *)
Example C47_nonvacuous :
  run init ex_prefix = Some ex_state /\
  trigger ex_state = true /\ sender ex_state = SIdle /\ delivered ex_state = [] /\
  fair_run ex_state ex_cont /\ run ex_state ex_cont = Some ex_final /\
  converged ex_final /\
  delivered ex_final = [(1%Z, [ex_g3]); (2%Z, [ex_g3; ex_g3]); (3%Z, [])].
Proof. exact ex_nonvacuous. Qed.

(* props/C39.v — property theorems for C39 (label sets behave as canonical sorted maps in
   every build).  Nothing but statements; proofs are in proof/LabelsXProofs.v.

   FULL STATEMENT (of which the theorems below prove the listed parts):
     forall ops, protocol_ok ops = true ->
       the transcripts (iteration, length, lookups, String, Equal, Compare sign) of
       run I_string ops, run I_slice ops, run I_dedupe ops are equal, every register is a
       strictly name-sorted list denoting the map the operations specify, and Builder results
       carry no empty values.
   Proved for all inputs: the stringlabels encoding is an injective representation of entry
   lists (abs o repr = id; Range/Len/Get/Has on it are the list's resp. the map's); Builder
   operation sequences have map semantics (slicelabels algorithm); the stringlabels
   Builder.Labels byte-level merge is the entry-level merge used by dedupelabels; Sort yields the
   canonical list; constructors agree across stringlabels/slicelabels on all of these.
   Also proved for all inputs: Compare and Equal of stringlabels = those of slicelabels; the
   entry-level merge (stringlabels/dedupelabels Builder.Labels) = filter+append+sort
   (slicelabels Builder.Labels) on every reachable builder state.
   NOT proved (checked only by the correspondence run, see notes/C39.md): the composition of
   these per-operation results into one induction over whole programs (run_ops) — the
   machine-level statement is therefore given `_partial`, per operation class; the dedupelabels
   symbol table (abstract in the model). *)
From Coq Require Import List ZArith Bool.
From Verif Require Import model.LabelsX proof.LabelsXProofs proof.LabelsXCompare proof.LabelsXMerge proof.LabelsXSpec.
Import ListNotations.
Open Scope Z_scope.

(* stringlabels: the length-prefixed string is a faithful representation of the entry list
   (strings shorter than 2^24 bytes): iterating / counting the encoded form gives back the
   entries, and equal data <-> equal entries (this is Equal and Bytes of that build). *)
Theorem C39_string_abs : forall ls, all_short ls ->
  exists d, encode_labels ls = Ok d /\ st_range d = Ok ls /\ st_len d = Ok (zlen ls).
Proof. exact string_abs. Qed.

Theorem C39_string_injective : forall a b da db, all_short a -> all_short b ->
  encode_labels a = Ok da -> encode_labels b = Ok db -> (da = db <-> a = b).
Proof. exact string_inj. Qed.

(* stringlabels Get/Has (first-byte peek, early exit) are the lookups of the map, on every
   well-formed (strictly name-sorted, non-empty names) label set and every name incl. "" *)
Theorem C39_string_lookup : forall ls d name, all_short ls -> wf_labels ls = true -> encode_labels ls = Ok d ->
  st_get d name = Ok (match lkp ls name with Some v => v | None => [] end) /\
  st_has d name = Ok (match lkp ls name with Some _ => true | None => false end).
Proof. exact string_lookup. Qed.

(* every Builder operation sequence (Set/Del/Keep, any names and values, in any order and
   number) on any sorted base: Labels() is strictly name-sorted, has no empty values, and
   denotes exactly the map obtained by folding the specification over the operations *)
Theorem C39_builder_map_semantics : forall base ops, strictly_sorted base = true ->
  let b := fold_left bstep ops (b_reset_sl base) in
  let r := sl_blabels (bbase b) (badd b) (bdel b) in
  strictly_sorted r = true /\ no_empty_vals r = true /\
  forall k, lkp r k = fst (fold_left spec_step ops (spec_init base)) k.
Proof. exact builder_map_semantics. Qed.

(* stringlabels Builder.Labels, working on raw bytes (copies byte ranges of the base, appends
   encoded additions), computes the encoding of the entry-level merge (the dedupelabels
   algorithm) for every base, add and del list *)
Theorem C39_builder_string_refines_entries : forall base add del, all_short base -> all_short add ->
  st_blabels (enc base) add del = Ok (enc (dd_blabels base add del)).
Proof. exact st_blabels_enc. Qed.
Theorem C39_enc_is_encode_labels : forall ls, all_short ls -> encode_labels ls = Ok (enc ls).
Proof. exact encode_labels_enc. Qed.

(* the sorted merge of stringlabels/dedupelabels and the filter+append+sort of slicelabels are
   the same function on every well-formed builder state (binv: unique pending names, sorted base) *)
Theorem C39_builder_merge_eq_filter_sort : forall b : bst, binv b ->
  dd_blabels (bbase b) (badd b) (bdel b) = sl_blabels (bbase b) (badd b) (bdel b).
Proof. exact merge_eq_filter_sort. Qed.

(* hence after ANY Builder operation sequence on a sorted base, Builder.Labels of the three
   builds coincide (stringlabels: up to its injective encoding) *)
Theorem C39_builder_all_builds_equal : forall base ops, strictly_sorted base = true ->
  let b := fold_left bstep ops (b_reset_sl base) in
  all_short (bbase b) -> all_short (badd b) ->
  l_blabels I_dedupe (bbase b) (badd b) (bdel b) = l_blabels I_slice (bbase b) (badd b) (bdel b) /\
  l_blabels I_string (enc (bbase b)) (badd b) (bdel b) = Ok (enc (sl_blabels (bbase b) (badd b) (bdel b))).
Proof. exact builder_all_builds_equal. Qed.

(* Compare of stringlabels (first differing byte of the two data strings, walk over the
   length-prefixed fields of a up to it, compare that field) has the sign of the entry-wise
   Compare of slicelabels/dedupelabels - for ALL label lists, sorted or not *)
Theorem C39_string_compare : forall la lb, all_short la -> all_short lb ->
  l_compare I_string (enc la) (enc lb) = l_compare I_slice la lb.
Proof. exact compare_string_slice. Qed.

Theorem C39_string_equal : forall la lb, all_short la -> all_short lb ->
  l_equal I_string (enc la) (enc lb) = l_equal I_slice la lb.
Proof. exact equal_string_slice. Qed.

(* ordering and equality are mutually consistent *)
Theorem C39_compare_order_laws : forall la lb,
  (sgn (sl_compare la lb) = 0 <-> la = lb) /\ sgn (sl_compare lb la) = - sgn (sl_compare la lb).
Proof. intros la lb. split; [apply compare_zero_iff_equal | apply compare_antisym]. Qed.

(* the executable specification machine that [holds] (corr/CorrC39.v) compares every build's
   registers with - m_set / m_del / m_of on strictly sorted association lists - is the finite-map
   semantics (update / delete / build) in which C39_builder_map_semantics is stated *)
Theorem C39_spec_machine_is_map :
  (forall n v m, strictly_sorted m = true ->
     strictly_sorted (CorrC39.m_set n v m) = true /\
     forall k, CorrC39.lookup (CorrC39.m_set n v m) k = upd (CorrC39.lookup m) n (Some v) k) /\
  (forall n m, strictly_sorted m = true ->
     strictly_sorted (CorrC39.m_del n m) = true /\
     forall k, CorrC39.lookup (CorrC39.m_del n m) k = upd (CorrC39.lookup m) n None k) /\
  (forall ls, nodup_names ls = true ->
     strictly_sorted (CorrC39.m_of ls) = true /\ forall k, CorrC39.lookup (CorrC39.m_of ls) k = CorrC39.lookup ls k).
Proof. exact spec_machine_is_map. Qed.

(* symbol-table rebuild = identity on every label set, in every build's model *)
Theorem C39_rebuild_symbol_table_id : forall ls, all_short ls ->
  rebuild1 I_string (enc ls) = Ok (enc ls) /\ rebuild1 I_slice ls = Ok ls /\ rebuild1 I_dedupe ls = Ok ls.
Proof. exact rebuild_identity. Qed.

(* ScratchBuilder.Sort / New: for unique names the result is the canonical sorted list of the
   same map *)
Theorem C39_sort_canonical : forall adds, nodup_names adds = true ->
  strictly_sorted (sort_labels adds) = true /\ (forall k, lkp (sort_labels adds) k = lkp adds k) /\
  (forall k, has_name k (sort_labels adds) = has_name k adds).
Proof. exact scratch_sort. Qed.

(* partial form of "the representations are observationally equal": for New/FromStrings/FromMap
   (unique non-empty names) stringlabels and slicelabels agree on Range, Len, Get and Has, and
   the result is well-formed (Compare/Equal: C39_string_compare/_equal; Builder.Labels:
   C39_builder_all_builds_equal).  Missing for the full statement: the induction composing these
   over whole programs (registers, ScratchBuilder phases), and dedupelabels' concrete symbol table. *)
Theorem C39_representations_equal_partial : forall ls, all_short ls -> nodup_names ls = true -> nonempty_names ls = true ->
  exists d, st_new ls = Ok d /\
    st_range d = Ok (sort_labels ls) /\ st_len d = Ok (zlen (sort_labels ls)) /\
    wf_labels (sort_labels ls) = true /\
    (forall k, lkp (sort_labels ls) k = lkp ls k) /\
    (forall k, st_get d k = Ok (sl_get (sort_labels ls) k) /\ st_has d k = Ok (sl_has (sort_labels ls) k)).
Proof. exact new_observations. Qed.

(* length limit of the stringlabels encoding: a name or value of 2^24 bytes or more is rejected
   (panic "String too long to encode as label."), never encoded - so every label set that
   exists in this build satisfies the hypothesis [all_short] of the theorems above.  Such
   strings are outside the domain common to the three builds (slicelabels/dedupelabels accept them). *)
Theorem C39_len_limit_rejected : forall s, two24 <= zlen s -> encode_str s = Panic.
Proof. exact encode_str_too_long. Qed.

(* The code before "fix: model/labels: stringlabels ... 2^24" violated this: sizeWhenEncoded
   accepted a string of exactly 2^24 bytes, encodeSize wrote only 24 bits, and the encoded
   label set decoded to an empty string followed by garbage. *)
Theorem C39_len_2pow24_old_refuted : exists s e, zlen s = two24 /\ encode_str_old s = Ok e /\ decode_string e = Ok ([], s).
Proof. exact len_2pow24_old_refuted. Qed.

(* "for any sequence" is false without the ScratchBuilder protocol: Add; Assign(empty); Labels *)
Theorem C39_any_sequence_refuted : exists ops tS tL,
  protocol_ok ops = false /\ run I_string [] [] ops = Ok tS /\ run I_slice [] [] ops = Ok tL /\
  map o_range (t_regs tS) <> map o_range (t_regs tL).
Proof. exact any_sequence_refuted. Qed.

(* within the protocol, the ORDER of Builder.Range after a Builder.Labels differs between builds
   (same set); the cross-build comparison therefore treats Builder.Range as a set *)
Theorem C39_builder_range_order_differs : exists ops tS tL,
  protocol_ok ops = true /\ run I_string [] [] ops = Ok tS /\ run I_slice [] [] ops = Ok tL /\
  t_events tS <> t_events tL /\ map o_range (t_regs tS) = map o_range (t_regs tL).
Proof. exact builder_range_order_differs. Qed.

(* non-vacuity *)
Example C39_nonvacuous_codec : all_short [([97], rep 300 120); ([98], [])] /\ wf_labels [([97], rep 300 120); ([98], [])] = true.
Proof. split; [repeat constructor; vm_compute; reflexivity | vm_compute; reflexivity]. Qed.
Example C39_nonvacuous_builder :
  let base := [([97], [49]); ([98], []); ([99], [51])] in
  let ops := [OBSet [98] [50]; OBDel [[97]]; OBSet [122] [57]; OBKeep [[99]]; OBSet [97] []] in
  let b := fold_left bstep ops (b_reset_sl base) in
  strictly_sorted base = true /\ sl_blabels (bbase b) (badd b) (bdel b) = [([98], [50]); ([99], [51]); ([122], [57])].
Proof. vm_compute. auto. Qed.

(* props/C45.v — property theorems for C45 (recording rules write their results and staleness
   markers).  Nothing but statements; proofs are in proof/RuleGroupProofs.v.

   The model (model/RuleGroup.v) is Group.Eval / RecordingRule.Eval / CopyState /
   cleanupStaleSeries over an abstract append-only storage; [qf] is the query function
   (ManagerOptions.QueryFunc) — every theorem holds for ANY query function, the examples and
   the correspondence check instantiate it with the instant-query evaluator [query].
   All statements quantify over arbitrary stores and group states, hence over every state
   reachable by any history of scrapes, evaluations, reloads and removals; C45_history_append_only
   lifts "is in the store" to the end of every history.

   Vocabulary: an [arec] (l, t, v, res) is one Append call of an appender with its result;
   [triple] forgets the result; [written log] are the series whose Append was accepted. *)
From Coq Require Import List ZArith Bool.
From Verif Require Import model.RuleGroup proof.RuleGroupProofs.
Import ListNotations.
Open Scope Z_scope.

(* A successful rule evaluation at query time qt (= ts - query offset) appends exactly its
   result vector, every sample stamped qt, before the markers; every Append that the storage
   accepted — result or marker — is in the store afterwards. *)
Theorem C45_results_stored : forall qf st r prev qt limit vec,
  rule_eval qf st r qt limit = Some vec ->
  exists st' log1 log2,
    eval_rule qf st r prev qt limit = (st', written log1, Some (log1 ++ log2)) /\
    map triple log1 = map (fun lz => (fst lz, qt, VNum (snd lz))) vec /\
    (forall a, In a log2 -> rec_val a = VStale) /\
    (forall a, In a (log1 ++ log2) -> rec_res a = AOk -> In (rec_ts a, rec_val a) (samples st' (rec_lbl a))).
Proof. exact results_stored. Qed.

(* ... under the rule's name and labels (rule labels have distinct names and do not set __name__). *)
Theorem C45_results_named : forall qf st r qt limit vec l z,
  rule_eval qf st r qt limit = Some vec -> In (l, z) vec ->
  ~ In name_label (map fst (r_labels r)) -> NoDup (map fst (r_labels r)) ->
  lget l name_label = Some (r_name r) /\ forall k v, In (k, v) (r_labels r) -> lget l k = Some v.
Proof. exact results_named. Qed.

(* The markers of that evaluation are exactly: series written by the previous successful
   evaluation (prev) that this one did not write, each stamped qt; and the new "previous"
   set is what this evaluation wrote. *)
Theorem C45_stale_diff : forall qf st r prev qt limit vec,
  rule_eval qf st r qt limit = Some vec ->
  exists st' log1 log2,
    eval_rule qf st r prev qt limit = (st', written log1, Some (log1 ++ log2)) /\
    map triple log1 = map (fun lz => (fst lz, qt, VNum (snd lz))) vec /\
    map triple log2 = map (fun l => (l, qt, VStale)) (vanished prev (written log1)) /\
    (forall l, In l (vanished prev (written log1)) <-> In l prev /\ ~ In l (written log1)).
Proof. exact stale_diff. Qed.

(* A failed evaluation (colliding label sets, limit) writes nothing, marks nothing, and
   leaves the "previous successful evaluation" untouched. *)
Theorem C45_failed_eval : forall qf st r prev qt limit,
  rule_eval qf st r qt limit = None -> eval_rule qf st r prev qt limit = (st, prev, None).
Proof. exact eval_rule_failed. Qed.

(* Rules are evaluated in order: the rule after [pre] is evaluated (its query included)
   against the store st1 left by [pre], and in st1 every result sample that an earlier rule
   of this very evaluation wrote successfully is what an instant selector at qt returns. *)
Theorem C45_order_dependency : forall qf gid st qt limit pre r prev post,
  exists st1 pre' ev1,
    eval_rules qf gid st qt limit 0 pre = (st1, pre', ev1) /\
    (exists rest, snd (eval_rules qf gid st qt limit 0 (pre ++ (r, prev) :: post)) =
                  ev1 ++ EvRule gid (Z.of_nat (length pre)) (snd (eval_rule qf st1 r prev qt limit)) :: rest) /\
    (forall j log a z, In (EvRule gid j (Some log)) ev1 -> In a log -> rec_res a = AOk -> rec_val a = VNum z ->
        sel_sample (samples st1 (rec_lbl a)) qt = Some z).
Proof. exact order_dependency. Qed.

(* Reload: the series of an old rule whose (name, labels) is not configured any more are
   all marked stale, at the evaluation's timestamp, by the cleanup appender of the next
   evaluation of the group (accepted markers are in the store) — and only once: no later
   evaluation opens a cleanup appender. *)
Theorem C45_removed_rule_marked : forall qf s gid from rules off lim r p l ts,
  find_group (s_groups s) gid = Some from ->
  In (r, p) (g_rules from) -> ~ In (rkey_of r) (map rkey_of rules) -> In l p ->
  let s1 := fst (step qf s (OpLoad gid rules off lim)) in
  let s2 := fst (step qf s1 (OpEval gid ts)) in
  (exists log, In (EvCleanup gid log) (snd (step qf s1 (OpEval gid ts))) /\
               In (l, ts - off, VStale) (map triple log) /\
               (forall a, In a log -> rec_res a = AOk ->
                          In (rec_ts a, rec_val a) (samples (s_store s2) (rec_lbl a)))) /\
  (forall ts' g' log', ~ In (EvCleanup g' log') (snd (step qf s2 (OpEval gid ts')))).
Proof. exact removed_rule_marked. Qed.

(* Removing a group marks every series of every one of its rules (and what was still
   waiting in staleSeries) at the removal time; the group is gone afterwards. *)
Theorem C45_removed_group_marked : forall qf s gid g ts l r p,
  find_group (s_groups s) gid = Some g -> In (r, p) (g_rules g) -> In l p ->
  let s' := fst (step qf s (OpRemove gid ts)) in
  exists log, snd (step qf s (OpRemove gid ts)) = [EvCleanup gid log] /\
              map triple log = map (fun l => (l, ts - g_offset g, VStale)) (g_stale g ++ flat_map snd (g_rules g)) /\
              In (l, ts - g_offset g, VStale) (map triple log) /\
              (forall a, In a log -> rec_res a = AOk -> In (rec_ts a, rec_val a) (samples (s_store s') (rec_lbl a))) /\
              find_group (s_groups s') gid = None.
Proof. exact removed_group_marked. Qed.

(* Whatever is in the store at some point of a history is in it at every later point. *)
Theorem C45_history_append_only : forall qf ops1 ops2 x l,
  In x (samples (s_store (fst (run qf ops1))) l) -> In x (samples (s_store (fst (run qf (ops1 ++ ops2)))) l).
Proof. exact history_append_only. Qed.

(* Concurrent evaluation: the batches of concurrentRuleEvalController.SplitGroupIntoBatches
   (over the dependency analysis of buildDependencyMap) evaluate a rule strictly after EVERY
   earlier rule of the group whose name its selector matches — also when several earlier rules
   share that name — and contain every rule.  (Within a batch rules run concurrently; batches
   run one after the other.) *)
Theorem C45_batches_respect_dependencies : forall rules i j ri rj,
  (i < j)%nat -> nth_error rules i = Some ri -> nth_error rules j = Some rj -> dep_on rj ri = true ->
  before (split_batches rules) i j.
Proof. exact batches_respect. Qed.

Theorem C45_batches_cover : forall rules i, (i < length rules)%nat -> In i (concat (split_batches rules)).
Proof. exact batches_cover. Qed.

(* base = m0;  lvl{c="x0"} = base;  lvl{c="x1"} = base;  total = sum by () (lvl):
   both lvl rules are evaluated one by one before total *)
Example C45_nonvacuous_batches :
  split_batches [mkRule 10 [] (mkExpr 0 None None 1 0 None);
                 mkRule 11 [(3, 0)] (mkExpr 10 None None 1 0 None);
                 mkRule 11 [(3, 1)] (mkExpr 10 None None 1 0 None);
                 mkRule 12 [] (mkExpr 11 None (Some []) 1 0 None)]
  = [[0]; [1]; [2]; [3]]%nat.
Proof. vm_compute. reflexivity. Qed.

(* ------------------------------------------------------------------ non-vacuity *)
Definition m0a0 : lset := [(0, 0); (1, 0)].
Definition m0a1 : lset := [(0, 0); (1, 1)].
Definition sel0 : expr := mkExpr 0 None None 1 0 None.
Definition r0 : rule := mkRule 10 [] sel0.                                   (* r0 = m0 *)
Definition r1 : rule := mkRule 11 [(3, 1)] (mkExpr 10 None None 2 1 None).   (* r1{c="x1"} = r0 * 2 + 1 *)

Definition hist1 : list op :=
  [OpLoad 0 [r0; r1] 0 0;
   OpRaw m0a0 600000 (VNum 5); OpRaw m0a1 600000 (VNum 7); OpEval 0 600000;
   OpRaw m0a0 615000 (VNum 6); OpRaw m0a1 615000 VStale; OpEval 0 615000;
   OpLoad 0 [r0] 0 0; OpRaw m0a0 630000 (VNum 6); OpEval 0 630000; OpEval 0 645000].

(* the hypotheses of C45_results_stored / C45_stale_diff are met with a non-empty vector *)
Example C45_nonvacuous_eval :
  rule_eval query (s_store (fst (run query (firstn 3 hist1)))) r0 600000 0
  = Some [([(0, 10); (1, 0)], 5); ([(0, 10); (1, 1)], 7)].
Proof. vm_compute. reflexivity. Qed.

(* order dependency: at the first evaluation r1 already sees r0's results of that timestamp;
   churn: at the second evaluation the series of m0{a="x1"} get their markers *)
Example C45_nonvacuous_history :
  snd (run query (firstn 7 hist1)) =
  [EvRaw AOk; EvRaw AOk;
   EvRule 0 0 (Some [([(0, 10); (1, 0)], 600000, VNum 5, AOk); ([(0, 10); (1, 1)], 600000, VNum 7, AOk)]);
   EvRule 0 1 (Some [([(0, 11); (1, 0); (3, 1)], 600000, VNum 11, AOk); ([(0, 11); (1, 1); (3, 1)], 600000, VNum 15, AOk)]);
   EvRaw AOk; EvRaw AOk;
   EvRule 0 0 (Some [([(0, 10); (1, 0)], 615000, VNum 6, AOk); ([(0, 10); (1, 1)], 615000, VStale, AOk)]);
   EvRule 0 1 (Some [([(0, 11); (1, 0); (3, 1)], 615000, VNum 13, AOk); ([(0, 11); (1, 1); (3, 1)], 615000, VStale, AOk)])].
Proof. vm_compute. reflexivity. Qed.

(* reload without r1: its remaining series is marked by the cleanup appender of the next
   evaluation, and not again *)
Example C45_nonvacuous_reload :
  skipn 8 (snd (run query hist1)) =
  [EvRaw AOk;
   EvRule 0 0 (Some [([(0, 10); (1, 0)], 630000, VNum 6, AOk)]);
   EvCleanup 0 [([(0, 11); (1, 0); (3, 1)], 630000, VStale, AOk)];
   EvRule 0 0 (Some [([(0, 10); (1, 0)], 645000, VNum 6, AOk)])].
Proof. vm_compute. reflexivity. Qed.

Example C45_nonvacuous_removed_rule :
  let s := fst (run query (firstn 7 hist1)) in
  exists from p, find_group (s_groups s) 0 = Some from /\ In (r1, p) (g_rules from) /\
                 ~ In (rkey_of r1) (map rkey_of [r0]) /\ In [(0, 11); (1, 0); (3, 1)] p.
Proof.
  eexists. eexists. split; [vm_compute; reflexivity|]. split; [right; left; reflexivity|].
  split; [|left; reflexivity].
  intros [H | []]. discriminate H.
Qed.

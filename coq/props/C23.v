(* props/C23.v — property C23: restart from a memory snapshot equals restart from the WAL.

   FULL STATEMENT (what the property asks), over model/Snapshot.v:
     for every history [ops] (appends in and out of order, chunk cuts, deletions, exemplars,
     compactions, restarts with the snapshot option on or off) ending in a clean shutdown with
     the snapshot enabled, with d = the durable state after that shutdown:
        query d (open true d) = query d (open false d)                                  (equiv)
        every exemplar of (open true d) was stored before the shutdown                  (exemplars)
        unusable d -> open true d = open false d                                        (fallback)
   Status:
     (fallback)   C23_bad_snapshot_falls_back — proved for every durable state.
     (exemplars)  C23_exemplars_subset, C23_exemplars_subset_history — proved (exemplar storage is
                  an oracle that never invents exemplars).
     (equiv)      NOT proved as stated.  Proved: C23_equiv_series_partial — for ONE series at a
                  clean shutdown whose chunk files followed by the snapshotted head chunk are
                  exactly the samples memSeries.append accepted from its WAL sample log (the
                  invariant of a running head), the series restored from the snapshot and the
                  series rebuilt by the WAL replay carry the same chunk files and show the same
                  in-order samples from minValidTime on, for every minValidTime, every chunk
                  cutting, every log with out-of-order / duplicate entries.  Also
                  C23_replay_is_greedy_partial (the WAL replay of a
                  series' sample log into its m-mapped chunks keeps exactly the greedy increasing
                  subsequence above mmMaxTime and minValidTime — the characterisation from which
                  equality with the snapshotted head chunk follows) and the two exchange laws
                  C23_greedy_laws it is used with.  Missing: lifting to whole heads (per-series
                  projection of the record fold, tombstone coverage) and the induction over
                  histories.  The tie checks (equiv) on every generated history instead.
     For snapshots OLDER than the end of the WAL (crash after a clean start, or the option
     switched off and on again) the statement was FALSE of the code before the fix
     /repo 5693077124 (model variant open_old): C23_outdated_snapshot_old_refuted.  The current
     model (open) follows the fixed code; the outdated-snapshot case is checked by the tie
     (histories that toggle the option) and not yet proved. *)
From Coq Require Import List ZArith Bool Lia.
From Verif Require Import model.Snapshot proof.SnapshotProofs.
Import ListNotations.
Open Scope Z_scope.

(** an unusable snapshot (none on disk, WAL behind the snapshot, decoding error, unreadable head
    chunk files) makes Init behave exactly as the WAL-only restart: same series, chunks,
    tombstones and exemplars, hence the same answer to every query — nothing is lost, nothing is
    taken from the snapshot *)
Theorem C23_bad_snapshot_falls_back : forall add d,
  unusable d -> open add true d = open add false d /\ query d (open add true d) = query d (open add false d).
Proof. intros add d H. rewrite (fallback add d H). split; reflexivity. Qed.

(** with the option off the snapshot on disk plays no role *)
Theorem C23_option_off_ignores_snapshot : forall add d,
  open add false d =
  open add true (mkD (d_mv d) (d_lastseg d) (d_cp d) (d_wal d) (d_mm d) (d_mm_ok d) None (d_ooo d) (d_blk d) (d_univ d)).
Proof. exact open_off. Qed.

(** exemplars after Init come from the snapshot in use or from exemplar records of the WAL *)
Theorem C23_exemplars_subset : forall add,
  (forall st e x, In x (add st e) -> In x st \/ x = e) ->
  forall enabled d x, In x (h_ex (open add enabled d)) ->
    (exists s, usable enabled d = Some s /\ In x (sn_ex s)) \/ wal_exemplar d x.
Proof. exact open_exemplars. Qed.

(** along a history: an exemplar present after a restart was in the storage at this shutdown
    (snapshot taken now), or in the storage when the older snapshot on disk was taken, or was
    logged by an appender before the shutdown *)
Theorem C23_exemplars_subset_history : forall add,
  (forall st e x, In x (add st e) -> In x st \/ x = e) ->
  forall s ec eo x, In x (h_ex (s_head (step add s (Restart ec eo)))) ->
    (ec = true /\ In x (h_ex (s_head s))) \/
    (exists sn, s_snap s = Some sn /\ In x (sn_ex sn)) \/
    (exists e, In e (s_wal s) /\ w_rec e = WEx (fst x) (snd x)).
Proof. exact restart_exemplars. Qed.

(** WAL replay of one series (resetSeriesWithMMappedChunks, then processWALSamples over its
    sample log [w]): the m-mapped chunks are kept and the rebuilt head chunk is the greedy
    strictly increasing subsequence, above mmMaxTime, of the samples >= minValidTime *)
Theorem C23_replay_is_greedy_partial : forall mv cs w,
  let m := fold_left (replay_sample mv) w (wal_series mv cs) in
  ms_mm m = load_chunks mv cs /\
  ms_hc m = incr (mm_max (load_chunks mv cs)) (filter (fun x => mv <=? ts x) w).
Proof.
  intros mv cs w. unfold wal_series.
  destruct (replay_fold mv (load_chunks mv cs) (mm_max (load_chunks mv cs)) w [] eq_refl) as [H1 H2].
  { intros x []. }
  cbn in H1. split; [exact H2 | exact H1].
Qed.

(** MAIN (partial: one series; see the header for what is missing) *)
Theorem C23_equiv_series_partial : forall mv old keep hc w,
  concat (old ++ keep) ++ hc = incr minInt64 w ->
  (forall c, In c (old ++ keep) -> c <> []) ->
  (forall c, In c old -> cmax c < mv) ->
  (forall c, In c keep -> mv <= cmax c) ->
  let a := snap_series mv hc (old ++ keep) in
  let b := fold_left (replay_sample mv) w (wal_series mv (old ++ keep)) in
  ms_hc a = hc /\ ms_mm a = keep /\ ms_mm b = keep /\
  filter (fun x => mv <=? ts x) (io_samples a) = filter (fun x => mv <=? ts x) (io_samples b).
Proof. exact series_equiv. Qed.

(* non-vacuity: a log with out-of-order and duplicate entries, one chunk below minValidTime, one
   chunk straddling it, a head chunk *)
Example C23_ex_series :
  let w := [(100, 1); (200, 2); (150, 3); (300, 4); (300, 5); (400, 6); (250, 7); (500, 8); (600, 9)] in
  let old := [[(100, 1); (200, 2)]] in let keep := [[(300, 4); (400, 6)]] in let hc := [(500, 8); (600, 9)] in
  concat (old ++ keep) ++ hc = incr minInt64 w /\
  (forall c, In c old -> cmax c < 350) /\ (forall c, In c keep -> 350 <= cmax c) /\
  filter (fun x => 350 <=? ts x) (io_samples (fold_left (replay_sample 350) w (wal_series 350 (old ++ keep)))) = [(400, 6); (500, 8); (600, 9)].
Proof.
  cbn zeta. split; [vm_compute; reflexivity|]. split; [|split; [|vm_compute; reflexivity]].
  - intros c [<- | []]. vm_compute. reflexivity.
  - intros c [<- | []]. vm_compute. discriminate.
Qed.

(** the two exchange laws of the greedy subsequence: starting above a higher bound = filtering the
    result; filtering the log by "t >= c" first = filtering the result *)
Theorem C23_greedy_laws : forall w lo,
  (forall lo', lo <= lo' -> incr lo' w = filter (fun x => lo' <? ts x) (incr lo w)) /\
  (forall c, filter (fun x => c <=? ts x) (incr lo w) = incr (Z.max lo (c - 1)) (filter (fun x => c <=? ts x) w)).
Proof. intros w lo. split; [intros lo'; apply incr_raise | intros c; apply incr_filter_ge]. Qed.

(* ---------------- non-vacuity ---------------- *)
Definition add_all (st : list (Z * sample)) (e : Z * sample) := st ++ [e].
Lemma add_all_incl : forall st e x, In x (add_all st e) -> In x st \/ x = e.
Proof. intros st e x H. apply in_app_or in H. destruct H as [H | [<- | []]]; auto. Qed.

(* two series, chunk cuts, an out-of-order append that the WAL replay must reject, a deletion, an
   exemplar, a restart without snapshot in the middle, positive timestamps *)
Definition ex_ops : list op :=
  [ Append 0 (100, 1); Append 1 (110, 2); Append 0 (200, 3); Cut 0 2; Append 0 (300, 4);
    Append 0 (250, 5); Delete 0 (150, 260); Exemplar 0 (300, 77); Restart false false;
    Append 0 (400, 6); Append 1 (500, 7); Cut 0 1 ].
Definition ex_d : dstate :=
  let s := run add_all ex_ops in durable s (close true s) [0; 1].

Example C23_ex_clean_shutdown :
  query ex_d (open add_all true ex_d) = [(0, [(100, 1); (300, 4); (400, 6)]); (1, [(110, 2); (500, 7)])] /\
  query ex_d (open add_all false ex_d) = query ex_d (open add_all true ex_d) /\
  usable true ex_d <> None /\
  h_ex (open add_all true ex_d) = [(0, (300, 77))].
Proof. vm_compute. repeat split; congruence. Qed.

Example C23_ex_unusable :
  let d := mkD (d_mv ex_d) 0 (d_cp ex_d) (d_wal ex_d) (d_mm ex_d) true (d_snap ex_d) (d_ooo ex_d) (d_blk ex_d) (d_univ ex_d) in
  unusable d /\ query d (open add_all true d) = [(0, [(100, 1); (300, 4); (400, 6)]); (1, [(110, 2); (500, 7)])].
Proof.
  split; [|vm_compute; reflexivity].
  right. eexists. split; [reflexivity|]. left. vm_compute. reflexivity.
Qed.

(* ---------------- outdated snapshot: false of the code BEFORE the fix ---------------- *)
(* series 0: -300 appended, clean shutdown with snapshot; restart with the option off; -200, 0, 1
   appended, shutdown without snapshot (the old one stays on disk).  Init with the option on
   loads the old snapshot and replays the WAL behind it.  Before /repo 5693077124 the restored
   memSeries had mmMaxTime = 0 (never set), so processWALSamples skipped -200 and 0
   ([open_old]); with the snapshot directory removed all four samples came back.  Since the fix
   (mmMaxTime = MinInt64 in loadChunkSnapshot, [open]) both restarts agree.  The harness corpus
   case "outdated-snapshot-nonpositive" replays this history on the real tsdb.DB as a regression
   case. *)
Definition stale_ops : list op :=
  [ Append 0 (-300, 1); Restart true false; Append 0 (-200, 2); Append 0 (0, 3); Append 0 (1, 4) ].
Definition stale_d : dstate :=
  let s := run add_all stale_ops in durable s (close false s) [0].

Theorem C23_outdated_snapshot_old_refuted :
  exists d, usable true d <> None /\ d_mm_ok d = true /\
            query d (open_old add_all true d) <> query d (open_old add_all false d).
Proof.
  exists stale_d. vm_compute. repeat split; congruence.
Qed.
Example C23_outdated_detail :
  query stale_d (open_old add_all true stale_d) = [(0, [(-300, 1); (1, 4)])] /\
  query stale_d (open_old add_all false stale_d) = [(0, [(-300, 1); (-200, 2); (0, 3); (1, 4)])] /\
  query stale_d (open add_all true stale_d) = [(0, [(-300, 1); (-200, 2); (0, 3); (1, 4)])] /\
  query stale_d (open add_all false stale_d) = query stale_d (open add_all true stale_d).
Proof. vm_compute. repeat split; reflexivity. Qed.

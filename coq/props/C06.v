(* props/C06.v — C06: queries racing with compaction see each sample exactly once.
   Statements only; proofs are in proof.CompactRaceProofs proof.CompactRaceClose.v (invariant in proof/CompactRaceInv.v). *)
From Coq Require Import List ZArith Bool.
From Verif Require Import model.CompactRace proof.CompactRaceInv proof.CompactRaceProofs proof.CompactRaceClose.
Import ListNotations.
Open Scope Z_scope.

(* For every quiescent start state and EVERY valid interleaving of the steps of head compaction,
   head truncation, out-of-order compaction / garbage collection, block compaction and block
   deletion with the steps of querier creation (split at the points where the real DB.Querier can
   be preempted), iteration and Close: every iteration of every querier returns exactly the
   committed samples of its range - none missing, none twice. *)
(* [no_view tr]: the trace contains no step of DB.CompactStaleHead / DB.CompactSelectedSeries (an
   extension beyond the maintenance kinds the property lists; for those see
   C06_view_evict_refuted below). *)
Theorem C06_exactly_once : forall s0 tr s outs,
  wf_init s0 = true -> no_view tr = true -> run s0 tr = Some (s, outs) ->
  forall q mint maxt res, In (q, mint, maxt, res) outs ->
    NoDup res /\ (forall x, In x res <-> (In x (committed s0) /\ mint <= s_t x <= maxt)).
Proof. exact exactly_once. Qed.

(* ... and if the committed samples have distinct (series, timestamp) keys, no key is returned twice *)
Theorem C06_exactly_once_keys : forall s0 tr s outs,
  wf_init s0 = true -> no_view tr = true -> run s0 tr = Some (s, outs) ->
  (forall a b, In a (committed s0) -> In b (committed s0) -> s_sid a = s_sid b -> s_t a = s_t b -> a = b) ->
  forall q mint maxt res, In (q, mint, maxt, res) outs ->
    NoDup (map (fun x => (s_sid x, s_t x)) res).
Proof. exact exactly_once_keys. Qed.

(* ---- non-vacuity ------------------------------------------------------------------------- *)

Definition ex_s0 : state :=
  mkSt [mkS 0 10 2; mkS 0 50 3; mkS 0 120 4; mkS 0 160 5; mkS 0 210 6] 10
       [mkOC None [mkS 0 30 7]] 30 30
       [mkB 0 (-100) 0 [mkS 0 (-50) 1]] [] [] [] 0 false 0 Idle [] [] [] [] false.

(* a head compaction of [0,100): querier 1 is open from before the block is written until the
   reader wait; querier 2 is created in pieces around the publication of the truncation flag and
   iterated after the memory was truncated *)
Definition ex_tr1 : list ev :=
  [EQBegin 1 0 300; EQOpenHead 1; EQFinish 1; EHWritten (Some 1) 0 100; ESwapped; ETimePub;
   EQBegin 2 0 60; EQOpenHead 2; EFlagSet; EQFinish 2; EQIter 1; EQClose 1; EAwaited; EMinSet;
   EGcDone 120 30; EQIter 2; EHeadDone; EQClose 2].

(* an out-of-order compaction: querier 1 is open across the publication of the gc reference *)
Definition ex_tr2 : list ev :=
  [EQBegin 1 0 300; EQOpenHead 1; EQFinish 1; EOStart 1; EOWritten [(1, 0, 100)]; ESwapped; EGcPub;
   EQIter 1; EQClose 1; EOAwaited; EGcDone 10 1000; EODone;
   EQBegin 2 (-60) 40; EQOpenHead 2; EQFinish 2; EQIter 2; EQClose 2].

Example ex_wf : wf_init ex_s0 = true.
Proof. vm_compute. reflexivity. Qed.

Example ex_head_compaction_valid :
  option_map (fun p => map (fun o => length (snd o)) (snd p)) (run ex_s0 ex_tr1) = Some [6%nat; 3%nat].
Proof. vm_compute. reflexivity. Qed.

Example ex_ooo_compaction_valid :
  option_map (fun p => map (fun o => length (snd o)) (snd p)) (run ex_s0 ex_tr2) = Some [6%nat; 3%nat].
Proof. vm_compute. reflexivity. Qed.

(* the reader wait of truncateMemory is not enabled while the overlapping querier 1 is open *)
Example ex_wait_blocks :
  first_bad ex_s0 [EQBegin 1 0 300; EQOpenHead 1; EQFinish 1; EHWritten (Some 1) 0 100; ESwapped;
                   ETimePub; EFlagSet; EAwaited] 0 = 7.
Proof. vm_compute. reflexivity. Qed.

(* A block is never released while a querier still reads it: in every reachable state no querier
   (open or in creation) holds a block whose pending-reader wait has returned (files released /
   deleted), and no querier ever hit ErrClosing at creation or read a released block. *)
Theorem C06_no_use_after_close : forall s0 tr s outs,
  wf_init s0 = true -> run s0 tr = Some (s, outs) ->
  failed s = false /\
  (forall x b, In x (queriers s) -> In b (q_blocks x) -> ~ In (b_id b) (closed s)).
Proof. exact no_use_after_close. Qed.

(* Maintenance finishes once the queries close: in every reachable state without queriers, the
   step at which the maintenance actor waits (Block.Close's reader wait, the swap of db.blocks
   and the publication of the gc reference under db.mtx, the reader waits of truncateMemory and
   truncateOOO) is enabled. *)
Theorem C06_progress : forall s0 tr s outs,
  wf_init s0 = true -> run s0 tr = Some (s, outs) -> queriers s = [] ->
  forall e, next_wait s = Some e -> step s e <> None.
Proof. exact progress. Qed.

(* non-vacuity of C06_progress: a reachable state with no querier in which the actor is at a wait *)
Example ex_progress_at_wait :
  option_map (fun p => (next_wait (fst p), queriers (fst p)))
             (run ex_s0 [EHWritten (Some 1) 0 100; ESwapped; ETimePub; EFlagSet]) = Some (Some EAwaited, []).
Proof. vm_compute. reflexivity. Qed.

(* non-vacuity of C06_no_use_after_close: a block compaction whose parent is held by querier 1;
   the parent can only be released after querier 1 closed *)
Definition ex_s1 : state :=
  mkSt [mkS 0 210 6] 200 [] 4611686018427387904 (-4611686018427387904)
       [mkB 0 0 100 [mkS 0 10 2]; mkB 1 100 200 [mkS 0 120 4]] [] [] [] 0 false 0 Idle [] [] [] [] false.
Example ex_block_release_waits :
  (first_bad ex_s1 [EQBegin 1 0 50; EQFinish 1; EBWritten 2 [0; 1] 0 200; ESwapped;
                    EBlockClosing 0; EBlockClosed 0] 0,
   first_bad ex_s1 [EQBegin 1 0 50; EQFinish 1; EBWritten 2 [0; 1] 0 200; ESwapped;
                    EBlockClosing 0; EQIter 1; EQClose 1; EBlockClosed 0; EBlockClosing 1; EBlockClosed 1] 0)
  = (5, -1).
Proof. vm_compute. reflexivity. Qed.

(* ---- stale-series / selected-series compaction (Head.truncateSeries) ---------------------- *)

(* FULL STATEMENT THAT FAILS: C06_exactly_once without the [no_view] hypothesis.
   Head.truncateSeries documents its maxt as inclusive but hands it to
   WaitForPendingReadersInTimeRange, which treats its upper bound as exclusive (maxt--): an open
   querier whose mint equals maxt (= Head.MaxTime(), the newest sample) is not waited for, the
   series is evicted under it and it misses the sample at maxt.  The faithful model reproduces it
   (reproduced on the real code: shape key stale-evict-reader-at-maxt, notes/C06.md). *)
Definition ex_s2 : state :=
  mkSt [mkS 0 10 1; mkS 0 50 2] 10 [] 4611686018427387904 (-4611686018427387904)
       [] [] [] [] 0 false 0 Idle [] [] [] [] false.
Definition ex_tr3 : list ev :=
  [EQBegin 1 50 90; EQOpenHead 1; EQFinish 1; EVWritten 1 0 100 [0]; ESwapped; EVAwaited 50;
   EVEvicted [0]; EQIter 1; EQClose 1].

Theorem C06_view_evict_refuted :
  exists s0 tr s outs q mint maxt res x,
    wf_init s0 = true /\ run s0 tr = Some (s, outs) /\ In (q, mint, maxt, res) outs /\
    In x (committed s0) /\ mint <= s_t x <= maxt /\ ~ In x res.
Proof.
  exists ex_s2, ex_tr3.
  eexists _, _, 1, 50, 90, [], (mkS 0 50 2).
  split; [vm_compute; reflexivity|].
  split; [vm_compute; reflexivity|].
  split; [left; reflexivity|].
  split; [vm_compute; auto|].
  split; [unfold Z.le; cbn; split; discriminate|].
  intros [].
Qed.

(* with the querier one millisecond wider the wait does its job: the eviction is not enabled *)
Example ex_view_wait_blocks :
  first_bad ex_s2 [EQBegin 1 49 90; EQOpenHead 1; EQFinish 1; EVWritten 1 0 100 [0]; ESwapped; EVAwaited 50] 0 = 5.
Proof. vm_compute. reflexivity. Qed.

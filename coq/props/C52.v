From Coq Require Import List ZArith Bool.
From Verif Require Import model.HeadStats proof.HeadStatsProofs.

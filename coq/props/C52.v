(* props/C52.v — C52: the head's reported counters match its contents.

   Full statement (property text): after ANY history of appends (floats, histograms, staleness
   markers), commits, rollbacks, head truncations, stale-series and selected-series eviction,
   deletions and restarts,
        st_c (run ops) = recount (run ops)
   i.e. numSeries, numStaleSeries, numNativeHistogramSeries, numNativeHistogramBuckets,
   prometheus_tsdb_head_chunks and prometheus_tsdb_head_active_appenders equal the values
   recomputed from the series of the head; and the active-appender count is zero once every
   appender has committed or rolled back.

   The full statement is FALSE of the faithful model (and of the code: every counterexample below
   is replayed on the real tsdb.DB by harness/cmd/h_c52, corpus cases 3-6 and 8): see the five
   [C52_refuted_*] theorems.  What is proved for all histories is the statement restricted to
   histories whose oracles are well formed ([wf_run], model/HeadStats.v): no head chunk came out
   of a chunk snapshot, none was dropped by the WAL replay, every out-of-order head chunk was
   flushed into exactly one m-mapped chunk, no append changed the number of bucket entries of the
   histogram it was handed, and no sample was committed into a series that had already been
   garbage collected.  Each excluded event is one of the refuted cases.  The active-appender part
   holds without any restriction. *)
From Coq Require Import List ZArith Bool.
From Verif Require Import model.HeadStats proof.HeadStatsProofs.
Import ListNotations.
Open Scope Z_scope.

(* ------------------------------------------------------------------ what holds *)
Theorem C52_counters_eq_recount_partial : forall cap ops,
  wf_run cap state0 ops = true ->
  st_c (run cap ops) = recount (run cap ops).
Proof. intros cap ops H. apply inv_recount. unfold run. apply run_inv; [exact H | exact inv0]. Qed.

(* ... after every step of the history, not only at its end *)
Theorem C52_counters_eq_recount_every_step_partial : forall cap ops,
  wf_run cap state0 ops = true ->
  Forall (fun st => st_c st = recount st) (trace cap state0 ops).
Proof.
  intros cap ops H. pose proof (trace_inv cap ops state0 H inv0) as T.
  eapply Forall_impl; [|exact T]. intros st HI. apply inv_recount. exact HI.
Qed.

(* the active-appender gauge equals the number of appenders that were opened and neither committed
   nor rolled back — for every history, whatever the oracles say *)
Theorem C52_active_appenders : forall cap ops,
  c_active (st_c (run cap ops)) = zlen (st_open (run cap ops)).
Proof. intros. unfold run. apply run_active. reflexivity. Qed.

Theorem C52_appenders_zero : forall cap ops,
  st_open (run cap ops) = [] -> c_active (st_c (run cap ops)) = 0.
Proof. intros cap ops H. rewrite C52_active_appenders, H. reflexivity. Qed.

(* non-vacuity: a well-formed history with floats, a histogram, a converted staleness marker, an
   out-of-order sample, m-mapping, a truncation that deletes a series, an eviction and a restart;
   two appenders are open at the same time; the final counters are not all zero *)
Definition ex_ops : list op :=
  [ OOpen 0; OAppend 0 (Some 1) (Some 1); OAppend 0 (Some 2) (Some 2); OAppend 0 (Some 3) (Some 3);
    OOpen 1;
    OCommit 0 [1; 2; 3] [LIn 1 1000 false false 0 0 true; LIn 2 1000 true false 3 3 true; LIn 3 1000 false false 0 0 true];
    OAppend 1 None (Some 2); OAppend 1 None (Some 1); OAppend 1 None (Some 3);
    OCommit 1 [2; 1; 3] [LIn 2 1010 true true 0 0 false; LIn 1 1050 false false 0 0 true; LOoo 3 1 false];
    OMmap;
    OTrunc true 1020 [] [];
    OEvict true [1; 2; 3] 1050;
    OOpen 2; OAppend 2 (Some 4) (Some 4); ORollback 2 [4];
    ORestart [mkS 1 [1000] [1050] 0 None false (LF false) false 0; mkS 3 [] [1000] 1 None true (LF false) false 0] 0 0;
    OTrunc true 1040 [(3, 1)] [(3, 1)] ].

Example C52_nonvacuous :
  wf_run 32 state0 ex_ops = true /\
  st_c (run 32 ex_ops) = mkC 1 0 0 0 1 0 /\
  st_open (run 32 ex_ops) = [] /\
  (* an intermediate state with a stale native-histogram series and two open appenders *)
  st_c (run 32 (firstn 10 ex_ops)) = mkC 3 1 1 0 5 0 /\
  st_c (run 32 (firstn 5 ex_ops)) = mkC 3 0 0 0 0 2.
Proof. vm_compute. repeat split; reflexivity. Qed.

(* ------------------------------------------------------------------ what does not hold *)
(* 1. loadChunkSnapshot restores head chunks without chunks.Inc(): after the restart the gauge is
      short by one per restored head chunk and turns negative at the next GC. *)
Theorem C52_refuted_snapshot_head_chunks_uncounted :
  exists ops, st_c (run 32 ops) <> recount (run 32 ops) /\
              c_chunks (st_c (run 32 (ops ++ [OTrunc true 1300 [] []]))) = -1.
Proof.
  exists [OOpen 0; OAppend 0 (Some 1) (Some 1); OCommit 0 [1] [LIn 1 1000 false false 0 0 true];
          ORestart [mkS 1 [] [1000] 0 None false (LF false) false 1] 0 0].
  split; [vm_compute; discriminate | vm_compute; reflexivity].
Qed.

(* 2. resetSeriesWithMMappedChunks drops the head chunk the replay has just created (and counted)
      when it meets a second series record for the same labels. *)
Theorem C52_refuted_wal_replay_duplicate_series_record :
  exists ops, st_c (run 32 ops) <> recount (run 32 ops).
Proof.
  exists [OOpen 0; OAppend 0 (Some 1) (Some 1); OCommit 0 [1] [LIn 1 978 false false 0 0 true];
          OTrunc true 998 [] [];
          OOpen 1; OAppend 1 (Some 2) (Some 2); OCommit 1 [2] [LIn 2 1009 false false 0 0 true];
          ORestart [mkS 1 [] [1009] 0 None false (LF false) false 0] 1 0].
  vm_compute; discriminate.
Qed.

(* 3. an out-of-order head chunk that is encoded into several chunks when it is m-mapped was
      counted once. *)
Theorem C52_refuted_ooo_head_chunk_flushed_into_several_chunks :
  exists ops, st_c (run 4 ops) <> recount (run 4 ops).
Proof.
  exists [OOpen 0; OAppend 0 (Some 1) (Some 1); OCommit 0 [1] [LIn 1 1300 false false 0 0 true];
          OOpen 1; OAppend 1 None (Some 1);
          OCommit 1 [1] [LOoo 1 1 false; LOoo 1 1 false; LOoo 1 1 false; LOoo 1 1 false; LOoo 1 4 false]].
  vm_compute; discriminate.
Qed.

(* 4. commitHistograms reads the number of bucket entries before the append; the append of a gauge
      histogram can add entries to the very histogram that becomes lastHistogramValue. *)
Theorem C52_refuted_histogram_buckets_changed_by_append :
  exists ops, st_c (run 32 ops) <> recount (run 32 ops).
Proof.
  exists [OOpen 0; OAppend 0 (Some 1) (Some 1); OCommit 0 [1] [LIn 1 1000 true false 4 4 true];
          OOpen 1; OAppend 1 None (Some 1); OCommit 1 [1] [LIn 1 1010 true false 2 4 false]].
  vm_compute; discriminate.
Qed.

(* 5. pendingCommit is one bit: a second appender's commit clears it, the series is garbage
      collected, and the first appender then commits into a memSeries nobody can reach. *)
Theorem C52_refuted_commit_into_garbage_collected_series :
  exists ops, st_c (run 32 ops) <> recount (run 32 ops) /\ st_series (run 32 ops) = [] /\ st_open (run 32 ops) = [].
Proof.
  exists [OOpen 0; OOpen 1; OAppend 0 (Some 1) (Some 1); OAppend 1 None (Some 1);
          OCommit 1 [1] [LIn 1 1001 false false 0 0 true]; OTrunc true 2000 [] [];
          OCommit 0 [1] [LIn 1 1000 false false 0 0 true]].
  vm_compute. repeat split; discriminate.
Qed.

(* props/C19.v — property theorems for C19 (merging series sets de-duplicates without losing
   data). Statements only; proofs are in proof/MergeProofs.v. The model is model/Merge.v; every
   theorem quantifies over the choice stream [ch] that resolves ties in the heaps, i.e. it holds
   for every tie-breaking behaviour of container/heap. *)
From Coq Require Import List ZArith Sorted Permutation Lia.
From Verif Require Import lib.Int64 model.Merge proof.MergeProofs.
Import ListNotations.
Open Scope Z_scope.

(* The specification list: strictly increasing, and exactly the timestamps of the inputs. *)
Theorem C19_merged_ts_is_sorted_union : forall inputs,
  StronglySorted Z.lt (merged_ts inputs) /\
  forall t, In t (merged_ts inputs) <-> exists s, In s (concat inputs) /\ s_t s = t.
Proof. exact merged_ts_spec. Qed.

(* chainSampleIterator (ChainedSeriesMerge): for time-sorted inputs whose timestamps are above
   MinInt64, under ANY interleaving of Next and Seek and ANY tie-breaking, every call returns
   what the plain list iterator over the sorted de-duplicated union returns (Next: the next
   timestamp; Seek t: stay if the current one is >= t, else the first one >= t; None at the end,
   for ever), and the sample shown is a sample of some input at that timestamp
   ([res_spec]: s_t s = t /\ In s (concat inputs)). No panic, no out-of-fuel. *)
Theorem C19_timestamps_and_seek : forall (ch : choices) (inputs : list (list sample)) (script : list op),
  inputs <> [] -> Forall wsorted inputs -> Forall above_min inputs ->
  Forall2 (res_spec (concat inputs))
          (fst (chain_run ch (chain_of inputs) script))
          (spec_obs (merged_ts inputs) script).
Proof. exact chain_script_correct. Qed.

(* Without the hypothesis on MinInt64 the statement is false of the faithful model (and of the
   code: known finding chain-minint64-dropped): lastT starts at MinInt64 and Next skips a
   sample with that timestamp. *)
Theorem C19_minint64_refuted :
  exists ch inputs script,
    inputs <> [] /\ Forall wsorted inputs /\
    ~ Forall2 (res_spec (concat inputs)) (fst (chain_run ch (chain_of inputs) script))
              (spec_obs (merged_ts inputs) script).
Proof. exact minint64_refuted. Qed.

Example C19_nonvacuous_chain :
  nonvacuous_inputs <> [] /\ Forall wsorted nonvacuous_inputs /\ Forall above_min nonvacuous_inputs /\
  merged_ts nonvacuous_inputs = [1; 2; 7; 9] /\
  map (fun r => match r with RSample s => Some (s_t s) | _ => None end)
      (fst (chain_run [1%nat; 0%nat; 2%nat] (chain_of nonvacuous_inputs)
                      [ONext; OSeek 2; OSeek 1; ONext; OSeek 8; ONext; ONext]))
  = [Some 1; Some 2; Some 2; Some 7; Some 9; None; None].
Proof. exact nonvacuous_chain. Qed.

(* genericMergeSeriesSet (NewMergeSeriesSet, limit 0) over strictly label-sorted sets, iterated
   to the end, for every tie-breaking: the emitted groups of same-label series partition the
   input series (Permutation: nothing lost, nothing duplicated), every group is non-empty and of
   one label set, and the labels come out strictly increasing: each distinct label set exactly
   once, in sorted order, merged from exactly the input series carrying it. (A group of one
   series is returned as it is, a larger one through ChainedSeriesMerge, see the theorem above.) *)
Theorem C19_series_once_sorted : forall (ch : choices) (sets : list (list series)),
  Forall lsorted sets ->
  exists groups ch', merge_sets ch 0 sets = (Some groups, ch') /\
    Permutation (concat groups) (concat sets) /\
    Forall (fun g => g <> [] /\ forall s, In s g -> ser_l s = group_label g) groups /\
    StronglySorted Z.lt (map group_label groups).
Proof. exact merge_sets_correct. Qed.

(* Draining a chained merge with Next alone yields exactly the sorted de-duplicated union. *)
Theorem C19_drain : forall (ch : choices) (inputs : list (list sample)),
  inputs <> [] -> Forall wsorted inputs -> Forall above_min inputs ->
  exists l ch', chain_all ch inputs = (Some l, ch') /\ map s_t l = merged_ts inputs /\
                forall s, In s l -> In s (concat inputs).
Proof. exact chain_all_correct. Qed.

Example C19_nonvacuous_sets :
  Forall lsorted [[mkSer 0 [mkS 1 1 0]; mkSer 2 [mkS 1 1 1]]; [mkSer 0 [mkS 2 1 0]; mkSer 1 []]; []] /\
  fst (merge_sets [1%nat] 0 [[mkSer 0 [mkS 1 1 0]; mkSer 2 [mkS 1 1 1]]; [mkSer 0 [mkS 2 1 0]; mkSer 1 []]; []])
  = Some [[mkSer 0 [mkS 1 1 0]; mkSer 0 [mkS 2 1 0]]; [mkSer 1 []]; [mkSer 2 [mkS 1 1 1]]].
Proof.
  split; [|vm_compute; reflexivity].
  unfold lsorted. repeat constructor; simpl; lia.
Qed.

(* What the merged set hands out for one group of same-label series (the only series itself, or
   ChainedSeriesMerge of the group) behaves, under any Next/Seek script, as the list iterator
   over the sorted de-duplicated union of the group's timestamps. *)
Theorem C19_group_series : forall (ch : choices) (g : list series) (script : list op),
  g <> [] -> Forall (fun x => ssorted (ser_s x)) g -> Forall (fun x => above_min (ser_s x)) g ->
  Forall2 (res_spec (concat (map ser_s g))) (group_run ch g script)
          (spec_obs (merged_ts (map ser_s g)) script).
Proof. exact group_run_correct. Qed.

(* Chunk level: NewCompactingChunkSeriesMerger(ChainedSeriesMerge) over chunk iterators whose
   chunks are well-formed ([cb]: non-empty, strictly time-sorted, MinTime/MaxTime are attained
   bounds) and time-ordered without overlap ([cdisj]), all timestamps above MinInt64; for every
   tie-breaking the merge terminates without error and yields well-formed, time-ordered,
   non-overlapping chunks whose samples are exactly the sample-level merge (sorted de-duplicated
   union of all timestamps), each sample taken from an input chunk. Covers duplicate dropping,
   re-encoding with the 120-sample cut and the re-push of the re-encoded remainder. *)
Theorem C19_chunks : forall (ch : choices) (its : list (list chunk)),
  Forall iter_ok its -> above (smps (concat its)) ->
  exists out ch', compact_chunks ch its = (Some out, ch') /\ Forall cb out /\ cdisj out /\
    map s_t (smps out) = merged_ts (map c_smp (concat its)) /\
    (forall x, In x (smps out) -> In x (smps (concat its))).
Proof. exact compact_chunks_correct. Qed.

Example C19_nonvacuous_chunks :
  Forall iter_ok ex_its /\ above (smps (concat ex_its)) /\
  fst (compact_chunks [1%nat] ex_its) = Some [mkC 1 7 [mkS 1 1 0; mkS 2 1 5; mkS 3 1 1; mkS 7 1 9]].
Proof. exact ex_its_ok. Qed.

(* props/C29.v — property C29: aggregations and binary operators follow the documented
   semantics.  Theorems over model/PromqlAgg.v; proofs in proof/PromqlAggProofs.v. *)
From Coq Require Import List ZArith NArith QArith Qabs Bool Permutation Sorted.
From Verif Require Import model.PromqlAgg proof.PromqlAggProofs.
Import ListNotations.
Open Scope Z_scope.

(* Grouping (rangeEvalAgg): for every key function — in the engine the projection
   [group_key without grouping] of the metric — the groups are exactly the classes of the
   projected label set: distinct keys, in order of first occurrence, every input series lands
   in the group of its key, and a group's members are all series with that key, in input
   order (never empty). *)
Theorem C29_groups : forall (A : Type) (key : A -> labels) (v : list A),
  let gs := groups_of key v in
  NoDup (map fst gs) /\
  map fst gs = uniq_keys (map key v) /\
  (forall s, In s v -> In (key s) (map fst gs)) /\
  (forall k ms, In (k, ms) gs ->
     ms <> [] /\ ms = filter (fun s => labels_eqb (key s) k) v).
Proof. intros A key v. exact (groups_of_partition key v). Qed.

Example C29_groups_nonvacuous :
  let a := [95;95;110;97;109;101;95;95]%N in
  groups_of (fun s : sample => group_key true [[98%N]] (fst s))
            [ ([(a, [109%N]); ([97%N], [49%N]); ([98%N], [49%N])], f1);
              ([(a, [110%N]); ([97%N], [50%N])], f0);
              ([(a, [110%N]); ([97%N], [49%N]); ([98%N], [50%N])], f1) ]
  = [ ([([97%N], [49%N])],
       [ ([(a, [109%N]); ([97%N], [49%N]); ([98%N], [49%N])], f1);
         ([(a, [110%N]); ([97%N], [49%N]); ([98%N], [50%N])], f1) ]);
      ([([97%N], [50%N])], [ ([(a, [110%N]); ([97%N], [50%N])], f0) ]) ].
Proof. vm_compute. reflexivity. Qed.

(* SUM (kahansum.Inc accumulation, result floatValue + floatKahanC): for all finite inputs
   and every overflow oracle, whenever the result is finite it is the exact sum. *)
Theorem C29_sum_exact : forall (ovf : Q -> bool) (x : Q) (xs : list Q) (r : Q),
  agg_sum ovf (FFin x) (map FFin xs) = FFin r -> r == qsum (x :: xs).
Proof. exact agg_sum_exact. Qed.

Example C29_sum_nonvacuous :
  agg_sum (fun _ => false) (FFin (1 # 2)) (map FFin [3 # 4; -2 # 1; 5 # 1]) = FFin (17 # 4).
Proof. vm_compute. reflexivity. Qed.

(* COUNT and GROUP are exact. *)
Theorem C29_counts_exact : forall ovf param (vals : list fval),
  vals <> [] ->
  agg_value ovf ACount param vals = fz (Z.of_nat (length vals)) /\
  agg_value ovf AGroup param vals = f1.
Proof. exact agg_count_exact. Qed.

(* Set operators: VectorAnd / VectorOr / VectorUnless with their empty-operand short-circuits
   are the documented set operations on join signatures, followed by the duplicate check. *)
Theorem C29_set_ops : forall op on names lhs rhs,
  vector_set op on names lhs rhs = check_same (spec_set op on names lhs rhs).
Proof. exact vector_set_spec. Qed.

Example C29_set_ops_nonvacuous :
  vector_set SOr true [[97%N]] [([([97%N], [49%N])], f1)]
             [([([97%N], [49%N]); ([98%N], [49%N])], f0); ([([97%N], [50%N])], f0)]
  = RVec [([([97%N], [49%N])], f1); ([([97%N], [50%N])], f0)].
Proof. vm_compute. reflexivity. Qed.

(* AVG (direct Kahan sum; once the running sum would overflow, incremental mean with Kahan
   compensation): for all finite inputs and every overflow oracle — hence wherever the switch
   to the incremental mean happens — a finite result is the exact mean sum/count. *)
Theorem C29_avg_exact : forall (ovf : Q -> bool) (x : Q) (xs : list Q) (r : Q),
  agg_avg ovf (FFin x) (map FFin xs) = FFin r -> r == qmean (x :: xs).
Proof. exact agg_avg_exact. Qed.

(* non-vacuity: an oracle declaring every |q| >= 10 out of range forces the incremental-mean
   path at the second element (6 + 6 = 12), and the result is still the exact mean *)
Example C29_avg_nonvacuous :
  agg_avg (fun q => Qle_bool 10 (Qabs q)) (FFin (6 # 1)) (map FFin [6 # 1; 3 # 1]) = FFin (5 # 1) /\
  a_incr (fold_left (avg_step (fun q => Qle_bool 10 (Qabs q))) (map FFin [6 # 1; 3 # 1]) (avg_init (FFin (6 # 1)))) = true /\
  agg_avg (fun _ => false) (FFin (6 # 1)) (map FFin [6 # 1; 3 # 1]) = FFin (5 # 1).
Proof. vm_compute. repeat split; reflexivity. Qed.

(* STDVAR (Welford recurrence on count, mean, M2; result M2/count) and STDDEV (its square
   root, outside exact arithmetic): for all finite inputs and every overflow oracle a finite
   result is the population variance sum((x - mean)^2)/n. *)
Theorem C29_stdvar_exact : forall (ovf : Q -> bool) (x : Q) (xs : list Q) (r : Q),
  agg_stdvar ovf (FFin x) (map FFin xs) = FFin r -> r == qvar (x :: xs).
Proof. exact agg_stdvar_exact. Qed.

Example C29_stdvar_nonvacuous :
  agg_stdvar (fun _ => false) (FFin (1 # 1)) (map FFin [2 # 1; 4 # 1; 17 # 2]) = FFin (531 # 64) /\
  agg_stdvar (fun _ => false) (FFin (1 # 1)) [FInf false; FFin (4 # 1)] = FNaN.
Proof. vm_compute. split; reflexivity. Qed.

(* QUANTILE (promql/quantile.go, after fix 023c7e876c) for 0 <= phi <= 1 and a non-empty group
   — the documented "value that ranks at number phi*N among the N values, NaN smallest": the
   values are sorted NaN-first ascending (a sorted permutation), the rank phi*(n-1) splits into
   an index 0 <= lo <= n-1 and a weight 0 <= w < 1; when the rank is a whole number (w = 0) the
   result IS the value at that rank, s[lo]; otherwise it is s[lo]*(1-w) + s[min(n-1,lo+1)]*w in
   float arithmetic.  (phi = NaN, phi < 0, phi > 1 return NaN, -Inf, +Inf by definition of the
   model's [quantile].) *)
Theorem C29_quantile : forall ovf (q : Q) (vals : list fval),
  vals <> [] -> (0 <= q)%Q -> (q <= 1)%Q ->
  let s := sort_by heap_less vals in
  let n := Z.of_nat (length vals) in
  let rank := (q * inject_Z (n - 1))%Q in
  let lo := qfloor rank in
  let hi := Z.min (n - 1) (lo + 1) in
  let w := (rank - inject_Z lo)%Q in
  Permutation s vals /\ Sorted (fun a b => nf_le a b = true) s /\
  0 <= lo <= n - 1 /\ lo <= hi <= n - 1 /\ (0 <= w)%Q /\ (w < 1)%Q /\
  quantile ovf (FFin q) vals =
    (if Qeq_bool w 0 then nth (Z.to_nat lo) s FNaN
     else fadd ovf (fmul ovf (nth (Z.to_nat lo) s FNaN) (FFin (1 - w)))
                   (fmul ovf (nth (Z.to_nat hi) s FNaN) (FFin w))).
Proof. exact quantile_spec. Qed.

(* in particular phi = 1 is the last element of the NaN-first ascending order (the maximum) and
   phi = 0 the first one, whatever the values (infinite ones included) *)
Theorem C29_quantile_extremes : forall ovf v vals,
  quantile ovf (FFin 1) (v :: vals) = nth (length vals) (sort_by heap_less (v :: vals)) FNaN /\
  quantile ovf (FFin 0) (v :: vals) = nth 0 (sort_by heap_less (v :: vals)) FNaN.
Proof. intros ovf v vals. split; [apply quantile_one | apply quantile_zero]. Qed.

Example C29_quantile_nonvacuous :
  quantile (fun _ => false) (FFin (3 # 4)) [FFin 5; FFin 1; FNaN; FFin 2; FFin 9] = FFin 5 /\
  quantile (fun _ => false) (FFin (1 # 2)) [FFin 4; FFin 1] = FFin (5 # 2) /\
  quantile (fun _ => false) (FFin 1) [FFin 5; FFin 1; FInf false; FFin 2] = FInf false.
Proof. vm_compute. repeat split; reflexivity. Qed.

(* FIXED (023c7e876c).  The previous quantile() ([quantile_old]) interpolated also for weight 0,
   so an infinite upper neighbour gave Inf*0 = NaN: quantile(1, {1, +Inf}) = NaN although the
   maximum is +Inf, and the quantile of a single +Inf value was NaN for every phi in [0,1].
   The repaired function returns +Inf in both cases. *)
Theorem C29_quantile_rank_old_refuted : forall ovf,
  quantile_old ovf (FFin 1) [FFin 1; FInf false] = FNaN /\
  quantile_old ovf (FFin (1 # 2)) [FInf false] = FNaN /\
  agg_max (FFin 1) [FInf false] = FInf false /\
  quantile ovf (FFin 1) [FFin 1; FInf false] = FInf false /\
  quantile ovf (FFin (1 # 2)) [FInf false] = FInf false.
Proof. exact quantile_zero_weight_inf_old. Qed.

(* MAX / MIN (`group.floatValue < f || math.IsNaN(group.floatValue)`): the result is one of the
   group's values; as soon as one value is not NaN the result is not NaN and is an upper
   (lower) bound of every non-NaN value — NaN only if all values are NaN. *)
Theorem C29_extremes : forall (x : fval) (xs : list fval),
  (In (agg_max x xs) (x :: xs) /\
   forall y, In y (x :: xs) -> is_nan y = false ->
             is_nan (agg_max x xs) = false /\ fle y (agg_max x xs) = true) /\
  (In (agg_min x xs) (x :: xs) /\
   forall y, In y (x :: xs) -> is_nan y = false ->
             is_nan (agg_min x xs) = false /\ fle (agg_min x xs) y = true).
Proof. intros x xs. split; [exact (agg_max_spec x xs) | exact (agg_min_spec x xs)]. Qed.

Example C29_extremes_nonvacuous :
  agg_max FNaN [FFin 1; FNaN; FFin 3; FFin 2] = FFin 3 /\ agg_min FNaN [FNaN] = FNaN /\
  agg_min (FFin 2) [FNaN; FInf true; FFin 1] = FInf true.
Proof. vm_compute. repeat split; reflexivity. Qed.

(* TOPK / BOTTOMK of one group (series loop with a k-element heap whose minimum is replaced,
   then the final sort), for every k >= 1 and every group: the output is sorted in the
   documented order (topk: descending, bottomk: ascending, NaN last in both), has
   min(k, |group|) elements, is a sub-multiset of the group, and every series left out is no
   better than every selected one.  (Which of several equal series is selected is not fixed by
   the documentation; the model takes one choice, the correspondence accepts any.) *)
Theorem C29_topk : forall (k : Z) (members : list sample), 1 <= k ->
  (let out := k_group ATopk k members in
   Sorted (fun a b : sample => topk_ge (snd a) (snd b) = true) out /\
   Z.of_nat (length out) = Z.min k (Z.of_nat (length members)) /\
   exists rest, Permutation members (out ++ rest) /\
                forall s u, In s out -> In u rest -> topk_ge (snd s) (snd u) = true) /\
  (let out := k_group ABottomk k members in
   Sorted (fun a b : sample => botk_ge (snd a) (snd b) = true) out /\
   Z.of_nat (length out) = Z.min k (Z.of_nat (length members)) /\
   exists rest, Permutation members (out ++ rest) /\
                forall s u, In s out -> In u rest -> botk_ge (snd s) (snd u) = true).
Proof. intros k members Hk. split; [exact (k_group_top k members Hk) | exact (k_group_bot k members Hk)]. Qed.

Example C29_topk_nonvacuous :
  map snd (k_group ATopk 3 [([], FNaN); ([], FFin 1); ([], FNaN); ([], FFin 3); ([], FFin 2); ([], FInf true)])
    = [FFin 3; FFin 2; FFin 1] /\
  map snd (k_group ABottomk 2 [([], FNaN); ([], FFin 1); ([], FNaN)]) = [FFin 1; FNaN].
Proof. vm_compute. split; reflexivity. Qed.

(* LIMITK of one group: min(k, |group|) series of the group (the engine takes the first k in
   input order; the documentation allows any deterministic choice). *)
Theorem C29_limitk : forall (k : Z) (members : list sample), 0 <= k ->
  let out := k_group ALimitk k members in
  Z.of_nat (length out) = Z.min k (Z.of_nat (length members)) /\
  exists rest, members = out ++ rest.
Proof. exact k_group_limitk. Qed.

(* Vector matching, one-to-one and group_left, no fill modifiers (VectorBinop + resultMetric +
   the same-labelset check): whenever the engine returns a vector, it is exactly the
   documented one — one element per pair (l, r) with equal join signature, in left-hand order,
   with the documented result labels and value, comparison-filtered unless bool —, it contains
   no duplicate label set, and the right-hand ("one") side has no two series with the same
   signature unless an operand is empty.
   PARTIAL with respect to the full statement "for every cardinality and fill modifier the
   result is the documented vector or the documented error": group_right without fill is
   C29_binop_group_right (up to permutation); with fill modifiers the statement is false for
   group_right with unequal fill values (C29_fill_group_right_refuted) and otherwise checked by
   the correspondence only; of the errors only the many-to-many one is characterised in both
   directions (C29_binop_dup_error, C29_binop_dup_complete). *)
Theorem C29_binop_pairs_partial : forall ovf op rb m lhs rhs out,
  m_card m <> OneToMany -> m_fill_l m = None -> m_fill_r m = None ->
  vector_binop ovf op rb m lhs rhs = RVec out ->
  out = spec_binop_out ovf op rb m lhs rhs /\
  has_dup_labels (map fst out) = false /\
  (lhs = [] \/ rhs = [] \/
   NoDup (map (fun r : sample => signature (m_on m) (m_labels m) (fst r)) rhs)).
Proof. exact vector_binop_pairs. Qed.

(* the many-to-many error is raised only when two right-hand series share a signature *)
Theorem C29_binop_dup_error : forall ovf op rb m lhs rhs,
  m_card m <> OneToMany ->
  vector_binop ovf op rb m lhs rhs = RErr ErrDupRight ->
  has_dup_labels (map (fun r : sample => signature (m_on m) (m_labels m) (fst r)) rhs) = true.
Proof. exact vector_binop_dup_error. Qed.

(* group_right without fill modifiers: a returned vector is a permutation of the documented
   one (the engine iterates the right operand, the documentation fixes no order), without
   duplicate label sets, and the left ("one") side has unique signatures unless an operand is
   empty. *)
Theorem C29_binop_group_right : forall ovf op rb m lhs rhs out,
  m_card m = OneToMany -> m_fill_l m = None -> m_fill_r m = None ->
  vector_binop ovf op rb m lhs rhs = RVec out ->
  Permutation out (spec_binop_out ovf op rb m lhs rhs) /\
  has_dup_labels (map fst out) = false /\
  (lhs = [] \/ rhs = [] \/
   NoDup (map (fun l : sample => signature (m_on m) (m_labels m) (fst l)) lhs)).
Proof. exact vector_binop_group_right. Qed.

Example C29_binop_group_right_nonvacuous :
  let a := [97%N] in let b := [98%N] in
  vector_binop (fun _ => false) OSub false (mkMatching OneToMany true [a] [] None None)
     [([(a, [49%N])], FFin 10); ([(a, [50%N])], FFin 20)]
     [([(a, [50%N]); (b, [49%N])], FFin 1); ([(a, [49%N]); (b, [49%N])], FFin 2); ([(a, [50%N]); (b, [50%N])], FFin 3)]
  = RVec [([(a, [50%N]); (b, [49%N])], FFin 19); ([(a, [49%N]); (b, [49%N])], FFin 8);
          ([(a, [50%N]); (b, [50%N])], FFin 17)].
Proof. vm_compute. reflexivity. Qed.

(* ... and the many-to-many error is complete: with both operands non-empty, two right-hand
   series with the same signature always raise it (one-to-one and group_left). *)
Theorem C29_binop_dup_complete : forall ovf op rb m lhs rhs,
  m_card m <> OneToMany -> lhs <> [] -> rhs <> [] ->
  has_dup_labels (map (fun r : sample => signature (m_on m) (m_labels m) (fst r)) rhs) = true ->
  vector_binop ovf op rb m lhs rhs = RErr ErrDupRight.
Proof. exact vector_binop_dup_complete. Qed.

Example C29_binop_nonvacuous :
  let a := [97%N] in let b := [98%N] in
  let m := mkMatching ManyToOne true [a] [b] None None in
  vector_binop (fun _ => false) OMul false m
     [([(name_lbl, [109%N]); (a, [49%N]); ([99%N], [49%N])], FFin 2);
      ([(name_lbl, [109%N]); (a, [49%N]); ([99%N], [50%N])], FFin 3);
      ([(name_lbl, [109%N]); (a, [50%N])], FFin 5)]
     [([(name_lbl, [110%N]); (a, [49%N]); (b, [120%N])], FFin 10)]
  = RVec [([(a, [49%N]); (b, [120%N]); ([99%N], [49%N])], FFin 20);
          ([(a, [49%N]); (b, [120%N]); ([99%N], [50%N])], FFin 30)] /\
  vector_binop (fun _ => false) OMul false m
     [([(a, [49%N])], FFin 2)] [([(a, [49%N])], FFin 1); ([(a, [49%N]); (b, [120%N])], FFin 1)]
  = RErr ErrDupRight.
Proof. vm_compute. split; reflexivity. Qed.

(* Vector/scalar operators (VectorscalarBinop + the same-labelset check) are the documented
   element-wise operation: arithmetic drops the metric name, comparison filters keeping the
   vector element's value (also when the scalar is on the left), bool yields 0/1 and drops
   the name.  Hypothesis: the parser only allows bool on comparison operators. *)
Theorem C29_vector_scalar : forall ovf op rb swap sc v,
  (rb = true -> is_cmp op = true) ->
  vector_scalar_binop ovf op rb swap sc v = check_same (spec_vs ovf op rb swap sc v).
Proof. exact vector_scalar_spec. Qed.

Example C29_vector_scalar_nonvacuous :
  vector_scalar_binop (fun _ => false) OLt false true (FFin 2)
     [([(name_lbl, [109%N])], FFin 3); ([(name_lbl, [110%N])], FFin 1); ([], FNaN)]
  = RVec [([(name_lbl, [109%N])], FFin 3)].
Proof. vm_compute. reflexivity. Qed.

(* count_values: every input series is represented, and every output series carries exactly
   the number of input series whose value-labelled, projected label set it is (never 0),
   for every formatting oracle. *)
Theorem C29_count_values_exact : forall fmt wo g vl v out,
  agg_count_values fmt wo g vl v = RVec out ->
  let keyof (s : sample) := group_key wo (if wo then g else vl :: g) (lset vl (fmt (snd s)) (fst s)) in
  (forall s, In s v -> In (keyof s) (map fst out)) /\
  forall k c, In (k, c) out ->
    c = fz (Z.of_nat (length (filter (fun s => labels_eqb (keyof s) k) v))) /\
    (1 <= length (filter (fun s => labels_eqb (keyof s) k) v))%nat.
Proof. exact count_values_exact. Qed.

Example C29_count_values_nonvacuous :
  let fmt (v : fval) : str := match v with FFin q => if Qeq_bool q 1 then [49%N] else [50%N] | _ => [78%N] end in
  agg_count_values fmt false [] [118%N]
    [([([97%N], [49%N])], FFin 1); ([([97%N], [50%N])], FFin 2); ([([97%N], [51%N])], FFin 1)]
  = RVec [([([118%N], [49%N])], fz 2); ([([118%N], [50%N])], fz 1)].
Proof. vm_compute. reflexivity. Qed.

(* FINDING.  Documented: fill_left(v) supplies v as the missing LEFT operand, fill_right(v) as
   the missing RIGHT operand.  The faithful model (VectorBinop swaps the operand lists for
   group_right but keeps using FillValues.RHS for the first loop and FillValues.LHS for the
   second) uses them the other way round under group_right:
     l - on() group_right fill_left(5) fill_right(7) r   with l = {}, r = {{} 8}
   documented 5 - 8 = -3, model (and engine) 7 - 8 = -1. *)
Theorem C29_fill_group_right_refuted :
  exists (ovf : Q -> bool) (op : bop) (m : matching) (lhs rhs : list sample),
    m_card m = OneToMany /\
    vector_binop ovf op false m lhs rhs = RVec [([], FFin (-1))] /\
    spec_binop_out ovf op false m lhs rhs = [([], FFin (-3))].
Proof.
  exists (fun _ => false), OSub,
         (mkMatching OneToMany true [] [] (Some (FFin 5)) (Some (FFin 7))),
         [], [([], FFin 8)].
  vm_compute. repeat split; reflexivity.
Qed.

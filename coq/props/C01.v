(* props/C01.v — property C01: queries return exactly the committed, undeleted samples.

   FULL STATEMENT (what the property asks):
     for every configuration and every history [ops] of commits, rollbacks, deletions, head /
     out-of-order compactions, tombstone cleaning and restarts, every query over [mint,maxt] with
     a selector returns, for every selected series, exactly one sample at each timestamp in range
     where an acknowledged sample of that series was stored and not later deleted, with one of
     the values stored there, in increasing time order, and nothing else:
        forall c ops mint maxt sel,
          answer_equiv (query (run c ops) mint maxt sel)
                       (spec_query (spec_run (map spec_of_op ops)) mint maxt sel).
   The faithful model of the code as it is REFUTES this statement (five independent ways, each
   replayed on the real tsdb.DB by the harness corpus): the C01_refuted lemmas below.
   What is proved instead is C01_refinement_partial: the statement for every history whose
   operations are well-formed (wf_ops):
     - accepted samples carry the admission facts the appender guarantees (in-order: above the
       series' newest chunk and >= minValidTime) and are not covered by a head tombstone of
       their series (false for out-of-order samples: C01_refuted_ooo_append_under_tombstone);
     - a Delete range contains no out-of-order sample still in the head of a selected series
       (otherwise: C01_refuted_delete_then_ooo_compaction, C01_refuted_delete_skips_ooo_sample);
     - the final state satisfies dead_covered: an in-order head sample below Head.MinTime that
       still sits in a chunk straddling the last truncation point (the head querier returns it)
       is also visible in a block (otherwise: C01_refuted_delete_skips_dead_head_sample).  That
       well-formed histories preserve dead_covered is NOT proved (dead_free is a decidable
       sufficient condition);
     - MISSING OPS: CompactPending (DB.Compact while an appender is open; assumed like Restart) and Restart.  A restart is assumed to re-establish the invariant and to preserve
       the set of visible samples (it does not always: the C01_refuted_restart lemmas); the tie checks
       every generated restart against the implementation instead. *)
From Coq Require Import List ZArith Bool Lia.
From Verif Require Import lib.Int64 model.TsdbSpec model.Tsdb proof.TsdbProofs.
Import ListNotations.
Open Scope Z_scope.

(** the specification's answer is exactly "one entry per timestamp in range carrying a live
    sample, strictly increasing, with the values stored there; absent when there is none" *)
Theorem C01_spec_query_exact : forall sp mint maxt sel i pts,
  In (i, pts) (spec_query sp mint maxt sel) ->
  In i sel /\ sincr (map fst pts) /\ pts <> [] /\
  (forall t vs, In (t, vs) pts -> mint <= t <= maxt /\ vs <> [] /\ forall v, In v vs <-> In (mkS t v) (sp i)) /\
  (forall x, In x (sp i) -> mint <= st x <= maxt -> exists vs, In (st x, vs) pts).
Proof. exact spec_query_exact. Qed.

(** the structured model's query (head querier WITHOUT a floor at Head.MinTime — as in the code —
    head tombstones over in-order and out-of-order data, only the blocks overlapping the range,
    block tombstones) answers like the specification on the abstraction, provided every in-order
    head sample below Head.MinTime that is still in a chunk is also visible in a block
    (dead_covered; false after the Delete of C01_refuted_delete_skips_dead_head_sample) *)
Theorem C01_query_is_spec_of_abs : forall c s mint maxt sel,
  blocks_inv c (s_blocks s) -> dead_covered s ->
  answer_equiv (query s mint maxt sel) (spec_query (abs s) mint maxt sel).
Proof. exact query_abs. Qed.

(** per operation: the invariant is kept and abs commutes with the step — a commit adds exactly
    the acknowledged samples, a Delete removes exactly [mint,maxt] of the selected series, head
    compaction (block cut + truncateMemory + gc + min-time adjustment), out-of-order compaction
    (blocks per aligned range + truncateOOO), and tombstone cleaning leave abs unchanged *)
Theorem C01_abs_step : forall c s o,
  wf_cfg c -> inv c s -> wf_op c s o ->
  inv c (step c s o) /\ sequiv (abs (step c s o)) (spec_step (abs s) (spec_of_op o)).
Proof. exact step_refines. Qed.

Theorem C01_abs_run : forall c ops,
  wf_cfg c -> wf_ops c state0 ops ->
  inv c (run c ops) /\ sequiv (abs (run c ops)) (spec_run (map spec_of_op ops)).
Proof. exact abs_run. Qed.

(** MAIN (partial: Restart is assumed, see the header) *)
Theorem C01_refinement_partial : forall c ops,
  wf_cfg c -> wf_ops c state0 ops -> dead_covered (run c ops) ->
  forall mint maxt sel,
    answer_equiv (query (run c ops) mint maxt sel)
                 (spec_query (spec_run (map spec_of_op ops)) mint maxt sel).
Proof. exact refinement_partial. Qed.

(** what the tie's [holds] checks on the implementation's answer is stable under answer_equiv *)
Theorem C01_answer_ok_respects_equiv : forall obs a b,
  answer_equiv a b -> answer_ok obs a = true -> answer_ok obs b = true.
Proof. exact answer_ok_equiv. Qed.

(* ---------------- non-vacuity ---------------- *)
Definition ex_cfg : cfg := mkCfg 1000 100000 [0; 1].
Definition io (i t v : Z) : acc := (i, mkS t v, false).
Definition oo (i t v : Z) : acc := (i, mkS t v, true).
Definition lg (l : list acc) : list (sid * option sample) := map (fun a => (fst (fst a), Some (snd (fst a)))) l.
(* cmc created l: an appender that created the series [created] and stored the samples l *)
Definition cmc (created : list sid) (l : list acc) : op :=
  Commit l (map (fun i => (i, None)) created ++ lg l) (match l with a :: _ => Some (st (snd (fst a))) | [] => None end).
Definition cm := cmc [].

(* in-order data in two series, an out-of-order sample, a head compaction (two blocks, negative
   and positive times), an out-of-order compaction, a Delete across head and blocks that does
   not touch out-of-order head data, tombstone cleaning *)
Definition ex_ops : list op :=
  [ cmc [0; 1] [io 0 (-1500) 1; io 1 150 2]; cm [io 0 900 3; io 1 950 4]; cm [oo 1 400 5];
    CompactOOO; cm [io 0 1700 6; io 1 1800 7]; cm [io 0 2700 8]; Compact;
    Delete 120 1750 [0; 1]; CleanTombstones; cm [io 1 2800 9] ].

Example C01_ex_wf : wf_cfg ex_cfg /\ wf_ops ex_cfg state0 ex_ops.
Proof.
  split; [unfold wf_cfg; cbn; lia|].
  unfold ex_ops. cbn [wf_ops wf_op].
  repeat match goal with
  | |- _ /\ _ => split
  | |- True => exact I
  end;
  try (vm_compute; repeat split; auto; try lia; try discriminate; intuition congruence).
  all: try (intros i y [<-|[<-|[]]] Hy; vm_compute in Hy; contradiction).
Qed.

Example C01_ex_dead_covered : dead_covered (run ex_cfg ex_ops).
Proof.
  apply (dead_free_covered ex_cfg); [|vm_compute; reflexivity].
  destruct C01_ex_wf as [Hw Hwf]. exact (proj1 (abs_run ex_cfg ex_ops Hw Hwf)).
Qed.

Example C01_ex_answer :
  query (run ex_cfg ex_ops) minInt64 maxInt64 [0; 1] =
    [(0, [(-1500, [1]); (2700, [8])]); (1, [(1800, [7]); (2800, [9])])]
  /\ map (block_meta (universe ex_cfg)) (s_blocks (run ex_cfg ex_ops)) = [(-1500, 0, false, 1)]
  /\ h_minT (s_head (run ex_cfg ex_ops)) = 1700.
Proof. vm_compute. auto. Qed.

(* ---------------- the full statement is false of the code as it is ---------------- *)
Definition full_statement : Prop :=
  forall c ops mint maxt sel, wf_cfg c ->
    answer_equiv (query (run c ops) mint maxt sel)
                 (spec_query (spec_run (map spec_of_op ops)) mint maxt sel).

Ltac refute c ops sel :=
  intros H; specialize (H c ops minInt64 maxInt64 sel ltac:(unfold wf_cfg; cbn; lia));
  apply answer_equiv_shape in H; vm_compute in H; discriminate.

Definition cfg1 : cfg := mkCfg 1000 100000 [0].
Definition cfg2 : cfg := mkCfg 1000 100000 [0; 1].

(* F1: Head.Delete's tombstone hides an out-of-order head sample; compactOOO ignores head
   tombstones (OOOCompactionHead.Tombstones is empty) and truncateOOO keeps the tombstone only in
   the head: the deleted sample (150) is returned again after CompactOOOHead *)
Definition ops_f1 : list op :=
  [cmc [0] [io 0 100 1]; cm [io 0 200 2]; cm [io 0 300 3]; cm [oo 0 150 4]; Delete 120 180 [0]; CompactOOO].
Theorem C01_refuted_delete_then_ooo_compaction : ~ full_statement.
Proof. refute cfg1 ops_f1 [0]. Qed.
Example C01_f1_detail :
  shape (query (run cfg1 ops_f1) minInt64 maxInt64 [0]) = [(0, [100; 150; 200; 300])] /\
  shape (spec_query (spec_run (map spec_of_op ops_f1)) minInt64 maxInt64 [0]) = [(0, [100; 200; 300])].
Proof. vm_compute. auto. Qed.

(* F2: Head.Delete clamps to the head's and the series' IN-ORDER range: an out-of-order head
   sample (400) below it is not deleted by Delete(0, 2000) *)
Definition ops_f2 : list op :=
  [cmc [0] [io 0 1000 1]; cmc [1] [io 1 500 2]; cm [oo 1 400 3]; Delete 0 2000 [1]].
Theorem C01_refuted_delete_skips_ooo_sample : ~ full_statement.
Proof. refute cfg2 ops_f2 [0; 1]. Qed.
Example C01_f2_detail :
  shape (query (run cfg2 ops_f2) minInt64 maxInt64 [0; 1]) = [(0, [1000]); (1, [400])] /\
  shape (spec_query (spec_run (map spec_of_op ops_f2)) minInt64 maxInt64 [0; 1]) = [(0, [1000])].
Proof. vm_compute. auto. Qed.

(* F3: an out-of-order sample acknowledged AFTER a Delete, at a timestamp the older head
   tombstone covers, is hidden while it is in the head *)
Definition ops_f3 : list op :=
  [cmc [0] [io 0 100 1]; cm [io 0 200 2]; cm [io 0 300 3]; Delete 120 250 [0]; cm [oo 0 180 9]].
Theorem C01_refuted_ooo_append_under_tombstone : ~ full_statement.
Proof. refute cfg1 ops_f3 [0]. Qed.

(* F4: after CompactOOOHead the m-mapped out-of-order chunk is still on disk; a restart loads it
   again, so a sample deleted in the out-of-order block (150) comes back *)
Definition ops_f4 : list op :=
  [cmc [0] [io 0 300 1]; cm [oo 0 150 2]; CompactOOO; Delete 140 160 [0]; Restart [(0, [mkS 150 2])]].
Theorem C01_refuted_restart_reloads_ooo_chunk : ~ full_statement.
Proof. refute cfg1 ops_f4 [0]. Qed.

(* F5: the newest in-order block is deleted completely and removed by CleanTombstones; the next
   restart computes a lower minValidTime and replays the deleted samples (100, 200) from the WAL *)
Definition cfg5 : cfg := mkCfg 1000 0 [0].
Definition ops_f5 : list op :=
  [cmc [0] [io 0 100 1]; cm [io 0 200 2]; cm [io 0 1700 3]; Compact; Delete 0 999 [0]; CleanTombstones; Restart []].
Theorem C01_refuted_restart_replays_wal : ~ full_statement.
Proof. refute cfg5 ops_f5 [0]. Qed.
Example C01_f5_detail :
  shape (query (run cfg5 ops_f5) minInt64 maxInt64 [0]) = [(0, [100; 200; 1700])] /\
  shape (spec_query (spec_run (map spec_of_op ops_f5)) minInt64 maxInt64 [0]) = [(0, [1700])].
Proof. vm_compute. auto. Qed.

(* F6: a restart lowers Head.MinTime to the last in-order block's maxt; the next head compaction
   copies -5 into block [-1000,0) and truncates the head to 0, but the chunk [-5,203] stays in the
   head.  Delete(-2306,194) tombstones -5 in the block; the head tombstone is clamped to
   [Head.MinTime, ...] = [0,194]; the head querier (no floor at Head.MinTime) still returns -5 *)
Definition ops_f6 : list op :=
  [cmc [0] [io 0 (-2600) 1; io 0 (-5) 2]; cm [io 0 203 8; io 0 1000 9]; Compact; Restart []; Compact;
   Delete (-2306) 194 [0]].
Theorem C01_refuted_delete_skips_dead_head_sample : ~ full_statement.
Proof. refute cfg5 ops_f6 [0]. Qed.
Example C01_f6_detail :
  shape (query (run cfg5 ops_f6) minInt64 maxInt64 [0]) = [(0, [-2600; -5; 203; 1000])] /\
  shape (spec_query (spec_run (map spec_of_op ops_f6)) minInt64 maxInt64 [0]) = [(0, [-2600; 203; 1000])].
Proof. vm_compute. auto. Qed.

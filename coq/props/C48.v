(* props/C48.v — Agent-mode storage logs every accepted sample.

   Statement (properties.jsonl): in agent mode, every sample, histogram and exemplar accepted by a committed
   appender is written to the WAL after a series record for its reference; samples not newer than the
   series' last written sample minus the out-of-order window are rejected; after WAL truncation,
   checkpointing and restart the WAL still contains every accepted sample at or after the truncation time;
   the agent never serves queries.  Quantifier: all histories of appends, commits, rollbacks,
   truncations, garbage collection and restarts.

   Model: model/Agent.v (tsdb/agent: both appender versions, getOrCreate, minValidTime, exemplar
   validation, ST zero samples, appenderBase.log, DB.truncate/gc through model/Checkpoint.v of C15,
   replayWAL/loadWAL, queriers).  `run o es` is the state after the history `es` (a list of events with
   any number of simultaneously open appenders), `wellformed es` = at most one appender is open at a time
   and DB.truncate / restart happen while none is open.

   What is proved
   * C48_logged_partial / C48_accepted_logged_partial: FULL STATEMENT = "for every history es, every data
     item accepted by appender a and not rolled back is, after a's commit, in the WAL after a series record
     of its ref".  Proved for all *sequential* histories (wellformed).  The unrestricted statement is FALSE
     of the model and of the implementation: C48_logged_interleaved_refuted (two open appenders touching
     one new series; corpus case 0 of the harness replays it on the real agent DB; finding
     agent-interleaved-appenders-sample-before-series).
   * C48_accepted_pending_* / C48_pending_kept: for ALL states and histories — an append that returns no
     error has put its item into the appender's pending lists, and it stays there until that appender's
     own commit / rollback.
   * C48_admission_v1 / _v2 / C48_min_valid / C48_lastts_commit / C48_lastts_monotone: for ALL states —
     an append is rejected as out of order exactly when t <= minValidTime(lastTs) = max(MinInt64, lastTs -
     window); a commit raises lastTs to at least every sample timestamp it logged for the series and
     lastTs never decreases between restarts.  (Not proved: the bookkeeping of loadWAL after a restart
     — lastTs = max(0, replayed timestamps) — is tied on generated histories only.)
   * C48_truncate_keeps / C48_truncate_keeps_series / C48_gc_spec / C48_restart_keeps_wal: for ALL database
     states — DB.truncate(mint) with wlog.Checkpoint (the default) keeps every sample / histogram /
     exemplar with t >= mint; with either checkpoint implementation it keeps the series record of every
     series that survives the garbage collection (exactly the series with a write at or after mint); a
     restart leaves the WAL contents alone.
   * C48_inmemory_keeps_last / C48_inmemory_refuted: with Options.CheckpointFromInMemorySeries the
     checkpoint is rebuilt from memory (agent/checkpoint.go): every surviving series keeps its series
     record followed by a float sample carrying its last timestamp, but the accepted samples of the
     checkpointed segments are NOT kept whatever their time — the retention clause of the statement is
     false for this option, by design of the option (corpus case 3 replays the witness on the real
     agent DB; the model agrees with it record by record).
   * C48_series_records_partial: in sequential histories every live series has its series record in the
     WAL at every truncation / restart.  With DB.truncate between an append and its commit this fails:
     C48_gc_pending_refuted (corpus case 2; finding agent-gc-pending-series-orphan, the "known
     limitation" comment of getOrCreate).
   * C48_no_queries. *)
From Coq Require Import List ZArith Bool Lia.
From Verif Require Import lib.Int64 model.Checkpoint model.Agent proof.AgentProofs.
Import ListNotations.
Open Scope Z_scope.

(* what `logged k x recs` says: recs = l1 ++ R :: l2, R is a record of kind k (k = -1: exemplars) holding
   x, and l1 contains a series record of x's ref *)
Theorem C48_logged_meaning : forall k x recs,
  logged k x recs = true <->
  exists l1 R l2, recs = l1 ++ R :: l2 /\ holds_item k x R /\ In (fst (fst x)) (series_refs l1).
Proof. exact logged_iff. Qed.

(* ---- accepted => pending (all states) ---- *)
Theorem C48_accepted_pending_v1 : forall o d p r b t v kind hbad d' p' rr err perr,
  append_v1 o d p r b t v kind hbad = (d', p', (rr, err, perr)) -> err = E_OK -> 0 <= kind <= 4 ->
  In (kind, (rr, t, v)) (pending_items p').
Proof. exact append_v1_accept. Qed.

Theorem C48_accepted_pending_v2 : forall o d p r b st t v zv kind hbad stale exs d' p' rr err perr,
  append_v2 o d p r b st t v zv kind hbad stale exs = (d', p', (rr, err, perr)) ->
  err = E_OK \/ err = E_PARTIAL -> 0 <= kind <= 4 ->
  In (kind, (rr, t, v)) (pending_items p').
Proof. exact append_v2_accept. Qed.

Theorem C48_accepted_pending_exemplar : forall d p r e d' p' rr err perr,
  exemplar_v1 d p r e = (d', p', (rr, err, perr)) -> err = E_OK -> rr <> 0 ->
  In (-1, (rr, snd (fst e), fst (fst e))) (pending_items p').
Proof. exact exemplar_v1_accept. Qed.

(* pending data stays pending until the appender's own commit / rollback (or a restart), whatever the
   other events are *)
Theorem C48_pending_kept : forall o st e a,
  ends a e = false ->
  incl (pending_items (get_app st a)) (pending_items (get_app (fst (step o st e)) a)).
Proof. exact pending_kept. Qed.

(* ---- commit => logged after a series record (sequential histories) ---- *)
Theorem C48_logged_partial : forall o es a rolls it,
  wellformed (es ++ [ECommit a rolls]) = true ->
  In it (pending_items (get_app (run o es) a)) ->
  logged (fst it) (snd it) (wal_records (d_wal (st_db (run o (es ++ [ECommit a rolls]))))) = true.
Proof. exact logged_sequential. Qed.

(* end to end: an append of either appender version that returned no error (or only exemplar errors),
   followed by any events that do not end the appender, then its commit *)
Theorem C48_accepted_logged_partial : forall o es1 a ver r b stt t v zv kind hbad stale exs es2 rolls rr err perr,
  let ap := EAppend a ver r b stt t v zv kind hbad stale exs in
  wellformed (es1 ++ ap :: es2 ++ [ECommit a rolls]) = true ->
  forallb (fun e => negb (ends a e)) es2 = true ->
  0 <= kind <= 4 ->
  snd (step o (run o es1) ap) = OAppend rr err perr ->
  err = E_OK \/ err = E_PARTIAL ->
  logged kind (rr, t, v) (wal_records (d_wal (st_db (run o (es1 ++ ap :: es2 ++ [ECommit a rolls]))))) = true.
Proof. exact accepted_logged. Qed.

(* the unrestricted statement is false: appender 1 creates series ref 1, appender 2 appends to it and
   commits first — its sample is in the WAL before any series record of ref 1 *)
Theorem C48_logged_interleaved_refuted :
  exists o es a rolls it,
    wellformed (es ++ [ECommit a rolls]) = false /\
    In it (pending_items (get_app (run o es) a)) /\
    logged (fst it) (snd it) (wal_records (d_wal (st_db (run o (es ++ [ECommit a rolls]))))) = false.
Proof.
  exists o0, ex_interleaved, 2, [], (0, (1, 1001, 2)).
  destruct interleaved_refuted as [A [B [C _]]]. auto.
Qed.

(* ---- admission ---- *)
Theorem C48_min_valid : forall oow last,
  0 <= oow -> int64 oow -> int64 last -> min_valid oow last = Z.max minInt64 (last - oow).
Proof. exact min_valid_spec. Qed.

Theorem C48_admission_v1 : forall o d p r b t v kind hbad d1 p1 s,
  negb (kind =? 0) && hbad = false ->
  get_or_create d p r b = inl (d1, p1, s) ->
  snd (append_v1 o d p r b t v kind hbad) =
  if t <=? min_valid (o_oow o) (s_last s) then (0, E_OOO, []) else (s_ref s, E_OK, []).
Proof. exact append_v1_admission. Qed.

Theorem C48_admission_v2 : forall o d p r b st t v zv kind hbad stale exs d1 p1 s,
  negb (kind =? 0) && hbad = false ->
  get_or_create d p r b = inl (d1, p1, s) ->
  let res := snd (append_v2 o d p r b st t v zv kind hbad stale exs) in
  if t <=? min_valid (o_oow o) (s_last s) then res = (0, E_OOO, [])
  else fst (fst res) = s_ref s /\ (snd (fst res) = E_OK \/ snd (fst res) = E_PARTIAL).
Proof. exact append_v2_admission. Qed.

(* which series an append is judged against *)
Theorem C48_series_resolution : forall d p,
  (forall b s, 0 < b -> find_lab b (d_series d) = Some s -> get_or_create d p 0 b = inl (d, p, s)) /\
  (forall r b s, r <> 0 -> find_id r (d_series d) = Some s -> get_or_create d p r b = inl (d, p, s)).
Proof. intros d p. split; intros; [apply goc_existing|apply goc_by_ref]; auto. Qed.

Theorem C48_lastts_commit : forall d p rolls r s,
  find_id r (d_series d) = Some s ->
  exists s', find_id r (d_series (commit d p rolls)) = Some s' /\ s_lab s' = s_lab s /\ s_last s <= s_last s' /\
    (forall x, In x (p_samples p ++ map snd (p_hist p) ++ map snd (p_fhist p)) -> fst (fst x) = r ->
               snd (fst x) <= s_last s').
Proof. exact commit_last. Qed.

Theorem C48_lastts_monotone : forall o st e r s,
  e <> ERestart ->
  find_id r (d_series (st_db st)) = Some s ->
  match find_id r (d_series (st_db (fst (step o st e)))) with
  | Some s' => s_lab s' = s_lab s /\ s_last s <= s_last s'
  | None => exists mint zv, e = ETruncate mint zv /\ In r (gc_gone mint (d_series (st_db st)))
  end.
Proof. exact last_monotone. Qed.

(* ---- truncation, checkpointing, restart (all database states) ---- *)
Theorem C48_truncate_keeps : forall o d mint zv,
  o_inmem o = false ->
  (forall k l x, In (RSamples k l) (wal_records (d_wal d)) -> In x l -> mint <= snd (fst x) ->
     exists l', In (RSamples k l') (wal_records (d_wal (truncate o d mint zv))) /\ In x l') /\
  (forall l x, In (RExemplars l) (wal_records (d_wal d)) -> In x l -> mint <= snd (fst x) ->
     exists l', In (RExemplars l') (wal_records (d_wal (truncate o d mint zv))) /\ In x l').
Proof.
  intros o d mint zv HO. split; intros.
  - eapply truncate_keeps_samples; eauto.
  - eapply truncate_keeps_exemplars; eauto.
Qed.

Theorem C48_truncate_keeps_series : forall o d mint zv r,
  In r (map s_ref (d_series (truncate o d mint zv))) ->
  In r (series_refs (wal_records (d_wal d))) ->
  In r (series_refs (wal_records (d_wal (truncate o d mint zv)))).
Proof. exact truncate_keeps_series. Qed.

Theorem C48_gc_spec : forall o d mint zv s,
  In s (d_series d) ->
  (In s (d_series (truncate o d mint zv)) -> mint <= s_last s) /\
  (~ In s (d_series (truncate o d mint zv)) -> exists s', In s' (d_series d) /\ s_ref s' = s_ref s /\ s_last s' < mint).
Proof. exact truncate_gc_spec. Qed.

Theorem C48_restart_keeps_wal : forall o d, wal_records (d_wal (restart o d)) = wal_records (d_wal d).
Proof. exact restart_keeps_wal. Qed.

(* every live series has its series record in the WAL whenever DB.truncate / a restart begins
   (sequential histories) *)
Theorem C48_series_records_partial : forall o es e s,
  wellformed (es ++ [e]) = true -> (e = ERestart \/ exists m zv, e = ETruncate m zv) ->
  In s (d_series (st_db (run o es))) ->
  In (s_ref s) (series_refs (wal_records (d_wal (st_db (run o es))))).
Proof. exact live_series_logged. Qed.

(* DB.truncate between an append and its commit: the sample (t = 5000, at or after both truncation
   times) stays in the WAL, the series record of its ref does not *)
Theorem C48_gc_pending_refuted :
  exists o es x,
    wellformed es = false /\
    (exists l, In (RSamples 0 l) (wal_records (d_wal (st_db (run o es)))) /\ In x l) /\
    logged 0 x (wal_records (d_wal (st_db (run o es)))) = false.
Proof.
  exists o0, ex_gc_pending, (2, 5000, 1).
  destruct gc_pending_refuted as [A [B C]]. split; auto. split; auto.
  exists [(2, 5000, 1)]. rewrite B. simpl. auto.
Qed.

(* ---- Options.CheckpointFromInMemorySeries (agent/checkpoint.go) ---- *)
Theorem C48_inmemory_keeps_last : forall o d mint zv last s,
  o_inmem o = true ->
  plan_last (w_first (d_wal d)) (w_cur (d_wal d)) = Some last ->
  In s (d_series (truncate o d mint zv)) ->
  logged 0 (s_ref s, s_last s, zv) (wal_records (d_wal (truncate o d mint zv))) = true.
Proof. exact inmem_truncate_keeps_last. Qed.

(* the retention clause is false with this option: a sequential history after which two committed samples at
   or after the truncation time are no longer in the WAL *)
Theorem C48_inmemory_refuted :
  exists o es mint zv k l x,
    wellformed (es ++ [ETruncate mint zv]) = true /\
    In (RSamples k l) (wal_records (d_wal (st_db (run o es)))) /\ In x l /\ mint <= snd (fst x) /\
    forall l', In (RSamples k l') (wal_records (d_wal (st_db (run o (es ++ [ETruncate mint zv]))))) -> ~ In x l'.
Proof.
  exists o_im, ex_inmem, 4000, 9, 0, [(1, 5000, 1)], (1, 5000, 1).
  destruct inmem_refuted as [A [B C]]. rewrite B, C. repeat split; simpl; auto; try lia.
  intros l' [H|[H|[]]]; [discriminate|]. inversion H; subst. simpl. intros [E|[]]. discriminate.
Qed.

(* ---- the agent never serves queries ---- *)
Theorem C48_no_queries : forall o es which mint maxt,
  query (st_db (run o es)) which mint maxt = E_UNSUPPORTED /\
  step o (run o es) (EQuery which mint maxt) = (run o es, OQuery E_UNSUPPORTED).
Proof. exact no_queries. Qed.

(* ---- non-vacuity: a sequential history with an out-of-order rejection, exemplars, a rollback, a
   garbage collection, a checkpoint (index 1) and a restart satisfies the hypotheses of
   C48_logged_partial with a non-empty pending list ---- *)
Example C48_nonvacuous :
  wellformed (ex_seq ++ [ECommit 4 []]) = true /\
  pending_items (get_app (run o0 ex_seq) 4) = [(0, (1, 2500, 6))] /\
  w_cpidx (d_wal (st_db (run o0 ex_seq))) = 1 /\
  map s_last (d_series (st_db (run o0 ex_seq))) = [2000; 0; 0] /\
  logged 0 (1, 2500, 6) (wal_records (d_wal (st_db (run o0 (ex_seq ++ [ECommit 4 []]))))) = true.
Proof. exact ex_seq_facts. Qed.

Example C48_admission_nonvacuous :
  snd (append_v1 (mkO 100 false false) (mkDB 1 [mkS 1 1 1000] [] [] wal_empty []) app_empty 0 1 900 5 0 false) = (0, E_OOO, []) /\
  snd (append_v1 (mkO 100 false false) (mkDB 1 [mkS 1 1 1000] [] [] wal_empty []) app_empty 0 1 901 5 0 false) = (1, E_OK, []) /\
  snd (append_v1 (mkO 100 false false) (mkDB 0 [] [] [] wal_empty []) app_empty 0 1 minInt64 5 0 false) = (0, E_OOO, []).
Proof. vm_compute. auto. Qed.

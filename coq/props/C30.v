(* props/C30.v — property theorems for C30 (counter and delta functions follow the documented
   algorithms). Statements only; proofs are in proof/RateProofs.v. The model is over exact
   rationals: "up to floating-point rounding" in the property text is the 1e-9 relative
   tolerance of the correspondence check, not part of these theorems.
   [fge] is the float64 threshold comparison (an oracle); wherever a theorem needs anything
   from it, it asks only [fge_ok fge]: it agrees with the exact comparison away from ties. *)
From Coq Require Import List ZArith QArith Bool Sorted.
From Verif Require Import model.Rate proof.RateProofs.
Import ListNotations.
Open Scope Z_scope.

(* Counter-reset correction: "last - first + sum of the values before each reset" is exactly
   the sum of the per-step counter increments (cur - prev, or cur after a value drop or a
   start-timestamp reset). Any series, any start timestamps. *)
Theorem C30_reset_correction : forall first rest,
  (sV (last rest first) - sV first + reset_corr first rest == Qsum (increments first rest))%Q.
Proof. exact reset_correction_telescopes. Qed.

(* rate / increase / delta of the instant query f(m[range] offset off) @ ts equal the
   separately written documented algorithm [doc_change] / [doc_rate] (extrapolation to the
   window boundaries limited by 1.1 average intervals, by the counter's zero point, and
   replaced by the first sample's start timestamp when that lies inside the range), for every
   series with increasing timestamps, every oracle, with or without start timestamps. *)
Theorem C30_matches_doc : forall fge use_st ss ts range_ms off,
  StronglySorted lt_T ss -> 0 < range_ms ->
  let re := ts - off in
  let rs := re - range_ms in
  oeq (eval fge FIncrease use_st ss ts range_ms off)
      (doc_change fge true (eff use_st (window ss rs re)) rs re) /\
  oeq (eval fge FRate use_st ss ts range_ms off)
      (doc_rate fge (eff use_st (window ss rs re)) rs re range_ms) /\
  oeq (eval fge FDelta use_st ss ts range_ms off)
      (doc_change fge false (eff false (window ss rs re)) rs re).
Proof. exact eval_matches_doc. Qed.

(* For non-negative samples rate and increase are never negative (whatever the start
   timestamps, the spacing, the oracle). *)
Theorem C30_nonneg : forall fge use_st ss ts range_ms off,
  StronglySorted lt_T ss -> 0 < range_ms -> nonneg ss ->
  (forall v, eval fge FRate use_st ss ts range_ms off = Some v -> (0 <= v)%Q) /\
  (forall v, eval fge FIncrease use_st ss ts range_ms off = Some v -> (0 <= v)%Q).
Proof. exact eval_nonneg. Qed.

(* rate and increase are present together and increase = rate * range seconds (exactly, in
   rational arithmetic). No assumption on the series at all. *)
Theorem C30_increase_rate : forall fge use_st ss ts range_ms off,
  0 < range_ms ->
  match eval fge FRate use_st ss ts range_ms off, eval fge FIncrease use_st ss ts range_ms off with
  | Some r, Some i => (i == r * ms range_ms)%Q
  | None, None => True
  | _, _ => False
  end.
Proof. exact eval_increase_rate. Qed.

(* Extrapolation limits (path without a usable start timestamp; at least two samples): the
   result is increase * (left + covered + right) / covered where the extensions are
   non-negative, stay inside the window, are each at most 1.1 average sample intervals, and
   for a counter the left extension does not pass the counter's zero point (the extrapolated
   value at the extended start is >= 0). *)
Theorem C30_extrapolation_bounds : forall fge, fge_ok fge ->
  forall is_counter first rest rs re,
  valid_window (first :: rest) rs re -> rest <> [] -> st_path is_counter first rs = false ->
  let covered := ms (sT (last rest first) - sT first) in
  let left := doc_left fge is_counter first rest rs in
  let right := doc_right fge first rest re in
  let S := sT (last rest first) - sT first in
  let n := Z.of_nat (length rest) in
  doc_change fge is_counter (first :: rest) rs re =
    Some (doc_inc is_counter first rest * ((left + covered + right) / covered))%Q /\
  (0 <= left /\ left <= ms (sT first - rs) /\ left <= thr S n /\
   0 <= right /\ right <= ms (re - sT (last rest first)) /\ right <= thr S n /\
   left + covered + right <= ms (re - rs) /\
   (is_counter = true -> 0 < doc_inc true first rest -> 0 <= sV first ->
    0 <= sV first - doc_inc true first rest / covered * left))%Q.
Proof.
  intros fge Hf c first rest rs re Hv Hne Hst. cbv zeta. split.
  - apply doc_change_decomposed; assumption.
  - exact (extrapolation_bounds fge Hf c first rest rs re Hv Hne).
Qed.

(* Start-timestamp path: a zero sample is assumed at the first sample's start timestamp,
   nothing is added on the left, and the covered interval plus the right extension stays
   inside the window. Works for a single sample too. *)
Theorem C30_start_timestamp_path : forall fge, fge_ok fge ->
  forall first rest rs re,
  valid_window (first :: rest) rs re -> st_path true first rs = true ->
  let covered := ms (sT (last rest first) - sST first) in
  let right := doc_right fge first rest re in
  (0 < covered /\ 0 <= right /\ covered + right <= ms (re - rs) /\
   doc_change fge true (first :: rest) rs re =
     Some ((sV first + Qsum (increments first rest)) * ((covered + right) / covered)))%Q.
Proof. exact st_path_bounds. Qed.

(* irate / idelta use exactly the last two samples; irate of non-negative samples is >= 0;
   fewer than two samples give no result. *)
Theorem C30_instant_value : forall is_rate pre p l,
  instant_value is_rate (pre ++ [p; l]) =
  if sT l - sT p =? 0 then None
  else let v := if negb is_rate || negb (is_reset p l) then (sV l - sV p)%Q else sV l in
       Some (if is_rate then (v / ms (sT l - sT p))%Q else v).
Proof. exact instant_value_last_two. Qed.

Theorem C30_instant_value_short : forall is_rate w,
  (length w < 2)%nat -> instant_value is_rate w = None.
Proof. exact instant_value_short. Qed.

Theorem C30_irate_nonneg : forall pre p l v,
  StronglySorted lt_T (pre ++ [p; l]) -> nonneg (pre ++ [p; l]) ->
  instant_value true (pre ++ [p; l]) = Some v -> (0 <= v)%Q.
Proof. exact irate_nonneg. Qed.

(* resets / changes count exactly the adjacent pairs with a reset / a value change; both lie
   in [0, samples-1]; without start timestamps every reset is a change; zero resets iff no
   adjacent pair is a reset; zero changes iff all values are equal. *)
Theorem C30_resets_changes : forall first rest,
  count_resets first rest = Z.of_nat (length (filter reset_pair (adjacent first rest))) /\
  count_changes first rest = Z.of_nat (length (filter change_pair (adjacent first rest))) /\
  0 <= count_resets first rest <= Z.of_nat (length rest) /\
  0 <= count_changes first rest <= Z.of_nat (length rest) /\
  (Forall (fun s => sST s = 0) rest -> count_resets first rest <= count_changes first rest) /\
  (count_resets first rest = 0 <->
     Forall (fun pr => is_reset (fst pr) (snd pr) = false) (adjacent first rest)) /\
  (count_changes first rest = 0 <-> Forall (fun s => (sV s == sV first)%Q) rest).
Proof.
  intros first rest. pose proof (count_bounds first rest) as [H1 H2].
  repeat split; try apply count_resets_filter; try apply count_changes_filter;
    try apply H1; try apply H2; try apply resets_le_changes_no_st;
    try apply no_resets_iff; try apply no_changes_iff.
Qed.

(* the exact-arithmetic comparison is an admissible oracle (the hypothesis fge_ok is
   satisfiable) *)
Theorem C30_oracle_satisfiable : fge_ok fge_exact.
Proof. exact fge_exact_ok. Qed.

(* ---- non-vacuity: concrete windows meeting the hypotheses, with non-trivial results ---- *)
Definition ex_series : list sample :=
  [mkS 100000 1 0; mkS 110000 2 0; mkS 120000 4 0; mkS 130000 7 0].

Example C30_nonvacuous_window :
  StronglySorted lt_T ex_series /\ nonneg ex_series /\
  valid_window (window ex_series 89000 141000) 89000 141000 /\
  st_path true (mkS 100000 1 0) 89000 = false.
Proof.
  assert (Hs : StronglySorted lt_T ex_series).
  { unfold ex_series, lt_T. repeat constructor; simpl; reflexivity. }
  split; [exact Hs|]. split; [unfold ex_series, nonneg; repeat constructor; discriminate|].
  split; [apply window_valid; exact Hs | reflexivity].
Qed.

(* exact tie at both ends (11 s = 1.1 * 10 s): with the exact oracle the result is the
   non-extrapolated-to-the-boundary one, increase = 6 * (5 + 30 + 5) / 30 = 8 *)
Example C30_nonvacuous_value :
  oeq (eval fge_exact FIncrease false ex_series 141000 52000 0) (Some 8%Q) /\
  oeq (eval fge_exact FRate false ex_series 141000 52000 0) (Some (8 # 52)%Q).
Proof. split; vm_compute; reflexivity. Qed.

(* a start timestamp inside the range of a single sample: rate is defined *)
Example C30_nonvacuous_st :
  st_path true (mkS 100000 7 95000) 93000 = true /\
  oeq (eval fge_exact FIncrease true [mkS 100000 7 95000] 103000 10000 0) (Some 7%Q).
Proof. split; vm_compute; reflexivity. Qed.

(* a reset at the first and at the last step *)
Example C30_nonvacuous_resets :
  resets [mkS 1 9 0; mkS 2 2 0; mkS 3 5 0; mkS 4 8 0; mkS 5 1 0] = Some (inject_Z 2) /\
  changes [mkS 1 9 0; mkS 2 2 0; mkS 3 5 0; mkS 4 8 0; mkS 5 1 0] = Some (inject_Z 4).
Proof. split; reflexivity. Qed.

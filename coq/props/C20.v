(* props/C20.v — property theorems for C20 (deletion removes exactly the requested data):
   the interval-set core, tombstones.Intervals.Add. Nothing but statements; proofs are in
   proof/IntervalsProofs.v. *)
From Coq Require Import List ZArith.
From Verif Require Import lib.Int64 model.Intervals proof.IntervalsProofs.
Import ListNotations.
Open Scope Z_scope.

(* Adding to a canonical (sorted, disjoint, non-adjacent) interval list never panics ... *)
Theorem C20_add_total : forall ivs n, canonical ivs -> wf_iv n -> exists r, add ivs n = Ok r.
Proof. exact add_total. Qed.

(* ... yields a canonical list covering exactly the old timestamps plus the new interval ... *)
Theorem C20_add_canonical : forall ivs n r, canonical ivs -> wf_iv n -> add ivs n = Ok r ->
  canonical r /\ forall t, covered r t <-> covered ivs t \/ imin n <= t <= imax n.
Proof. exact add_canonical. Qed.

(* ... hence every interval set reachable from the empty one by any sequence of deletions. *)
Theorem C20_adds_reachable : forall ns, Forall wf_iv ns ->
  exists r, fold_add [] ns = Ok r /\ canonical r /\
            forall t, covered r t <-> Exists (fun n => imin n <= t <= imax n) ns.
Proof. exact adds_reachable. Qed.

(* The code before "fix: tombstones: Intervals.Add ... MaxInt64" violated totality. *)
Theorem C20_add_old_refuted : exists ivs n, canonical ivs /\ wf_iv n /\ add_old ivs n = Panic.
Proof. exact add_old_refuted. Qed.

Example C20_nonvacuous : canonical [mkI 1 2; mkI 10 20] /\ wf_iv (mkI 5 maxInt64).
Proof. exact nonvacuous_example. Qed.
